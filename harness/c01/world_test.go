package c01

// A world is one cluster for one case: real threshold BLS keys, a cluster.Lock whose public shares
// feed the components the way app.wireCoreWorkflow does, one beacon mock whose genesis is chosen so
// that the case's duty slot starts "now" (the production round timer is anchored to the slot), an
// in-memory libp2p network with an adversarial scheduler, and n nodes.

import (
	"context"
	"encoding/json"
	"fmt"
	"math/rand"
	"sync"
	"sync/atomic"
	"testing"
	"time"

	eth2api "github.com/attestantio/go-eth2-client/api"
	eth2v1 "github.com/attestantio/go-eth2-client/api/v1"
	eth2spec "github.com/attestantio/go-eth2-client/spec"
	eth2p0 "github.com/attestantio/go-eth2-client/spec/phase0"
	k1 "github.com/decred/dcrd/dcrec/secp256k1/v4"
	"github.com/libp2p/go-libp2p/core/peer"

	"github.com/obolnetwork/charon/app/eth2wrap"
	"github.com/obolnetwork/charon/cluster"
	"github.com/obolnetwork/charon/core"
	"github.com/obolnetwork/charon/p2p"
	"github.com/obolnetwork/charon/tbls"
	"github.com/obolnetwork/charon/tbls/tblsconv"
	"github.com/obolnetwork/charon/testutil/beaconmock"

	"verifharness/fakenet"
	"verifharness/kit"
)

const (
	slotSeconds   = 1  // SECONDS_PER_SLOT of the mock: attester duties start slot/3 = 333 ms into the slot; a slot can start every second
	slotsPerEpoch = 16 // SLOTS_PER_EPOCH of the mock
	electraEpoch  = 2048
)

type valInfo struct {
	Name      string
	Idx       eth2p0.ValidatorIndex
	Root      tbls.PrivateKey
	Pub       tbls.PublicKey
	Core      core.PubKey
	Eth2      eth2p0.BLSPubKey
	Shares    map[int]tbls.PrivateKey
	PubShares map[int]tbls.PublicKey

	Comm    uint64 // attestation committee index
	Pos     uint64 // position inside the committee
	CommLen uint64
}

// role of a node in the case.
type role int

const (
	roleHonest   role = iota
	roleCrash         // honest code, isolated from the network from a PRNG-chosen envelope index on
	roleByzStack      // harness-driven identity that also runs the honest stack
	roleByzBare       // harness-driven identity without any charon component
)

func (r role) String() string {
	return [...]string{"honest", "crash", "byz+stack", "byz-bare"}[r]
}

// plan is everything the PRNG decided for one case (recorded in witnesses and samples).
type plan struct {
	N, K, F      int
	NumVals      int
	Electra      bool
	AttVersion   string
	PropVersion  string
	PropBlinded  bool
	Kinds        []string // duty kinds of the case: attester, proposer, sync, exit
	Roles        []string
	StartDelayMs []int // per node: late start
	FetchDelayMs []int // per node: beacon node latency of the stub fetcher
	NoPropose    []bool
	VCDelayMs    []int
	HeadChoice   []int // per node: index into the pool of candidate head roots
	SplitFFG     []bool
	SyncChoice   []int  // per node: index into the pool of sync block roots
	ResignMs     []int  // per node: -1, or the delay after which the node's VC signs its non-consensus duties AGAIN for other data (VC restart / fail-over inside the slot)
	SyncChoice2  []int  // per node: the head the re-signing VC sees the second time
	SyncSplit    string // "balanced": the nodes' beacon nodes are split evenly between two heads
	LossyLinks   int    // number of directed links that lose about half of their messages
	ExitEpochOff []int
	NetProfile   string
	DupProb      float64
	CrashAt      map[int]int64
	Partition    string
	ExpireReplay bool
	ByzActions   int
	MockVariant  int    // which of the shared beacon mocks (fork schedule variant)
	Rotation     int    // slot mod n: logical node j runs as peer (j+Rotation) mod n, so that leader election does not depend on the wall-clock slot
	BNFlaky      []bool // per node: the node's beacon node fails a share of the chain-parameter lookups
	ByzConsensus []bool // per node: the Byzantine identity also misbehaves at consensus level
	Slot         uint64
	Epoch        uint64
	ProposerVal  int
	ExitVal      int
	attVersion   eth2spec.DataVersion
	propVersion  eth2spec.DataVersion
}

type world struct {
	t   *testing.T
	r   *kit.Run
	c   *kit.Case
	rng *rand.Rand
	p   *plan

	n, k, f  int
	vals     []*valInfo
	byIndex  map[eth2p0.ValidatorIndex]*valInfo
	byCore   map[core.PubKey]*valInfo
	lock     cluster.Lock
	pubShare map[core.PubKey]map[int]tbls.PublicKey

	bmock beaconmock.Mock
	env   *mockEnv
	ch    *chain

	keys  []*k1.PrivateKey
	ids   []peer.ID
	peers []p2p.Peer
	idxOf map[peer.ID]int

	net   *fakenet.Net
	sched *netSched
	nodes []*node
	roles []role
	mon   *monitor
	tap   *tapLog

	slot    uint64
	epoch   uint64
	t0      time.Time // start of the duty slot
	endBy   time.Time // generous pacing cap of the main phase
	ctxEnd  time.Time // deadline handed to the retryer (duty deadline stand-in)
	ctx     context.Context
	cancel  context.CancelFunc
	wg      sync.WaitGroup // harness goroutines (VCs, triggers, byzantine drivers)
	stopped atomic.Bool

	// A validator client that signs the same duty AGAIN is, for the cluster, one equivocating share.
	// While the node still holds its record of what that share signed it refuses the second
	// signature itself (that is what the re-signing workload judges, for every n). Once the node has
	// expired the duty locally the record is gone, the node relays what its VC signs, and the
	// statement's bound of f equivocating shares applies instead (f = 0 for n = 3). So re-signing VCs
	// stop before the harness expires duties: resignMu is held shared around every re-submission and
	// exclusively while resignClosed is set.
	resignMu     sync.RWMutex
	resignClosed bool

	// candidate pools
	headRoots [][32]byte
	syncRoots [][32]byte
	ffgAlt    [2][32]byte
	ffgMain   [2][32]byte

	// duties of the case
	attDuty, propDuty, randaoDuty, syncDuty core.Duty
	kinds                                   map[string]bool
}

func (w *world) hasKind(k string) bool { return w.kinds[k] }

func mustJSON(v any) string {
	b, err := json.Marshal(v)
	if err != nil {
		panic(err)
	}

	return string(b)
}

func ceilDiv(a, b int) int { return (a + b - 1) / b }

var (
	preElectraAtt = []eth2spec.DataVersion{eth2spec.DataVersionPhase0, eth2spec.DataVersionAltair, eth2spec.DataVersionBellatrix, eth2spec.DataVersionCapella, eth2spec.DataVersionDeneb}
	proposalVers  = []eth2spec.DataVersion{eth2spec.DataVersionBellatrix, eth2spec.DataVersionCapella, eth2spec.DataVersionDeneb, eth2spec.DataVersionElectra, eth2spec.DataVersionFulu}
	allKinds      = []string{"attester", "proposer", "sync", "exit"}
	kindProb      = map[string]float64{"attester": 0.75, "proposer": 0.5, "sync": 0.55, "exit": 0.3}
)

// makePlan draws every choice of the case from the PRNG.
func makePlan(rng *rand.Rand) *plan {
	p := &plan{CrashAt: map[int]int64{}}
	p.N = 3 + rng.Intn(5)
	p.K = ceilDiv(2*p.N, 3)
	p.F = (p.N - 1) / 3
	p.NumVals = []int{1, 2, 2, 3, 3}[rng.Intn(5)]
	p.Electra = rng.Intn(2) == 0
	if p.Electra {
		p.attVersion = eth2spec.DataVersionElectra
	} else {
		p.attVersion = preElectraAtt[rng.Intn(len(preElectraAtt))]
	}
	p.MockVariant = rng.Intn(mockVariants)
	p.AttVersion = p.attVersion.String()
	p.propVersion = proposalVers[rng.Intn(len(proposalVers))]
	p.PropVersion = p.propVersion.String()
	p.PropBlinded = rng.Intn(3) == 0
	for _, k := range allKinds {
		if rng.Float64() < kindProb[k] {
			p.Kinds = append(p.Kinds, k)
		}
	}
	if len(p.Kinds) == 0 {
		p.Kinds = []string{allKinds[rng.Intn(2)]}
	}
	p.ProposerVal = rng.Intn(p.NumVals)
	p.ExitVal = rng.Intn(p.NumVals)

	// faults: crashed + byzantine never exceed f
	roles := make([]role, p.N)
	budget := p.F
	order := rng.Perm(p.N)
	for _, i := range order {
		if budget == 0 {
			break
		}
		switch x := rng.Intn(10); {
		case x < 3:
			roles[i] = roleCrash
			p.CrashAt[i] = int64(rng.Intn(60 * p.N))
			budget--
		case x < 6:
			roles[i] = roleByzStack
			budget--
		case x < 8:
			roles[i] = roleByzBare
			budget--
		}
	}
	for _, r := range roles {
		p.Roles = append(p.Roles, r.String())
	}

	nHeads := 1 + rng.Intn(3)
	nSync := 1 + rng.Intn(3)
	syncAllSame := rng.Intn(100) < 45
	for i := 0; i < p.N; i++ {
		var sd int
		switch x := rng.Intn(10); {
		case x < 6:
			sd = rng.Intn(80)
		case x < 8:
			sd = 200 + rng.Intn(1000)
		default:
			sd = 1300 + rng.Intn(1100)
		}
		p.StartDelayMs = append(p.StartDelayMs, sd)
		fd := rng.Intn(150)
		if rng.Intn(6) == 0 {
			fd = 400 + rng.Intn(1500)
		}
		p.FetchDelayMs = append(p.FetchDelayMs, fd)
		p.NoPropose = append(p.NoPropose, rng.Intn(12) == 0)
		p.VCDelayMs = append(p.VCDelayMs, rng.Intn(300))
		p.HeadChoice = append(p.HeadChoice, rng.Intn(nHeads))
		p.SplitFFG = append(p.SplitFFG, rng.Intn(12) == 0)
		sc := 0
		if !syncAllSame {
			sc = rng.Intn(nSync)
		}
		p.SyncChoice = append(p.SyncChoice, sc)
		eo := 0
		if rng.Intn(8) == 0 {
			eo = 1
		}
		p.ExitEpochOff = append(p.ExitEpochOff, eo)
	}
	// re-signing VCs and split heads (non-consensus duties): the node must refuse the second,
	// conflicting partial signature of its own VC and never send it
	for i := 0; i < p.N; i++ {
		p.ResignMs = append(p.ResignMs, -1)
		p.SyncChoice2 = append(p.SyncChoice2, p.SyncChoice[i])
	}
	if rng.Intn(100) < 45 {
		p.SyncSplit = "balanced"
		var honest []int
		for _, i := range rng.Perm(p.N) {
			if roles[i] == roleHonest {
				honest = append(honest, i)
			}
		}
		nres := 1
		if p.N == 5 || (len(honest) > 3 && rng.Intn(3) == 0) {
			nres = 2
		}
		for k, i := range honest {
			if k < nres {
				first := rng.Intn(2)
				p.SyncChoice[i], p.SyncChoice2[i] = first, 1-first
				if rng.Intn(2) == 0 {
					p.ResignMs[i] = rng.Intn(40) // both partials in flight together: reordering decides
				} else {
					p.ResignMs[i] = 100 + rng.Intn(900)
				}
			} else {
				p.SyncChoice[i] = (k - nres) % 2
				p.SyncChoice2[i] = p.SyncChoice[i]
			}
		}
	} else if rng.Intn(3) == 0 {
		i := rng.Intn(p.N)
		if roles[i] == roleHonest || roles[i] == roleCrash {
			p.ResignMs[i] = rng.Intn(1000)
			p.SyncChoice2[i] = (p.SyncChoice[i] + 1 + rng.Intn(2)) % 3
		}
	}
	if rng.Intn(3) == 0 {
		p.LossyLinks = 1 + rng.Intn(3)
	}
	p.NetProfile = []string{"fast", "jitter", "jitter", "slow-links", "bursty"}[rng.Intn(5)]
	p.DupProb = []float64{0, 0.05, 0.2, 0.4}[rng.Intn(4)]
	if rng.Intn(4) == 0 {
		p.Partition = "split"
	}
	p.ExpireReplay = rng.Intn(3) == 0
	p.ByzActions = 6 + rng.Intn(18)
	for i := 0; i < p.N; i++ {
		p.BNFlaky = append(p.BNFlaky, roles[i] != roleByzBare && rng.Intn(8) == 0)
	}
	for i := 0; i < p.N; i++ {
		p.BNFlaky = append(p.BNFlaky, roles[i] != roleByzBare && rng.Intn(8) == 0)
		p.ByzConsensus = append(p.ByzConsensus, (roles[i] == roleByzStack || roles[i] == roleByzBare) && rng.Intn(2) == 0)
	}

	return p
}

// rotate maps the plan from logical node numbers to peer indices: logical node j runs as peer
// (j+o) mod n. With o = slot mod n the QBFT leader of (duty type, round) is the same logical node
// whatever wall-clock slot the case happens to run in.
func (p *plan) rotate(o int) {
	n := p.N
	p.Rotation = o
	rotS := func(in []string) []string {
		out := make([]string, n)
		for j := range in {
			out[(j+o)%n] = in[j]
		}
		return out
	}
	rotI := func(in []int) []int {
		out := make([]int, n)
		for j := range in {
			out[(j+o)%n] = in[j]
		}
		return out
	}
	rotB := func(in []bool) []bool {
		out := make([]bool, n)
		for j := range in {
			out[(j+o)%n] = in[j]
		}
		return out
	}
	p.Roles = rotS(p.Roles)
	p.StartDelayMs, p.FetchDelayMs, p.VCDelayMs = rotI(p.StartDelayMs), rotI(p.FetchDelayMs), rotI(p.VCDelayMs)
	p.HeadChoice, p.SyncChoice, p.ExitEpochOff = rotI(p.HeadChoice), rotI(p.SyncChoice), rotI(p.ExitEpochOff)
	p.ResignMs, p.SyncChoice2 = rotI(p.ResignMs), rotI(p.SyncChoice2)
	p.NoPropose, p.SplitFFG, p.ByzConsensus, p.BNFlaky = rotB(p.NoPropose), rotB(p.SplitFFG), rotB(p.ByzConsensus), rotB(p.BNFlaky)
	crash := map[int]int64{}
	for j, at := range p.CrashAt {
		crash[(j+o)%n] = at
	}
	p.CrashAt = crash
}

// logical is the inverse of the rotation: the plan's node number of peer i (PRNG stream ids).
func (w *world) logical(i int) int { return (i - w.p.Rotation + w.n) % w.n }

// ---- process-wide environment: beacon mocks and p2p identities ----

const mockVariants = 3

type mockEnv struct {
	bmock   beaconmock.Mock
	spec    map[string]any
	genesis *eth2v1.Genesis
	ch      *chain
	electra bool
	variant int
}

var (
	envs       []*mockEnv
	identities struct {
		keys []*k1.PrivateKey
		ids  []peer.ID
	}
)

func pickEnv(electra bool, variant int) *mockEnv {
	for _, e := range envs {
		if e.electra == electra && e.variant == variant {
			return e
		}
	}
	panic("no such beacon mock")
}

// buildEnvs creates the shared beacon mocks (one HTTP server + go-eth2-client each; building one per
// case leaks the client's background state and costs seconds on a loaded machine) and the p2p
// identity pool. Each mock has its own genesis (so that "now" is a pre-electra resp. an electra
// epoch), genesis validators root and three-version fork schedule whose last fork lies at, one
// or three epochs after the epoch the process starts in (an epoch lasts 16 s).
func buildEnvs(r *kit.Run) error {
	rng := r.Rand(-1, 50)
	for i := 0; i < 7; i++ {
		var kb [32]byte
		rng.Read(kb[:])
		key := k1.PrivKeyFromBytes(kb[:])
		id, err := p2p.PeerIDFromKey(key.PubKey())
		if err != nil {
			return err
		}
		identities.keys = append(identities.keys, key)
		identities.ids = append(identities.ids, id)
	}
	start := time.Now().Truncate(time.Second)
	for _, electra := range []bool{false, true} {
		for variant := 0; variant < mockVariants; variant++ {
			base := uint64(8 + 9*variant + rng.Intn(6))
			if electra {
				base += electraEpoch
			}
			genesis := start.Add(-time.Duration(base*slotsPerEpoch) * slotSeconds * time.Second)
			forkEpoch := base + []uint64{0, 1, 3}[variant]
			midEpoch := 1 + uint64(rng.Intn(int(base-2)))
			var gv, v1, v2 eth2p0.Version
			gv = eth2p0.Version{0x10, 0x00, 0x09, 0x10} // GENESIS_FORK_VERSION of the mock's static spec
			rng.Read(v1[:])
			rng.Read(v2[:])
			fsched := map[string]any{"data": []map[string]string{
				{"previous_version": fmt.Sprintf("%#x", gv), "current_version": fmt.Sprintf("%#x", gv), "epoch": "0"},
				{"previous_version": fmt.Sprintf("%#x", gv), "current_version": fmt.Sprintf("%#x", v1), "epoch": fmt.Sprint(midEpoch)},
				{"previous_version": fmt.Sprintf("%#x", v1), "current_version": fmt.Sprintf("%#x", v2), "epoch": fmt.Sprint(forkEpoch)},
			}}
			var gvr [32]byte
			rng.Read(gvr[:])
			var e *mockEnv
			var err error
			for attempt := 0; attempt < 6; attempt++ {
				var bm beaconmock.Mock
				bm, err = newMock(
					beaconmock.WithSlotsPerEpoch(slotsPerEpoch),
					beaconmock.WithSlotDuration(slotSeconds*time.Second),
					beaconmock.WithGenesisTime(genesis),
					beaconmock.WithGenesisValidatorsRoot(gvr),
					beaconmock.WithEndpoint("/eth/v1/config/fork_schedule", mustJSON(fsched)),
				)
				if err != nil {
					time.Sleep(300 * time.Millisecond)
					continue
				}
				var ch *chain
				ch, err = readChain(bm, 3)
				if err == nil && (!ch.genesisTime.Equal(genesis) || ch.spe != slotsPerEpoch || ch.slotDur != slotSeconds*time.Second) {
					err = fmt.Errorf("mock chain parameters not effective: genesis %v spe %d slot %v", ch.genesisTime, ch.spe, ch.slotDur)
				}
				if err != nil {
					_ = bm.Close()
					time.Sleep(300 * time.Millisecond)
					continue
				}
				e = &mockEnv{bmock: bm, ch: ch, electra: electra, variant: variant}
				var sp *eth2api.Response[map[string]any]
				var gen *eth2api.Response[*eth2v1.Genesis]
				if sp, err = bm.Spec(context.Background(), &eth2api.SpecOpts{}); err == nil {
					gen, err = bm.Genesis(context.Background(), &eth2api.GenesisOpts{})
				}
				if err != nil {
					_ = bm.Close()
					e = nil
					time.Sleep(300 * time.Millisecond)
					continue
				}
				e.spec, e.genesis = sp.Data, gen.Data

				break
			}
			if e == nil {
				return err
			}
			envs = append(envs, e)
		}
	}

	return nil
}

func closeEnvs() {
	for _, e := range envs {
		_ = e.bmock.Close()
	}
	envs = nil
}

func (w *world) roleOf(i int) role { return w.roles[i] }

func (w *world) hasStack(i int) bool { return w.roles[i] != roleByzBare }

func (w *world) isByz(i int) bool { return w.roles[i] == roleByzStack || w.roles[i] == roleByzBare }

func newWorld(r *kit.Run, c *kit.Case, rng *rand.Rand) (*world, error) {
	p := makePlan(rng)
	t := r.T()
	env := pickEnv(p.Electra, p.MockVariant)
	// the duty slot is the first slot of the shared mock's chain that starts at least 0.4 s from now
	p.Slot = uint64((time.Now().Add(400*time.Millisecond).Sub(env.ch.genesisTime) + slotSeconds*time.Second - 1) / (slotSeconds * time.Second))
	p.Epoch = p.Slot / slotsPerEpoch
	p.rotate(int(p.Slot % uint64(p.N)))
	w := &world{
		t: t, r: r, c: c, rng: rng, p: p, n: p.N, k: p.K, f: p.F,
		byIndex: map[eth2p0.ValidatorIndex]*valInfo{}, byCore: map[core.PubKey]*valInfo{},
		pubShare: map[core.PubKey]map[int]tbls.PublicKey{}, idxOf: map[peer.ID]int{},
		slot: p.Slot, epoch: p.Epoch, kinds: map[string]bool{},
	}
	w.ch = env.ch
	w.t0 = env.ch.genesisTime.Add(time.Duration(p.Slot) * slotSeconds * time.Second)
	for _, k := range p.Kinds {
		w.kinds[k] = true
	}
	for i, rs := range p.Roles {
		_ = i
		for ro := roleHonest; ro <= roleByzBare; ro++ {
			if ro.String() == rs {
				w.roles = append(w.roles, ro)
			}
		}
	}
	w.attDuty = core.NewAttesterDuty(w.slot)
	w.propDuty = core.NewProposerDuty(w.slot)
	w.randaoDuty = core.NewRandaoDuty(w.slot)
	w.syncDuty = core.NewSyncMessageDuty(w.slot)

	// keys
	usedIdx := map[eth2p0.ValidatorIndex]bool{0: true}
	for i := 0; i < p.NumVals; i++ {
		root, err := tbls.GenerateInsecureKey(t, rng)
		if err != nil {
			return nil, err
		}
		pub, err := tbls.SecretToPublicKey(root)
		if err != nil {
			return nil, err
		}
		shares, err := tbls.ThresholdSplitInsecure(t, root, uint(w.n), uint(w.k), rng)
		if err != nil {
			return nil, err
		}
		v := &valInfo{Name: fmt.Sprintf("v%d", i), Root: root, Pub: pub, Eth2: eth2p0.BLSPubKey(pub), Shares: shares, PubShares: map[int]tbls.PublicKey{}}
		for {
			v.Idx = eth2p0.ValidatorIndex(1 + rng.Intn(5000))
			if !usedIdx[v.Idx] {
				usedIdx[v.Idx] = true
				break
			}
		}
		v.Core, err = core.PubKeyFromBytes(pub[:])
		if err != nil {
			return nil, err
		}
		for j, s := range shares {
			ps, err := tbls.SecretToPublicKey(s)
			if err != nil {
				return nil, err
			}
			v.PubShares[j] = ps
		}
		// committee layout: validators sometimes share a committee
		if i > 0 && rng.Intn(3) == 0 {
			v.Comm, v.CommLen = w.vals[0].Comm, w.vals[0].CommLen
			for {
				v.Pos = uint64(rng.Intn(int(v.CommLen)))
				clash := false
				for _, o := range w.vals {
					if o.Comm == v.Comm && o.Pos == v.Pos {
						clash = true
					}
				}
				if !clash {
					break
				}
			}
		} else {
			for {
				v.Comm = uint64(rng.Intn(64))
				clash := false
				for _, o := range w.vals {
					if o.Comm == v.Comm {
						clash = true
					}
				}
				if !clash {
					break
				}
			}
			v.CommLen = 4 + uint64(rng.Intn(28))
			v.Pos = uint64(rng.Intn(int(v.CommLen)))
		}
		w.vals = append(w.vals, v)
		w.byIndex[v.Idx] = v
		w.byCore[v.Core] = v
	}

	// lock (only what the components consume) and the pubshare map, derived like app.wireCoreWorkflow
	for _, v := range w.vals {
		dv := cluster.DistValidator{PubKey: v.Pub[:]}
		for i := 1; i <= w.n; i++ {
			ps := v.PubShares[i]
			dv.PubShares = append(dv.PubShares, append([]byte(nil), ps[:]...))
		}
		w.lock.Validators = append(w.lock.Validators, dv)
	}
	w.lock.Threshold = w.k
	for _, dv := range w.lock.Validators {
		corePubkey, err := core.PubKeyFromBytes(dv.PubKey)
		if err != nil {
			return nil, err
		}
		all := map[int]tbls.PublicKey{}
		for i, b := range dv.PubShares {
			ps, err := tblsconv.PubkeyFromBytes(b)
			if err != nil {
				return nil, err
			}
			all[i+1] = ps // share index is 1-indexed
		}
		w.pubShare[corePubkey] = all
	}

	// candidate pools
	for i := 0; i < 3; i++ {
		var a, b [32]byte
		rng.Read(a[:])
		rng.Read(b[:])
		w.headRoots = append(w.headRoots, a)
		w.syncRoots = append(w.syncRoots, b)
	}
	rng.Read(w.ffgMain[0][:])
	rng.Read(w.ffgMain[1][:])
	rng.Read(w.ffgAlt[0][:])
	rng.Read(w.ffgAlt[1][:])

	// p2p identities: a process-wide pool (peer names are metric labels in charon; fresh identities
	// per case would grow the metric registry without bound). Cases are isolated by their own network.
	for i := 0; i < w.n; i++ {
		w.keys = append(w.keys, identities.keys[i])
		w.ids = append(w.ids, identities.ids[i])
		w.peers = append(w.peers, p2p.Peer{ID: identities.ids[i], Index: i, Name: p2p.PeerName(identities.ids[i])})
		w.idxOf[identities.ids[i]] = i
	}

	// the case's view of the shared beacon mock: same chain, its own validator set
	active := eth2wrap.ActiveValidators{}
	complete := eth2wrap.CompleteValidators{}
	for _, v := range w.vals {
		val := &eth2v1.Validator{
			Index: v.Idx, Balance: 32_000_000_000, Status: eth2v1.ValidatorStateActiveOngoing,
			Validator: &eth2p0.Validator{PublicKey: v.Eth2, EffectiveBalance: 32_000_000_000,
				WithdrawalCredentials: make([]byte, 32), ExitEpoch: 1<<64 - 1, WithdrawableEpoch: 1<<64 - 1},
		}
		active[v.Idx] = v.Eth2
		complete[v.Idx] = val
	}
	w.env = env
	w.bmock = env.bmock
	w.bmock.CachedValidatorsFunc = func(context.Context) (eth2wrap.ActiveValidators, eth2wrap.CompleteValidators, error) {
		return active, complete, nil
	}
	w.bmock.ValidatorsFunc = func(_ context.Context, opts *eth2api.ValidatorsOpts) (map[eth2p0.ValidatorIndex]*eth2v1.Validator, error) {
		out := map[eth2p0.ValidatorIndex]*eth2v1.Validator{}
		for idx, val := range complete {
			out[idx] = val
		}

		return out, nil
	}
	w.bmock.ValidatorsByPubKeyFunc = func(context.Context, string, []eth2p0.BLSPubKey) (map[eth2p0.ValidatorIndex]*eth2v1.Validator, error) {
		out := map[eth2p0.ValidatorIndex]*eth2v1.Validator{}
		for idx, val := range complete {
			out[idx] = val
		}

		return out, nil
	}
	w.endBy = w.t0.Add(5000 * time.Millisecond)
	w.ctxEnd = w.t0.Add(60 * time.Second)

	w.ctx, w.cancel = context.WithCancel(context.Background())
	w.mon = newMonitor(w)
	w.tap = &tapLog{w: w}
	w.net = fakenet.New()
	w.sched = newNetSched(w, r.Rand(c.Idx, 1))
	w.net.SetTap(w.tap.observe)
	w.net.SetPolicy(w.sched.policy)
	for i := 0; i < w.n; i++ {
		w.net.Host(w.ids[i]) // every identity is dialable (bare byzantine identities have no handlers)
	}
	for i := 0; i < w.n; i++ {
		if !w.hasStack(i) {
			w.nodes = append(w.nodes, &node{w: w, idx: i, bare: true})
			continue
		}
		nd, err := w.newNode(i)
		if err != nil {
			w.close()
			return nil, err
		}
		w.nodes = append(w.nodes, nd)
	}

	return w, nil
}

// newMock is beaconmock.New with its start-up panics (testutil dereferences the response of a
// failed readiness probe) turned into an error, so that setup can retry.
func newMock(opts ...beaconmock.Option) (m beaconmock.Mock, err error) {
	defer func() {
		if r := recover(); r != nil {
			err = fmt.Errorf("beaconmock.New panicked: %v", r)
		}
	}()

	return beaconmock.New(context.Background(), opts...)
}

// close stops every goroutine of the case.
func (w *world) close() {
	w.stopped.Store(true)
	w.cancel()
	for _, nd := range w.nodes {
		nd.shutdown()
	}
	if w.sched != nil {
		w.sched.stop()
	}
	w.wg.Wait()
}

// sleepUntil paces the workload (never a verdict).
func (w *world) sleepUntil(t time.Time) bool {
	d := time.Until(t)
	if d <= 0 {
		return w.ctx.Err() == nil
	}
	tm := time.NewTimer(d)
	defer tm.Stop()
	select {
	case <-tm.C:
		return true
	case <-w.ctx.Done():
		return false
	}
}

func (w *world) after(ms int) time.Time { return w.t0.Add(time.Duration(ms) * time.Millisecond) }

// go_ runs fn as a tracked harness goroutine.
func (w *world) go_(fn func()) {
	w.wg.Add(1)
	go func() {
		defer w.wg.Done()
		fn()
	}()
}
