package c07

import (
	"encoding/hex"
	"encoding/json"
	"fmt"
	"runtime"
	"sync"
	"sync/atomic"
	"time"

	bitfield "github.com/OffchainLabs/go-bitfield"
	eth2api "github.com/attestantio/go-eth2-client/api"
	eth2v1 "github.com/attestantio/go-eth2-client/api/v1"
	eth2spec "github.com/attestantio/go-eth2-client/spec"
	"github.com/attestantio/go-eth2-client/spec/altair"
	"github.com/attestantio/go-eth2-client/spec/bellatrix"
	"github.com/attestantio/go-eth2-client/spec/electra"
	eth2p0 "github.com/attestantio/go-eth2-client/spec/phase0"

	"github.com/obolnetwork/charon/core"
)

// ---------------------------------------------------------------------------------------------
// yield points (DESIGN §4.5): perturbation injected at calls *out* of parsigdb into the harness.

const (
	ypRoot = iota + 1
	ypClone
	ypMarshal
	ypDeadlinerAdd
	ypThreshSub
	ypInternalSub
)

// yielder decides, from a per-case seed and an atomic call counter, whether a yield point does
// nothing, calls runtime.Gosched or sleeps a few microseconds. nil = never yield.
type yielder struct {
	seed     uint64
	ctr      atomic.Uint64
	pGosched uint64 // out of 1024
	pSleep   uint64 // out of 1024
	// boost adds a sleep probability (out of 1024) at one yield point, e.g. a slow MessageRoot or a
	// slow Clone of the harness-owned value type, to widen the window between the store's critical
	// section and what it does outside it.
	boost [8]uint64
}

func splitmix(x uint64) uint64 {
	x += 0x9e3779b97f4a7c15
	x = (x ^ (x >> 30)) * 0xbf58476d1ce4e5b9
	x = (x ^ (x >> 27)) * 0x94d049bb133111eb

	return x ^ (x >> 31)
}

func (y *yielder) at(point int) {
	if y == nil {
		return
	}
	k := y.ctr.Add(1)
	h := splitmix(y.seed ^ (k * 0x2545f4914f6cdd1d) ^ (uint64(point) << 56))
	v := h % 1024
	switch {
	case v < y.pGosched:
		runtime.Gosched()
	case v < y.pGosched+y.pSleep+y.boost[point&7]:
		time.Sleep(time.Duration(1+(h>>40)%40) * time.Microsecond)
	}
}

// ---------------------------------------------------------------------------------------------
// probe: harness implementation of core.SignedData with a unique id and a chosen message root.

type probe struct {
	ID   uint64
	Root [32]byte
	Sig  core.Signature
	y    *yielder
}

var _ core.SignedData = probe{}

func (p probe) Signature() core.Signature {
	return append(core.Signature(nil), p.Sig...)
}

func (p probe) SetSignature(s core.Signature) (core.SignedData, error) {
	q := p
	q.Sig = append(core.Signature(nil), s...)

	return q, nil
}

func (p probe) MessageRoot() ([32]byte, error) {
	p.y.at(ypRoot)

	return p.Root, nil
}

func (p probe) Clone() (core.SignedData, error) {
	p.y.at(ypClone)
	q := p
	q.Sig = append(core.Signature(nil), p.Sig...)

	return q, nil
}

type probeJSON struct {
	ID   uint64 `json:"id"`
	Root string `json:"root"`
	Sig  string `json:"sig"`
}

func (p probe) MarshalJSON() ([]byte, error) {
	p.y.at(ypMarshal)

	return json.Marshal(probeJSON{ID: p.ID, Root: hex.EncodeToString(p.Root[:]), Sig: hex.EncodeToString(p.Sig)})
}

// contentOf returns the canonical content of a signed value (what parsigdb compares: its JSON
// form) without passing through any yield point.
func contentOf(sd core.SignedData) (string, error) {
	if p, ok := sd.(probe); ok {
		return fmt.Sprintf("probe/%d/%x/%x", p.ID, p.Root, []byte(p.Sig)), nil
	}
	b, err := json.Marshal(sd)
	if err != nil {
		return "", err
	}

	return string(b), nil
}

// rootOf returns the message root without passing through any yield point.
func rootOf(sd core.SignedData) ([32]byte, error) {
	if p, ok := sd.(probe); ok {
		return p.Root, nil
	}

	return sd.MessageRoot()
}

// rootFor returns the message root that decides "matching" for a duty type. DutySignature carries
// plain signatures that have no message root (core.Signature.MessageRoot fails): for such duties
// all partials of distinct shares match, which the harness expresses as one common zero root.
func rootFor(typ core.DutyType, sd core.SignedData) ([32]byte, error) {
	if typ == core.DutySignature {
		return [32]byte{}, nil
	}

	return rootOf(sd)
}

// ---------------------------------------------------------------------------------------------
// value factory: one logical partial signature = unique id -> unique signature bytes; the root
// variant selects which data is signed.

func sigBytes(caseSalt uint64, id int) eth2p0.BLSSignature {
	var s eth2p0.BLSSignature
	x := splitmix(caseSalt ^ uint64(id)*0x9e3779b97f4a7c15)
	for i := 0; i < 96; i += 8 {
		x = splitmix(x)
		for j := 0; j < 8; j++ {
			s[i+j] = byte(x >> (8 * j))
		}
	}
	// make ids visible in witnesses
	s[0], s[1] = byte(id>>8), byte(id)

	return s
}

func rootBytes(caseSalt uint64, keyIdx, variant int) eth2p0.Root {
	var r eth2p0.Root
	x := splitmix(caseSalt ^ 0xabcdef ^ uint64(keyIdx)<<20 ^ uint64(variant)<<8)
	for i := 0; i < 32; i += 8 {
		x = splitmix(x)
		for j := 0; j < 8; j++ {
			r[i+j] = byte(x >> (8 * j))
		}
	}
	r[0] = byte(variant)

	return r
}

// useReal reports whether real eth2 types exist in this harness for the duty type.
func realTypeAvailable(typ core.DutyType) bool {
	switch typ {
	case core.DutyAttester, core.DutySyncMessage, core.DutySyncContribution,
		core.DutyPrepareSyncContribution, core.DutyExit, core.DutyRandao,
		core.DutySignature, core.DutyProposer, core.DutyAggregator, core.DutyPrepareAggregator,
		core.DutyBuilderRegistration:
		return true
	default:
		return false
	}
}

// makeValue builds the signed data of one logical partial signature.
func makeValue(real bool, duty core.Duty, keyIdx int, sub uint64, variant, id int, salt uint64, y *yielder) (core.SignedData, error) {
	sig := sigBytes(salt, id)
	root := rootBytes(salt, keyIdx, variant)
	if !real {
		return probe{ID: uint64(id), Root: root, Sig: core.SigFromETH2(sig), y: y}, nil
	}
	vidx := eth2p0.ValidatorIndex(1000 + keyIdx)
	slot := eth2p0.Slot(duty.Slot)
	switch duty.Type {
	case core.DutyAttester:
		data := &eth2p0.AttestationData{
			Slot: slot, Index: eth2p0.CommitteeIndex(keyIdx), BeaconBlockRoot: root,
			Source: &eth2p0.Checkpoint{Epoch: eth2p0.Epoch(duty.Slot / 32), Root: rootBytes(salt, keyIdx, 100)},
			Target: &eth2p0.Checkpoint{Epoch: eth2p0.Epoch(duty.Slot/32 + 1), Root: rootBytes(salt, keyIdx, 101)},
		}
		bits := bitfield.NewBitlist(16)
		bits.SetBitAt(uint64(keyIdx%16), true)
		var att *eth2spec.VersionedAttestation
		if keyIdx%2 == 0 {
			att = &eth2spec.VersionedAttestation{
				Version: eth2spec.DataVersionDeneb, ValidatorIndex: &vidx,
				Deneb: &eth2p0.Attestation{AggregationBits: bits, Data: data, Signature: sig},
			}
		} else {
			cb := bitfield.NewBitvector64()
			cb.SetBitAt(uint64(keyIdx%64), true)
			att = &eth2spec.VersionedAttestation{
				Version: eth2spec.DataVersionElectra, ValidatorIndex: &vidx,
				Electra: &electra.Attestation{AggregationBits: bits, Data: data, Signature: sig, CommitteeBits: cb},
			}
		}
		psd, err := core.NewPartialVersionedAttestation(att, 1)
		if err != nil {
			return nil, err
		}

		return psd.SignedData, nil
	case core.DutySyncMessage:
		return core.NewSignedSyncMessage(&altair.SyncCommitteeMessage{
			Slot: slot, BeaconBlockRoot: root, ValidatorIndex: vidx, Signature: sig,
		}), nil
	case core.DutySyncContribution:
		ab := bitfield.NewBitvector128()
		ab.SetBitAt(uint64(keyIdx%128), true)

		return core.NewSignedSyncContributionAndProof(&altair.SignedContributionAndProof{
			Message: &altair.ContributionAndProof{
				AggregatorIndex: vidx,
				Contribution: &altair.SyncCommitteeContribution{
					Slot: slot, BeaconBlockRoot: root, SubcommitteeIndex: sub, AggregationBits: ab,
					Signature: sigBytes(salt, 1<<20+keyIdx),
				},
				SelectionProof: sigBytes(salt, 1<<21+keyIdx),
			},
			Signature: sig,
		}), nil
	case core.DutyPrepareSyncContribution:
		// message root = hash(slot, subcommittee index): the variant moves the slot.
		return core.NewSyncCommitteeSelection(&eth2v1.SyncCommitteeSelection{
			ValidatorIndex: vidx, Slot: slot + eth2p0.Slot(variant), SubcommitteeIndex: sub, SelectionProof: sig,
		}), nil
	case core.DutyExit:
		return core.NewSignedVoluntaryExit(&eth2p0.SignedVoluntaryExit{
			Message:   &eth2p0.VoluntaryExit{Epoch: eth2p0.Epoch(duty.Slot/32) + eth2p0.Epoch(variant), ValidatorIndex: vidx},
			Signature: sig,
		}), nil
	case core.DutyRandao:
		return core.NewSignedRandao(eth2p0.Epoch(duty.Slot/32)+eth2p0.Epoch(variant), sig), nil
	case core.DutySignature:
		// plain signature (DKG exchanger): no message, no root; the variant is meaningless.
		return core.SigFromETH2(sig), nil
	case core.DutyPrepareAggregator:
		// message root = hash(slot): the variant moves the slot.
		return core.NewBeaconCommitteeSelection(&eth2v1.BeaconCommitteeSelection{
			ValidatorIndex: vidx, Slot: slot + eth2p0.Slot(variant), SelectionProof: sig,
		}), nil
	case core.DutyAggregator:
		bits := bitfield.NewBitlist(16)
		bits.SetBitAt(uint64(keyIdx%16), true)

		return core.NewVersionedSignedAggregateAndProof(&eth2spec.VersionedSignedAggregateAndProof{
			Version: eth2spec.DataVersionDeneb,
			Deneb: &eth2p0.SignedAggregateAndProof{
				Message: &eth2p0.AggregateAndProof{
					AggregatorIndex: vidx,
					Aggregate: &eth2p0.Attestation{
						AggregationBits: bits,
						Data: &eth2p0.AttestationData{
							Slot: slot, Index: eth2p0.CommitteeIndex(keyIdx), BeaconBlockRoot: root,
							Source: &eth2p0.Checkpoint{Epoch: eth2p0.Epoch(duty.Slot / 32), Root: rootBytes(salt, keyIdx, 100)},
							Target: &eth2p0.Checkpoint{Epoch: eth2p0.Epoch(duty.Slot/32 + 1), Root: rootBytes(salt, keyIdx, 101)},
						},
						Signature: sigBytes(salt, 1<<22+keyIdx),
					},
					SelectionProof: sigBytes(salt, 1<<23+keyIdx),
				},
				Signature: sig,
			},
		}), nil
	case core.DutyBuilderRegistration:
		var pk eth2p0.BLSPubKey
		pkr := rootBytes(salt, keyIdx, 102)
		copy(pk[:], pkr[:])
		var fee bellatrix.ExecutionAddress
		copy(fee[:], pkr[8:])
		reg, err := core.NewVersionedSignedValidatorRegistration(&eth2api.VersionedSignedValidatorRegistration{
			Version: eth2spec.BuilderVersionV1,
			V1: &eth2v1.SignedValidatorRegistration{
				Message: &eth2v1.ValidatorRegistration{
					FeeRecipient: fee, GasLimit: 30000000 + uint64(variant),
					Timestamp: time.Unix(1606824023+int64(duty.Slot)*12, 0), Pubkey: pk,
				},
				Signature: sig,
			},
		})
		if err != nil {
			return nil, err
		}

		return reg, nil
	case core.DutyProposer:
		blockHash := rootBytes(salt, keyIdx, 105)

		return core.NewVersionedSignedProposal(&eth2api.VersionedSignedProposal{
			Version: eth2spec.DataVersionPhase0,
			Phase0: &eth2p0.SignedBeaconBlock{
				Message: &eth2p0.BeaconBlock{
					Slot: slot, ProposerIndex: vidx, ParentRoot: rootBytes(salt, keyIdx, 103), StateRoot: root,
					Body: &eth2p0.BeaconBlockBody{
						RANDAOReveal:      sigBytes(salt, 1<<24+keyIdx),
						ETH1Data:          &eth2p0.ETH1Data{DepositRoot: rootBytes(salt, keyIdx, 104), BlockHash: blockHash[:]},
						Graffiti:          rootBytes(salt, keyIdx, 106),
						ProposerSlashings: []*eth2p0.ProposerSlashing{},
						AttesterSlashings: []*eth2p0.AttesterSlashing{},
						Attestations:      []*eth2p0.Attestation{},
						Deposits:          []*eth2p0.Deposit{},
						VoluntaryExits:    []*eth2p0.SignedVoluntaryExit{},
					},
				},
				Signature: sig,
			},
		})
	default:
		return nil, fmt.Errorf("no real type for %v", duty.Type)
	}
}

// ---------------------------------------------------------------------------------------------
// harness Deadliner: statuses are decided by the harness, expiry is an explicit harness event.

type deadliner struct {
	mu        sync.Mutex
	expired   map[core.Duty]bool
	scheduled map[core.Duty]bool
	adds      int
	ch        chan core.Duty
	y         *yielder
}

func newDeadliner(y *yielder) *deadliner {
	return &deadliner{expired: map[core.Duty]bool{}, scheduled: map[core.Duty]bool{}, ch: make(chan core.Duty), y: y}
}

func exemptType(t core.DutyType) bool {
	return t == core.DutyExit || t == core.DutyBuilderRegistration
}

func (d *deadliner) Add(duty core.Duty) core.DeadlineStatus {
	d.y.at(ypDeadlinerAdd)
	d.mu.Lock()
	defer d.mu.Unlock()
	d.adds++
	if exemptType(duty.Type) {
		return core.DeadlineExempt
	}
	if d.expired[duty] {
		return core.DeadlineExpired
	}
	d.scheduled[duty] = true

	return core.DeadlineScheduled
}

func (d *deadliner) C() <-chan core.Duty { return d.ch }

var barrierDuty = core.Duty{Slot: 1 << 62, Type: core.DutyUnknown}

// expire marks the duty expired (every later Add answers DeadlineExpired) and, if it had been
// scheduled, emits it on C() followed by a barrier duty, so that on return the consumer (Trim) has
// fully processed it. Returns false if the consumer did not take the duty within the watchdog.
func (d *deadliner) expire(duty core.Duty) bool {
	d.mu.Lock()
	was := d.scheduled[duty]
	d.expired[duty] = true
	delete(d.scheduled, duty)
	d.mu.Unlock()
	if !was {
		return true
	}
	for _, x := range []core.Duty{duty, barrierDuty} {
		select {
		case d.ch <- x:
		case <-time.After(60 * time.Second):
			return false
		}
	}

	return true
}

// ---------------------------------------------------------------------------------------------

var pkPool = func() []core.PubKey {
	var out []core.PubKey
	for i := 0; i < 8; i++ {
		b := make([]byte, 48)
		for j := range b {
			b[j] = byte(17*i + j)
		}
		b[0] = 0xa0 | byte(i)
		b[47] = byte(i + 1)
		pk, err := core.PubKeyFromBytes(b)
		if err != nil {
			panic(err)
		}
		out = append(out, pk)
	}

	return out
}()
