package c07

// Directed histories with a FAILING threshold subscriber (the aggregation chain behind it ends at
// the local beacon node, which can be down). The general workload's subscribers never fail; here
// the last step of a node's own submission (StoreInternal) mixes, in one set, a validator whose
// share is being re-signed for other data (must be refused) with validators whose partial completes
// the threshold at that moment, while the threshold subscriber answers with an error.
//
// Judged: what the internal subscribers (the exchange with the peers) are handed. A partial the
// store refused as equivocating - another value of that share is stored and stays stored - must
// never be handed on, whatever else happens in the same call.

import (
	"context"
	"errors"
	"fmt"
	"sync"
	"time"

	"github.com/attestantio/go-eth2-client/spec/altair"
	eth2p0 "github.com/attestantio/go-eth2-client/spec/phase0"

	"github.com/obolnetwork/charon/core"
	"github.com/obolnetwork/charon/core/parsigdb"

	"verifharness/kit"
)

const sigRefusedExchanged = "parsigdb/store-internal/refused-equivocating-partial-handed-to-internal-subscribers"

type alwaysScheduled struct{ ch chan core.Duty }

func (alwaysScheduled) Add(core.Duty) core.DeadlineStatus { return core.DeadlineScheduled }
func (d alwaysScheduled) C() <-chan core.Duty              { return d.ch }

var errThreshSubDown = errors.New("harness: aggregation chain failed (beacon node down)")

func runSubFailCase(c *kit.Case) {
	rng := c.Rng
	r := c.R
	n := 3 + rng.Intn(5)
	t := (2*n + 2) / 3
	own := 1 + rng.Intn(n)
	nv := 2 + rng.Intn(3)
	slot := uint64(1000 + rng.Intn(100000))
	duty := core.NewSyncMessageDuty(slot)
	db := parsigdb.NewMemDB(t, alwaysScheduled{ch: make(chan core.Duty)}, parsigdb.NewMemDBMetadata(12, time.Now().Add(-time.Duration(slot)*12*time.Second)))

	var mu sync.Mutex
	failNow := false
	triggers := 0
	db.SubscribeThreshold(func(context.Context, core.Duty, map[core.PubKey][]core.ParSignedData) error {
		mu.Lock()
		defer mu.Unlock()
		triggers++
		if failNow {
			return errThreshSubDown
		}

		return nil
	})
	type slotKey struct {
		pk    core.PubKey
		share int
	}
	accepted := map[slotKey][32]byte{} // first value the store accepted per (validator, share): block root signed
	var trace []string
	var handed []map[slotKey][32]byte
	db.SubscribeInternal(func(_ context.Context, _ core.Duty, set core.ParSignedDataSet) error {
		mu.Lock()
		defer mu.Unlock()
		m := map[slotKey][32]byte{}
		for pk, p := range set {
			if sm, ok := p.SignedData.(core.SignedSyncMessage); ok {
				m[slotKey{pk, p.ShareIdx}] = sm.BeaconBlockRoot
			}
		}
		handed = append(handed, m)

		return nil
	})

	var pks []core.PubKey
	for i := 0; i < nv; i++ {
		b := make([]byte, 48)
		rng.Read(b)
		pk, err := core.PubKeyFromBytes(b)
		if err != nil {
			r.Inconclusive("subfail: pubkey: %v", err)
			return
		}
		pks = append(pks, pk)
	}
	root := func() (out eth2p0.Root) { rng.Read(out[:]); return out }
	rootA, rootB := root(), root()
	msg := func(vi, share int, rt eth2p0.Root) core.ParSignedData {
		var sig eth2p0.BLSSignature
		copy(sig[:], fmt.Sprintf("sig-v%d-s%d-%x", vi, share, rt[:6]))

		return core.NewPartialSignedSyncMessage(&altair.SyncCommitteeMessage{Slot: eth2p0.Slot(slot), BeaconBlockRoot: rt, ValidatorIndex: eth2p0.ValidatorIndex(100 + vi), Signature: sig}, share)
	}
	note := func(f string, a ...any) { trace = append(trace, fmt.Sprintf(f, a...)) }
	ctx := context.Background()

	// 1. the node's VC signs head A for the re-signed validators (0..k-1) and the set is stored + exchanged
	k := 1 + rng.Intn(nv-1) // validators re-signed later; the others (k..nv-1) are signed for the first time later
	first := core.ParSignedDataSet{}
	for vi := 0; vi < k; vi++ {
		first[pks[vi]] = msg(vi, own, rootA)
		accepted[slotKey{pks[vi], own}] = rootA
	}
	if err := db.StoreInternal(ctx, duty, first); err != nil {
		r.Inconclusive("subfail: first StoreInternal failed: %v", err)
		return
	}
	note("StoreInternal validators 0..%d share %d head A: ok", k-1, own)
	// 2. peers' partials for the fresh validators arrive: t-1 shares each (head A), so that the node's own completes the threshold
	others := rng.Perm(n)
	cnt := 0
	for _, o := range others {
		if o+1 == own || cnt == t-1 {
			continue
		}
		cnt++
		set := core.ParSignedDataSet{}
		for vi := k; vi < nv; vi++ {
			set[pks[vi]] = msg(vi, o+1, rootA)
		}
		if err := db.StoreExternal(ctx, duty, set); err != nil {
			r.Inconclusive("subfail: StoreExternal of peer partials failed: %v", err)
			return
		}
	}
	note("StoreExternal: %d peer shares of head A for validators %d..%d", cnt, k, nv-1)
	// 3. one submission of the VC: validators 0..k-1 RE-SIGNED for head B, validators k..nv-1 signed (head A) for the first time;
	//    the aggregation chain may be down
	mode := []string{"subscriber-fails", "subscriber-fails", "subscriber-ok", "no-threshold-reached"}[rng.Intn(4)]
	mu.Lock()
	failNow = mode == "subscriber-fails"
	before := len(handed)
	mu.Unlock()
	second := core.ParSignedDataSet{}
	for vi := 0; vi < k; vi++ {
		second[pks[vi]] = msg(vi, own, rootB)
	}
	for vi := k; vi < nv; vi++ {
		rt := rootA
		if mode == "no-threshold-reached" {
			rt = rootB // nobody else signed B: no threshold
		}
		second[pks[vi]] = msg(vi, own, rt)
	}
	err := db.StoreInternal(ctx, duty, second)
	note("StoreInternal (%s): validators 0..%d share %d RE-SIGNED for head B + validators %d..%d first signature: err=%v", mode, k-1, own, k, nv-1, err)
	r.Count("subfail/cases/"+mode, 1)
	if err == nil {
		c.Violation(sigEquivAccepted+"/store-internal-batch-with-failing-threshold-subscriber", fmt.Sprintf("StoreInternal returned nil for a set that re-signs share %d of %d validators for another head (%s)", own, k, mode), map[string]any{"trace": trace, "n": n, "threshold": t})
		return
	}
	mu.Lock()
	defer mu.Unlock()
	r.Count("subfail/threshold_subscriber_calls", int64(triggers))
	for _, m := range handed[before:] {
		r.Count("subfail/internal_subscriber_calls_for_the_mixed_set", 1)
		for sk, rt := range m {
			if acc, ok := accepted[sk]; ok && acc != [32]byte(rt) {
				c.Violation(sigRefusedExchanged, fmt.Sprintf("a partial of share %d that the store refused as equivocating (head B, head A is stored for that share) was handed to the internal subscribers for exchange with the peers; the same call returned %q (%s)", sk.share, err, mode),
					map[string]any{"trace": trace, "n": n, "threshold": t, "own_share": own, "validators": nv, "resigned_validators": k, "mode": mode})
				return
			}
		}
	}
	c.NonTrivial(kit.Hash("subfail", n, own, nv, k, mode))
}
