// Package c07 monitors the partial-signature store (property C07): the real parsigdb.MemDB (with
// its Trim goroutine) is driven with hostile batches — duplicates, minority roots, equivocating
// shares, multi-validator batches in which some entries are rejected, expired and never-expiring
// duties, goroutines racing for the threshold-th insert — while the threshold and internal
// subscribers are monitors. The oracle is an exactly-once / no-loss checker over the recorded
// event log; the set of *accepted* partials is learnt from the store's own return values.
package c07

import (
	"context"
	"fmt"
	"math/rand"
	"sort"
	"strings"
	"sync"
	"testing"
	"time"

	"github.com/obolnetwork/charon/app/log"
	"github.com/obolnetwork/charon/cluster"
	"github.com/obolnetwork/charon/core"
	"github.com/obolnetwork/charon/core/parsigdb"

	"verifharness/kit"
)

// Violation signatures (component/operation/rule).
const (
	sigLostAfterBatchErr   = "parsigdb/store-external/trigger-lost-after-batch-error"
	sigLost                = "parsigdb/store/trigger-lost"
	sigDupTrigger          = "parsigdb/trigger/duplicate"
	sigDupTriggerOtherRoot = "parsigdb/trigger/duplicate/on-later-partial-with-different-root"
	sigBelow               = "parsigdb/trigger/below-threshold"
	sigMixed               = "parsigdb/trigger/mixed-roots"
	sigRepeated            = "parsigdb/trigger/repeated-share"
	sigForeign             = "parsigdb/trigger/foreign-partial"
	sigUnaccepted          = "parsigdb/trigger/carries-unaccepted-value"
	sigNoThreshold         = "parsigdb/trigger/without-threshold"
	sigUnknownKey          = "parsigdb/trigger/unknown-key"
	sigExpiredTrig         = "parsigdb/trigger/expired-duty"
	sigEquivAccepted       = "parsigdb/store/equivocation-accepted"
	sigDupRejected         = "parsigdb/store/duplicate-rejected"
	sigErrNoConflict       = "parsigdb/store/error-without-conflict"
	sigErrKind             = "parsigdb/store/unexpected-error"
	sigAllRejected         = "parsigdb/store/all-values-of-share-rejected"
	sigIntTwice            = "parsigdb/store-internal/subscriber-called-twice"
	sigIntMissing          = "parsigdb/store-internal/subscriber-not-called"
	sigIntWrongSet         = "parsigdb/store-internal/subscriber-wrong-set"
	sigIntOnExternal       = "parsigdb/store-external/internal-subscriber-called"

	// input-class suffix: the key belongs to a never-expiring duty and a share holding an accepted
	// partial of it has stored more distinct never-expiring duties than the per-share cap.
	suffixBeyondCap = "/exempt-duty-share-beyond-cap"
	// input-class suffix: the key belongs to a DutySignature duty (plain signatures, no message
	// root: every partial of a distinct share matches).
	suffixSignatureDuty = "/signature-duty"
)

// exemptCap mirrors parsigdb's maxExemptEntriesPerShare: a share's partial for a never-expiring
// duty may be evicted once the same share has stored exemptCap further distinct never-expiring
// duties for the same validator and duty type.
const exemptCap = 10

type keyT struct {
	Duty core.Duty
	PK   core.PubKey
	Sub  uint64
}

func (k keyT) String() string {
	return fmt.Sprintf("%v/%s/sub%d", k.Duty, k.PK, k.Sub)
}

// val is one logical partial signature (unique id => unique signature bytes => unique content).
type val struct {
	id      int
	key     int
	share   int
	variant int // which data (message root) it signs
	sd      core.SignedData
	content string
	root    [32]byte
}

func (v *val) String() string {
	return fmt.Sprintf("k%d/share%d/v%d/root%d", v.key, v.share, v.id, v.variant)
}

type slotT struct{ key, share int }

type opT struct {
	duty     core.Duty
	internal bool
	vals     []*val // distinct pubkeys
}

type phaseT struct {
	ops          []*opT
	g            int // goroutines (<=1: sequential)
	expireDuring []core.Duty
	expireAfter  []core.Duty
}

type scenario struct {
	kind       string
	n, t       int
	keys       []keyT
	real       []bool // per key: real eth2 types
	vals       []*val
	nThr, nInt int
	y          *yielder
	salt       uint64
}

// ---------------------------------------------------------------------------------------------

type stats map[string]int64

func TestCheck(t *testing.T) {
	r := kit.Start(t, "C07")
	defer r.Finish()
	r.Rule("case = PRNG scenario against the real parsigdb.MemDB (+Trim): n in 3..7, t=ceil(2n/3), 1-4 validators, 1-3 duties (expiring, exempt, sync-subcommittee keyed), " +
		"every core.DutyType (incl. root-less DutySignature with core.Signature values, info_sync, deprecated builder_proposer) with probe values and, where one exists, the real core.SignedData kind; t=n in 15% of the cases; " +
		"per key a list of partials (majority/minority roots, equivocating rivals, duplicates) packed into single/multi-validator StoreInternal/StoreExternal batches; kinds: perm (all orders of <=6 batches, fresh DB each), " +
		"seq, conc (2-8 goroutines per phase), race (goroutines racing for the t-th insert), batchreject (equivocation before/inside/after the batch completing another validator), with duty expiry between/during phases; " +
		"exemptcap (11-30 never-expiring exit/registration duties for the same validator, shares pass the per-share cap of 10 at different times, late/replayed partials, interleaved with expiring duties; " +
		"a key is judged only while every accepted partial of it is among the newest 10 never-expiring duties of its share, i.e. cannot have been evicted); " +
		"exemptrace (shares at the never-expiring cap store further duties while goroutines complete thresholds on exactly the keys being evicted, slow MessageRoot; judged by trigger content and the race detector); " +
		"sameshare (12-36 rounds per case: 2-4 goroutines behind one barrier store two different values of the SAME share, slow Clone); " +
		"failed batches are re-submitted entry by entry so the accepted set is exact; non-trivial = at least one trigger and at least one of {equivocation rejected, duplicate ignored, minority root accepted, batch returned error}; " +
		"distinct = hash of the generated scenario (keys, batches, phases)")
	r.Assume("harness Deadliner is consistent: once a duty is expired every later Add answers DeadlineExpired; a duty is only expired while no store for it is in flight")
	r.Assume("outside the exemptcap kind at most 3 distinct exempt duties per case, so the per-share exempt cap never evicts")
	r.Assume("exemptcap kind: the store may evict a share's partial of a never-expiring duty only after that share stored 10 further distinct never-expiring duties for the same validator and type (constant maxExemptEntriesPerShare=10); keys that may have lost a partial that way are no longer judged for exactly-once/no-loss (sticky), only for the content of their triggers")
	r.Assume("DutySignature duties carry plain signatures without a message root: every accepted partial of a distinct share matches (the harness gives them one common pseudo root); the statement's 'same signing root' is vacuous for them")
	r.Assume("thresholds generated: ceil(2n/3) (< n) in 85% and n-of-n in 15% of the cases; thresholds <= n/2 are outside charon's configuration space")
	r.Assume("threshold/internal subscribers return nil; values' Clone/MessageRoot/MarshalJSON never fail")
	r.RacePkgs(false, "core/parsigdb")
	// minima are ~1/10 of what a quick run observes (counts scale with the case count)
	n := r.N(5000, 100000)
	min := func(key string, quick int64) { r.Require(key, int64(float64(quick)*float64(n)/5000)) }
	min("triggers", 5000)
	min("triggers_in_concurrent_phases", 1000)
	min("equivocations_rejected", 3000)
	min("duplicates_ignored", 2000)
	min("batch_errors", 1000)
	min("calls_on_expired_duty", 500)
	min("concurrent_phases", 500)
	min("internal_sub_calls", 5000)
	min("perm_orders", 2000)
	min("real_type_triggers", 1000)
	min("keys_reached_threshold", 3000)
	min("keys_below_threshold_at_end", 1500)
	min("exemptcap_cases", 100)
	min("exemptrace_cases", 80)
	min("exemptrace_completions_racing_eviction", 1000)
	min("exemptrace_triggers_on_keys_under_eviction", 100)
	min("sameshare_cases", 80)
	min("sameshare_contests", 2000)
	min("sameshare_contests_decided", 2000)
	for _, typ := range core.AllDutyTypes() {
		min("triggers/"+typ.String(), 150)
	}
	min("triggers_threshold_eq_n", 1500)
	min("triggers_threshold_lt_n", 5000)
	min("keys_with_more_than_threshold_matching_accepted", 2000)
	min("signature_duty_keys_with_more_than_threshold_shares_accepted", 100)
	min("signature_duty_keys_complete_n_of_n", 30)
	min("exempt_fresh_stores_by_share_beyond_cap", 2000)
	min("exempt_triggers_on_judged_key_with_share_beyond_cap", 300)
	min("exempt_keys_no_longer_judged", 100)

	if err := log.InitLogger(log.Config{Level: "error", Format: "console", Color: "disable"}); err != nil {
		t.Fatalf("init logger: %v", err)
	}

	nSub := r.N(400, 6000)
	r.Cases(n+nSub, 0, func(c *kit.Case) {
		if c.Idx >= n {
			runSubFailCase(c)
			return
		}
		runCase(c)
	})
}

func runCase(c *kit.Case) {
	rng := c.Rng
	r := c.R
	st := stats{}
	var kind string
	switch k := rng.Intn(100); {
	case k < 7:
		kind = "perm"
	case k < 34:
		kind = "seq"
	case k < 56:
		kind = "conc"
	case k < 69:
		kind = "race"
	case k < 84:
		kind = "batchreject"
	case k < 90:
		kind = "exemptcap"
	case k < 95:
		kind = "exemptrace"
	default:
		kind = "sameshare"
	}
	g := newGen(c, kind)
	var desc string
	switch kind {
	case "perm":
		desc = g.runPerm(st)
	case "race":
		phases := g.genRace()
		desc = g.describe(phases)
		runWorld(c, g.sc, phases, st)
	case "batchreject":
		phases := g.genBatchReject()
		desc = g.describe(phases)
		runWorld(c, g.sc, phases, st)
	case "exemptcap":
		phases := g.genExemptCap()
		desc = g.describe(phases)
		st["exemptcap_cases"]++
		runWorld(c, g.sc, phases, st)
	case "exemptrace":
		phases := g.genExemptRace(st)
		desc = g.describe(phases)
		st["exemptrace_cases"]++
		runWorld(c, g.sc, phases, st)
	case "sameshare":
		phases := g.genSameShare(st)
		desc = g.describe(phases)
		st["sameshare_cases"]++
		runWorld(c, g.sc, phases, st)
	default:
		phases := g.genRandom(kind == "conc")
		desc = g.describe(phases)
		runWorld(c, g.sc, phases, st)
	}
	for k, v := range st {
		r.Count(k, v)
	}
	r.Seen("kinds", g.sc.kind)
	r.Seen("n_t", fmt.Sprintf("n%d_t%d", g.sc.n, g.sc.t))
	for i, k := range g.sc.keys {
		name := k.Duty.Type.String()
		if g.sc.real[i] {
			name += "/real"
		} else {
			name += "/probe"
		}
		r.Seen("duty_types", name)
	}
	if st["triggers"] > 0 && (st["equivocations_rejected"] > 0 || st["duplicates_ignored"] > 0 || st["minority_accepted"] > 0 || st["batch_errors"] > 0 || st["exempt_fresh_stores_by_share_beyond_cap"] > 0) {
		c.NonTrivial(kit.Hash(desc))
	}
	if c.Idx < 4 {
		r.Sample(map[string]any{"kind": g.sc.kind, "n": g.sc.n, "t": g.sc.t, "keys": len(g.sc.keys), "scenario": kit.Short(desc, 1500), "observed": st})
	}
}

// ---------------------------------------------------------------------------------------------
// scenario generation

type gen struct {
	c   *kit.Case
	rng *rand.Rand
	sc  *scenario
}

var expiringProbeTypes = []core.DutyType{
	core.DutyProposer, core.DutyAttester, core.DutyRandao, core.DutyPrepareAggregator, core.DutyAggregator,
	core.DutySyncMessage, core.DutyBuilderProposer, core.DutyInfoSync,
}

func newGen(c *kit.Case, kind string) *gen {
	rng := c.Rng
	sc := &scenario{kind: kind, salt: uint64(rng.Int63())}
	sc.n = 3 + rng.Intn(5)
	if kind == "perm" {
		sc.n = 3 + rng.Intn(2)
	}
	sc.t = cluster.Threshold(sc.n)
	if rng.Intn(100) < 15 {
		sc.t = sc.n // n-of-n, as the DKG signature exchanger configures the store
	}
	sc.nThr = 1 + rng.Intn(2)
	sc.nInt = 1 + rng.Intn(2)
	if kind == "race" || (kind != "perm" && rng.Intn(4) != 0) {
		sc.y = &yielder{seed: uint64(rng.Int63()), pGosched: uint64(rng.Intn(200)), pSleep: uint64(rng.Intn(12))}
	}
	switch kind {
	case "exemptrace": // slow MessageRoot: the threshold evaluation outside the store's lock takes a while
		sc.y = &yielder{seed: uint64(rng.Int63()), pGosched: uint64(100 + rng.Intn(200)), pSleep: uint64(rng.Intn(12))}
		sc.y.boost[ypRoot] = uint64(150 + rng.Intn(350))
	case "sameshare": // slow Clone / MarshalJSON: the duplicate check and the insert take a while
		sc.y = &yielder{seed: uint64(rng.Int63()), pGosched: uint64(100 + rng.Intn(200)), pSleep: uint64(rng.Intn(12))}
		sc.y.boost[ypClone] = uint64(100 + rng.Intn(400))
		sc.y.boost[ypMarshal] = uint64(rng.Intn(200))
	}

	return &gen{c: c, rng: rng, sc: sc}
}

// pickDuty chooses a duty; real reports whether real eth2 types are used for its keys.
func (g *gen) pickDuty(used map[core.Duty]bool, allowExempt bool) (core.Duty, bool) {
	rng := g.rng
	for {
		var typ core.DutyType
		real := false
		switch k := rng.Intn(100); {
		case k < 12 && allowExempt:
			typ = core.DutyExit
			real = rng.Intn(2) == 0
		case k < 20 && allowExempt:
			typ = core.DutyBuilderRegistration
			real = rng.Intn(2) == 0
		case k >= 92:
			typ = core.DutySignature // plain signatures without message root
			real = rng.Intn(4) != 0
		case k < 32:
			typ = core.DutySyncContribution
			real = true
		case k < 40:
			typ = core.DutyPrepareSyncContribution
			real = true
		default:
			typ = kit.Pick(rng, expiringProbeTypes)
			real = realTypeAvailable(typ) && rng.Intn(100) < 35
		}
		d := core.Duty{Slot: uint64(32 + rng.Intn(64)), Type: typ}
		if used[d] {
			continue
		}
		used[d] = true

		return d, real
	}
}

func (g *gen) addKey(d core.Duty, pk core.PubKey, sub uint64, real bool) int {
	g.sc.keys = append(g.sc.keys, keyT{Duty: d, PK: pk, Sub: sub})
	g.sc.real = append(g.sc.real, real)

	return len(g.sc.keys) - 1
}

func (g *gen) newVal(key, share, variant int) *val {
	sc := g.sc
	id := len(sc.vals) + 1
	k := sc.keys[key]
	sd, err := makeValue(sc.real[key], k.Duty, key, k.Sub, variant, id, sc.salt, sc.y)
	if err != nil {
		panic(err)
	}
	content, err := contentOf(sd)
	if err != nil {
		panic(err)
	}
	root, err := rootFor(k.Duty.Type, sd)
	if err != nil {
		panic(err)
	}
	v := &val{id: id, key: key, share: share, variant: variant, sd: sd, content: content, root: root}
	sc.vals = append(sc.vals, v)

	return v
}

// keyList builds the ordered list of submissions for one key (repeats = duplicates).
func (g *gen) keyList(key int, small bool) []*val {
	rng := g.rng
	n, t := g.sc.n, g.sc.t
	shares := rng.Perm(n)
	for i := range shares {
		shares[i]++
	}
	var list []*val
	other := func() int { return 1 + rng.Intn(2) }
	class := rng.Intn(100)
	var swing []*val
	switch {
	case class < 50: // majority root reaches threshold
		m := t + rng.Intn(n-t+1)
		for i, s := range shares {
			if i < m {
				list = append(list, g.newVal(key, s, 0))
			} else if rng.Intn(3) != 0 {
				list = append(list, g.newVal(key, s, other()))
			}
		}
	case class < 70: // split: usually nobody reaches threshold
		m := rng.Intn(t)
		for i, s := range shares {
			if i < m {
				list = append(list, g.newVal(key, s, 0))
			} else if rng.Intn(4) != 0 {
				list = append(list, g.newVal(key, s, other()))
			}
		}
	default: // t-1 honest shares plus one share that signs two different roots
		for i, s := range shares {
			switch {
			case i < t-1:
				list = append(list, g.newVal(key, s, 0))
			case i == t-1:
				swing = []*val{g.newVal(key, s, 1), g.newVal(key, s, 0)}
				if rng.Intn(2) == 0 {
					swing[0], swing[1] = swing[1], swing[0]
				}
			case rng.Intn(3) == 0:
				list = append(list, g.newVal(key, s, other()))
			}
		}
	}
	// order
	switch k := rng.Intn(100); {
	case k < 25: // minority roots first
		sort.SliceStable(list, func(i, j int) bool { return list[i].variant > list[j].variant })
	case k < 40:
		sort.SliceStable(list, func(i, j int) bool { return list[i].variant < list[j].variant })
	default:
		rng.Shuffle(len(list), func(i, j int) { list[i], list[j] = list[j], list[i] })
	}
	insert := func(pos int, v *val) {
		list = append(list, nil)
		copy(list[pos+1:], list[pos:])
		list[pos] = v
	}
	if swing != nil {
		p := rng.Intn(len(list) + 1)
		insert(p, swing[0])
		insert(p+1+rng.Intn(len(list)-p), swing[1])
	}
	pRival, pDup := 15, 20
	if small {
		pRival, pDup = 12, 12
	}
	// equivocating rivals
	for i := 0; i < len(list); i++ {
		v := list[i]
		if rng.Intn(100) >= pRival || len(list) > 3*n {
			continue
		}
		variant := v.variant
		if rng.Intn(2) == 0 {
			variant = (v.variant + 1 + rng.Intn(2)) % 3
		}
		rv := g.newVal(key, v.share, variant)
		if rng.Intn(10) < 7 {
			insert(i+1+rng.Intn(len(list)-i), rv) // after the original
		} else {
			insert(rng.Intn(len(list)+1), rv)
		}
		i++
	}
	// duplicates
	for i := 0; i < len(list); i++ {
		if rng.Intn(100) < pDup && len(list) < 4*n {
			insert(i+1+rng.Intn(len(list)-i), list[i])
		}
	}

	return list
}

// pack merges per-key lists into batches (one entry per pubkey), preserving per-key order.
func (g *gen) pack(lists map[int][]*val) []*opT {
	rng := g.rng
	var ops []*opT
	pSingle := 25 + rng.Intn(50)
	for {
		// duties that still have something queued
		byDuty := map[core.Duty]map[core.PubKey][]int{}
		var duties []core.Duty
		for k := range g.sc.keys { // keys in index order => deterministic
			if len(lists[k]) == 0 {
				continue
			}
			kk := g.sc.keys[k]
			if byDuty[kk.Duty] == nil {
				byDuty[kk.Duty] = map[core.PubKey][]int{}
				duties = append(duties, kk.Duty)
			}
			byDuty[kk.Duty][kk.PK] = append(byDuty[kk.Duty][kk.PK], k)
		}
		if len(duties) == 0 {
			return ops
		}
		d := kit.Pick(rng, duties)
		var pks []core.PubKey
		for k := range g.sc.keys {
			kk := g.sc.keys[k]
			if kk.Duty == d && len(lists[k]) > 0 {
				dup := false
				for _, p := range pks {
					dup = dup || p == kk.PK
				}
				if !dup {
					pks = append(pks, kk.PK)
				}
			}
		}
		b := 1
		if len(pks) > 1 && rng.Intn(100) >= pSingle {
			b = 2 + rng.Intn(len(pks)-1)
		}
		rng.Shuffle(len(pks), func(i, j int) { pks[i], pks[j] = pks[j], pks[i] })
		op := &opT{duty: d, internal: rng.Intn(100) < 30}
		for _, pk := range pks[:b] {
			ks := byDuty[d][pk]
			k := kit.Pick(rng, ks)
			op.vals = append(op.vals, lists[k][0])
			lists[k] = lists[k][1:]
		}
		ops = append(ops, op)
	}
}

// genKeys creates duties/validators/keys.
func (g *gen) genKeys(maxDuties, maxVals, maxKeys int) {
	rng := g.rng
	nVals := 1 + rng.Intn(maxVals)
	nDuties := 1 + rng.Intn(maxDuties)
	pkPerm := rng.Perm(len(pkPool))
	used := map[core.Duty]bool{}
	exempt := 0
	for di := 0; di < nDuties; di++ {
		d, real := g.pickDuty(used, exempt < 2)
		if exemptType(d.Type) {
			exempt++
		}
		// subset of validators (at least one)
		for vi := 0; vi < nVals; vi++ {
			if len(g.sc.keys) >= maxKeys {
				break
			}
			if vi > 0 && di > 0 && rng.Intn(3) == 0 {
				continue
			}
			pk := pkPool[pkPerm[vi]]
			sub := uint64(0)
			if core.IsSyncSubcommitteeDuty(d.Type) {
				sub = uint64(rng.Intn(4))
			}
			g.addKey(d, pk, sub, real)
			if core.IsSyncSubcommitteeDuty(d.Type) && rng.Intn(2) == 0 && len(g.sc.keys) < maxKeys {
				g.addKey(d, pk, (sub+1+uint64(rng.Intn(3)))%4, real) // same validator, second subcommittee
			}
		}
	}
}

func (g *gen) genRandom(conc bool) []*phaseT {
	rng := g.rng
	g.genKeys(3, 4, 6)
	lists := map[int][]*val{}
	for k := range g.sc.keys {
		lists[k] = g.keyList(k, false)
	}
	ops := g.pack(lists)
	var phases []*phaseT
	if !conc {
		for _, o := range ops {
			phases = append(phases, &phaseT{ops: []*opT{o}, g: 1})
		}
	} else {
		for i := 0; i < len(ops); {
			sz := 1
			if rng.Intn(5) != 0 {
				sz = 2 + rng.Intn(7)
			}
			if i+sz > len(ops) {
				sz = len(ops) - i
			}
			ph := &phaseT{ops: ops[i : i+sz], g: sz}
			if sz > 2 && rng.Intn(3) == 0 {
				ph.g = 2 + rng.Intn(sz-1)
			}
			phases = append(phases, ph)
			i += sz
		}
	}
	g.addExpiry(&phases)

	return phases
}

// addExpiry lets some expiring duties expire between phases or concurrently with a phase that
// does not touch them; later stores for them must have no effect. A late full-threshold burst is
// appended for each expired duty.
func (g *gen) addExpiry(phases *[]*phaseT) {
	rng := g.rng
	seen := map[core.Duty]bool{}
	for k := range g.sc.keys {
		d := g.sc.keys[k].Duty
		if seen[d] || exemptType(d.Type) {
			continue
		}
		seen[d] = true
		if rng.Intn(100) >= 35 || len(*phases) == 0 {
			continue
		}
		p := rng.Intn(len(*phases))
		if rng.Intn(3) == 0 {
			p = len(*phases) - 1
		}
		touches := func(ph *phaseT) bool {
			for _, o := range ph.ops {
				if o.duty == d {
					return true
				}
			}

			return false
		}
		if p+1 < len(*phases) && !touches((*phases)[p+1]) && rng.Intn(2) == 0 {
			(*phases)[p+1].expireDuring = append((*phases)[p+1].expireDuring, d)
		} else {
			(*phases)[p].expireAfter = append((*phases)[p].expireAfter, d)
		}
		// late burst: t matching fresh partials for one key of the duty
		var ks []int
		for kk := range g.sc.keys {
			if g.sc.keys[kk].Duty == d {
				ks = append(ks, kk)
			}
		}
		key := kit.Pick(rng, ks)
		late := &phaseT{g: 1}
		for s := 1; s <= g.sc.t; s++ {
			late.ops = append(late.ops, &opT{duty: d, internal: rng.Intn(4) == 0, vals: []*val{g.newVal(key, s, 3)}})
		}
		if rng.Intn(2) == 0 {
			late.g = 2 + rng.Intn(3)
		}
		*phases = append(*phases, late)
	}
}

// genRace: t-1 matching partials stored, then 2-8 goroutines race for the t-th insert.
func (g *gen) genRace() []*phaseT {
	rng := g.rng
	sc := g.sc
	d, real := g.pickDuty(map[core.Duty]bool{}, true)
	nKeys := 1 + rng.Intn(2)
	pkPerm := rng.Perm(len(pkPool))
	for i := 0; i < nKeys; i++ {
		sub := uint64(0)
		if core.IsSyncSubcommitteeDuty(d.Type) {
			sub = uint64(rng.Intn(4))
		}
		g.addKey(d, pkPool[pkPerm[i]], sub, real)
	}
	var phases []*phaseT
	var raceOps []*opT
	preVals := map[int][]*val{}
	restVals := map[int][]*val{}
	for k := 0; k < nKeys; k++ {
		shares := rng.Perm(sc.n)
		for i, s := range shares {
			v := g.newVal(k, s+1, 0)
			if i < sc.t-1 {
				preVals[k] = append(preVals[k], v)
			} else {
				restVals[k] = append(restVals[k], v)
			}
		}
		if rng.Intn(3) == 0 { // a minority root stored first
			// replaces nothing: an extra share cannot exist, so turn one rest share into minority
			if len(restVals[k]) > 1 {
				old := restVals[k][len(restVals[k])-1]
				restVals[k][len(restVals[k])-1] = g.newVal(k, old.share, 1)
			}
		}
	}
	// pre phase: sequential, batches across keys
	pre := map[int][]*val{}
	for k, vs := range preVals {
		pre[k] = append([]*val(nil), vs...)
	}
	for _, o := range g.pack(pre) {
		phases = append(phases, &phaseT{ops: []*opT{o}, g: 1})
	}
	// race phase
	gor := 2 + rng.Intn(7)
	for k := 0; k < nKeys; k++ {
		for _, v := range restVals[k] {
			raceOps = append(raceOps, &opT{duty: d, internal: rng.Intn(4) == 0, vals: []*val{v}})
		}
	}
	for len(raceOps) < gor {
		k := rng.Intn(nKeys)
		var v *val
		switch rng.Intn(4) {
		case 0: // duplicate of an already stored partial
			v = kit.Pick(rng, preVals[k])
		case 1: // equivocation against a racing or stored share
			all := append(append([]*val(nil), preVals[k]...), restVals[k]...)
			o := kit.Pick(rng, all)
			v = g.newVal(k, o.share, rng.Intn(2))
		default: // same racing partial submitted by another goroutine
			v = kit.Pick(rng, restVals[k])
		}
		raceOps = append(raceOps, &opT{duty: d, internal: rng.Intn(4) == 0, vals: []*val{v}})
	}
	// sometimes merge two race ops of different validators into one batch
	if nKeys == 2 && rng.Intn(2) == 0 {
		for i := 0; i < len(raceOps); i++ {
			for j := i + 1; j < len(raceOps); j++ {
				if len(raceOps[i].vals) == 1 && len(raceOps[j].vals) == 1 && raceOps[i].vals[0].key != raceOps[j].vals[0].key && rng.Intn(3) == 0 {
					raceOps[i].vals = append(raceOps[i].vals, raceOps[j].vals[0])
					raceOps = append(raceOps[:j], raceOps[j+1:]...)

					break
				}
			}
		}
	}
	rng.Shuffle(len(raceOps), func(i, j int) { raceOps[i], raceOps[j] = raceOps[j], raceOps[i] })
	phases = append(phases, &phaseT{ops: raceOps, g: len(raceOps)})
	return phases
}

// genBatchReject: validator A is completed by a batch that also carries (or is preceded /
// followed by) an equivocating share of validator B.
func (g *gen) genBatchReject() []*phaseT {
	rng := g.rng
	sc := g.sc
	d, real := g.pickDuty(map[core.Duty]bool{}, true)
	nKeys := 2 + rng.Intn(3)
	pkPerm := rng.Perm(len(pkPool))
	for i := 0; i < nKeys; i++ {
		sub := uint64(0)
		if core.IsSyncSubcommitteeDuty(d.Type) {
			sub = uint64(rng.Intn(4))
		}
		g.addKey(d, pkPool[pkPerm[i]], sub, real)
	}
	const A, B = 0, 1
	var ops []*opT
	ext := func(vs ...*val) *opT {
		return &opT{duty: d, internal: rng.Intn(5) == 0, vals: vs}
	}
	aShares := rng.Perm(sc.n)
	bShares := rng.Perm(sc.n)
	var aVals, bVals []*val
	for _, s := range aShares {
		aVals = append(aVals, g.newVal(A, s+1, 0))
	}
	for _, s := range bShares {
		bVals = append(bVals, g.newVal(B, s+1, 0))
	}
	// other validators: queue of first inserts / duplicates to sprinkle into batches
	var extras []*val
	for k := 2; k < nKeys; k++ {
		extras = append(extras, g.keyList(k, true)...)
	}
	takeExtra := func(o *opT) {
		if len(extras) == 0 || rng.Intn(2) == 0 {
			return
		}
		for i, e := range extras {
			clash := false
			for _, v := range o.vals {
				clash = clash || sc.keys[v.key].PK == sc.keys[e.key].PK
			}
			if !clash {
				o.vals = append(o.vals, e)
				extras = append(extras[:i], extras[i+1:]...)

				return
			}
		}
	}
	// B's progress before the completing batch: nb originals (>=1)
	nb := 1 + rng.Intn(sc.t-1) // 1..t-1
	// pre: A gets t-1 matching, B gets nb originals; batched together at random
	ai, bi := 0, 0
	for ai < sc.t-1 || bi < nb {
		o := ext()
		if ai < sc.t-1 && (bi >= nb || rng.Intn(3) != 0) {
			o.vals = append(o.vals, aVals[ai])
			ai++
		}
		if bi < nb && (len(o.vals) == 0 || rng.Intn(2) == 0) {
			o.vals = append(o.vals, bVals[bi])
			bi++
		}
		takeExtra(o)
		ops = append(ops, o)
	}
	victim := bVals[rng.Intn(nb)]
	rivalVariant := rng.Intn(2) // same root (other signature) or another root
	rival := g.newVal(B, victim.share, rivalVariant)
	where := rng.Intn(3)
	completing := ext(aVals[ai])
	ai++
	switch where {
	case 0: // before
		ops = append(ops, ext(rival))
		if bi < len(bVals) && rng.Intn(2) == 0 {
			completing.vals = append(completing.vals, bVals[bi])
			bi++
		}
	case 1: // inside
		completing.vals = append(completing.vals, rival)
	default: // after
		if bi < len(bVals) && rng.Intn(2) == 0 {
			completing.vals = append(completing.vals, bVals[bi])
			bi++
		}
	}
	takeExtra(completing)
	ops = append(ops, completing)
	if where == 2 {
		ops = append(ops, ext(rival))
	}
	// tail: rest of A (beyond threshold) and B up to (maybe) its own threshold, with the rival
	// re-sent inside B-completing batches of A duplicates.
	for ai < len(aVals) || bi < len(bVals) {
		o := ext()
		switch {
		case ai < len(aVals) && rng.Intn(2) == 0:
			o.vals = append(o.vals, aVals[ai])
			ai++
		case rng.Intn(3) == 0:
			o.vals = append(o.vals, aVals[rng.Intn(ai)]) // duplicate of A
		}
		if bi < len(bVals) && (len(o.vals) == 0 || rng.Intn(3) != 0) {
			o.vals = append(o.vals, bVals[bi])
			bi++
		} else if len(o.vals) > 0 && rng.Intn(3) == 0 {
			o.vals = append(o.vals, rival)
		}
		if len(o.vals) == 0 {
			if ai < len(aVals) {
				o.vals = append(o.vals, aVals[ai])
				ai++
			} else {
				o.vals = append(o.vals, bVals[bi])
				bi++
			}
		}
		takeExtra(o)
		ops = append(ops, o)
		if rng.Intn(6) == 0 {
			break
		}
	}
	for _, e := range extras {
		ops = append(ops, ext(e))
	}
	var phases []*phaseT
	for i := 0; i < len(ops); {
		sz := 1
		if rng.Intn(6) == 0 {
			sz = 2 + rng.Intn(3)
		}
		if i+sz > len(ops) {
			sz = len(ops) - i
		}
		phases = append(phases, &phaseT{ops: ops[i : i+sz], g: sz})
		i += sz
	}
	if rng.Intn(4) == 0 {
		g.addExpiry(&phases)
	}

	return phases
}

// genExemptCap: long histories of never-expiring duties (exits / builder registrations at many
// slots) for the same validator(s): some shares take part in (almost) every duty and pass the
// per-share cap early, others later or never; partials arrive roughly duty by duty with small and
// occasionally large delays, duplicates / replays to old duties, a few equivocations; expiring
// duties are interleaved. Everything runs sequentially so that the order in which a share's
// entries were stored (which decides what the cap may evict) is known.
func (g *gen) genExemptCap() []*phaseT {
	rng := g.rng
	sc := g.sc
	typ := core.DutyExit
	real := rng.Intn(3) == 0
	if rng.Intn(3) == 0 {
		typ, real = core.DutyBuilderRegistration, rng.Intn(2) == 0
	}
	nVals := 1 + rng.Intn(2)
	nDuties := exemptCap + 1 + rng.Intn(20) // 11..30
	pkPerm := rng.Perm(len(pkPool))
	baseSlot := uint64(32 * (1 + rng.Intn(50)))
	keyOf := func(j, v int) int { return j*nVals + v }
	for j := 0; j < nDuties; j++ {
		d := core.Duty{Slot: baseSlot + uint64(32*j), Type: typ}
		for v := 0; v < nVals; v++ {
			g.addKey(d, pkPool[pkPerm[v]], 0, real)
		}
	}
	// participation of each share: some take part in everything, some join late, some are sparse
	type behaviour struct {
		from int // first duty the share takes part in
		pct  int // participation probability
	}
	beh := make([]behaviour, sc.n+1)
	for s := 1; s <= sc.n; s++ {
		switch k := rng.Intn(10); {
		case k < 5:
			beh[s] = behaviour{0, 100}
		case k < 7:
			beh[s] = behaviour{rng.Intn(nDuties), 100}
		default:
			beh[s] = behaviour{0, 30 + rng.Intn(70)}
		}
	}
	beh[1+rng.Intn(sc.n)] = behaviour{0, 100} // at least one share passes the cap

	type event struct {
		at int
		v  *val
	}
	var evs []event
	for j := 0; j < nDuties; j++ {
		for v := 0; v < nVals; v++ {
			k := keyOf(j, v)
			var part []int
			for s := 1; s <= sc.n; s++ {
				if j >= beh[s].from && rng.Intn(100) < beh[s].pct {
					part = append(part, s)
				}
			}
			rng.Shuffle(len(part), func(a, b int) { part[a], part[b] = part[b], part[a] })
			for pos, s := range part {
				variant := 0
				if rng.Intn(100) < 12 {
					variant = 1 + rng.Intn(2)
				}
				pv := g.newVal(k, s, variant)
				at := j*100 + pos*8 + rng.Intn(8)
				switch r := rng.Intn(100); {
				case r < 12: // late by up to ~4 duties
					at += rng.Intn(400)
				case r < 15: // very late: the duty may meanwhile have lost partials to the cap
					at += 800 + rng.Intn(1500)
				}
				evs = append(evs, event{at, pv})
				if rng.Intn(100) < 8 { // duplicate / replay, possibly much later
					evs = append(evs, event{at + 1 + rng.Intn(2500), pv})
				}
				if rng.Intn(100) < 4 { // equivocation
					evs = append(evs, event{at + 1 + rng.Intn(300), g.newVal(k, s, rng.Intn(3))})
				}
			}
		}
	}
	sort.SliceStable(evs, func(a, b int) bool { return evs[a].at < evs[b].at })
	var ops []*opT
	for i := 0; i < len(evs); i++ {
		o := &opT{duty: sc.keys[evs[i].v.key].Duty, internal: rng.Intn(5) == 0, vals: []*val{evs[i].v}}
		// merge with the next event into one two-validator batch when it is the same duty
		if i+1 < len(evs) && rng.Intn(3) == 0 {
			nv := evs[i+1].v
			if sc.keys[nv.key].Duty == o.duty && sc.keys[nv.key].PK != sc.keys[evs[i].v.key].PK {
				o.vals = append(o.vals, nv)
				i++
			}
		}
		ops = append(ops, o)
	}
	// interleave ordinary expiring duties
	nExempt := len(sc.keys)
	used := map[core.Duty]bool{}
	lists := map[int][]*val{}
	for i, ne := 0, rng.Intn(3); i < ne; i++ {
		d, rl := g.pickDuty(used, false)
		for v := 0; v < nVals; v++ {
			k := g.addKey(d, pkPool[pkPerm[v]], 0, rl && !core.IsSyncSubcommitteeDuty(d.Type))
			if core.IsSyncSubcommitteeDuty(d.Type) {
				sc.real[k] = true
			}
			lists[k] = g.keyList(k, false)
		}
	}
	if len(sc.keys) > nExempt {
		for _, o := range g.pack(lists) {
			p := rng.Intn(len(ops) + 1)
			ops = append(ops, nil)
			copy(ops[p+1:], ops[p:])
			ops[p] = o
		}
	}
	phases := make([]*phaseT, 0, len(ops))
	for _, o := range ops {
		phases = append(phases, &phaseT{ops: []*opT{o}, g: 1})
	}

	return phases
}

// genExemptRace: the exempt-duty cap under concurrency. One or two shares take part in every
// never-expiring duty of a validator and hold exemptCap entries; every old key holds threshold-1
// matching partials. In each round several goroutines store the threshold-completing partial of
// another share into the capped shares' OLDEST keys while the capped shares store further duties,
// which evicts their partials from exactly those keys (the threshold evaluation of the completing
// store runs outside the store's lock, the values' MessageRoot is slow). What correct code may
// do there is order dependent (trigger with the capped share's partial, or no trigger because it
// was evicted first), so these keys are judged by the content of their triggers only.
func (g *gen) genExemptRace(st stats) []*phaseT {
	rng := g.rng
	sc := g.sc
	typ := core.DutyExit
	real := rng.Intn(4) == 0
	if rng.Intn(3) == 0 {
		typ, real = core.DutyBuilderRegistration, rng.Intn(4) == 0
	}
	nVals := 1 + rng.Intn(2)
	pkPerm := rng.Perm(len(pkPool))
	shares := rng.Perm(sc.n)
	for i := range shares {
		shares[i]++
	}
	nCapped := 1
	if sc.t-1 >= 2 && rng.Intn(2) == 0 {
		nCapped = 2
	}
	capped := shares[:nCapped]
	fill := shares[nCapped : sc.t-1] // threshold-1 partials per key in total
	completers := shares[sc.t-1:]    // at least one
	rounds := 2 + rng.Intn(4)
	var per []int
	total := exemptCap
	for r := 0; r < rounds; r++ {
		b := 2 + rng.Intn(4)
		per = append(per, b)
		total += b
	}
	baseSlot := uint64(32 * (1 + rng.Intn(50)))
	keyOf := func(j, v int) int { return j*nVals + v }
	for j := 0; j < total; j++ {
		d := core.Duty{Slot: baseSlot + uint64(32*j), Type: typ}
		for v := 0; v < nVals; v++ {
			g.addKey(d, pkPool[pkPerm[v]], 0, real)
		}
	}
	dutyOf := func(j int) core.Duty { return sc.keys[keyOf(j, 0)].Duty }
	single := func(j, v, share, variant int) *opT {
		return &opT{duty: dutyOf(j), internal: rng.Intn(5) == 0, vals: []*val{g.newVal(keyOf(j, v), share, variant)}}
	}
	var phases []*phaseT
	seq := func(ops ...*opT) {
		for _, o := range ops {
			phases = append(phases, &phaseT{ops: []*opT{o}, g: 1})
		}
	}
	// a store of one share for duty j, for all validators (one batch or singles)
	storeAll := func(j, share, variant int) []*opT {
		if nVals == 2 && rng.Intn(2) == 0 {
			return []*opT{{duty: dutyOf(j), internal: rng.Intn(5) == 0, vals: []*val{g.newVal(keyOf(j, 0), share, variant), g.newVal(keyOf(j, 1), share, variant)}}}
		}
		var ops []*opT
		for v := 0; v < nVals; v++ {
			ops = append(ops, single(j, v, share, variant))
		}

		return ops
	}
	// history: capped shares first (their partial sits at the front of every entry), then the fill shares
	for j := 0; j < exemptCap; j++ {
		for _, s := range capped {
			seq(storeAll(j, s, 0)...)
		}
		for _, s := range fill {
			seq(storeAll(j, s, 0)...)
		}
	}
	oldest, next := 0, exemptCap
	for _, b := range per {
		var ops []*opT
		for i := 0; i < b; i++ {
			for v := 0; v < nVals; v++ {
				ops = append(ops, single(oldest+i, v, kit.Pick(rng, completers), 0)) // completes threshold on an oldest key
				st["exemptrace_completions_racing_eviction"]++
			}
			for _, s := range capped {
				ops = append(ops, storeAll(next+i, s, 0)...) // evicts this share's partial from the oldest key
			}
		}
		rng.Shuffle(len(ops), func(i, j int) { ops[i], ops[j] = ops[j], ops[i] })
		gor := len(ops)
		if gor > 8 && rng.Intn(2) == 0 {
			gor = 4 + rng.Intn(5)
		}
		phases = append(phases, &phaseT{ops: ops, g: gor})
		// afterwards the new duties get their fill shares (sequentially)
		for i := 0; i < b; i++ {
			for _, s := range fill {
				seq(storeAll(next+i, s, 0)...)
			}
		}
		oldest += b
		next += b
	}

	return phases
}

// genSameShare: many rounds in which 2-4 goroutines, released by one barrier, store partials of
// the SAME share for the same key with two different values (plus duplicates of them), internal
// and external mixed, with slow Clone/MarshalJSON. Exactly one of the two values may ever be
// accepted; the key's other shares arrive before, during and after the contest.
func (g *gen) genSameShare(st stats) []*phaseT {
	rng := g.rng
	sc := g.sc
	rounds := 12 + rng.Intn(25)
	used := map[core.Duty]bool{}
	exempt := 0
	pkPerm := rng.Perm(len(pkPool))
	var phases []*phaseT
	for r := 0; r < rounds; r++ {
		d, real := g.pickDuty(used, exempt < 2)
		if exemptType(d.Type) {
			exempt++
		}
		sub := uint64(0)
		if core.IsSyncSubcommitteeDuty(d.Type) {
			sub = uint64(rng.Intn(4))
		}
		k := g.addKey(d, pkPool[pkPerm[rng.Intn(3)]], sub, real)
		shares := rng.Perm(sc.n)
		for i := range shares {
			shares[i]++
		}
		contested := shares[0]
		rest := shares[1:]
		ext := func(v *val) *opT { return &opT{duty: d, internal: rng.Intn(3) == 0, vals: []*val{v}} }
		pre := rng.Intn(len(rest) + 1)
		if rng.Intn(2) == 0 && sc.t-1 <= len(rest) {
			pre = sc.t - 1 // the contested share completes the threshold
		}
		for _, s := range rest[:pre] {
			phases = append(phases, &phaseT{ops: []*opT{ext(g.newVal(k, s, 0))}, g: 1})
		}
		a := g.newVal(k, contested, 0)
		bv := g.newVal(k, contested, rng.Intn(2)) // same root with another signature, or another root
		ops := []*opT{ext(a), ext(bv)}
		for extra := rng.Intn(3); extra > 0; extra-- {
			if rng.Intn(2) == 0 {
				ops = append(ops, ext(a))
			} else {
				ops = append(ops, ext(bv))
			}
		}
		if pre < len(rest) && rng.Intn(3) == 0 { // an uncontested share stores at the same time
			ops = append(ops, ext(g.newVal(k, rest[pre], 0)))
			pre++
		}
		rng.Shuffle(len(ops), func(i, j int) { ops[i], ops[j] = ops[j], ops[i] })
		phases = append(phases, &phaseT{ops: ops, g: len(ops)})
		st["sameshare_contests"]++
		if rng.Intn(2) == 0 {
			for _, s := range rest[pre:] {
				phases = append(phases, &phaseT{ops: []*opT{ext(g.newVal(k, s, 0))}, g: 1})
			}
		}
	}

	return phases
}

// runPerm generates a small scenario and runs every order of its batches on a fresh DB each.
func (g *gen) runPerm(st stats) string {
	rng := g.rng
	var ops []*opT
	for try := 0; ; try++ {
		g.sc.keys, g.sc.real, g.sc.vals = nil, nil, nil
		d, real := g.pickDuty(map[core.Duty]bool{}, true)
		nKeys := 1 + rng.Intn(2)
		pkPerm := rng.Perm(len(pkPool))
		for i := 0; i < nKeys; i++ {
			sub := uint64(0)
			if core.IsSyncSubcommitteeDuty(d.Type) {
				sub = uint64(rng.Intn(2))
			}
			g.addKey(d, pkPool[pkPerm[i]], sub, real)
		}
		lists := map[int][]*val{}
		for k := range g.sc.keys {
			l := g.keyList(k, true)
			if nKeys == 2 && len(l) > 4 {
				l = l[:4]
			}
			lists[k] = l
		}
		ops = g.pack(lists)
		if len(ops) >= 3 && (len(ops) <= 5 || (len(ops) == 6 && rng.Intn(4) == 0)) {
			break
		}
		if try > 50 {
			if len(ops) > 6 {
				ops = ops[:6]
			}

			break
		}
	}
	desc := g.describe([]*phaseT{{ops: ops, g: 1}}) + "/all-orders"
	idx := make([]int, len(ops))
	for i := range idx {
		idx[i] = i
	}
	var rec func(k int)
	rec = func(k int) {
		if k == len(idx) {
			phases := make([]*phaseT, len(idx))
			for i, j := range idx {
				phases[i] = &phaseT{ops: []*opT{ops[j]}, g: 1}
			}
			runWorld(g.c, g.sc, phases, st)
			st["perm_orders"]++

			return
		}
		for i := k; i < len(idx); i++ {
			idx[k], idx[i] = idx[i], idx[k]
			rec(k + 1)
			idx[k], idx[i] = idx[i], idx[k]
		}
	}
	rec(0)

	return desc
}

func (g *gen) describe(phases []*phaseT) string {
	var b strings.Builder
	sc := g.sc
	fmt.Fprintf(&b, "%s n=%d t=%d thr=%d int=%d yield=%v;", sc.kind, sc.n, sc.t, sc.nThr, sc.nInt, sc.y != nil)
	for i, k := range sc.keys {
		fmt.Fprintf(&b, " k%d=%s/%d/pk%s/sub%d/real=%v", i, k.Duty.Type, k.Duty.Slot, k.PK, k.Sub, sc.real[i])
	}
	for _, ph := range phases {
		fmt.Fprintf(&b, " |g%d", ph.g)
		for _, d := range ph.expireDuring {
			fmt.Fprintf(&b, " expire-during(%v)", d)
		}
		for _, o := range ph.ops {
			m := "E"
			if o.internal {
				m = "I"
			}
			b.WriteString(" " + m + "{")
			for _, v := range o.vals {
				fmt.Fprintf(&b, "k%d.s%d.v%d.r%d ", v.key, v.share, v.id, v.variant)
			}
			b.WriteString("}")
		}
		for _, d := range ph.expireAfter {
			fmt.Fprintf(&b, " expire(%v)", d)
		}
	}

	return b.String()
}

// ---------------------------------------------------------------------------------------------
// world: one MemDB instance + monitors + oracle state

type ctxKey struct{}

type callRec struct {
	ID        int      `json:"call"`
	Phase     int      `json:"phase"`
	Method    string   `json:"method"`
	Duty      string   `json:"duty"`
	Entries   []string `json:"entries"`
	Resubmit  bool     `json:"resubmit_of_failed_batch,omitempty"`
	Expired   bool     `json:"duty_expired_before_call,omitempty"`
	Err       string   `json:"err,omitempty"`
	Returned  bool     `json:"returned"`
	op        *opT
	accAtCall []*val // accepted value of each entry's slot when the call started
}

type trigRec struct {
	Key       int      `json:"key"`
	Sub       int      `json:"subscriber"`
	Call      int      `json:"during_call"`
	Partials  []string `json:"partials"`
	vals      []*val
	verified  bool
	otherRoot bool
}

type world struct {
	c      *kit.Case
	sc     *scenario
	st     stats
	db     *parsigdb.MemDB
	dl     *deadliner
	keyIdx map[keyT]int
	lookup map[slotT]map[string]*val // static: content -> val

	mu        sync.Mutex
	phase     int
	calls     []*callRec
	submitted map[slotT][]*val
	accepted  map[slotT]*val
	trigs     []*trigRec
	trigCount map[[2]int]int // (key, subscriber)
	intCount  map[[2]int]int // (call, subscriber)
	expired   map[core.Duty]bool
	batchErr  map[int]bool // key was part of a multi-entry call that returned an error
	reported  map[string]bool
	lostDone  map[[2]int]bool
	events    []string
	stuck     bool
	conc      bool        // current phase runs more than one goroutine
	callTrig  map[int]int // call -> triggers fired during it

	// never-expiring duties: per (share, validator, duty type) the keys by recency of the share's
	// (possibly) fresh stores, newest first; a key behind position exemptCap may have lost that
	// share's partial to the cap and is from then on not judged for exactly-once / no-loss.
	exemptL     map[exemptEK][][]int // groups of keys, newest group first; the order inside a group (stored concurrently) is unknown
	placeholder int
	pretouched  bool // the running phase registered its never-expiring stores up front (preTaint)
	tainted     map[int]bool
}

type exemptEK struct {
	share int
	pk    core.PubKey
	typ   core.DutyType
}

func runWorld(c *kit.Case, sc *scenario, phases []*phaseT, st stats) {
	ctx, cancel := context.WithCancel(context.Background())
	defer cancel()
	w := &world{
		c: c, sc: sc, st: st, dl: newDeadliner(sc.y),
		keyIdx: map[keyT]int{}, lookup: map[slotT]map[string]*val{},
		submitted: map[slotT][]*val{}, accepted: map[slotT]*val{},
		trigCount: map[[2]int]int{}, intCount: map[[2]int]int{}, expired: map[core.Duty]bool{},
		batchErr: map[int]bool{}, reported: map[string]bool{}, lostDone: map[[2]int]bool{},
		callTrig: map[int]int{}, exemptL: map[exemptEK][][]int{}, tainted: map[int]bool{},
	}
	for i, k := range sc.keys {
		w.keyIdx[k] = i
	}
	for _, v := range sc.vals {
		s := slotT{v.key, v.share}
		if w.lookup[s] == nil {
			w.lookup[s] = map[string]*val{}
		}
		w.lookup[s][v.content] = v
	}
	w.db = parsigdb.NewMemDB(sc.t, w.dl, parsigdb.NewMemDBMetadata(12, time.Unix(1606824023, 0)))
	for s := 0; s < sc.nThr; s++ {
		w.db.SubscribeThreshold(w.threshSub(s))
	}
	for s := 0; s < sc.nInt; s++ {
		w.db.SubscribeInternal(w.internalSub(s))
	}
	trimDone := make(chan struct{})
	go func() { defer close(trimDone); w.db.Trim(ctx) }()

	for pi, ph := range phases {
		w.mu.Lock()
		w.phase = pi
		w.conc = ph.g > 1 && len(ph.ops) > 1
		w.pretouched = false
		w.mu.Unlock()
		w.runPhase(ph)
		if w.stuck {
			c.R.Inconclusive("case %d: Trim did not consume an expired duty within the watchdog", c.Idx)

			break
		}
		w.checkQuiescent()
	}
	w.finalStats()
	cancel()
	<-trimDone
}

func (w *world) runPhase(ph *phaseT) {
	if ph.g <= 1 && len(ph.expireDuring) == 0 {
		for _, o := range ph.ops {
			w.exec(o, false)
		}
	} else {
		g := ph.g
		if g < 1 {
			g = 1
		}
		w.preTaint(ph)
		start := make(chan struct{})
		var wg sync.WaitGroup
		for i := 0; i < g; i++ {
			var mine []*opT
			for j := i; j < len(ph.ops); j += g {
				mine = append(mine, ph.ops[j])
			}
			if len(mine) == 0 {
				continue
			}
			wg.Add(1)
			go func() {
				defer wg.Done()
				<-start
				for _, o := range mine {
					w.exec(o, false)
				}
			}()
		}
		for _, d := range ph.expireDuring {
			wg.Add(1)
			go func() {
				defer wg.Done()
				<-start
				w.expire(d)
			}()
		}
		close(start)
		wg.Wait()
		if g > 1 {
			w.st["concurrent_phases"]++
		}
	}
	for _, d := range ph.expireAfter {
		w.expire(d)
	}
}

func (w *world) expire(d core.Duty) {
	w.mu.Lock()
	w.expired[d] = true
	w.events = append(w.events, fmt.Sprintf("phase %d: duty %v expired", w.phase, d))
	w.st["duties_expired"]++
	w.mu.Unlock()
	if !w.dl.expire(d) {
		w.mu.Lock()
		w.stuck = true
		w.mu.Unlock()
	}
}

// exec performs one Store call and, if a multi-entry call failed, re-submits its entries one by one.
func (w *world) exec(o *opT, resubmit bool) {
	set := make(core.ParSignedDataSet, len(o.vals))
	for _, v := range o.vals {
		sd, err := v.sd.Clone() // the DB never sees harness-owned memory twice
		if err != nil {
			panic(err)
		}
		set[w.sc.keys[v.key].PK] = core.ParSignedData{SignedData: sd, ShareIdx: v.share}
	}

	w.mu.Lock()
	rec := &callRec{ID: len(w.calls), Phase: w.phase, Method: "StoreExternal", Duty: o.duty.String(), Resubmit: resubmit, op: o, Expired: w.expired[o.duty]}
	if o.internal {
		rec.Method = "StoreInternal"
	}
	for _, v := range o.vals {
		rec.Entries = append(rec.Entries, v.String())
		s := slotT{v.key, v.share}
		rec.accAtCall = append(rec.accAtCall, w.accepted[s])
		if !rec.Expired {
			known := false
			for _, u := range w.submitted[s] {
				known = known || u == v
			}
			if !known {
				w.submitted[s] = append(w.submitted[s], v)
			}
		}
	}
	w.calls = append(w.calls, rec)
	w.mu.Unlock()

	ctx := context.WithValue(context.Background(), ctxKey{}, rec.ID)
	var err error
	if o.internal {
		err = w.db.StoreInternal(ctx, o.duty, set)
	} else {
		err = w.db.StoreExternal(ctx, o.duty, set)
	}

	w.afterCall(rec, err)

	if err != nil && len(o.vals) > 1 && !rec.Expired {
		for _, v := range o.vals {
			w.exec(&opT{duty: o.duty, internal: o.internal, vals: []*val{v}}, true)
		}
	}
}

func (w *world) afterCall(rec *callRec, err error) {
	w.mu.Lock()
	defer w.mu.Unlock()
	o := rec.op
	rec.Returned = true
	if err != nil {
		rec.Err = err.Error()
	}
	w.st["store_calls"]++
	if len(o.vals) > 1 {
		w.st["multi_validator_batches"]++
	}

	// internal subscribers (7)
	for s := 0; s < w.sc.nInt; s++ {
		cnt := w.intCount[[2]int{rec.ID, s}]
		switch {
		case !o.internal && cnt > 0:
			w.fail(sigIntOnExternal, fmt.Sprintf("internal subscriber %d called %d times for StoreExternal call %d", s, cnt, rec.ID))
		case cnt > 1:
			w.fail(sigIntTwice, fmt.Sprintf("internal subscriber %d called %d times for one StoreInternal call (%d)", s, cnt, rec.ID))
		case o.internal && err == nil && !rec.Expired && cnt != 1:
			w.fail(sigIntMissing, fmt.Sprintf("StoreInternal call %d returned nil but internal subscriber %d was called %d times", rec.ID, s, cnt))
		}
		if o.internal && rec.Expired && cnt > 0 {
			w.st["internal_sub_called_for_expired_duty"]++
		}
	}

	if rec.Expired {
		w.st["calls_on_expired_duty"]++
		if err != nil {
			w.st["calls_on_expired_duty_returned_error"]++
		}

		return
	}

	if err == nil {
		for i, v := range o.vals {
			s := slotT{v.key, v.share}
			acc := w.accepted[s]
			switch {
			case acc == nil:
				w.accepted[s] = v
				w.st["partials_accepted"]++
				if v.variant != 0 {
					w.st["minority_accepted"]++
				}
				w.exemptTouch(v)
			case w.tainted[v.key]:
				// the share's earlier partial may have been evicted by the cap: this may be a fresh
				// store (of the same or of another value); not judged, but it ages the share's other entries.
				w.accepted[s] = v
				w.exemptTouch(v)
			case acc == v:
				if rec.accAtCall[i] == v {
					w.st["duplicates_ignored"]++
				}
			default:
				w.fail(sigEquivAccepted, fmt.Sprintf("call %d returned nil for %v although a different value %v of the same share had been accepted", rec.ID, v, acc))
			}
		}

		return
	}

	// error returned
	if len(o.vals) > 1 {
		w.st["batch_errors"]++
		if w.callTrig[rec.ID] > 0 {
			w.st["triggers_delivered_by_batches_that_returned_error"] += int64(w.callTrig[rec.ID])
		}
		for _, v := range o.vals {
			w.batchErr[v.key] = true
		}
	}
	if !strings.Contains(err.Error(), "mismatching partial signed data") {
		w.fail(sigErrKind, fmt.Sprintf("call %d returned an error other than the equivocation rejection: %v", rec.ID, err))

		return
	}
	legit, allDup := false, true
	for i, v := range o.vals {
		if rec.accAtCall[i] == v {
			continue // already accepted before the call: can only be a duplicate
		}
		allDup = false
		for _, u := range w.submitted[slotT{v.key, v.share}] {
			if u != v {
				legit = true
			}
		}
	}
	switch {
	case legit:
		if len(o.vals) == 1 {
			w.st["equivocations_rejected"]++
		}
	case allDup:
		w.fail(sigDupRejected, fmt.Sprintf("call %d consists only of duplicates of accepted partials but returned %v", rec.ID, err))
	default:
		w.fail(sigErrNoConflict, fmt.Sprintf("call %d returned %v although no entry conflicts with any submitted value", rec.ID, err))
	}
}

// exemptTouch records a (possibly) fresh store of v's share at v's never-expiring key: the key
// becomes the share's newest entry; keys that may now be behind position exemptCap may have lost
// this share's partial. In a concurrent phase the stores were registered up front by preTaint
// (their order is unknown), so nothing is done here. w.mu must be held.
func (w *world) exemptTouch(v *val) {
	key := w.sc.keys[v.key]
	if !exemptType(key.Duty.Type) || w.pretouched {
		return
	}
	ek := exemptEK{share: v.share, pk: key.PK, typ: key.Duty.Type}
	w.exemptFront(ek, []int{v.key}, fmt.Sprintf("call %d", len(w.calls)-1))
}

// exemptFront makes keys (stored in unknown order among themselves) the newest group of the share
// and stops judging every key whose largest possible position is exemptCap or more.
func (w *world) exemptFront(ek exemptEK, keys []int, when string) {
	in := map[int]bool{}
	for _, k := range keys {
		in[k] = true
	}
	out := [][]int{keys}
	n := len(keys)
	for _, grp := range w.exemptL[ek] {
		var rest []int
		for _, k := range grp {
			if !in[k] {
				rest = append(rest, k)
			}
		}
		if len(rest) > 0 {
			out = append(out, rest)
			n += len(rest)
		}
	}
	w.exemptL[ek] = out
	if n > exemptCap {
		w.st["exempt_fresh_stores_by_share_beyond_cap"] += int64(len(keys))
	}
	newer := 0
	for _, grp := range out {
		if newer+len(grp)-1 >= exemptCap { // some order puts every key of this group at or behind the cap
			for _, k := range grp {
				if k >= 0 && !w.tainted[k] {
					w.tainted[k] = true
					w.st["exempt_keys_no_longer_judged"]++
					w.events = append(w.events, fmt.Sprintf("%s: k%d no longer judged (share %d may have stored %d newer never-expiring duties)", when, k, ek.share, exemptCap))
				}
			}
		}
		newer += len(grp)
	}
}

// exemptLen is the number of distinct never-expiring duties the share has (possibly) stored.
func (w *world) exemptLen(ek exemptEK) int {
	n := 0
	for _, grp := range w.exemptL[ek] {
		n += len(grp)
	}

	return n
}

// preTaint runs before a concurrent phase: the order in which the phase's stores of never-expiring
// duties happen is unknown, so they are registered up front as one unordered newest group per
// share, and every key that some order could evict a share's partial from stops being judged for
// exactly-once / no-loss before the phase starts. A key that already holds an accepted partial of
// the share and is still judged cannot be stored freshly (the partial is there), so it keeps its
// position; it still counts as a possible store for the ageing of the others.
func (w *world) preTaint(ph *phaseT) {
	w.mu.Lock()
	defer w.mu.Unlock()
	w.pretouched = true
	touched := map[exemptEK][]int{}
	var eks []exemptEK
	for _, o := range ph.ops {
		if !exemptType(o.duty.Type) || w.expired[o.duty] {
			continue
		}
		for _, v := range o.vals {
			ek := exemptEK{share: v.share, pk: w.sc.keys[v.key].PK, typ: o.duty.Type}
			dup := false
			for _, k := range touched[ek] {
				dup = dup || k == v.key
			}
			if !dup {
				if len(touched[ek]) == 0 {
					eks = append(eks, ek)
				}
				touched[ek] = append(touched[ek], v.key)
			}
		}
	}
	for _, ek := range eks {
		var move []int
		pad := 0
		for _, k := range touched[ek] {
			if w.accepted[slotT{k, ek.share}] != nil && !w.tainted[k] {
				pad++ // cannot be a fresh store; only ages the others (conservatively)

				continue
			}
			move = append(move, k)
		}
		for i := 0; i < pad; i++ {
			w.placeholder--
			move = append(move, w.placeholder) // placeholders: possible stores that occupy a position
		}
		if len(move) > 0 {
			before := w.st["exempt_keys_no_longer_judged"]
			w.exemptFront(ek, move, fmt.Sprintf("phase %d (concurrent)", w.phase))
			w.st["exempt_keys_pretainted_for_concurrent_eviction"] += w.st["exempt_keys_no_longer_judged"] - before
		}
	}
}

// beyondCap reports whether some share holding an accepted partial of the (never-expiring) key
// has a history longer than the cap. w.mu must be held.
func (w *world) beyondCap(k int) bool {
	key := w.sc.keys[k]
	if !exemptType(key.Duty.Type) {
		return false
	}
	for sh := 1; sh <= w.sc.n; sh++ {
		if w.accepted[slotT{k, sh}] != nil && w.exemptLen(exemptEK{share: sh, pk: key.PK, typ: key.Duty.Type}) > exemptCap {
			return true
		}
	}

	return false
}

// beyondCapDuring is beyondCap including the shares whose partials for k are being stored by the
// call in flight. w.mu must be held.
func (w *world) beyondCapDuring(k, call int) bool {
	if w.beyondCap(k) {
		return true
	}
	key := w.sc.keys[k]
	if !exemptType(key.Duty.Type) || call < 0 || call >= len(w.calls) {
		return false
	}
	for _, v := range w.calls[call].op.vals {
		if v.key == k && w.exemptLen(exemptEK{share: v.share, pk: key.PK, typ: key.Duty.Type}) >= exemptCap {
			return true
		}
	}

	return false
}

func (w *world) threshSub(sub int) func(context.Context, core.Duty, map[core.PubKey][]core.ParSignedData) error {
	return func(ctx context.Context, duty core.Duty, m map[core.PubKey][]core.ParSignedData) error {
		w.sc.y.at(ypThreshSub)
		call, _ := ctx.Value(ctxKey{}).(int)
		type item struct {
			pk       core.PubKey
			sub      uint64
			shares   []int
			contents []string
			roots    [][32]byte
			err      error
		}
		var items []item
		for pk, ps := range m {
			it := item{pk: pk}
			for i, p := range ps {
				if i == 0 {
					sc, err := core.SyncSubcommitteeIndex(duty.Type, p.SignedData)
					if err != nil {
						it.err = err
					}
					it.sub = uint64(sc)
				}
				content, err := contentOf(p.SignedData)
				if err != nil {
					it.err = err
				}
				root, err := rootFor(duty.Type, p.SignedData)
				if err != nil {
					it.err = err
				}
				it.shares = append(it.shares, p.ShareIdx)
				it.contents = append(it.contents, content)
				it.roots = append(it.roots, root)
			}
			items = append(items, it)
		}

		w.mu.Lock()
		for _, it := range items {
			w.st["triggers"]++
			k, ok := w.keyIdx[keyT{Duty: duty, PK: it.pk, Sub: it.sub}]
			if !ok || it.err != nil || len(it.shares) == 0 {
				w.fail(sigUnknownKey, fmt.Sprintf("threshold subscriber %d called for (%v,%s,sub %d) with %d partials (err %v): not a key of this workload", sub, duty, it.pk, it.sub, len(it.shares), it.err))

				continue
			}
			tr := &trigRec{Key: k, Sub: sub, Call: call}
			w.trigs = append(w.trigs, tr)
			w.callTrig[call]++
			if w.conc {
				w.st["triggers_in_concurrent_phases"]++
			}
			if w.sc.real[k] {
				w.st["real_type_triggers"]++
			}
			seenShare := map[int]bool{}
			roots := map[[32]byte]bool{}
			foreign, repeated := -1, -1
			for i, sh := range it.shares {
				v := w.lookup[slotT{k, sh}][it.contents[i]]
				submitted := false
				if v != nil {
					for _, u := range w.submitted[slotT{k, sh}] {
						submitted = submitted || u == v
					}
				}
				if v == nil || !submitted {
					tr.Partials = append(tr.Partials, fmt.Sprintf("share%d/UNKNOWN %s", sh, kit.Short(it.contents[i], 120)))
					foreign = sh
				} else {
					tr.Partials = append(tr.Partials, v.String())
					tr.vals = append(tr.vals, v)
				}
				if seenShare[sh] {
					repeated = sh
				}
				seenShare[sh] = true
				roots[it.roots[i]] = true
			}
			if w.expired[duty] {
				w.fail(sigExpiredTrig, fmt.Sprintf("trigger for key k%d of duty %v after the duty expired", k, duty))
			}
			if call >= 0 && call < len(w.calls) && len(roots) == 1 {
				for _, v := range w.calls[call].op.vals {
					if v.key == k && !roots[v.root] {
						tr.otherRoot = true // fired while storing a partial that does not belong to the handed set
					}
				}
			}
			w.trigCount[[2]int{k, sub}]++
			if sub == 0 {
				w.st["triggers/"+duty.Type.String()]++
				if w.sc.t == w.sc.n {
					w.st["triggers_threshold_eq_n"]++
				} else {
					w.st["triggers_threshold_lt_n"]++
				}
			}
			if sub == 0 && w.tainted[k] && w.conc && w.sc.kind == "exemptrace" {
				w.st["exemptrace_triggers_on_keys_under_eviction"]++
			}
			capClass := w.beyondCapDuring(k, call)
			if capClass && !w.tainted[k] && sub == 0 {
				w.st["exempt_triggers_on_judged_key_with_share_beyond_cap"]++
			}
			if c := w.trigCount[[2]int{k, sub}]; c > 1 && !w.tainted[k] {
				// input class: was one of the triggers fired by a call that brought a partial with another root?
				sig := sigDupTrigger
				for _, o := range w.trigs {
					if o.Key == k && o.Sub == sub && o.otherRoot {
						sig = sigDupTriggerOtherRoot
					}
				}
				if capClass {
					sig += suffixBeyondCap
				}
				if duty.Type == core.DutySignature {
					sig += suffixSignatureDuty
				}
				w.fail(sig, fmt.Sprintf("threshold subscriber %d triggered %d times for key k%d (%v)", sub, c, k, w.sc.keys[k]))
			} else if c > 1 {
				w.st["exempt_repeated_triggers_on_keys_no_longer_judged"]++
			}
			if foreign >= 0 {
				w.fail(sigForeign, fmt.Sprintf("trigger for key k%d carries a partial of share %d that is not content-equal to any partial submitted for it", k, foreign))
			}
			if repeated >= 0 {
				w.fail(sigRepeated, fmt.Sprintf("trigger for key k%d carries share %d more than once", k, repeated))
			}
			if len(roots) > 1 {
				w.fail(sigMixed, fmt.Sprintf("trigger for key k%d carries partials with %d different message roots", k, len(roots)))
			}
			if len(it.shares) < w.sc.t {
				w.fail(sigBelow, fmt.Sprintf("trigger for key k%d carries %d partials, threshold is %d", k, len(it.shares), w.sc.t))
			}
			if len(it.shares) > w.sc.t {
				w.st["triggers_with_more_than_threshold_partials"]++
			}
		}
		w.mu.Unlock()

		// Scribble over what was handed to this subscriber: it must be this subscriber's own copy.
		for pk, ps := range m {
			for i := range ps {
				ps[i] = core.ParSignedData{}
			}
			delete(m, pk)
		}

		return nil
	}
}

func (w *world) internalSub(sub int) func(context.Context, core.Duty, core.ParSignedDataSet) error {
	return func(ctx context.Context, duty core.Duty, set core.ParSignedDataSet) error {
		w.sc.y.at(ypInternalSub)
		call, ok := ctx.Value(ctxKey{}).(int)
		got := map[core.PubKey]string{}
		for pk, p := range set {
			content, err := contentOf(p.SignedData)
			if err != nil {
				content = "ERR " + err.Error()
			}
			got[pk] = fmt.Sprintf("%d/%s", p.ShareIdx, content)
		}
		w.mu.Lock()
		w.st["internal_sub_calls"]++
		if !ok || call < 0 || call >= len(w.calls) {
			w.fail(sigIntWrongSet, fmt.Sprintf("internal subscriber %d called outside any StoreInternal call", sub))
			w.mu.Unlock()

			return nil
		}
		rec := w.calls[call]
		w.intCount[[2]int{call, sub}]++
		want := map[core.PubKey]string{}
		for _, v := range rec.op.vals {
			want[w.sc.keys[v.key].PK] = fmt.Sprintf("%d/%s", v.share, v.content)
		}
		same := len(want) == len(got) && duty == rec.op.duty
		for pk, s := range want {
			same = same && got[pk] == s
		}
		if !same {
			w.fail(sigIntWrongSet, fmt.Sprintf("internal subscriber %d received a set that differs from the set stored by StoreInternal call %d", sub, call))
		}
		w.mu.Unlock()
		for pk := range set {
			delete(set, pk)
		}

		return nil
	}
}

// checkQuiescent runs when no store is in flight: the accepted set is exact (oracles 3, 4, 5).
func (w *world) checkQuiescent() {
	w.mu.Lock()
	defer w.mu.Unlock()
	for k, key := range w.sc.keys {
		if w.expired[key.Duty] {
			continue // frozen; the online oracle forbids any further trigger
		}
		if w.tainted[k] {
			continue // a share's partial may have been evicted by the never-expiring cap: not judged
		}
		counts := map[[32]byte]int{}
		for sh := 1; sh <= w.sc.n; sh++ {
			s := slotT{k, sh}
			acc := w.accepted[s]
			if acc == nil {
				if len(w.submitted[s]) > 0 && !w.reported[sigAllRejected] {
					w.fail(sigAllRejected, fmt.Sprintf("every value submitted for key k%d share %d was rejected (%d distinct values)", k, sh, len(w.submitted[s])))
				}

				continue
			}
			counts[acc.root]++
		}
		reached := false
		for _, c := range counts {
			reached = reached || c >= w.sc.t
		}
		for sub := 0; sub < w.sc.nThr; sub++ {
			cnt := w.trigCount[[2]int{k, sub}]
			id := [2]int{k, sub}
			switch {
			case reached && cnt == 0 && !w.lostDone[id]:
				w.lostDone[id] = true
				if key.Duty.Type == core.DutySignature {
					w.fail(sigLost+suffixSignatureDuty, fmt.Sprintf("key k%d (%v) has %d accepted partial signatures of distinct shares (threshold %d) but subscriber %d was never triggered", k, key, maxCount(counts), w.sc.t, sub))
				} else if w.beyondCap(k) {
					w.fail(sigLost+suffixBeyondCap, fmt.Sprintf("key k%d (%v) has %d accepted partials with one root (threshold %d), each among the newest %d never-expiring duties of its share, but subscriber %d was never triggered", k, key, maxCount(counts), w.sc.t, exemptCap, sub))
				} else if w.batchErr[k] {
					w.fail(sigLostAfterBatchErr, fmt.Sprintf("key k%d (%v) has %d accepted partials with one root (threshold %d) but subscriber %d was never triggered; "+
						"its completing partial travelled in a multi-validator batch that returned an error for another entry, the partial stayed stored (re-submission is a duplicate)", k, key, maxCount(counts), w.sc.t, sub))
				} else {
					w.fail(sigLost, fmt.Sprintf("key k%d (%v) has %d accepted partials with one root (threshold %d) but subscriber %d was never triggered", k, key, maxCount(counts), w.sc.t, sub))
				}
			case !reached && cnt > 0 && !w.lostDone[id]:
				w.lostDone[id] = true
				w.fail(sigNoThreshold, fmt.Sprintf("key k%d triggered although at most %d accepted partials share a root (threshold %d)", k, maxCount(counts), w.sc.t))
			}
		}
	}
	for _, tr := range w.trigs {
		if tr.verified || w.expired[w.sc.keys[tr.Key].Duty] || w.tainted[tr.Key] {
			continue
		}
		tr.verified = true
		for _, v := range tr.vals {
			if acc := w.accepted[slotT{v.key, v.share}]; acc != v {
				w.fail(sigUnaccepted, fmt.Sprintf("trigger for key k%d carries %v but the accepted value of that share is %v (a rejected equivocation reached aggregation)", tr.Key, v, acc))
			}
		}
	}
}

func maxCount(m map[[32]byte]int) int {
	mx := 0
	for _, c := range m {
		if c > mx {
			mx = c
		}
	}

	return mx
}

func (w *world) finalStats() {
	w.mu.Lock()
	defer w.mu.Unlock()
	for k, key := range w.sc.keys {
		if !w.expired[key.Duty] && !w.tainted[k] {
			counts := map[[32]byte]int{}
			for sh := 1; sh <= w.sc.n; sh++ {
				if acc := w.accepted[slotT{k, sh}]; acc != nil {
					counts[acc.root]++
				}
			}
			if maxCount(counts) > w.sc.t {
				w.st["keys_with_more_than_threshold_matching_accepted"]++
				if key.Duty.Type == core.DutySignature {
					w.st["signature_duty_keys_with_more_than_threshold_shares_accepted"]++
				}
			}
			if key.Duty.Type == core.DutySignature && maxCount(counts) >= w.sc.t && w.sc.t == w.sc.n {
				w.st["signature_duty_keys_complete_n_of_n"]++
			}
		}
		if w.trigCount[[2]int{k, 0}] > 0 {
			w.st["keys_reached_threshold"]++
		} else if !w.expired[key.Duty] {
			w.st["keys_below_threshold_at_end"]++
		}
	}
	if w.sc.kind == "sameshare" {
		for s, vs := range w.submitted {
			if len(vs) >= 2 && w.accepted[s] != nil {
				w.st["sameshare_contests_decided"]++
			}
		}
	}
	w.dl.mu.Lock()
	w.st["deadliner_adds"] += int64(w.dl.adds)
	w.dl.mu.Unlock()
}

// fail records a violation once per world and signature; w.mu must be held.
func (w *world) fail(sig, what string) {
	if w.reported[sig] {
		return
	}
	w.reported[sig] = true
	keys := make([]string, len(w.sc.keys))
	for i, k := range w.sc.keys {
		keys[i] = fmt.Sprintf("k%d=%v real=%v", i, k, w.sc.real[i])
	}
	acc := []string{}
	for s, v := range w.accepted {
		acc = append(acc, fmt.Sprintf("k%d/share%d=v%d/root%d", s.key, s.share, v.id, v.variant))
	}
	sort.Strings(acc)
	w.c.Violation(sig, what, map[string]any{
		"kind": w.sc.kind, "n": w.sc.n, "threshold": w.sc.t, "keys": keys,
		"threshold_subscribers": w.sc.nThr, "internal_subscribers": w.sc.nInt,
		"calls": w.calls, "triggers": w.trigs, "events": w.events, "accepted": acc,
	})
}
