package c10

// Independent re-verification: signing root = hash_tree_root(SigningData{object root, domain}),
// object root via go-eth2-client's HashTreeRoot of the signed message, domain computed here from
// the mock's spec / genesis / fork schedule and the object's own epoch, tbls.Verify against the
// lock's public share. Nothing in this file calls charon's MessageRoot / Epoch / DomainName /
// signing.* helpers.

import (
	"encoding/binary"
	"encoding/hex"
	"errors"
	"fmt"
	"reflect"

	eth2api "github.com/attestantio/go-eth2-client/api"
	eth2v1 "github.com/attestantio/go-eth2-client/api/v1"
	eth2spec "github.com/attestantio/go-eth2-client/spec"
	"github.com/attestantio/go-eth2-client/spec/altair"
	eth2p0 "github.com/attestantio/go-eth2-client/spec/phase0"

	"github.com/obolnetwork/charon/core"
	"github.com/obolnetwork/charon/eth2util"
	"github.com/obolnetwork/charon/tbls"
)

const (
	domProposer     = "DOMAIN_BEACON_PROPOSER"
	domAttester     = "DOMAIN_BEACON_ATTESTER"
	domRandao       = "DOMAIN_RANDAO"
	domExit         = "DOMAIN_VOLUNTARY_EXIT"
	domBuilder      = "DOMAIN_APPLICATION_BUILDER"
	domSelection    = "DOMAIN_SELECTION_PROOF"
	domAggregate    = "DOMAIN_AGGREGATE_AND_PROOF"
	domSyncComm     = "DOMAIN_SYNC_COMMITTEE"
	domSyncSel      = "DOMAIN_SYNC_COMMITTEE_SELECTION_PROOF"
	domContribution = "DOMAIN_CONTRIBUTION_AND_PROOF"
)

var allDomains = []string{domProposer, domAttester, domRandao, domExit, domBuilder, domSelection, domAggregate, domSyncComm, domSyncSel, domContribution}

type hashRooter interface {
	HashTreeRoot() ([32]byte, error)
}

// sigInfo is what the signature of an object is supposed to cover.
type sigInfo struct {
	Root   [32]byte
	Domain string
	Epoch  uint64
	Slot   uint64 // slot the duty of the object belongs to
	Sig    eth2p0.BLSSignature
}

func uint64Root(v uint64) [32]byte {
	var r [32]byte
	binary.LittleEndian.PutUint64(r[:8], v)

	return r
}

var versionField = map[eth2spec.DataVersion]string{
	eth2spec.DataVersionPhase0: "Phase0", eth2spec.DataVersionAltair: "Altair", eth2spec.DataVersionBellatrix: "Bellatrix",
	eth2spec.DataVersionCapella: "Capella", eth2spec.DataVersionDeneb: "Deneb", eth2spec.DataVersionElectra: "Electra",
	eth2spec.DataVersionFulu: "Fulu",
}

// versioned returns the non-nil pointer stored in the field of obj that belongs to version (plus
// "Blinded" for blinded proposals).
func versioned(obj any, version eth2spec.DataVersion, blinded bool) (reflect.Value, error) {
	name, ok := versionField[version]
	if !ok {
		return reflect.Value{}, fmt.Errorf("unknown version %d", uint64(version))
	}
	if blinded {
		name += "Blinded"
	}
	f := reflect.ValueOf(obj).Elem().FieldByName(name)
	if !f.IsValid() {
		return reflect.Value{}, fmt.Errorf("no field %s", name)
	}
	if f.Kind() != reflect.Ptr || f.IsNil() {
		return reflect.Value{}, fmt.Errorf("no %s data", name)
	}

	return f, nil
}

// signedBlockOf returns the pointer to the {Message, Signature} struct of a proposal.
func signedBlockOf(p *eth2api.VersionedSignedProposal) (reflect.Value, error) {
	f, err := versioned(p, p.Version, p.Blinded)
	if err != nil {
		return reflect.Value{}, err
	}
	if sb := f.Elem().FieldByName("SignedBlock"); sb.IsValid() {
		if sb.IsNil() {
			return reflect.Value{}, errors.New("no signed block")
		}

		return sb, nil
	}

	return f, nil
}

func msgAndSig(signed reflect.Value) (msg reflect.Value, sig eth2p0.BLSSignature, err error) {
	m := signed.Elem().FieldByName("Message")
	s := signed.Elem().FieldByName("Signature")
	if !m.IsValid() || !s.IsValid() || m.Kind() != reflect.Ptr {
		return reflect.Value{}, sig, errors.New("not a signed container")
	}
	if m.IsNil() {
		return reflect.Value{}, sig, errors.New("no message")
	}

	return m, s.Interface().(eth2p0.BLSSignature), nil
}

func htr(v reflect.Value) ([32]byte, error) {
	h, ok := v.Interface().(hashRooter)
	if !ok {
		return [32]byte{}, fmt.Errorf("%s has no HashTreeRoot", v.Type())
	}

	return h.HashTreeRoot()
}

func blindedToProposal(bp *eth2api.VersionedSignedBlindedProposal) *eth2api.VersionedSignedProposal {
	return &eth2api.VersionedSignedProposal{
		Version: bp.Version, Blinded: true,
		BellatrixBlinded: bp.Bellatrix, CapellaBlinded: bp.Capella, DenebBlinded: bp.Deneb,
		ElectraBlinded: bp.Electra, FuluBlinded: bp.Fulu,
	}
}

// attOf returns the attestation data and signature of a versioned attestation.
func attOf(a *eth2spec.VersionedAttestation) (*eth2p0.AttestationData, eth2p0.BLSSignature, error) {
	f, err := versioned(a, a.Version, false)
	if err != nil {
		return nil, eth2p0.BLSSignature{}, err
	}
	d := f.Elem().FieldByName("Data")
	if d.IsNil() {
		return nil, eth2p0.BLSSignature{}, errors.New("no attestation data")
	}
	data := d.Interface().(*eth2p0.AttestationData)
	if data.Source == nil || data.Target == nil {
		return nil, eth2p0.BLSSignature{}, errors.New("no checkpoints")
	}

	return data, f.Elem().FieldByName("Signature").Interface().(eth2p0.BLSSignature), nil
}

// inspect computes what the signature carried by item must cover. item is a pointer to the
// go-eth2-client (or, for randao, eth2util.SignedEpoch / api.ProposalOpts) value.
func (w *world) inspect(item any) (info sigInfo, err error) {
	defer func() {
		if r := recover(); r != nil {
			err = fmt.Errorf("inspect panic: %v", r)
		}
	}()
	switch x := item.(type) {
	case *eth2spec.VersionedAttestation:
		data, sig, err := attOf(x)
		if err != nil {
			return info, err
		}
		root, err := data.HashTreeRoot()
		if err != nil {
			return info, err
		}

		return sigInfo{Root: root, Domain: domAttester, Epoch: uint64(data.Target.Epoch), Slot: uint64(data.Slot), Sig: sig}, nil
	case *eth2api.VersionedSignedBlindedProposal:
		return w.inspect(blindedToProposal(x))
	case *eth2api.VersionedSignedProposal:
		sb, err := signedBlockOf(x)
		if err != nil {
			return info, err
		}
		msg, sig, err := msgAndSig(sb)
		if err != nil {
			return info, err
		}
		root, err := htr(msg)
		if err != nil {
			return info, err
		}
		slot := msg.Elem().FieldByName("Slot").Uint()

		return sigInfo{Root: root, Domain: domProposer, Epoch: w.epochOf(slot), Slot: slot, Sig: sig}, nil
	case *eth2api.ProposalOpts:
		ep := w.epochOf(uint64(x.Slot))
		return sigInfo{Root: uint64Root(ep), Domain: domRandao, Epoch: ep, Slot: uint64(x.Slot), Sig: x.RandaoReveal}, nil
	case *eth2util.SignedEpoch:
		return sigInfo{Root: uint64Root(uint64(x.Epoch)), Domain: domRandao, Epoch: uint64(x.Epoch), Slot: uint64(x.Epoch) * w.spe, Sig: x.Signature}, nil
	case *eth2p0.SignedVoluntaryExit:
		if x.Message == nil {
			return info, errors.New("no message")
		}
		root, err := x.Message.HashTreeRoot()
		if err != nil {
			return info, err
		}

		return sigInfo{Root: root, Domain: domExit, Epoch: uint64(x.Message.Epoch), Slot: uint64(x.Message.Epoch) * w.spe, Sig: x.Signature}, nil
	case *eth2v1.BeaconCommitteeSelection:
		return sigInfo{Root: uint64Root(uint64(x.Slot)), Domain: domSelection, Epoch: w.epochOf(uint64(x.Slot)), Slot: uint64(x.Slot), Sig: x.SelectionProof}, nil
	case *eth2v1.SyncCommitteeSelection:
		root, err := (&altair.SyncAggregatorSelectionData{Slot: x.Slot, SubcommitteeIndex: x.SubcommitteeIndex}).HashTreeRoot()
		if err != nil {
			return info, err
		}

		return sigInfo{Root: root, Domain: domSyncSel, Epoch: w.epochOf(uint64(x.Slot)), Slot: uint64(x.Slot), Sig: x.SelectionProof}, nil
	case *eth2spec.VersionedSignedAggregateAndProof:
		f, err := versioned(x, x.Version, false)
		if err != nil {
			return info, err
		}
		msg, sig, err := msgAndSig(f)
		if err != nil {
			return info, err
		}
		root, err := htr(msg)
		if err != nil {
			return info, err
		}
		slot, err := aggSlot(msg)
		if err != nil {
			return info, err
		}

		return sigInfo{Root: root, Domain: domAggregate, Epoch: w.epochOf(slot), Slot: slot, Sig: sig}, nil
	case *eth2p0.SignedAggregateAndProof:
		msg, sig, err := msgAndSig(reflect.ValueOf(x))
		if err != nil {
			return info, err
		}
		root, err := htr(msg)
		if err != nil {
			return info, err
		}
		slot, err := aggSlot(msg)
		if err != nil {
			return info, err
		}

		return sigInfo{Root: root, Domain: domAggregate, Epoch: w.epochOf(slot), Slot: slot, Sig: sig}, nil
	case *altair.SyncCommitteeMessage:
		return sigInfo{Root: x.BeaconBlockRoot, Domain: domSyncComm, Epoch: w.epochOf(uint64(x.Slot)), Slot: uint64(x.Slot), Sig: x.Signature}, nil
	case *altair.SignedContributionAndProof:
		if x.Message == nil || x.Message.Contribution == nil {
			return info, errors.New("no contribution")
		}
		root, err := x.Message.HashTreeRoot()
		if err != nil {
			return info, err
		}
		slot := uint64(x.Message.Contribution.Slot)

		return sigInfo{Root: root, Domain: domContribution, Epoch: w.epochOf(slot), Slot: slot, Sig: x.Signature}, nil
	case *eth2api.VersionedSignedValidatorRegistration:
		if x.Version != eth2spec.BuilderVersionV1 {
			return info, fmt.Errorf("unknown builder version %d", x.Version)
		}
		if x.V1 == nil || x.V1.Message == nil {
			return info, errors.New("no registration")
		}
		root, err := x.V1.Message.HashTreeRoot()
		if err != nil {
			return info, err
		}

		return sigInfo{Root: root, Domain: domBuilder, Epoch: 0, Slot: 0, Sig: x.V1.Signature}, nil
	default:
		return info, fmt.Errorf("inspect: unsupported type %T", item)
	}
}

// aggSlot returns Aggregate.Data.Slot of an AggregateAndProof message pointer.
func aggSlot(msg reflect.Value) (uint64, error) {
	agg := msg.Elem().FieldByName("Aggregate")
	if !agg.IsValid() || agg.IsNil() {
		return 0, errors.New("no aggregate")
	}
	d := agg.Elem().FieldByName("Data")
	if !d.IsValid() || d.IsNil() {
		return 0, errors.New("no aggregate data")
	}

	return uint64(d.Interface().(*eth2p0.AttestationData).Slot), nil
}

// setSig stores sig into the signature field inspect reads.
func setSig(item any, sig eth2p0.BLSSignature) error {
	switch x := item.(type) {
	case *eth2spec.VersionedAttestation:
		f, err := versioned(x, x.Version, false)
		if err != nil {
			return err
		}
		f.Elem().FieldByName("Signature").Set(reflect.ValueOf(sig))
	case *eth2api.VersionedSignedBlindedProposal:
		f, err := versioned(x, x.Version, false)
		if err != nil {
			return err
		}
		f.Elem().FieldByName("Signature").Set(reflect.ValueOf(sig))
	case *eth2api.VersionedSignedProposal:
		sb, err := signedBlockOf(x)
		if err != nil {
			return err
		}
		sb.Elem().FieldByName("Signature").Set(reflect.ValueOf(sig))
	case *eth2api.ProposalOpts:
		x.RandaoReveal = sig
	case *eth2util.SignedEpoch:
		x.Signature = sig
	case *eth2p0.SignedVoluntaryExit:
		x.Signature = sig
	case *eth2v1.BeaconCommitteeSelection:
		x.SelectionProof = sig
	case *eth2v1.SyncCommitteeSelection:
		x.SelectionProof = sig
	case *eth2spec.VersionedSignedAggregateAndProof:
		f, err := versioned(x, x.Version, false)
		if err != nil {
			return err
		}
		f.Elem().FieldByName("Signature").Set(reflect.ValueOf(sig))
	case *eth2p0.SignedAggregateAndProof:
		x.Signature = sig
	case *altair.SyncCommitteeMessage:
		x.Signature = sig
	case *altair.SignedContributionAndProof:
		x.Signature = sig
	case *eth2api.VersionedSignedValidatorRegistration:
		if x.V1 == nil {
			return errors.New("no registration")
		}
		x.V1.Signature = sig
	default:
		return fmt.Errorf("setSig: unsupported type %T", item)
	}

	return nil
}

// forkVersionAt is the fork version in effect at epoch according to the mock's fork schedule.
func (w *world) forkVersionAt(epoch uint64) eth2p0.Version {
	v := w.forks[0].PreviousVersion
	for _, f := range w.forks {
		if uint64(f.Epoch) <= epoch {
			v = f.CurrentVersion
		}
	}

	return v
}

// specForkVersion is the fork version the eth2 spec prescribes for a signature of domain `name`
// over an object of `epoch`, from the harness' own fork table of a production-client world:
// the fork in effect at the object's epoch, except voluntary exits, which (EIP-7044) are always
// signed over the Capella fork version once the chain itself is at Deneb or later, whatever
// epoch the exit message carries.
func (w *world) specForkVersion(name string, epoch uint64) eth2p0.Version {
	byEpoch := w.prodForks[0].Version
	var capella eth2p0.Version
	var denebEpoch uint64
	for _, f := range w.prodForks {
		if f.Epoch <= epoch {
			byEpoch = f.Version
		}
		switch f.Name {
		case "CAPELLA":
			capella = f.Version
		case "DENEB":
			denebEpoch = f.Epoch
		}
	}
	if name == domExit && w.currentEpoch >= denebEpoch {
		return capella
	}

	return byEpoch
}

// domain is compute_domain(domain_type, fork_version, genesis_validators_root).
func (w *world) domain(name string, epoch uint64) (eth2p0.Domain, error) {
	dt, ok := w.domainTypes[name]
	if !ok {
		return eth2p0.Domain{}, fmt.Errorf("unknown domain %s", name)
	}
	fd := &eth2p0.ForkData{CurrentVersion: w.forkVersionAt(epoch), GenesisValidatorsRoot: w.gvr}
	if w.prod {
		fd.CurrentVersion = w.specForkVersion(name, epoch)
	}
	if name == domBuilder {
		// builder domain: genesis fork version, zero genesis validators root, any epoch.
		fd = &eth2p0.ForkData{CurrentVersion: w.genesisFork}
	}
	r, err := fd.HashTreeRoot()
	if err != nil {
		return eth2p0.Domain{}, err
	}
	var d eth2p0.Domain
	copy(d[:4], dt[:])
	copy(d[4:], r[:28])

	return d, nil
}

func (w *world) signingRoot(root [32]byte, domainName string, epoch uint64) ([32]byte, eth2p0.Domain, error) {
	d, err := w.domain(domainName, epoch)
	if err != nil {
		return [32]byte{}, d, err
	}
	sr, err := (&eth2p0.SigningData{ObjectRoot: root, Domain: d}).HashTreeRoot()

	return sr, d, err
}

// sign signs what item's signature must cover (optionally under another domain name / epoch) and
// stores the signature in item.
func (w *world) sign(item any, secret tbls.PrivateKey, domainOverride string, epochOverride *uint64) error {
	info, err := w.inspect(item)
	if err != nil {
		return err
	}
	dn, ep := info.Domain, info.Epoch
	if domainOverride != "" {
		dn = domainOverride
	}
	if epochOverride != nil {
		ep = *epochOverride
	}
	sr, _, err := w.signingRoot(info.Root, dn, ep)
	if err != nil {
		return err
	}
	sig, err := tbls.Sign(secret, sr[:])
	if err != nil {
		return err
	}

	return setSig(item, eth2p0.BLSSignature(sig))
}

// signRaw signs an arbitrary object root.
func (w *world) signRaw(secret tbls.PrivateKey, root [32]byte, domainName string, epoch uint64) (eth2p0.BLSSignature, error) {
	sr, _, err := w.signingRoot(root, domainName, epoch)
	if err != nil {
		return eth2p0.BLSSignature{}, err
	}
	sig, err := tbls.Sign(secret, sr[:])

	return eth2p0.BLSSignature(sig), err
}

// verifies reports whether info.Sig is a valid signature by pub over info's root/domain/epoch.
func (w *world) verifies(info sigInfo, pub tbls.PublicKey) bool {
	var zero eth2p0.BLSSignature
	if info.Sig == zero {
		return false
	}
	sr, _, err := w.signingRoot(info.Root, info.Domain, info.Epoch)
	if err != nil {
		return false
	}
	key := hex.EncodeToString(pub[:8]) + hex.EncodeToString(sr[:]) + hex.EncodeToString(info.Sig[:])
	if v, ok := w.verCache.Load(key); ok {
		return v.(bool)
	}
	ok := tbls.Verify(pub, sr[:], tbls.Signature(info.Sig)) == nil
	w.verCache.Store(key, ok)

	return ok
}

// fromCore maps an admitted core.SignedData back to the go-eth2-client value inspect understands.
func fromCore(d core.SignedData) (any, error) {
	switch x := d.(type) {
	case core.VersionedAttestation:
		return &x.VersionedAttestation, nil
	case core.VersionedSignedProposal:
		return &x.VersionedSignedProposal, nil
	case core.SignedRandao:
		return &x.SignedEpoch, nil
	case core.SignedVoluntaryExit:
		return &x.SignedVoluntaryExit, nil
	case core.BeaconCommitteeSelection:
		return &x.BeaconCommitteeSelection, nil
	case core.SyncCommitteeSelection:
		return &x.SyncCommitteeSelection, nil
	case core.SignedAggregateAndProof:
		return &x.SignedAggregateAndProof, nil
	case core.VersionedSignedAggregateAndProof:
		return &x.VersionedSignedAggregateAndProof, nil
	case core.SignedSyncMessage:
		return &x.SyncCommitteeMessage, nil
	case core.SignedSyncContributionAndProof:
		return &x.SignedContributionAndProof, nil
	case core.VersionedSignedValidatorRegistration:
		return &x.VersionedSignedValidatorRegistration, nil
	default:
		return nil, fmt.Errorf("admitted value of type %T is not an eth2 signed object", d)
	}
}

// toCore wraps item into the core type used on the wire between peers.
func toCore(item any) (core.SignedData, error) {
	switch x := item.(type) {
	case *eth2spec.VersionedAttestation:
		return core.NewVersionedAttestation(x)
	case *eth2api.VersionedSignedProposal:
		return core.NewVersionedSignedProposal(x)
	case *eth2util.SignedEpoch:
		return core.SignedRandao{SignedEpoch: *x}, nil
	case *eth2p0.SignedVoluntaryExit:
		return core.NewSignedVoluntaryExit(x), nil
	case *eth2v1.BeaconCommitteeSelection:
		return core.NewBeaconCommitteeSelection(x), nil
	case *eth2v1.SyncCommitteeSelection:
		return core.NewSyncCommitteeSelection(x), nil
	case *eth2p0.SignedAggregateAndProof:
		return core.NewSignedAggregateAndProof(x), nil
	case *eth2spec.VersionedSignedAggregateAndProof:
		return core.NewVersionedSignedAggregateAndProof(x), nil
	case *altair.SyncCommitteeMessage:
		return core.NewSignedSyncMessage(x), nil
	case *altair.SignedContributionAndProof:
		return core.NewSignedSyncContributionAndProof(x), nil
	case *eth2api.VersionedSignedValidatorRegistration:
		return core.NewVersionedSignedValidatorRegistration(x)
	default:
		return nil, fmt.Errorf("toCore: unsupported type %T", item)
	}
}
