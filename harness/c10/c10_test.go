// Package c10 monitors property C10: only partial signatures that verify — for the submitted
// object's own signing root, domain and epoch — under the lock's public share of the claimed
// validator and share index enter a node, through the validator API or from a peer.
package c10

import (
	"context"
	"encoding/json"
	"fmt"
	"regexp"
	"sort"
	"strings"
	"sync"
	"testing"
	"time"

	eth2spec "github.com/attestantio/go-eth2-client/spec"
	eth2p0 "github.com/attestantio/go-eth2-client/spec/phase0"

	"github.com/obolnetwork/charon/core"

	"verifharness/fakenet"
	"verifharness/kit"
)

type target struct {
	Name     string
	Peer     bool
	Kind     string
	Duty     core.DutyType
	Versions []eth2spec.DataVersion
	Blinded  bool
	Multi    bool // endpoint takes a list
	Ignored  bool // endpoint never admits anything (validator registrations are ignored by charon)
	Proposal bool
	// Prod: the node's eth2 client is charon's production http adapter (eth2wrap.AdaptEth2HTTP) over
	// the beacon mock's HTTP server behind a proxy serving a mainnet-like, non-genesis fork schedule.
	Prod bool
	// Base is the target whose endpoint / duty type a Prod target drives.
	Base string
}

func (tg target) endpoint() string {
	if tg.Base != "" {
		return tg.Base
	}

	return tg.Name
}

var vapiTargets = []target{
	{Name: "vapi/attestations-pre-electra", Kind: "attestation", Duty: core.DutyAttester, Versions: preElectra, Multi: true},
	{Name: "vapi/attestations-electra", Kind: "attestation", Duty: core.DutyAttester, Versions: postElectra, Multi: true},
	{Name: "vapi/proposal-randao", Kind: "randao", Duty: core.DutyRandao},
	{Name: "vapi/submit-proposal", Kind: "proposal", Duty: core.DutyProposer, Versions: blindedVers, Proposal: true},
	{Name: "vapi/submit-blinded-proposal", Kind: "proposal", Duty: core.DutyProposer, Versions: blindedVers, Blinded: true, Proposal: true},
	{Name: "vapi/voluntary-exit", Kind: "exit", Duty: core.DutyExit},
	{Name: "vapi/beacon-committee-selections", Kind: "beacon-selection", Duty: core.DutyPrepareAggregator, Multi: true},
	{Name: "vapi/aggregate-attestations", Kind: "aggregate", Duty: core.DutyAggregator, Versions: allVersions, Multi: true},
	{Name: "vapi/sync-committee-messages", Kind: "sync-message", Duty: core.DutySyncMessage, Multi: true},
	{Name: "vapi/sync-committee-contributions", Kind: "sync-contribution", Duty: core.DutySyncContribution, Multi: true},
	{Name: "vapi/sync-committee-selections", Kind: "sync-selection", Duty: core.DutyPrepareSyncContribution, Multi: true},
	{Name: "vapi/validator-registrations", Kind: "registration", Duty: core.DutyBuilderRegistration, Multi: true, Ignored: true},
}

var peerTargets = []target{
	{Name: "peer/attester-pre-electra", Peer: true, Kind: "attestation", Duty: core.DutyAttester, Versions: preElectra},
	{Name: "peer/attester-electra", Peer: true, Kind: "attestation", Duty: core.DutyAttester, Versions: postElectra},
	{Name: "peer/proposer", Peer: true, Kind: "proposal", Duty: core.DutyProposer, Versions: blindedVers},
	{Name: "peer/proposer-blinded", Peer: true, Kind: "proposal", Duty: core.DutyProposer, Versions: blindedVers, Blinded: true},
	{Name: "peer/randao", Peer: true, Kind: "randao", Duty: core.DutyRandao},
	{Name: "peer/exit", Peer: true, Kind: "exit", Duty: core.DutyExit},
	{Name: "peer/builder-registration", Peer: true, Kind: "registration", Duty: core.DutyBuilderRegistration},
	{Name: "peer/prepare-aggregator", Peer: true, Kind: "beacon-selection", Duty: core.DutyPrepareAggregator},
	{Name: "peer/aggregator", Peer: true, Kind: "aggregate", Duty: core.DutyAggregator, Versions: allVersions},
	{Name: "peer/aggregator-legacy", Peer: true, Kind: "aggregate-legacy", Duty: core.DutyAggregator},
	{Name: "peer/sync-message", Peer: true, Kind: "sync-message", Duty: core.DutySyncMessage},
	{Name: "peer/prepare-sync-contribution", Peer: true, Kind: "sync-selection", Duty: core.DutyPrepareSyncContribution},
	{Name: "peer/sync-contribution", Peer: true, Kind: "sync-contribution", Duty: core.DutySyncContribution},
}

var prodTargets = []target{
	{Name: "prod/vapi/voluntary-exit", Base: "vapi/voluntary-exit", Prod: true, Kind: "exit", Duty: core.DutyExit},
	{Name: "prod/peer/exit", Base: "peer/exit", Prod: true, Peer: true, Kind: "exit", Duty: core.DutyExit},
	{Name: "prod/vapi/beacon-committee-selections", Base: "vapi/beacon-committee-selections", Prod: true, Kind: "beacon-selection", Duty: core.DutyPrepareAggregator, Multi: true},
	{Name: "prod/vapi/sync-committee-messages", Base: "vapi/sync-committee-messages", Prod: true, Kind: "sync-message", Duty: core.DutySyncMessage, Multi: true},
	{Name: "prod/vapi/sync-committee-selections", Base: "vapi/sync-committee-selections", Prod: true, Kind: "sync-selection", Duty: core.DutyPrepareSyncContribution, Multi: true},
	{Name: "prod/peer/randao", Base: "peer/randao", Prod: true, Peer: true, Kind: "randao", Duty: core.DutyRandao},
	{Name: "prod/peer/prepare-aggregator", Base: "peer/prepare-aggregator", Prod: true, Peer: true, Kind: "beacon-selection", Duty: core.DutyPrepareAggregator},
	{Name: "prod/peer/sync-message", Base: "peer/sync-message", Prod: true, Peer: true, Kind: "sync-message", Duty: core.DutySyncMessage},
	{Name: "prod/peer/attester-electra", Base: "peer/attester-electra", Prod: true, Peer: true, Kind: "attestation", Duty: core.DutyAttester, Versions: postElectra},
}

// quickTargets: the quick tier runs these on every round and rotates through the remaining ones.
var quickAlways = map[string]bool{
	"vapi/attestations-electra": true, "vapi/submit-proposal": true, "vapi/sync-committee-messages": true, "vapi/aggregate-attestations": true,
	"peer/attester-electra": true, "peer/proposer": true, "peer/sync-contribution": true,
	"prod/vapi/voluntary-exit": true, "prod/peer/exit": true,
	"prod/vapi/sync-committee-messages": true, "prod/peer/sync-message": true,
}

// env is the per-run shared state.
type env struct {
	r      *kit.Run
	logs   *fakenet.LogCapture
	peerMu sync.Mutex // serialises peer-path injections so that captured handler errors are attributable

	mu    sync.Mutex
	table map[string]map[string]int // "target|class|classification" -> outcome -> n
	errs  map[string]map[string]int // target -> normalised error -> n
}

func (e *env) tally(tg, class, classification, outcome string) {
	k := tg + "|" + class + "|" + classification
	e.mu.Lock()
	m := e.table[k]
	if m == nil {
		m = map[string]int{}
		e.table[k] = m
	}
	m[outcome]++
	e.mu.Unlock()
}

var (
	reHex = regexp.MustCompile(`0x[0-9a-fA-F]+|[0-9a-f]{12,}`)
	reNum = regexp.MustCompile(`\b[0-9]+\b`)
)

func normErr(s string) string {
	if i := strings.Index(s, "The request could not be processed: "); i >= 0 {
		s = s[i+len("The request could not be processed: "):]
	}
	s = reHex.ReplaceAllString(s, "#")
	s = reNum.ReplaceAllString(s, "N")
	if len(s) > 110 {
		s = s[:110]
	}

	return s
}

func (e *env) tallyErr(tg, msg string) {
	msg = normErr(msg)
	e.mu.Lock()
	m := e.errs[tg]
	if m == nil {
		m = map[string]int{}
		e.errs[tg] = m
	}
	if len(m) < 40 || m[msg] > 0 {
		m[msg]++
	}
	e.mu.Unlock()
}

func TestCheck(t *testing.T) {
	r := kit.Start(t, "C10")
	defer r.Finish()
	r.Rule("case = one fresh cluster (n,k, share index i, 3-4 validators, real threshold BLS keys, lock pubshares wired like app.wireCoreWorkflow), a beacon mock with a 3-fork schedule whose last fork lands next to the current epoch, " +
		"and one target: a validator-API endpoint of the real secure validatorapi.Component of node i, or a duty type on the real parsigex.ParSigEx of node i (real Eth2 verifier, real duty gater on a harness clock, in-memory libp2p). " +
		"Per case: valid submissions (must be admitted exactly), then every single alteration: each reflection-enumerated leaf of the submitted go-eth2-client object, signature by another share / validator / the group key / a foreign key, " +
		"other domain type, other fork version, zero / infinity / garbage signature, unknown / non-cluster / other validator, share index 0 / n+1 / negative / other peer, unknown or malformed pubkey, duty outside the gater window or of an invalid type, batches with one bad item, coordinated multi-item batches (signatures swapped / rotated, key shares shifted by cancelling offsets), " +
		"fault injection on the peer path: a sample of the invalid (and valid) messages is re-delivered to a second real ParSigEx whose stream-handler context (p2p receive timeout) is done after gating / ends inside the first verification, " +
		"proposals: payload != agreed proposal (index, blinded flag, version, body) with a valid signature. non-trivial = baseline admitted and at least one must-reject alteration exercised; distinct = hash(target, kind/version, n, k, i, classes exercised)")
	r.Assume("tbls.Verify / tbls.Sign (herumi) are the trusted base of the independent re-verification (C08 checks them)")
	r.Assume("domain = compute_domain(type, fork version in effect at the object's own epoch per the mock's fork schedule, genesis validators root); builder registrations use the genesis fork version and a zero root. The EIP-7044 voluntary-exit override lives in eth2wrap.httpAdapter, outside this engine")
	r.Assume("prod/* targets: the node's eth2 client is charon's production adapter (eth2wrap.AdaptEth2HTTP, mainnet lock fork version, validator cache set) over the beacon mock's HTTP server behind a proxy serving a mainnet-like schedule (Altair 10, Bellatrix 20, Capella 100, Deneb 200, Electra 300); the chain's current epoch is past Deneb, so per EIP-7044 a voluntary exit is valid only under the Capella fork version whatever epoch its message carries; every other object under the fork version of its own epoch. A correctly signed object being refused is not a verdict (counted)")
	r.Assume("an alteration is must-reject iff the altered object no longer verifies under lock.pubshare[claimed validator][claimed share] for its own root/domain/epoch, or a stated precondition is broken (validator unknown / not in the cluster, share index out of range, proposal != agreed proposal, aggregator selection proof invalid, peer duty outside the gater window or of an invalid type). An epoch change that leaves the domain (fork) and root unchanged, bits / annotations / blobs the signing root does not cover, and a peer relaying a partial that is valid for the share index it claims are may-admit: only the universal re-verification applies")
	r.Assume("the duty gater only bounds the future (core/gater.go: past duties are the Deadliner's job), so an expired duty from a peer is may-admit at this boundary; a wire duty slot that differs from the object's slot is not covered by the statement and is recorded as an observation")
	r.RacePkgs(false, "core/validatorapi", "core/parsigex")

	e := &env{r: r, logs: fakenet.CaptureLogs(t), table: map[string]map[string]int{}, errs: map[string]map[string]int{}}

	var plan []target
	rounds := r.N(6, 40)
	all := append(append(append([]target(nil), vapiTargets...), peerTargets...), prodTargets...)
	for round := 0; round < rounds; round++ {
		if r.Thorough() {
			plan = append(plan, all...)
			continue
		}
		var rot []target
		for _, tg := range all {
			if quickAlways[tg.Name] {
				plan = append(plan, tg)
			} else {
				rot = append(rot, tg)
			}
		}
		// rotate through the other targets: a third of them per round, offset by the seed.
		for i, tg := range rot {
			if (i+round+int(r.Seed))%3 == 0 {
				plan = append(plan, tg)
			}
		}
	}
	r.Require("valid_admitted", int64(len(plan)))
	r.Require("must_reject_rejected", 800)
	r.Require("vapi_must_reject_rejected", 300)
	r.Require("peer_must_reject_rejected", 300)
	r.Require("overlap_trials", 20)
	r.Require("universal_checks", int64(len(plan)))
	r.Require("may_admit_admitted", 20)
	r.Require("peer_verifications_started_with_done_context", 50)
	r.Require("fork_sweep_correct_domain_admitted=true", 50)
	r.Require("peer_ctx_done_mode1_must_reject_rejected", 100)

	r.Cases(len(plan), 0, func(c *kit.Case) {
		tg := plan[c.Idx]
		w, err := newWorld(r.T(), c.Rng, tg.Prod)
		if err != nil {
			r.Inconclusive("case %d: world: %v", c.Idx, err)
			return
		}
		defer w.close()
		r.Seen("targets", tg.Name)
		if tg.Peer {
			e.runPeer(c, w, tg)
		} else {
			e.runVAPI(c, w, tg)
		}
	})

	// evidence: endpoint x alteration table
	tbl := map[string]map[string]int{}
	e.mu.Lock()
	for k, v := range e.table {
		tbl[k] = v
	}
	errs := e.errs
	e.mu.Unlock()
	r.Set("endpoint_x_alteration", tbl)
	r.Set("rejected_by_error", errs)
	r.Set("log_lines", e.logs.Lines())
}

// pickKind chooses the object kind (version) of a case.
func (tg target) pickKind(c *kit.Case) kind {
	k := kind{Name: tg.Kind, DutyType: tg.Duty, Blinded: tg.Blinded}
	if len(tg.Versions) > 0 {
		k.Version = tg.Versions[c.Rng.Intn(len(tg.Versions))]
	}

	return k
}

// ---- universal oracle ----

// checkAdmitted re-verifies one admitted partial independently. wantShare > 0 additionally pins
// the share index (validator API: always the node's own).
func (e *env) checkAdmitted(c *kit.Case, w *world, tg target, a admission, wantShare int, ctxInfo func() map[string]any) (sigInfo, bool) {
	e.r.Count("universal_checks", 1)
	fail := func(rule, what string) (sigInfo, bool) {
		c.Violation(tg.Name+"/universal/"+rule, what, map[string]any{
			"target": tg.Name, "source": a.Src, "duty": a.Duty.String(), "pubkey": string(a.PubKey), "share_idx": a.Par.ShareIdx,
			"object": jsonOrString(a.Par.SignedData), "context": ctxInfo(),
		})

		return sigInfo{}, false
	}
	item, err := fromCore(a.Par.SignedData)
	if err != nil {
		return fail("admitted-non-eth2-object", err.Error())
	}
	info, err := w.inspect(item)
	if err != nil {
		return fail("admitted-unparseable-object", "admitted object has no computable signing root: "+err.Error())
	}
	shares, ok := w.pubShare[a.PubKey]
	if !ok {
		return fail("admitted-unknown-validator", "admitted partial is attributed to a public key that is not in the cluster lock")
	}
	ps, ok := shares[a.Par.ShareIdx]
	if !ok {
		return fail("admitted-share-index-out-of-range", fmt.Sprintf("admitted partial claims share index %d of %d", a.Par.ShareIdx, w.n))
	}
	if wantShare > 0 && a.Par.ShareIdx != wantShare {
		return fail("admitted-foreign-share-index", fmt.Sprintf("validator API admitted share index %d, node share is %d", a.Par.ShareIdx, wantShare))
	}
	if !w.verifies(info, ps) {
		return fail("admitted-does-not-verify", fmt.Sprintf("admitted partial does not verify under lock pubshare[%s][%d] for its own root/domain(%s)/epoch(%d)", a.PubKey, a.Par.ShareIdx, info.Domain, info.Epoch))
	}

	return info, true
}

// admittedInfo is what the signature of an admitted partial covers (false: not computable).
func (w *world) admittedInfo(a admission) (sigInfo, bool) {
	item, err := fromCore(a.Par.SignedData)
	if err != nil {
		return sigInfo{}, false
	}
	info, err := w.inspect(item)

	return info, err == nil
}

func jsonOrString(v any) any {
	b, err := json.Marshal(v)
	if err != nil {
		return fmt.Sprintf("%+v", v)
	}
	if len(b) > 6000 {
		return string(b[:6000]) + "…"
	}

	return json.RawMessage(b)
}

// diffReasons explains why an altered object stopped verifying, relative to the valid baseline.
func (w *world) diffReasons(info, base sigInfo, claimed, baseV *valInfo, share, baseShare int) []string {
	var out []string
	if info.Sig != base.Sig {
		out = append(out, "signature-changed")
	}
	if info.Root != base.Root {
		out = append(out, "root-changed")
	}
	d1, _ := w.domain(info.Domain, info.Epoch)
	d2, _ := w.domain(base.Domain, base.Epoch)
	if d1 != d2 {
		out = append(out, "domain-changed")
	}
	if claimed != baseV {
		out = append(out, "validator-changed")
	}
	if share != baseShare {
		out = append(out, "share-changed")
	}
	if len(out) == 0 {
		out = append(out, "invalid")
	}

	return out
}

func sortedKeys[M ~map[string]V, V any](m M) []string {
	out := make([]string, 0, len(m))
	for k := range m {
		out = append(out, k)
	}
	sort.Strings(out)

	return out
}

func classification(reasons []string) string {
	if len(reasons) == 0 {
		return "may-admit"
	}

	return "must-reject:" + strings.Join(reasons, "+")
}

func sigOf(reasons []string) string {
	if len(reasons) == 0 {
		return "may-admit"
	}

	return reasons[0]
}

// infinitySig is the compressed BLS12-381 G2 point at infinity.
func infinitySig() eth2p0.BLSSignature {
	var s eth2p0.BLSSignature
	s[0] = 0xc0

	return s
}

var callTimeout = 60 * time.Second

func withSub(sub *submission) (context.Context, context.CancelFunc) {
	ctx, cancel := context.WithTimeout(context.Background(), callTimeout)
	return context.WithValue(ctx, subKey{}, sub), cancel
}
