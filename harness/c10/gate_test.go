package c10

import (
	"context"
	"fmt"
	"sync"
	"time"

	eth2p0 "github.com/attestantio/go-eth2-client/spec/phase0"
	"github.com/libp2p/go-libp2p/core/protocol"

	"github.com/obolnetwork/charon/app/eth2wrap"
	"github.com/obolnetwork/charon/core"
	pbv1 "github.com/obolnetwork/charon/core/corepb/v1"
	"github.com/obolnetwork/charon/core/parsigex"

	"verifharness/kit"
)

// domainGate is the beacon client handed to the peer-path verifier: once armed for a domain type,
// the next Domain query for it blocks (after announcing itself) until released - a beacon node that
// is slow to answer one query while the harness lets another verification run. Placement only.
type domainGate struct {
	eth2wrap.Client

	mu      sync.Mutex
	armed   bool
	dt      eth2p0.DomainType
	entered chan struct{}
	release chan struct{}
}

func (g *domainGate) arm(dt eth2p0.DomainType) (entered, release chan struct{}) {
	g.mu.Lock()
	defer g.mu.Unlock()
	g.armed, g.dt = true, dt
	g.entered, g.release = make(chan struct{}), make(chan struct{})

	return g.entered, g.release
}

func (g *domainGate) disarm() {
	g.mu.Lock()
	g.armed = false
	g.mu.Unlock()
}

func (g *domainGate) Domain(ctx context.Context, dt eth2p0.DomainType, epoch eth2p0.Epoch) (eth2p0.Domain, error) {
	g.mu.Lock()
	if g.armed && g.dt == dt {
		g.armed = false
		ent, rel := g.entered, g.release
		g.mu.Unlock()
		close(ent)
		select {
		case <-rel:
		case <-ctx.Done():
		}
	} else {
		g.mu.Unlock()
	}

	return g.Client.Domain(ctx, dt, epoch)
}

// overlapTrial (seeded change C10-r8): two peer messages of different object kinds (different signing
// domain types) are verified by the node at overlapping times - message A waits for the beacon
// node's Domain answer while message B is verified completely, then A finishes. Afterwards a member
// sends an object of B's kind and epoch whose partial signature was made under A's domain type (for
// randao / selection proofs the signed root is the same number, so such a signature is simply
// another message's public partial signature replayed): it is not valid for the claimed share and
// must be refused, whatever the node remembered from the two overlapping verifications.
func (e *env) overlapTrial(c *kit.Case, w *world, tg target, k kind, v *valInfo, from, share int, baseInfo sigInfo, newMsg func(class, detail string, en ...pentry) *pmsg, entryOf func(val *valInfo, item any, sh int) pentry) {
	r := e.r
	if w.domGate == nil {
		return
	}
	// the other kind: a randao reveal, or a sync committee message when the target itself is randao
	kx := kind{Name: "randao", DutyType: core.DutyRandao}
	if k.Name == "randao" {
		kx = kind{Name: "sync-message", DutyType: core.DutySyncMessage}
	}
	itemX, err := w.build(kx, v, c.Rng)
	if err != nil {
		return
	}
	if err := w.sign(itemX, v.Shares[share], "", nil); err != nil {
		return
	}
	infoX, err := w.inspect(itemX)
	if err != nil || infoX.Domain == baseInfo.Domain {
		return
	}
	dtX, ok := w.domainTypes[infoX.Domain]
	if !ok {
		return
	}
	itemB, err := w.build(k, v, c.Rng)
	if err != nil {
		return
	}
	if err := w.sign(itemB, v.Shares[share], "", nil); err != nil {
		return
	}
	wire := func(kk kind, item any, info sigInfo) (*pbv1.ParSigExMsg, bool) {
		b, err := encodeEntry(pentry{Key: string(v.Core), Item: item, Kind: kk, ShareIdx: int32(share), Enc: "json"})
		if err != nil {
			return nil, false
		}
		d := w.dutyOf(kk, info)

		return &pbv1.ParSigExMsg{Duty: &pbv1.Duty{Slot: d.Slot, Type: int32(d.Type)},
			DataSet: &pbv1.ParSignedDataSet{Set: map[string]*pbv1.ParSignedData{string(v.Core): {Data: b, ShareIdx: int32(share)}}}}, true
	}
	infoB, err := w.inspect(itemB)
	if err != nil {
		return
	}
	msgA, okA := wire(kx, itemX, infoX)
	msgB, okB := wire(k, itemB, infoB)
	if !okA || !okB {
		return
	}
	if ok, _ := w.gaterAllows(msgA.GetDuty().GetType(), msgA.GetDuty().GetSlot(), 0); !ok {
		return
	}

	// A waits inside the beacon node's Domain query while B is verified
	overlapped := false
	func() {
		e.peerMu.Lock()
		defer e.peerMu.Unlock()
		sub := &submission{}
		w.peerSub.Store(sub)
		defer w.peerSub.Store(nil)
		entered, release := w.domGate.arm(dtX)
		defer w.domGate.disarm()
		to, pid := w.peers[w.shareIdx-1], protocol.ID(parsigex.Protocols()[0])
		doneA := make(chan struct{})
		go func() {
			defer close(doneA)
			defer func() { _ = recover() }()
			w.net.Inject(w.peers[from-1], to, pid, msgA)
		}()
		select {
		case <-entered:
			overlapped = true
			func() {
				defer func() { _ = recover() }()
				w.net.Inject(w.peers[from-1], to, pid, msgB)
			}()
		case <-doneA: // A never asked the beacon node for its domain
		case <-time.After(20 * time.Second):
		}
		close(release)
		<-doneA
	}()
	if !overlapped {
		r.Count("overlap_trials_without_domain_query", 1)
		return
	}
	r.Count("overlap_trials", 1)
	r.Seen("overlap_trial_kinds", fmt.Sprintf("%s while %s waits for its domain", k.Name, kx.Name))

	// the replay: B's kind and epoch, signed under A's domain type at A's epoch
	replay, err := w.build(k, v, c.Rng)
	if err != nil {
		return
	}
	epX := infoX.Epoch
	if err := w.sign(replay, v.Shares[share], infoX.Domain, &epX); err != nil {
		return
	}
	m := newMsg("overlap:sig-other-domain-type", fmt.Sprintf("signed under %s (epoch %d) after a %s and a %s message were verified at overlapping times", infoX.Domain, epX, kx.Name, k.Name), entryOf(v, replay, share))
	m.FailReason = "wrong-domain-type"
	e.judgePeer(c, w, tg, k, m, baseInfo, v, share)
	// and a correctly signed one right after it (a poisoned memory refuses it; refusing is not a verdict)
	ok2 := newMsg("overlap:valid-afterwards", "correctly signed message after the overlapping verifications", entryOf(v, itemB, share))
	e.judgePeer(c, w, tg, k, ok2, baseInfo, v, share)
}
