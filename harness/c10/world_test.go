package c10

// A world is one cluster (real threshold BLS keys, a cluster.Lock whose public shares feed the
// components exactly like app.wireCoreWorkflow does), one beacon mock with a multi-fork schedule,
// the real validatorapi.Component of node i (secure constructor) and the real parsigex.ParSigEx of
// node i on the in-memory network with the real Eth2 verifier and the real duty gater.

import (
	"bytes"
	"context"
	"encoding/json"
	"fmt"
	"io"
	"math/rand"
	"net/http"
	"net/http/httptest"
	"net/http/httputil"
	"net/url"
	"sync"
	"sync/atomic"
	"testing"
	"time"

	eth2api "github.com/attestantio/go-eth2-client/api"
	eth2v1 "github.com/attestantio/go-eth2-client/api/v1"
	eth2http "github.com/attestantio/go-eth2-client/http"
	eth2p0 "github.com/attestantio/go-eth2-client/spec/phase0"
	k1 "github.com/decred/dcrd/dcrec/secp256k1/v4"
	"github.com/libp2p/go-libp2p/core/host"
	"github.com/libp2p/go-libp2p/core/peer"
	"github.com/libp2p/go-libp2p/core/protocol"
	"google.golang.org/protobuf/proto"

	"github.com/rs/zerolog"

	"github.com/obolnetwork/charon/app/eth2wrap"
	"github.com/obolnetwork/charon/cluster"
	"github.com/obolnetwork/charon/core"
	"github.com/obolnetwork/charon/core/parsigex"
	"github.com/obolnetwork/charon/core/validatorapi"
	"github.com/obolnetwork/charon/p2p"
	"github.com/obolnetwork/charon/tbls"
	"github.com/obolnetwork/charon/tbls/tblsconv"
	"github.com/obolnetwork/charon/testutil/beaconmock"

	"verifharness/fakenet"
)

type valInfo struct {
	Name      string
	Idx       eth2p0.ValidatorIndex
	Root      tbls.PrivateKey
	Pub       tbls.PublicKey
	Core      core.PubKey
	Eth2      eth2p0.BLSPubKey
	Shares    map[int]tbls.PrivateKey
	PubShares map[int]tbls.PublicKey
	InCluster bool

	// duty layout: everything this validator does happens at Slot.
	Slot    uint64
	Comm    uint64 // attestation committee index
	Pos     uint64 // position inside the committee
	CommLen uint64
	Subcomm uint64 // sync subcommittee
}

type attKey struct{ Slot, Comm, ValIdx uint64 }

type admission struct {
	Src    string // "vapi/0", "vapi/1", "peer/0", "peer/1"
	Duty   core.Duty
	PubKey core.PubKey
	Par    core.ParSignedData
}

// submission is one call into the node. VAPI submissions travel in the context so that monitors
// and subscribers can attribute what they see although several run concurrently.
type submission struct {
	mu       sync.Mutex
	admitted []admission

	// per-submission DutyDB overrides (nil: world defaults)
	agreed   map[uint64]*eth2api.VersionedProposal
	proposer map[uint64]*valInfo
}

func (s *submission) add(a admission) {
	s.mu.Lock()
	s.admitted = append(s.admitted, a)
	s.mu.Unlock()
}

func (s *submission) snapshot() []admission {
	s.mu.Lock()
	defer s.mu.Unlock()

	return append([]admission(nil), s.admitted...)
}

type subKey struct{}

type world struct {
	t   *testing.T
	rng *rand.Rand

	n, k     int
	shareIdx int // share index (1-based) of the node under test
	vals     []*valInfo
	co       []*valInfo // the cluster validators again, all with a duty in one common slot / committee / subcommittee
	outsider *valInfo   // active on the beacon node, not part of the cluster lock
	byIndex  map[eth2p0.ValidatorIndex]*valInfo
	byCore   map[core.PubKey]*valInfo
	lock     cluster.Lock
	pubShare map[core.PubKey]map[int]tbls.PublicKey

	bmock  beaconmock.Mock
	client eth2wrap.Client // what the components talk to: the mock itself, or (prod) charon's production http adapter
	prod   bool
	proxy  *httptest.Server
	// prodForks is the harness' own statement of the chain's fork schedule in a production-client
	// world (the proxy serves it; the oracle never reads it back from the client).
	prodForks []forkDef

	// chain parameters, read back from the mock (independent domain computation)
	spe          uint64
	slotDur      time.Duration
	genesisTime  time.Time
	gvr          eth2p0.Root
	genesisFork  eth2p0.Version
	forks        []*eth2p0.Fork
	domainTypes  map[string]eth2p0.DomainType
	currentEpoch uint64
	forkEpoch    uint64 // epoch of the last fork of the schedule
	clockOffset  atomic.Int64

	vapi *validatorapi.Component

	// DutyDB / scheduler answers
	proposerAt map[uint64]*valInfo
	proposals  map[uint64]*eth2api.VersionedProposal
	attDefs    map[uint64][]core.AttesterDefinition
	attByKey   map[attKey]*valInfo

	// peer path
	net     *fakenet.Net
	peers   []peer.ID
	ex      *parsigex.ParSigEx
	senders map[int]*parsigex.ParSigEx // honest sender nodes by peer index
	peerSub atomic.Pointer[submission]
	domGate *domainGate

	// fault injection: a second real ParSigEx of the same node (own host id) whose stream-handler
	// context has a very short receive timeout; harness wrappers around the REAL gater / verifier
	// hold chosen messages until that context is done.
	faultPeer peer.ID
	exFault   *parsigex.ParSigEx
	faultSub  atomic.Pointer[submission]
	faultMode atomic.Int32 // 0 off, 1 context expires after gating / before verification, 2 expires inside the first verification
	ctxDead   atomic.Int64 // verifications that started with a done context (evidence)
	verCache  sync.Map     // verification cache: key string -> bool
}

func (w *world) close() {
	if w.proxy != nil {
		w.proxy.Close()
	}
	_ = w.bmock.Close()
}

type forkDef struct {
	Name    string
	Version eth2p0.Version
	Epoch   uint64
}

// mainnetLikeForks: mainnet's fork versions (genesis 0x00000000 is a lock fork version charon
// maps to CapellaHardFork 0x03000000), none of the forks at genesis.
var mainnetLikeForks = []forkDef{
	{"GENESIS", eth2p0.Version{0, 0, 0, 0}, 0},
	{"ALTAIR", eth2p0.Version{1, 0, 0, 0}, 10},
	{"BELLATRIX", eth2p0.Version{2, 0, 0, 0}, 20},
	{"CAPELLA", eth2p0.Version{3, 0, 0, 0}, 100},
	{"DENEB", eth2p0.Version{4, 0, 0, 0}, 200},
	{"ELECTRA", eth2p0.Version{5, 0, 0, 0}, 300},
}

// specProxy puts the beacon mock's HTTP server behind a reverse proxy that rewrites the fork
// related keys of /eth/v1/config/spec and the genesis fork version.
func specProxy(target string, forks []forkDef) (*httptest.Server, error) {
	u, err := url.Parse(target)
	if err != nil {
		return nil, err
	}
	rp := httputil.NewSingleHostReverseProxy(u)
	rp.ModifyResponse = func(resp *http.Response) error {
		path := resp.Request.URL.Path
		if path != "/eth/v1/config/spec" && path != "/eth/v1/beacon/genesis" {
			return nil
		}
		body, err := io.ReadAll(resp.Body)
		if err != nil {
			return err
		}
		_ = resp.Body.Close()
		var doc struct {
			Data map[string]any `json:"data"`
		}
		if err := json.Unmarshal(body, &doc); err != nil {
			return err
		}
		if path == "/eth/v1/beacon/genesis" {
			doc.Data["genesis_fork_version"] = fmt.Sprintf("%#x", forks[0].Version)
		} else {
			doc.Data["GENESIS_FORK_VERSION"] = fmt.Sprintf("%#x", forks[0].Version)
			for _, f := range forks[1:] {
				doc.Data[f.Name+"_FORK_VERSION"] = fmt.Sprintf("%#x", f.Version)
				doc.Data[f.Name+"_FORK_EPOCH"] = fmt.Sprint(f.Epoch)
			}
			doc.Data["FULU_FORK_VERSION"] = "0x06000000"
			doc.Data["FULU_FORK_EPOCH"] = "18446744073709551615"
		}
		nb, err := json.Marshal(doc)
		if err != nil {
			return err
		}
		resp.Body = io.NopCloser(bytes.NewReader(nb))
		resp.ContentLength = int64(len(nb))
		resp.Header.Set("Content-Length", fmt.Sprint(len(nb)))

		return nil
	}

	return httptest.NewServer(rp), nil
}

func (w *world) now() time.Time {
	// first slot of currentEpoch plus a few seconds, shifted by the controllable offset
	base := w.genesisTime.Add(time.Duration(w.currentEpoch*w.spe)*w.slotDur + 3*time.Second)
	return base.Add(time.Duration(w.clockOffset.Load()))
}

func (w *world) epochOf(slot uint64) uint64 { return slot / w.spe }

func mustJSON(v any) string {
	b, err := json.Marshal(v)
	if err != nil {
		panic(err)
	}

	return string(b)
}

func newWorld(t *testing.T, rng *rand.Rand, prod bool) (*world, error) {
	w := &world{
		t: t, rng: rng, prod: prod,
		byIndex: map[eth2p0.ValidatorIndex]*valInfo{}, byCore: map[core.PubKey]*valInfo{},
		pubShare:   map[core.PubKey]map[int]tbls.PublicKey{},
		proposerAt: map[uint64]*valInfo{}, proposals: map[uint64]*eth2api.VersionedProposal{},
		attDefs: map[uint64][]core.AttesterDefinition{}, attByKey: map[attKey]*valInfo{},
		senders: map[int]*parsigex.ParSigEx{},
	}
	nk := [][2]int{{3, 2}, {4, 3}, {4, 3}, {5, 4}, {6, 4}, {7, 5}}[rng.Intn(6)]
	w.n, w.k = nk[0], nk[1]
	w.shareIdx = 1 + rng.Intn(w.n)
	numVals := 3 + rng.Intn(2)

	// chain parameters
	w.spe = []uint64{8, 16, 16, 32}[rng.Intn(4)]
	w.currentEpoch = 6 + uint64(rng.Intn(30))
	// fork schedule: genesis version, then two forks; the last one lands near the current epoch so
	// that objects of one world live on both sides of a fork boundary.
	w.forkEpoch = w.currentEpoch - 1 + uint64(rng.Intn(4))
	midEpoch := 1 + uint64(rng.Intn(int(w.forkEpoch-1)))
	var gv, v1, v2 eth2p0.Version
	gv = eth2p0.Version{0x10, 0x00, 0x09, 0x10} // GENESIS_FORK_VERSION of the mock's static spec
	rng.Read(v1[:])
	rng.Read(v2[:])
	schedRows := []map[string]string{
		{"previous_version": fmt.Sprintf("%#x", gv), "current_version": fmt.Sprintf("%#x", gv), "epoch": "0"},
		{"previous_version": fmt.Sprintf("%#x", gv), "current_version": fmt.Sprintf("%#x", v1), "epoch": fmt.Sprint(midEpoch)},
		{"previous_version": fmt.Sprintf("%#x", v1), "current_version": fmt.Sprintf("%#x", v2), "epoch": fmt.Sprint(w.forkEpoch)},
	}
	if prod {
		// production-client world: a mainnet-like chain (the lock's fork version must be one charon
		// knows, the adapter derives the Capella version from it), every fork after genesis, the chain
		// itself past Deneb / around the Electra fork.
		w.prodForks = mainnetLikeForks
		w.currentEpoch = 299 + uint64(rng.Intn(20))
		if rng.Intn(2) == 0 {
			// the next fork (Electra, 300) is scheduled but not yet active while objects of its first epochs
			// are already inside the accepted window: a node must pick the fork by the object's epoch,
			// not by what it used last (seeded change C01-r7: per-domain-type cache of the latest fork)
			w.currentEpoch = 298 + uint64(rng.Intn(2))
		}
		w.forkEpoch = 300
		schedRows = nil
		prev := mainnetLikeForks[0].Version
		for _, f := range mainnetLikeForks {
			schedRows = append(schedRows, map[string]string{"previous_version": fmt.Sprintf("%#x", prev), "current_version": fmt.Sprintf("%#x", f.Version), "epoch": fmt.Sprint(f.Epoch)})
			prev = f.Version
		}
	}
	sched := map[string]any{"data": schedRows}
	var gvr [32]byte
	rng.Read(gvr[:])

	// keys
	usedIdx := map[eth2p0.ValidatorIndex]bool{0: true}
	newIdx := func() eth2p0.ValidatorIndex {
		for {
			i := eth2p0.ValidatorIndex(1 + rng.Intn(5000))
			if !usedIdx[i] && !usedIdx[i+1] && !usedIdx[i-1] {
				usedIdx[i] = true
				return i
			}
		}
	}
	mkVal := func(name string, inCluster bool) (*valInfo, error) {
		root, err := tbls.GenerateInsecureKey(t, rng)
		if err != nil {
			return nil, err
		}
		pub, err := tbls.SecretToPublicKey(root)
		if err != nil {
			return nil, err
		}
		shares, err := tbls.ThresholdSplitInsecure(t, root, uint(w.n), uint(w.k), rng)
		if err != nil {
			return nil, err
		}
		v := &valInfo{Name: name, Idx: newIdx(), Root: root, Pub: pub, Eth2: eth2p0.BLSPubKey(pub), Shares: shares,
			PubShares: map[int]tbls.PublicKey{}, InCluster: inCluster}
		v.Core, err = core.PubKeyFromBytes(pub[:])
		if err != nil {
			return nil, err
		}
		for i, s := range shares {
			ps, err := tbls.SecretToPublicKey(s)
			if err != nil {
				return nil, err
			}
			v.PubShares[i] = ps
		}

		return v, nil
	}
	for i := 0; i < numVals; i++ {
		v, err := mkVal(fmt.Sprintf("v%d", i), true)
		if err != nil {
			return nil, err
		}
		w.vals = append(w.vals, v)
	}
	var err error
	if w.outsider, err = mkVal("outsider", false); err != nil {
		return nil, err
	}

	// duty layout: distinct slots, all within the gater window (epoch <= current+2), spread over
	// the epochs around the fork boundary.
	usedSlot := map[uint64]bool{}
	for _, v := range append(append([]*valInfo(nil), w.vals...), w.outsider) {
		for {
			ep := w.currentEpoch - 2 + uint64(rng.Intn(5)) // current-2 .. current+2
			s := ep*w.spe + uint64(rng.Intn(int(w.spe)))
			if usedSlot[s] {
				continue
			}
			usedSlot[s] = true
			v.Slot = s

			break
		}
		v.Comm = uint64(rng.Intn(64))
		v.CommLen = 2 + uint64(rng.Intn(30))
		v.Pos = uint64(rng.Intn(int(v.CommLen)))
		v.Subcomm = uint64(rng.Intn(4))
		w.byIndex[v.Idx] = v
	}

	// lock (only what the components consume) and the pubshare map, derived like app.wireCoreWorkflow
	for _, v := range w.vals {
		dv := cluster.DistValidator{PubKey: v.Pub[:]}
		for i := 1; i <= w.n; i++ {
			ps := v.PubShares[i]
			dv.PubShares = append(dv.PubShares, append([]byte(nil), ps[:]...))
		}
		w.lock.Validators = append(w.lock.Validators, dv)
	}
	w.lock.Threshold = w.k
	for _, dv := range w.lock.Validators {
		corePubkey, err := core.PubKeyFromBytes(dv.PubKey)
		if err != nil {
			return nil, err
		}
		all := map[int]tbls.PublicKey{}
		for i, b := range dv.PubShares {
			ps, err := tblsconv.PubkeyFromBytes(b)
			if err != nil {
				return nil, err
			}
			all[i+1] = ps
		}
		w.pubShare[corePubkey] = all
	}
	for _, v := range w.vals {
		w.byCore[v.Core] = v
	}

	// beacon mock
	set := beaconmock.ValidatorSet{}
	for _, v := range append(append([]*valInfo(nil), w.vals...), w.outsider) {
		set[v.Idx] = &eth2v1.Validator{
			Index: v.Idx, Balance: 32_000_000_000, Status: eth2v1.ValidatorStateActiveOngoing,
			Validator: &eth2p0.Validator{PublicKey: v.Eth2, EffectiveBalance: 32_000_000_000,
				WithdrawalCredentials: make([]byte, 32), ExitEpoch: 1<<64 - 1, WithdrawableEpoch: 1<<64 - 1},
		}
	}
	w.bmock, err = beaconmock.New(context.Background(),
		beaconmock.WithValidatorSet(set),
		beaconmock.WithSlotsPerEpoch(int(w.spe)),
		beaconmock.WithGenesisValidatorsRoot(gvr),
		beaconmock.WithEndpoint("/eth/v1/config/fork_schedule", mustJSON(sched)),
	)
	if err != nil {
		return nil, err
	}
	w.client = w.bmock
	if prod {
		w.proxy, err = specProxy(w.bmock.Address(), w.prodForks)
		if err != nil {
			w.close()
			return nil, err
		}
		svc, err := eth2http.New(context.Background(), eth2http.WithLogLevel(zerolog.Disabled), eth2http.WithAddress(w.proxy.URL), eth2http.WithTimeout(2*time.Minute))
		if err != nil {
			w.close()
			return nil, err
		}
		httpSvc, ok := svc.(*eth2http.Service)
		if !ok {
			w.close()
			return nil, fmt.Errorf("eth2http.New returned %T", svc)
		}
		// as eth2wrap.newBeaconClient builds it; fork version and validator cache set as app.Run does.
		cl := eth2wrap.AdaptEth2HTTP(httpSvc, nil, 2*time.Minute)
		cl.SetForkVersion([4]byte(w.prodForks[0].Version))
		active, complete := eth2wrap.ActiveValidators{}, eth2wrap.CompleteValidators{}
		for idx, val := range set {
			active[idx] = val.Validator.PublicKey
			complete[idx] = val
		}
		cl.SetValidatorCache(func(context.Context) (eth2wrap.ActiveValidators, eth2wrap.CompleteValidators, error) {
			return active, complete, nil
		})
		w.client = cl
	}
	if err := w.readChain(); err != nil {
		w.close()
		return nil, err
	}

	// DutyDB answers
	for _, v := range w.vals {
		w.proposerAt[v.Slot] = v
		w.attDefs[v.Slot] = append(w.attDefs[v.Slot], core.AttesterDefinition{AttesterDuty: eth2v1.AttesterDuty{
			PubKey: v.Eth2, Slot: eth2p0.Slot(v.Slot), ValidatorIndex: v.Idx, CommitteeIndex: eth2p0.CommitteeIndex(v.Comm),
			CommitteeLength: v.CommLen, CommitteesAtSlot: 64, ValidatorCommitteeIndex: v.Pos,
		}})
		w.attByKey[attKey{v.Slot, v.Comm, uint64(v.Idx)}] = v
	}
	// the outsider has a duty in the (real) beacon chain but no DutyDB entries in this cluster.

	// co-slot layout: every cluster validator additionally attests / aggregates / syncs in one
	// common slot, in the same committee (distinct positions) and subcommittee.
	var coSlot uint64
	for {
		ep := w.currentEpoch - 2 + uint64(rng.Intn(5))
		coSlot = ep*w.spe + uint64(rng.Intn(int(w.spe)))
		if !usedSlot[coSlot] {
			usedSlot[coSlot] = true
			break
		}
	}
	coComm, coLen, coSub := uint64(rng.Intn(64)), uint64(len(w.vals)+2+rng.Intn(20)), uint64(rng.Intn(4))
	posPerm := rng.Perm(int(coLen))
	for i, v := range w.vals {
		cv := *v
		cv.Slot, cv.Comm, cv.CommLen, cv.Pos, cv.Subcomm = coSlot, coComm, coLen, uint64(posPerm[i]), coSub
		w.co = append(w.co, &cv)
		w.attDefs[coSlot] = append(w.attDefs[coSlot], core.AttesterDefinition{AttesterDuty: eth2v1.AttesterDuty{
			PubKey: v.Eth2, Slot: eth2p0.Slot(coSlot), ValidatorIndex: v.Idx, CommitteeIndex: eth2p0.CommitteeIndex(coComm),
			CommitteeLength: coLen, CommitteesAtSlot: 64, ValidatorCommitteeIndex: cv.Pos,
		}})
		w.attByKey[attKey{coSlot, coComm, uint64(v.Idx)}] = v
	}

	// validator API of node shareIdx
	w.vapi, err = validatorapi.NewComponent(w.client, w.pubShare, w.shareIdx, func(core.PubKey) string { return "" }, rng.Intn(2) == 0, 30_000_000)
	if err != nil {
		w.close()
		return nil, err
	}
	w.wireVAPI()

	// peer path
	w.net = fakenet.New()
	w.net.SetPolicy(func(*fakenet.Envelope) fakenet.Verdict { return fakenet.DeliverSync })
	for i := 0; i < w.n; i++ {
		var kb [32]byte
		rng.Read(kb[:])
		key := k1.PrivKeyFromBytes(kb[:])
		id, err := p2p.PeerIDFromKey(key.PubKey())
		if err != nil {
			w.close()
			return nil, err
		}
		w.peers = append(w.peers, id)
	}
	w.domGate = &domainGate{Client: w.client}
	verify, err := parsigex.NewEth2Verifier(w.domGate, w.pubShare)
	if err != nil {
		w.close()
		return nil, err
	}
	gater, err := core.NewDutyGater(context.Background(), w.client, core.WithDutyGaterForT(t, w.now, 2))
	if err != nil {
		w.close()
		return nil, err
	}
	// generous handler timeout: a loaded machine must not turn into a refused message
	w.ex = parsigex.NewParSigEx(w.net.Host(w.peers[w.shareIdx-1]), p2p.Send, w.shareIdx-1, w.peers, verify, gater,
		p2p.WithReceiveTimeout(10*time.Minute), p2p.WithSendTimeout(10*time.Minute))
	for s := 0; s < 2; s++ {
		src := fmt.Sprintf("peer/%d", s)
		w.ex.Subscribe(func(_ context.Context, duty core.Duty, set core.ParSignedDataSet) error {
			sub := w.peerSub.Load()
			if sub == nil {
				return nil
			}
			for pk, par := range set {
				sub.add(admission{Src: src, Duty: duty, PubKey: pk, Par: par})
			}

			return nil
		})
	}

	// fault-injection instance
	{
		var kb [32]byte
		rng.Read(kb[:])
		id, err := p2p.PeerIDFromKey(k1.PrivKeyFromBytes(kb[:]).PubKey())
		if err != nil {
			w.close()
			return nil, err
		}
		w.faultPeer = id
		fGater := func(d core.Duty) bool {
			ok := gater(d)
			if w.faultMode.Load() == 1 {
				// the handler context was created before the request was read with faultReceiveTimeout:
				// after sleeping longer than that it is certainly done.
				time.Sleep(faultReceiveTimeout + faultReceiveTimeout/2)
			}

			return ok
		}
		fVerify := func(ctx context.Context, p peer.ID, d core.Duty, pk core.PubKey, data core.ParSignedData) error {
			if w.faultMode.CompareAndSwap(2, 3) {
				<-ctx.Done() // the context ends while the set is being verified
			}
			if ctx.Err() != nil {
				w.ctxDead.Add(1)
			}

			return verify(ctx, p, d, pk, data)
		}
		w.exFault = parsigex.NewParSigEx(w.net.Host(w.faultPeer), p2p.Send, w.shareIdx-1, w.peers, fVerify, fGater,
			p2p.WithReceiveTimeout(faultReceiveTimeout))
		for s := 0; s < 2; s++ {
			src := fmt.Sprintf("peer-fault/%d", s)
			w.exFault.Subscribe(func(_ context.Context, duty core.Duty, set core.ParSignedDataSet) error {
				sub := w.faultSub.Load()
				if sub == nil {
					return nil
				}
				for pk, par := range set {
					sub.add(admission{Src: src, Duty: duty, PubKey: pk, Par: par})
				}

				return nil
			})
		}
	}

	return w, nil
}

// faultReceiveTimeout is the receive timeout (lifetime of the stream-handler context) of the
// fault-injection ParSigEx instance.
const faultReceiveTimeout = 2 * time.Millisecond

// sender returns a real ParSigEx for honest peer j whose Broadcast reaches only the node under test.
func (w *world) sender(j int) *parsigex.ParSigEx {
	if ex, ok := w.senders[j]; ok {
		return ex
	}
	noVerify := func(context.Context, peer.ID, core.Duty, core.PubKey, core.ParSignedData) error { return nil }
	send := func(ctx context.Context, h host.Host, pid protocol.ID, to peer.ID, msg proto.Message, opts ...p2p.SendRecvOption) error {
		return p2p.Send(ctx, h, pid, to, msg, append(opts, p2p.WithSendTimeout(10*time.Minute))...)
	}
	ex := parsigex.NewParSigEx(w.net.Host(w.peers[j-1]), send, 0, []peer.ID{w.peers[j-1], w.peers[w.shareIdx-1]},
		noVerify, func(core.Duty) bool { return true })
	w.senders[j] = ex

	return ex
}

func (w *world) readChain() error {
	ctx := context.Background()
	spec, err := w.client.Spec(ctx, &eth2api.SpecOpts{})
	if err != nil {
		return err
	}
	w.domainTypes = map[string]eth2p0.DomainType{}
	for k, v := range spec.Data {
		if dt, ok := v.(eth2p0.DomainType); ok {
			w.domainTypes[k] = dt
		}
	}
	spe, ok := spec.Data["SLOTS_PER_EPOCH"].(uint64)
	if !ok || spe != w.spe {
		return fmt.Errorf("unexpected SLOTS_PER_EPOCH %v", spec.Data["SLOTS_PER_EPOCH"])
	}
	sd, ok := spec.Data["SECONDS_PER_SLOT"].(time.Duration)
	if !ok {
		return fmt.Errorf("unexpected SECONDS_PER_SLOT %T", spec.Data["SECONDS_PER_SLOT"])
	}
	w.slotDur = sd
	gfv, ok := spec.Data["GENESIS_FORK_VERSION"].(eth2p0.Version)
	if !ok {
		return fmt.Errorf("unexpected GENESIS_FORK_VERSION %T", spec.Data["GENESIS_FORK_VERSION"])
	}
	w.genesisFork = gfv
	gen, err := w.client.Genesis(ctx, &eth2api.GenesisOpts{})
	if err != nil {
		return err
	}
	w.genesisTime = gen.Data.GenesisTime
	w.gvr = gen.Data.GenesisValidatorsRoot
	fs, err := w.client.ForkSchedule(ctx, &eth2api.ForkScheduleOpts{})
	if err != nil {
		return err
	}
	w.forks = fs.Data
	if !w.prod && len(w.forks) != 3 {
		return fmt.Errorf("fork schedule override not effective: %d forks", len(w.forks))
	}
	if w.prod {
		// the harness' own schedule is authoritative; what the client reports must agree with it,
		// otherwise the proxy is not effective and the world would be meaningless.
		if len(w.forks) != len(w.prodForks) || w.genesisFork != w.prodForks[0].Version {
			return fmt.Errorf("proxy not effective: %d forks, genesis fork %#x", len(w.forks), w.genesisFork)
		}
		for i, f := range w.prodForks {
			if uint64(w.forks[i].Epoch) != f.Epoch || w.forks[i].CurrentVersion != f.Version {
				return fmt.Errorf("proxy not effective: fork %d is %v", i, w.forks[i])
			}
			if i > 0 {
				if v, _ := spec.Data[f.Name+"_FORK_VERSION"].(eth2p0.Version); v != f.Version {
					return fmt.Errorf("proxy not effective: spec %s_FORK_VERSION = %v", f.Name, spec.Data[f.Name+"_FORK_VERSION"])
				}
				if e, _ := spec.Data[f.Name+"_FORK_EPOCH"].(uint64); e != f.Epoch {
					return fmt.Errorf("proxy not effective: spec %s_FORK_EPOCH = %v", f.Name, spec.Data[f.Name+"_FORK_EPOCH"])
				}
			}
		}
	}

	return nil
}

// wireVAPI registers the monitors as input functions and subscribers of the component.
func (w *world) wireVAPI() {
	subOf := func(ctx context.Context) *submission {
		s, _ := ctx.Value(subKey{}).(*submission)
		return s
	}
	w.vapi.RegisterPubKeyByAttestation(func(_ context.Context, slot, commIdx, valIdx uint64) (core.PubKey, error) {
		v, ok := w.attByKey[attKey{slot, commIdx, valIdx}]
		if !ok {
			return "", fmt.Errorf("dutydb: pubkey not found")
		}

		return v.Core, nil
	})
	w.vapi.RegisterGetDutyDefinition(func(ctx context.Context, duty core.Duty) (core.DutyDefinitionSet, error) {
		switch duty.Type {
		case core.DutyProposer:
			v := w.proposerAt[duty.Slot]
			if s := subOf(ctx); s != nil && s.proposer != nil {
				if ov, ok := s.proposer[duty.Slot]; ok {
					v = ov
				}
			}
			if v == nil {
				return nil, fmt.Errorf("scheduler: duty not found")
			}

			return core.DutyDefinitionSet{v.Core: core.NewProposerDefinition(&eth2v1.ProposerDuty{PubKey: v.Eth2, Slot: eth2p0.Slot(duty.Slot), ValidatorIndex: v.Idx})}, nil
		case core.DutyAttester:
			defs := w.attDefs[duty.Slot]
			if len(defs) == 0 {
				return nil, fmt.Errorf("scheduler: duty not found")
			}
			out := core.DutyDefinitionSet{}
			for _, d := range defs {
				pk, _ := core.PubKeyFromBytes(d.PubKey[:])
				out[pk] = d
			}

			return out, nil
		default:
			return nil, fmt.Errorf("scheduler: duty not found")
		}
	})
	w.vapi.RegisterAwaitProposal(func(ctx context.Context, slot uint64) (*eth2api.VersionedProposal, error) {
		var p *eth2api.VersionedProposal
		if s := subOf(ctx); s != nil && s.agreed != nil {
			p = s.agreed[slot]
		}
		if p == nil {
			p = w.proposals[slot]
		}
		if p == nil {
			return nil, fmt.Errorf("dutydb: proposal not found")
		}

		return deepCopy(p), nil
	})
	w.vapi.RegisterAwaitAttestation(func(context.Context, uint64, uint64) (*eth2p0.AttestationData, error) {
		return nil, fmt.Errorf("not used")
	})
	w.vapi.RegisterAwaitAggSigDB(func(_ context.Context, duty core.Duty, _ core.PubKey, _ core.SubcommitteeIndex) (core.SignedData, error) {
		switch duty.Type {
		case core.DutyPrepareAggregator:
			return core.NewBeaconCommitteeSelection(&eth2v1.BeaconCommitteeSelection{Slot: eth2p0.Slot(duty.Slot)}), nil
		case core.DutyPrepareSyncContribution:
			return core.NewSyncCommitteeSelection(&eth2v1.SyncCommitteeSelection{Slot: eth2p0.Slot(duty.Slot)}), nil
		default:
			return nil, fmt.Errorf("aggsigdb: not found")
		}
	})
	for s := 0; s < 2; s++ {
		src := fmt.Sprintf("vapi/%d", s)
		w.vapi.Subscribe(func(ctx context.Context, duty core.Duty, set core.ParSignedDataSet) error {
			sub := subOf(ctx)
			if sub == nil {
				return nil
			}
			for pk, par := range set {
				sub.add(admission{Src: src, Duty: duty, PubKey: pk, Par: par})
			}

			return nil
		})
	}
}
