package c10

// Fork-boundary sweep (production-client worlds): objects whose own epoch lies on either side of
// every fork boundary of the chain, each signed under every fork version of the schedule. Which of
// them is valid is decided by the harness' own statement of the eth2 rule (specForkVersion).

import (
	"fmt"
	"math/rand"

	eth2p0 "github.com/attestantio/go-eth2-client/spec/phase0"

	"github.com/obolnetwork/charon/tbls"
)

type sweepItem struct {
	Item   any
	Detail string
}

// signVersion signs item over compute_domain(domain type of the object, version, genesis validators root).
func (w *world) signVersion(item any, secret tbls.PrivateKey, version eth2p0.Version) error {
	info, err := w.inspect(item)
	if err != nil {
		return err
	}
	dt, ok := w.domainTypes[info.Domain]
	if !ok {
		return fmt.Errorf("unknown domain %s", info.Domain)
	}
	r, err := (&eth2p0.ForkData{CurrentVersion: version, GenesisValidatorsRoot: w.gvr}).HashTreeRoot()
	if err != nil {
		return err
	}
	var d eth2p0.Domain
	copy(d[:4], dt[:])
	copy(d[4:], r[:28])
	sr, err := (&eth2p0.SigningData{ObjectRoot: info.Root, Domain: d}).HashTreeRoot()
	if err != nil {
		return err
	}
	sig, err := tbls.Sign(secret, sr[:])
	if err != nil {
		return err
	}

	return setSig(item, eth2p0.BLSSignature(sig))
}

func (w *world) forkSweep(k kind, v *valInfo, secret tbls.PrivateKey, rng *rand.Rand) []sweepItem {
	if !w.prod {
		return nil
	}
	epochs := []uint64{0, 1, w.currentEpoch}
	for _, f := range w.prodForks[1:] {
		epochs = append(epochs, f.Epoch-1, f.Epoch)
	}
	var out []sweepItem
	for _, e := range epochs {
		if e > w.currentEpoch+2 {
			continue
		}
		vv := *v
		vv.Slot = e*w.spe + uint64(rng.Intn(int(w.spe)))
		item, err := w.build(k, &vv, rng)
		if err != nil {
			continue
		}
		for _, f := range w.prodForks {
			it := deepCopy(item)
			if err := w.signVersion(it, secret, f.Version); err != nil {
				continue
			}
			out = append(out, sweepItem{Item: it, Detail: fmt.Sprintf("object epoch %d signed under the %s fork version", e, f.Name)})
		}
	}

	return out
}
