package c10

// Object kinds: builders of well-formed, correctly addressed (slot / validator index / committee)
// but still unsigned objects for a validator of the world, plus the harness-side resolution of the
// validator an object claims to be signed by.

import (
	"errors"
	"fmt"
	"math/rand"
	"reflect"

	bitfield "github.com/OffchainLabs/go-bitfield"
	eth2api "github.com/attestantio/go-eth2-client/api"
	eth2v1 "github.com/attestantio/go-eth2-client/api/v1"
	eth2spec "github.com/attestantio/go-eth2-client/spec"
	"github.com/attestantio/go-eth2-client/spec/altair"
	eth2p0 "github.com/attestantio/go-eth2-client/spec/phase0"

	"github.com/obolnetwork/charon/core"
	"github.com/obolnetwork/charon/eth2util"
)

type kind struct {
	Name     string
	DutyType core.DutyType
	Version  eth2spec.DataVersion
	Blinded  bool
}

func (k kind) String() string {
	s := k.Name
	if k.Version != eth2spec.DataVersionUnknown {
		s += "/" + k.Version.String()
	}
	if k.Blinded {
		s += "/blinded"
	}

	return s
}

var (
	preElectra  = []eth2spec.DataVersion{eth2spec.DataVersionPhase0, eth2spec.DataVersionAltair, eth2spec.DataVersionBellatrix, eth2spec.DataVersionCapella, eth2spec.DataVersionDeneb}
	postElectra = []eth2spec.DataVersion{eth2spec.DataVersionElectra, eth2spec.DataVersionFulu}
	allVersions = append(append([]eth2spec.DataVersion(nil), preElectra...), postElectra...)
	// blindedVers doubles as the list of proposal versions: go-eth2-client's VersionedSignedProposal.Slot()
	// answers "unsupported version" for phase0 / altair, so charon refuses those proposals outright.
	blindedVers = []eth2spec.DataVersion{eth2spec.DataVersionBellatrix, eth2spec.DataVersionCapella, eth2spec.DataVersionDeneb, eth2spec.DataVersionElectra, eth2spec.DataVersionFulu}
)

func isPost(v eth2spec.DataVersion) bool {
	return v == eth2spec.DataVersionElectra || v == eth2spec.DataVersionFulu
}

// build returns an unsigned object of kind k for validator v.
func (w *world) build(k kind, v *valInfo, rng *rand.Rand) (any, error) {
	ep := w.epochOf(v.Slot)
	switch k.Name {
	case "attestation":
		data := gen[eth2p0.AttestationData](rng)
		data.Slot = eth2p0.Slot(v.Slot)
		data.Index = eth2p0.CommitteeIndex(v.Comm)
		data.Target.Epoch = eth2p0.Epoch(ep)
		data.Source.Epoch = eth2p0.Epoch(ep - 1)
		bits := bitfield.NewBitlist(v.CommLen)
		bits.SetBitAt(v.Pos, true)
		va := &eth2spec.VersionedAttestation{Version: k.Version}
		f := reflect.ValueOf(va).Elem().FieldByName(versionField[k.Version])
		att := reflect.New(f.Type().Elem())
		att.Elem().FieldByName("AggregationBits").Set(reflect.ValueOf(bits))
		att.Elem().FieldByName("Data").Set(reflect.ValueOf(data))
		if isPost(k.Version) {
			data.Index = 0
			cb := bitfield.NewBitvector64()
			cb.SetBitAt(v.Comm, true)
			att.Elem().FieldByName("CommitteeBits").Set(reflect.ValueOf(cb))
			idx := v.Idx
			va.ValidatorIndex = &idx
		}
		f.Set(att)

		return va, nil
	case "proposal":
		p := &eth2api.VersionedSignedProposal{Version: k.Version, Blinded: k.Blinded}
		name := versionField[k.Version]
		if k.Blinded {
			name += "Blinded"
		}
		f := reflect.ValueOf(p).Elem().FieldByName(name)
		if !f.IsValid() {
			return nil, fmt.Errorf("no proposal field %s", name)
		}
		f.Set(genValue(f.Type(), nil, nil, rng))
		sb, err := signedBlockOf(p)
		if err != nil {
			return nil, err
		}
		msg := sb.Elem().FieldByName("Message").Elem()
		msg.FieldByName("Slot").SetUint(v.Slot)
		msg.FieldByName("ProposerIndex").SetUint(uint64(v.Idx))

		return p, nil
	case "randao":
		return &eth2util.SignedEpoch{Epoch: eth2p0.Epoch(ep)}, nil
	case "exit":
		return &eth2p0.SignedVoluntaryExit{Message: &eth2p0.VoluntaryExit{Epoch: eth2p0.Epoch(ep), ValidatorIndex: v.Idx}}, nil
	case "beacon-selection":
		return &eth2v1.BeaconCommitteeSelection{ValidatorIndex: v.Idx, Slot: eth2p0.Slot(v.Slot)}, nil
	case "sync-selection":
		return &eth2v1.SyncCommitteeSelection{ValidatorIndex: v.Idx, Slot: eth2p0.Slot(v.Slot), SubcommitteeIndex: v.Subcomm}, nil
	case "aggregate", "aggregate-legacy":
		proof, err := w.signRaw(v.Root, uint64Root(v.Slot), domSelection, ep)
		if err != nil {
			return nil, err
		}
		fix := func(signed reflect.Value) {
			msg := signed.Elem().FieldByName("Message").Elem()
			msg.FieldByName("AggregatorIndex").SetUint(uint64(v.Idx))
			msg.FieldByName("SelectionProof").Set(reflect.ValueOf(proof))
			data := msg.FieldByName("Aggregate").Elem().FieldByName("Data").Interface().(*eth2p0.AttestationData)
			data.Slot = eth2p0.Slot(v.Slot)
			data.Target.Epoch = eth2p0.Epoch(ep)
		}
		if k.Name == "aggregate-legacy" {
			p := gen[eth2p0.SignedAggregateAndProof](rng)
			fix(reflect.ValueOf(p))

			return p, nil
		}
		va := &eth2spec.VersionedSignedAggregateAndProof{Version: k.Version}
		f := reflect.ValueOf(va).Elem().FieldByName(versionField[k.Version])
		f.Set(genValue(f.Type(), nil, nil, rng))
		fix(f)

		return va, nil
	case "sync-message":
		m := gen[altair.SyncCommitteeMessage](rng)
		m.Slot = eth2p0.Slot(v.Slot)
		m.ValidatorIndex = v.Idx
		m.Signature = eth2p0.BLSSignature{}

		return m, nil
	case "sync-contribution":
		c := gen[altair.SignedContributionAndProof](rng)
		c.Message.AggregatorIndex = v.Idx
		c.Message.Contribution.Slot = eth2p0.Slot(v.Slot)
		c.Message.Contribution.SubcommitteeIndex = v.Subcomm
		root, err := (&altair.SyncAggregatorSelectionData{Slot: eth2p0.Slot(v.Slot), SubcommitteeIndex: v.Subcomm}).HashTreeRoot()
		if err != nil {
			return nil, err
		}
		c.Message.SelectionProof, err = w.signRaw(v.Root, root, domSyncSel, ep)
		if err != nil {
			return nil, err
		}

		return c, nil
	case "registration":
		r := gen[eth2api.VersionedSignedValidatorRegistration](rng)
		r.Version = eth2spec.BuilderVersionV1
		r.V1.Message.Pubkey = v.Eth2

		return r, nil
	}

	return nil, fmt.Errorf("unknown kind %s", k.Name)
}

// dutyOf is the duty under which an honest node exchanges the object.
func (w *world) dutyOf(k kind, info sigInfo) core.Duty {
	return core.Duty{Slot: info.Slot, Type: k.DutyType}
}

// unsignedOf derives the unsigned proposal (what consensus agreed on) from a signed proposal.
func unsignedOf(p *eth2api.VersionedSignedProposal) (*eth2api.VersionedProposal, error) {
	sf, err := versioned(p, p.Version, p.Blinded)
	if err != nil {
		return nil, err
	}
	name := versionField[p.Version]
	if p.Blinded {
		name += "Blinded"
	}
	up := &eth2api.VersionedProposal{Version: p.Version, Blinded: p.Blinded}
	uf := reflect.ValueOf(up).Elem().FieldByName(name)
	if !uf.IsValid() {
		return nil, fmt.Errorf("no unsigned field %s", name)
	}
	if sb := sf.Elem().FieldByName("SignedBlock"); sb.IsValid() {
		if sb.IsNil() {
			return nil, errors.New("no signed block")
		}
		bc := reflect.New(uf.Type().Elem())
		bc.Elem().FieldByName("Block").Set(deepCopyValue(sb.Elem().FieldByName("Message")))
		bc.Elem().FieldByName("KZGProofs").Set(deepCopyValue(sf.Elem().FieldByName("KZGProofs")))
		bc.Elem().FieldByName("Blobs").Set(deepCopyValue(sf.Elem().FieldByName("Blobs")))
		uf.Set(bc)
	} else {
		uf.Set(deepCopyValue(sf.Elem().FieldByName("Message")))
	}

	return up, nil
}

// unsignedRoot is the hash tree root of the block inside an unsigned proposal.
func unsignedRoot(up *eth2api.VersionedProposal) ([32]byte, error) {
	f, err := versioned(up, up.Version, up.Blinded)
	if err != nil {
		return [32]byte{}, err
	}
	if b := f.Elem().FieldByName("Block"); b.IsValid() && b.Kind() == reflect.Ptr {
		if b.IsNil() {
			return [32]byte{}, errors.New("no block")
		}

		return htr(b)
	}

	return htr(f)
}

func proposalToBlinded(p *eth2api.VersionedSignedProposal) *eth2api.VersionedSignedBlindedProposal {
	return &eth2api.VersionedSignedBlindedProposal{
		Version: p.Version, Bellatrix: p.BellatrixBlinded, Capella: p.CapellaBlinded, Deneb: p.DenebBlinded,
		Electra: p.ElectraBlinded, Fulu: p.FuluBlinded,
	}
}

// claimedValidator resolves, from the harness' own tables, which validator an object claims to
// be signed by when it is submitted to the validator API. nil: not resolvable.
func (w *world) claimedValidator(sub *submission, item any) *valInfo {
	switch x := item.(type) {
	case *eth2spec.VersionedAttestation:
		data, _, err := attOf(x)
		if err != nil {
			return nil
		}
		if isPost(x.Version) {
			if x.ValidatorIndex == nil {
				return nil
			}
			ci, err := x.CommitteeIndex()
			if err != nil {
				return nil
			}

			return w.attByKey[attKey{uint64(data.Slot), uint64(ci), uint64(*x.ValidatorIndex)}]
		}
		bits, err := x.AggregationBits()
		if err != nil {
			return nil
		}
		defs := w.attDefs[uint64(data.Slot)]
		if len(defs) == 0 {
			return nil
		}
		idx := safeBitIndices(bits)
		if len(idx) != 1 {
			// charon rejects multi/zero bit attestations only while it walks a definition of the same committee.
			for _, d := range defs {
				if d.CommitteeIndex == data.Index {
					return nil
				}
			}
		}
		var valIdx uint64
		for _, d := range defs {
			if d.CommitteeIndex == data.Index && len(idx) == 1 && d.ValidatorCommitteeIndex == uint64(idx[0]) {
				valIdx = uint64(d.ValidatorIndex)
				break
			}
		}

		return w.attByKey[attKey{uint64(data.Slot), uint64(data.Index), valIdx}]
	case *eth2api.VersionedSignedProposal, *eth2api.VersionedSignedBlindedProposal, *eth2api.ProposalOpts:
		info, err := w.inspect(item)
		if err != nil {
			return nil
		}
		if sub != nil && sub.proposer != nil {
			if v, ok := sub.proposer[info.Slot]; ok {
				return v
			}
		}

		return w.proposerAt[info.Slot]
	case *eth2p0.SignedVoluntaryExit:
		if x.Message == nil {
			return nil
		}

		return w.byIndex[x.Message.ValidatorIndex]
	case *eth2v1.BeaconCommitteeSelection:
		return w.byIndex[x.ValidatorIndex]
	case *eth2v1.SyncCommitteeSelection:
		return w.byIndex[x.ValidatorIndex]
	case *eth2spec.VersionedSignedAggregateAndProof:
		idx, err := x.AggregatorIndex()
		if err != nil {
			return nil
		}

		return w.byIndex[idx]
	case *altair.SyncCommitteeMessage:
		return w.byIndex[x.ValidatorIndex]
	case *altair.SignedContributionAndProof:
		if x.Message == nil {
			return nil
		}

		return w.byIndex[x.Message.AggregatorIndex]
	}

	return nil
}

func safeBitIndices(b bitfield.Bitlist) (idx []int) {
	defer func() {
		if recover() != nil {
			idx = nil
		}
	}()
	if len(b) == 0 {
		return nil
	}

	return b.BitIndices()
}

// innerProofValid checks the aggregator selection proof embedded in aggregate / contribution
// submissions against the *group* public key of the claimed validator (nil error when the kind
// has no inner proof).
func (w *world) innerProofValid(item any, v *valInfo) bool {
	switch x := item.(type) {
	case *eth2spec.VersionedSignedAggregateAndProof:
		info, err := w.inspect(x)
		if err != nil {
			return false
		}
		proof, err := x.SelectionProof()
		if err != nil {
			return false
		}

		return w.verifies(sigInfo{Root: uint64Root(info.Slot), Domain: domSelection, Epoch: info.Epoch, Sig: proof}, v.Pub)
	case *altair.SignedContributionAndProof:
		if x.Message == nil || x.Message.Contribution == nil {
			return false
		}
		c := x.Message.Contribution
		root, err := (&altair.SyncAggregatorSelectionData{Slot: c.Slot, SubcommitteeIndex: c.SubcommitteeIndex}).HashTreeRoot()
		if err != nil {
			return false
		}

		return w.verifies(sigInfo{Root: root, Domain: domSyncSel, Epoch: w.epochOf(uint64(c.Slot)), Sig: x.Message.SelectionProof}, v.Pub)
	}

	return true
}
