package c10

import (
	"context"
	"encoding/json"
	"fmt"
	"strings"
	"time"

	eth2p0 "github.com/attestantio/go-eth2-client/spec/phase0"
	"github.com/libp2p/go-libp2p/core/protocol"

	"github.com/obolnetwork/charon/core"
	pbv1 "github.com/obolnetwork/charon/core/corepb/v1"
	"github.com/obolnetwork/charon/core/parsigex"
	"github.com/obolnetwork/charon/tbls"
	"github.com/obolnetwork/charon/testutil"

	"verifharness/kit"
)

type pentry struct {
	Key      string // map key of the wire set (claimed validator public key)
	Item     any    // in-memory object the entry was encoded from (nil for raw entries)
	Kind     kind
	ShareIdx int32
	Enc      string // "ssz" | "json"
	Raw      []byte // used verbatim when Item is nil
}

type pmsg struct {
	Class, Detail string
	From          int // 1-based peer index of the sender
	DutySlot      uint64
	DutyType      int32
	Entries       []pentry
	AltIdx        int
	AltIdxs       []int         // all altered entries of a coordinated multi-entry alteration (nil: just AltIdx)
	Clock         time.Duration // offset of the node's clock while the message is handled
	NilDuty       bool
	NilSet        bool
	ViaBroadcast  bool // sent by a real ParSigEx of the sender (baseline only)
	// Fault: 1 = the stream-handler context is done after the duty was gated, before verification;
	// 2 = it ends inside the first signature verification. 0 = live context.
	Fault int32
	// FailReason names the defect when the entry does not verify (otherwise derived by diffing against the baseline).
	FailReason string
	MustAdmit  bool
}

func encodeEntry(e pentry) (b []byte, err error) {
	// Encoding an internally inconsistent object (e.g. version tag altered) may panic inside the
	// marshalers; that is the sender's side, so it only means "cannot be put on the wire".
	defer func() {
		if r := recover(); r != nil {
			err = fmt.Errorf("marshal panic: %v", r)
		}
	}()
	if e.Item == nil {
		return e.Raw, nil
	}
	obj, err := toCore(e.Item)
	if err != nil {
		return nil, err
	}
	if e.Enc == "json" {
		return json.Marshal(obj)
	}
	pb, err := core.ParSignedDataToProto(core.ParSignedData{SignedData: obj, ShareIdx: int(e.ShareIdx)})
	if err != nil {
		return nil, err
	}

	return pb.GetData(), nil
}

func (w *world) gaterAllows(dutyType int32, dutySlot uint64, clock time.Duration) (bool, string) {
	valid := false
	for _, t := range core.AllDutyTypes() {
		if int32(t) == dutyType {
			valid = true
		}
	}
	if !valid {
		return false, "duty-type-invalid"
	}
	now := w.genesisTime.Add(time.Duration(w.currentEpoch*w.spe)*w.slotDur + 3*time.Second).Add(clock)
	curSlot := uint64(now.Sub(w.genesisTime) / w.slotDur)
	curEpoch := curSlot / w.spe
	if dutySlot/w.spe > curEpoch+2 {
		return false, "duty-too-far-future"
	}

	return true, ""
}

type peerOutcome struct {
	Admitted []admission
	Errors   []string // handler errors captured from the log
	Handled  bool
	Panic    string
	SendErr  string
}

// sendPeer delivers m to the node under test and collects what its subscribers and its stream
// handler did. Serialised process-wide: the handler's error only shows up in the process log.
func (e *env) sendPeer(w *world, m *pmsg) (out peerOutcome, skip string) {
	set := map[string]*pbv1.ParSignedData{}
	coreSet := core.ParSignedDataSet{}
	for _, en := range m.Entries {
		b, err := encodeEntry(en)
		if err != nil && en.Enc != "json" {
			en.Enc = "json"
			b, err = encodeEntry(en)
		}
		if err != nil {
			return out, "unrepresentable: " + kit.Short(err.Error(), 60)
		}
		set[en.Key] = &pbv1.ParSignedData{Data: b, ShareIdx: en.ShareIdx}
		if m.ViaBroadcast {
			obj, err := toCore(en.Item)
			if err != nil {
				return out, "unrepresentable: " + err.Error()
			}
			coreSet[core.PubKey(en.Key)] = core.ParSignedData{SignedData: obj, ShareIdx: int(en.ShareIdx)}
		}
	}
	msg := &pbv1.ParSigExMsg{Duty: &pbv1.Duty{Slot: m.DutySlot, Type: m.DutyType}, DataSet: &pbv1.ParSignedDataSet{Set: set}}
	if m.NilDuty {
		msg.Duty = nil
	}
	if m.NilSet {
		msg.DataSet = nil
	}

	if m.Fault != 0 {
		// dead-context delivery: serialised like every other injection, because the handler errors it
		// logs would otherwise be attributed to another world's message.
		e.peerMu.Lock()
		defer e.peerMu.Unlock()
		sub := &submission{}
		w.clockOffset.Store(int64(m.Clock))
		w.faultSub.Store(sub)
		w.faultMode.Store(m.Fault)
		func() {
			defer func() {
				if r := recover(); r != nil {
					out.Panic = fmt.Sprint(r)
				}
			}()
			_, out.Handled = w.net.Inject(w.peers[m.From-1], w.faultPeer, protocol.ID(parsigex.Protocols()[0]), msg)
		}()
		w.faultMode.Store(0)
		w.faultSub.Store(nil)
		w.clockOffset.Store(0)
		out.Admitted = sub.snapshot()

		return out, ""
	}

	e.peerMu.Lock()
	defer e.peerMu.Unlock()
	sub := &submission{}
	w.clockOffset.Store(int64(m.Clock))
	w.peerSub.Store(sub)
	before := e.logs.Len()
	func() {
		defer func() {
			if r := recover(); r != nil {
				out.Panic = fmt.Sprint(r)
			}
		}()
		if m.ViaBroadcast {
			ctx, cancel := context.WithTimeout(context.Background(), callTimeout)
			defer cancel()
			if err := w.sender(m.From).Broadcast(ctx, core.Duty{Slot: m.DutySlot, Type: core.DutyType(m.DutyType)}, coreSet); err != nil {
				out.SendErr = err.Error()
			}
			out.Handled = true

			return
		}
		_, out.Handled = w.net.Inject(w.peers[m.From-1], w.peers[w.shareIdx-1], protocol.ID(parsigex.Protocols()[0]), msg)
	}()
	for _, le := range e.logs.Since(before) {
		if strings.Contains(le.Msg, "P2P stream handler encountered an error") || strings.Contains(le.Msg, "LibP2P received invalid proto") ||
			strings.Contains(le.Msg, "Failed to read p2p request") {
			txt := le.Err
			if txt == "" {
				txt = le.Msg
			}
			out.Errors = append(out.Errors, txt)
		}
	}
	w.peerSub.Store(nil)
	w.clockOffset.Store(0)
	out.Admitted = sub.snapshot()

	return out, ""
}

func (e *env) runPeer(c *kit.Case, w *world, tg target) {
	r := e.r
	rng := c.Rng
	k := tg.pickKind(c)
	r.Seen("kinds", tg.Name+":"+k.String())
	perm := rng.Perm(len(w.vals))
	v, v2 := w.vals[perm[0]], w.vals[perm[1]]
	from := 1 + rng.Intn(w.n)
	for from == w.shareIdx {
		from = 1 + rng.Intn(w.n)
	}
	share := from // an honest peer sends partials of its own share

	buildSigned := func(val *valInfo, sh int) (any, error) {
		item, err := w.build(k, val, rng)
		if err != nil {
			return nil, err
		}
		if err := w.sign(item, val.Shares[sh], "", nil); err != nil {
			return nil, err
		}

		return item, nil
	}
	base, err := buildSigned(v, share)
	if err != nil {
		r.Inconclusive("%s: build baseline: %v", tg.Name, err)
		return
	}
	baseInfo, err := w.inspect(base)
	if err != nil {
		r.Inconclusive("%s: inspect baseline: %v", tg.Name, err)
		return
	}
	// a second validator with a duty in the same slot (one wire message carries one duty)
	v2same := *v2
	v2same.Slot = v.Slot
	other, err := buildSigned(&v2same, share)
	if err != nil {
		r.Inconclusive("%s: build second baseline: %v", tg.Name, err)
		return
	}
	duty := w.dutyOf(k, baseInfo)
	enc := func() string {
		if rng.Intn(3) == 0 {
			return "json"
		}

		return "ssz"
	}
	entryOf := func(val *valInfo, item any, sh int) pentry {
		return pentry{Key: string(val.Core), Item: item, Kind: k, ShareIdx: int32(sh), Enc: enc()}
	}
	newMsg := func(class, detail string, en ...pentry) *pmsg {
		return &pmsg{Class: class, Detail: detail, From: from, DutySlot: duty.Slot, DutyType: int32(duty.Type), Entries: en}
	}

	var msgs []*pmsg
	// valid messages
	m := newMsg("valid", "real ParSigEx.Broadcast of the sender", entryOf(v, base, share))
	m.ViaBroadcast, m.MustAdmit = true, true
	msgs = append(msgs, m)
	m = newMsg("valid", "injected, json", entryOf(v, base, share))
	m.Entries[0].Enc, m.MustAdmit = "json", true
	msgs = append(msgs, m)
	m = newMsg("valid", "injected, ssz", entryOf(v, base, share))
	m.Entries[0].Enc, m.MustAdmit = "ssz", true
	msgs = append(msgs, m)
	m = newMsg("valid-batch", "two validators in one set", entryOf(v, base, share), entryOf(v2, other, share))
	m.MustAdmit = true
	msgs = append(msgs, m)
	// gater window on the node's clock (the clock never goes before genesis)
	{
		dutyEpoch := w.epochOf(duty.Slot)
		clockAt := func(epoch uint64) time.Duration {
			return time.Duration((int64(epoch) - int64(w.currentEpoch)) * int64(w.spe) * int64(w.slotDur))
		}
		if dutyEpoch >= 2 {
			m = newMsg("valid-at-window-edge", "duty epoch == current epoch + 2", entryOf(v, base, share))
			m.Clock, m.MustAdmit = clockAt(dutyEpoch-2), true
			msgs = append(msgs, m)
		}
		if dutyEpoch >= 3 {
			m = newMsg("duty-too-far-future", "clock moved back: duty epoch == current epoch + 3", entryOf(v, base, share))
			m.Clock = clockAt(dutyEpoch - 3)
			msgs = append(msgs, m)
			m = newMsg("duty-too-far-future", "clock moved back further", entryOf(v, base, share))
			m.Clock = clockAt(uint64(rng.Intn(int(dutyEpoch - 2))))
			msgs = append(msgs, m)
		}
		m = newMsg("duty-expired", "clock moved forward by many epochs (the gater does not bound the past)", entryOf(v, base, share))
		m.Clock = clockAt(w.currentEpoch + 10 + uint64(rng.Intn(1000)))
		msgs = append(msgs, m)
	}

	mk := func(class, detail string, f func(item any, sub *submission) error) {
		it := deepCopy(base)
		if err := f(it, nil); err != nil {
			r.Count("alteration_not_applicable", 1)
			r.Seen("alteration_not_applicable", tg.Name+"|"+class+": "+kit.Short(err.Error(), 80))

			return
		}
		msgs = append(msgs, newMsg(class, detail, entryOf(v, it, share)))
	}

	// 1. leaves of the signed object
	paths := leafPaths(base)
	r.Count("leaf_paths_enumerated", int64(len(paths)))
	idxs := rng.Perm(len(paths))
	budget, variants := 36, 1
	if r.Thorough() {
		budget, variants = 400, 2
	}
	if len(idxs) > budget {
		idxs = idxs[:budget]
	}
	for _, li := range idxs {
		for vnt := 0; vnt < variants; vnt++ {
			li := li
			path := paths[li]
			r.Seen("leaves:"+tg.Name, path)
			var how string
			mk("leaf", path, func(it any, _ *submission) error {
				d, ok := mutateLeaf(it, li, rng)
				if !ok {
					return fmt.Errorf("leaf %s not mutable", path)
				}
				how = d

				return nil
			})
			if n := len(msgs); n > 0 && msgs[n-1].Class == "leaf" && msgs[n-1].Detail == path {
				msgs[n-1].Detail = path + " " + how
			}
		}
	}

	// 2. signature-level alterations
	w.sigAlterations(rng, base, baseInfo, v, share, mk)

	// 3. claimed validator (map key)
	unknownKey := testutil.RandomCorePubKeySeed(r.T(), rng)
	for _, ka := range []struct{ class, key string }{
		{"pubkey-other-validator", string(v2.Core)},
		{"pubkey-not-in-cluster", string(w.outsider.Core)},
		{"pubkey-unknown", string(unknownKey)},
		{"pubkey-malformed", ""},
		{"pubkey-malformed", "0x"},
		{"pubkey-malformed", "0x1234"},
		{"pubkey-malformed", strings.ToUpper(string(v.Core))},
		{"pubkey-malformed", strings.TrimPrefix(string(v.Core), "0x")},
	} {
		en := entryOf(v, deepCopy(base), share)
		en.Key = ka.key
		msgs = append(msgs, newMsg(ka.class, "key "+kit.Short(ka.key, 14), en))
	}

	// 4. claimed share index
	otherShare := 1 + rng.Intn(w.n)
	for otherShare == share {
		otherShare = 1 + rng.Intn(w.n)
	}
	for _, sa := range []struct {
		class string
		idx   int32
	}{
		{"share-index-zero", 0}, {"share-index-n-plus-1", int32(w.n + 1)}, {"share-index-negative", -1},
		{"share-index-negative", -int32(share)}, {"share-index-huge", 1<<31 - 1}, {"share-index-other-peer", int32(otherShare)},
		// indices that any narrowing conversion, mask or modulus would fold onto the signer's own index:
		// share + 2^k (k = 4, 8, 16, 24, 30), share - 2^8 (negative), share + n, share + 100·n
		{"share-index-congruent-to-signer", int32(share) + 1<<4}, {"share-index-congruent-to-signer", int32(share) + 1<<8},
		{"share-index-congruent-to-signer", int32(share) + 2<<8}, {"share-index-congruent-to-signer", int32(share) + 1<<16},
		{"share-index-congruent-to-signer", int32(share) + 1<<24}, {"share-index-congruent-to-signer", int32(share) + 1<<30},
		{"share-index-congruent-to-signer", int32(share) - 1<<8}, {"share-index-congruent-to-signer", int32(share) - 1<<16},
		{"share-index-congruent-to-signer", int32(share + w.n)}, {"share-index-congruent-to-signer", int32(share + 100*w.n)},
	} {
		en := entryOf(v, deepCopy(base), share)
		en.ShareIdx = sa.idx
		msgs = append(msgs, newMsg(sa.class, fmt.Sprintf("claims %d, signed by %d", sa.idx, share), en))
	}
	// relays: valid for the share index they claim, although the sender holds another share
	for _, rs := range []int{otherShare, w.shareIdx} {
		it := deepCopy(base)
		if err := w.sign(it, v.Shares[rs], "", nil); err == nil {
			cls := "relay-of-valid-partial"
			if rs == w.shareIdx {
				cls = "relay-of-own-share-partial"
			}
			msgs = append(msgs, newMsg(cls, fmt.Sprintf("sender %d relays share %d", from, rs), entryOf(v, it, rs)))
		}
	}

	// 5. duty
	sentinel := int32(len(core.AllDutyTypes()) + 1)
	for _, dt := range []int32{0, sentinel, sentinel + 1, 100, -1, -int32(duty.Type), 1 << 30} {
		m := newMsg("duty-type-invalid", fmt.Sprintf("type %d", dt), entryOf(v, deepCopy(base), share))
		m.DutyType = dt
		msgs = append(msgs, m)
	}
	{
		m := newMsg("duty-type-deprecated", "builder_proposer", entryOf(v, deepCopy(base), share))
		m.DutyType = int32(core.DutyBuilderProposer)
		msgs = append(msgs, m)
		// DutySignature carries a bare signature, which is not an eth2 signed object
		raw, _ := json.Marshal(core.SigFromETH2(baseInfo.Sig))
		m = newMsg("duty-type-signature", "bare signature under DutySignature", pentry{Key: string(v.Core), Raw: raw, ShareIdx: int32(share), Kind: k})
		m.DutyType = int32(core.DutySignature)
		msgs = append(msgs, m)
		m = newMsg("duty-type-signature", "object under DutySignature", entryOf(v, deepCopy(base), share))
		m.DutyType = int32(core.DutySignature)
		msgs = append(msgs, m)
		for _, ot := range peerTargets {
			if ot.Duty == duty.Type {
				continue
			}
			m = newMsg("duty-type-mismatch", "sent as "+ot.Duty.String(), entryOf(v, deepCopy(base), share))
			m.DutyType = int32(ot.Duty)
			msgs = append(msgs, m)
		}
		m = newMsg("duty-too-far-future", "wire duty slot far in the future", entryOf(v, deepCopy(base), share))
		m.DutySlot = (w.currentEpoch+3+uint64(rng.Intn(1000)))*w.spe + uint64(rng.Intn(int(w.spe)))
		msgs = append(msgs, m)
		m = newMsg("duty-too-far-future", "wire duty slot = max uint64", entryOf(v, deepCopy(base), share))
		m.DutySlot = ^uint64(0)
		msgs = append(msgs, m)
		m = newMsg("duty-slot-mismatch", "wire duty slot differs from the object's slot, inside the window", entryOf(v, deepCopy(base), share))
		m.DutySlot = duty.Slot + 1 + uint64(rng.Intn(3))
		if m.DutySlot/w.spe > w.currentEpoch+2 {
			m.DutySlot = duty.Slot - 1
		}
		msgs = append(msgs, m)
		m = newMsg("envelope-nil-duty", "no duty", entryOf(v, deepCopy(base), share))
		m.NilDuty = true
		msgs = append(msgs, m)
		m = newMsg("envelope-nil-set", "no data set", entryOf(v, deepCopy(base), share))
		m.NilSet = true
		msgs = append(msgs, m)
		m = newMsg("envelope-empty-set", "empty data set")
		msgs = append(msgs, m)
		m = newMsg("envelope-garbage-data", "random bytes as data", pentry{Key: string(v.Core), Raw: testutil.RandomBytes32Seed(rng), ShareIdx: int32(share), Kind: k})
		msgs = append(msgs, m)
		m = newMsg("envelope-garbage-data", "empty data", pentry{Key: string(v.Core), Raw: []byte{}, ShareIdx: int32(share), Kind: k})
		msgs = append(msgs, m)
	}

	// 6. batches: a valid entry of another validator plus one bad entry
	{
		single := append([]*pmsg(nil), msgs...)
		picked := 0
		for _, pi := range rng.Perm(len(single)) {
			a := single[pi]
			if a.MustAdmit || len(a.Entries) != 1 || a.Entries[0].Key == string(v2.Core) || a.Clock != 0 || a.NilDuty || a.NilSet {
				continue
			}
			if strings.HasPrefix(a.Class, "duty-") || strings.HasPrefix(a.Class, "relay") {
				continue
			}
			bad := a.Entries[0]
			if bad.Item != nil {
				bad.Item = deepCopy(bad.Item)
			}
			b := newMsg("batch:"+a.Class, a.Detail, entryOf(v2, deepCopy(other), share), bad)
			b.AltIdx = 1
			msgs = append(msgs, b)
			picked++
			if picked >= 6 {
				break
			}
		}
	}

	// 7. coordinated multi-entry alterations (one set, several validators of the same duty):
	// signatures swapped / rotated between validators, key shares shifted by cancelling offsets.
	if len(w.co) >= 3 {
		coPerm := rng.Perm(len(w.co))
		cv := []*valInfo{w.co[coPerm[0]], w.co[coPerm[1]], w.co[coPerm[2]]}
		coItems, err := w.cobuild(k, cv, rng)
		if err != nil {
			r.Inconclusive("%s: co-slot build: %v", tg.Name, err)
		} else {
			keyOf := map[any]string{}
			secrets := []tbls.PrivateKey{cv[0].Shares[share], cv[1].Shares[share], cv[2].Shares[share]}
			for i, it := range coItems {
				if err := w.sign(it, secrets[i], "", nil); err != nil {
					r.Inconclusive("%s: co-slot sign: %v", tg.Name, err)
				}
			}
			coInfo, _ := w.inspect(coItems[0])
			coDuty := w.dutyOf(k, coInfo)
			coMsg := func(class, detail string, items []any, keys []string) *pmsg {
				var ents []pentry
				e2 := enc()
				for i, it := range items {
					ents = append(ents, pentry{Key: keys[i], Item: it, Kind: k, ShareIdx: int32(share), Enc: e2})
				}
				m := newMsg(class, detail, ents...)
				m.DutySlot, m.DutyType = coDuty.Slot, int32(coDuty.Type)

				return m
			}
			keys := []string{string(cv[0].Core), string(cv[1].Core), string(cv[2].Core)}
			m := coMsg("valid-coslot-batch", "three validators in one set", deepCopy(coItems), keys)
			m.MustAdmit = true
			msgs = append(msgs, m)
			// the claimed validator of an entry is its map key: find it back through the signed content
			// (multiAlterations shuffles items), so tag items by identity of their non-signature content.
			for _, ma := range w.multiAlterationsKeyed(rng, coItems, secrets, keys, keyOf) {
				mk := make([]string, len(ma.Items))
				for i, it := range ma.Items {
					mk[i] = keyOf[it]
				}
				m := coMsg(ma.Class, ma.Detail, ma.Items, mk)
				m.AltIdx, m.AltIdxs = ma.AltIdxs[0], ma.AltIdxs
				msgs = append(msgs, m)
			}
		}
	}

	// 7b. production-client worlds: fork-boundary sweep
	for _, si := range w.forkSweep(k, v, v.Shares[share], rng) {
		ii, err := w.inspect(si.Item)
		if err != nil {
			continue
		}
		m := newMsg("fork-sweep", si.Detail, entryOf(v, si.Item, share))
		m.DutySlot, m.FailReason = ii.Slot, "wrong-fork-domain"
		msgs = append(msgs, m)
	}

	// 8. fault injection: re-deliver a sample of the invalid (and two valid) messages to a second
	// real ParSigEx of the node whose stream-handler context is done by the time the set is verified.
	{
		nFault := 10
		if r.Thorough() {
			nFault = 30
		}
		var faults []*pmsg
		mode := int32(1)
		for _, pi := range rng.Perm(len(msgs)) {
			a := msgs[pi]
			if a.ViaBroadcast || a.Clock != 0 || a.NilDuty || a.NilSet || len(a.Entries) == 0 {
				continue
			}
			ok := false
			for _, pre := range []string{"leaf", "sig-", "pubkey-", "share-index-", "multi-", "batch:", "duty-type-mismatch"} {
				ok = ok || strings.HasPrefix(a.Class, pre)
			}
			if !ok {
				continue
			}
			f := *a
			f.Class, f.Fault = "ctx-done:"+a.Class, mode
			if len(faults)%4 == 3 {
				f.Fault = 2
			}
			faults = append(faults, &f)
			if len(faults) >= nFault {
				break
			}
		}
		for _, encn := range []string{"ssz", "json"} {
			f := newMsg("ctx-done:valid", "valid message, handler context done", entryOf(v, base, share))
			f.Entries[0].Enc, f.Fault = encn, mode
			faults = append(faults, f)
		}
		msgs = append(msgs, faults...)
	}

	classes := map[string]bool{}
	mustRejectSeen, validOK := 0, 0
	for _, m := range msgs {
		mr, ok := e.judgePeer(c, w, tg, k, m, baseInfo, v, share)
		classes[m.Class] = true
		if mr {
			mustRejectSeen++
		}
		if m.MustAdmit && ok {
			validOK++
		}
	}
	if !tg.Prod || k.Name != "exit" {
		e.overlapTrial(c, w, tg, k, v, from, share, baseInfo, newMsg, entryOf)
	}
	r.Count("peer_verifications_started_with_done_context", w.ctxDead.Load())
	if validOK > 0 && mustRejectSeen > 0 {
		c.NonTrivial(kit.Hash(tg.Name, k.String(), w.n, w.k, w.shareIdx, from, len(classes), mustRejectSeen))
	}
	if c.Idx < 3 {
		r.Sample(map[string]any{"case": c.Idx, "target": tg.Name, "kind": k.String(), "n": w.n, "k": w.k, "node_share_idx": w.shareIdx, "sender": from,
			"validators": len(w.vals), "leaf_paths": len(paths), "messages": len(msgs), "must_reject": mustRejectSeen})
	}
}

func (e *env) judgePeer(c *kit.Case, w *world, tg target, k kind, m *pmsg, baseInfo sigInfo, baseV *valInfo, baseShare int) (bool, bool) {
	r := e.r

	// classification
	var reasons []string
	var ierr error
	hasAlt := m.AltIdx < len(m.Entries)
	cryptoReason := false
	if ok, why := w.gaterAllows(m.DutyType, m.DutySlot, m.Clock); !ok {
		reasons = append(reasons, why)
	}
	switch {
	case m.NilDuty:
		reasons = append(reasons, "envelope-no-duty")
	case m.NilSet || len(m.Entries) == 0:
		reasons = append(reasons, "envelope-no-data")
	}
	if core.DutyType(m.DutyType) == core.DutyBuilderProposer {
		reasons = append(reasons, "duty-type-deprecated")
	}
	if core.DutyType(m.DutyType) == core.DutySignature {
		reasons = append(reasons, "duty-type-not-eth2-signed")
	}
	type altEntry struct {
		en   pentry
		info sigInfo
		ierr error
	}
	var altEntries []altEntry
	altIdxs := m.AltIdxs
	multi := len(altIdxs) > 0
	if !multi && hasAlt {
		altIdxs = []int{m.AltIdx}
	}
	for _, ix := range altIdxs {
		if m.MustAdmit {
			break
		}
		en := m.Entries[ix]
		if en.Item == nil {
			if core.DutyType(m.DutyType) != core.DutySignature {
				reasons = append(reasons, "undecodable-data")
			}

			continue
		}
		if core.DutyType(m.DutyType) != en.Kind.DutyType && len(reasons) == 0 {
			reasons = append(reasons, "duty-type-mismatch")
		}
		ae := altEntry{en: en}
		ae.info, ae.ierr = w.inspect(en.Item)
		shares, known := w.pubShare[core.PubKey(en.Key)]
		_, shareOK := shares[int(en.ShareIdx)]
		switch {
		case !known:
			reasons = append(reasons, "pubkey-not-in-lock")
		case !shareOK:
			reasons = append(reasons, "share-index-out-of-range")
		case ae.ierr != nil:
			reasons = append(reasons, "unparseable")
		case !w.verifies(ae.info, shares[int(en.ShareIdx)]):
			if m.FailReason != "" {
				cryptoReason = len(reasons) == 0
				reasons = append(reasons, m.FailReason)
			} else if multi {
				cryptoReason = len(reasons) == 0 || reasons[len(reasons)-1] == "invalid-under-claimed-share"
				if len(reasons) == 0 {
					reasons = append(reasons, "invalid-under-claimed-share")
				}
			} else {
				cryptoReason = len(reasons) == 0
				reasons = append(reasons, w.diffReasons(ae.info, baseInfo, w.byCore[core.PubKey(en.Key)], baseV, int(en.ShareIdx), baseShare)...)
			}
		}
		altEntries = append(altEntries, ae)
	}
	if len(altEntries) > 0 {
		ierr = altEntries[0].ierr
	}
	mustReject := len(reasons) > 0 && !m.MustAdmit
	cls := classification(reasons)

	out, skip := e.sendPeer(w, m)
	if skip != "" {
		r.Count("alteration_unrepresentable_on_wire", 1)
		e.tally(tg.Name, m.Class, cls, "not-sent:"+strings.SplitN(skip, ":", 2)[0])

		return false, false
	}
	r.Count("submissions", 1)
	r.Count("peer_submissions", 1)
	if !out.Handled {
		r.Inconclusive("%s: no parsigex stream handler registered", tg.Name)
		return false, false
	}

	witness := func() map[string]any {
		var adm []map[string]any
		for _, ad := range out.Admitted {
			adm = append(adm, map[string]any{"src": ad.Src, "duty": ad.Duty.String(), "pubkey": string(ad.PubKey), "share_idx": ad.Par.ShareIdx})
		}
		var ents []map[string]any
		for _, en := range m.Entries {
			ents = append(ents, map[string]any{"key": en.Key, "share_idx": en.ShareIdx, "enc": en.Enc, "item": jsonOrString(en.Item), "raw_len": len(en.Raw)})
		}

		return map[string]any{
			"target": tg.Name, "kind": k.String(), "class": m.Class, "detail": m.Detail, "classification": cls,
			"n": w.n, "k": w.k, "node_share_idx": w.shareIdx, "sender_peer": m.From, "signer": baseV.Name,
			"handler_context_fault": m.Fault, "wire_duty": fmt.Sprintf("%d/%d", m.DutySlot, m.DutyType), "clock_offset": m.Clock.String(), "current_epoch": w.currentEpoch,
			"handler_errors": out.Errors, "panic": out.Panic, "send_error": out.SendErr, "admitted": adm, "alt_index": m.AltIdx, "alt_indices": m.AltIdxs, "entries": ents,
		}
	}

	// universal oracle
	reached := false
	sameObject := false
	for _, ad := range out.Admitted {
		e.checkAdmitted(c, w, tg, ad, 0, witness)
		ai, ok := w.admittedInfo(ad)
		if !ok {
			continue
		}
		for _, ae := range altEntries {
			if ae.ierr != nil || string(ad.PubKey) != ae.en.Key || ad.Par.ShareIdx != int(ae.en.ShareIdx) || ai.Sig != ae.info.Sig {
				continue
			}
			reached = true
			if ai.Root == ae.info.Root && ai.Domain == ae.info.Domain && ai.Epoch == ae.info.Epoch {
				sameObject = true
			}
		}
	}
	if len(out.Admitted) > 0 && (len(altEntries) == 0 || ierr != nil || !cryptoReason) {
		// window / type / key / envelope defects poison the whole message: nothing may get through
		reached, sameObject = true, true
	}
	if out.Panic != "" {
		r.Count("handler_panics", 1)
		r.Seen("handler_panics", tg.Name+"|"+m.Class+": "+kit.Short(out.Panic, 100))
	}
	for _, es := range out.Errors {
		e.tallyErr(tg.Name, es)
	}

	sigPrefix := tg.Name + "/" + m.Class
	if m.Class == "leaf" {
		sigPrefix += ":" + leafSigName(m.Detail)
	}

	switch {
	case m.MustAdmit:
		want := map[string]sigInfo{}
		for _, en := range m.Entries {
			ii, err := w.inspect(en.Item)
			if err != nil {
				r.Inconclusive("%s: valid entry not inspectable", tg.Name)
				return false, false
			}
			want[en.Key] = ii
		}
		ok := len(out.Errors) == 0 && out.Panic == "" && out.SendErr == ""
		perSrc := map[string]map[string]sigInfo{}
		for _, ad := range out.Admitted {
			it, err := fromCore(ad.Par.SignedData)
			if err != nil {
				ok = false
				continue
			}
			ai, err := w.inspect(it)
			if err != nil {
				ok = false
				continue
			}
			if perSrc[ad.Src] == nil {
				perSrc[ad.Src] = map[string]sigInfo{}
			}
			if _, dup := perSrc[ad.Src][string(ad.PubKey)]; dup {
				ok = false
			}
			perSrc[ad.Src][string(ad.PubKey)] = ai
			if ad.Par.ShareIdx != baseShare || ad.Duty.Slot != m.DutySlot || int32(ad.Duty.Type) != m.DutyType {
				ok = false
			}
		}
		if len(perSrc) != 2 {
			ok = false
		}
		for _, got := range perSrc {
			if len(got) != len(want) {
				ok = false
			}
			for pk, wi := range want {
				gi, present := got[pk]
				if !present || gi.Root != wi.Root || gi.Sig != wi.Sig || gi.Domain != wi.Domain || gi.Epoch != wi.Epoch {
					ok = false
				}
			}
		}
		if !ok && strings.Contains(strings.Join(out.Errors, " ")+out.SendErr, "context ") {
			r.Inconclusive("%s: valid message hit a timeout: %v %s", tg.Name, out.Errors, out.SendErr)
			return false, false
		}
		if !ok {
			c.Violation(tg.Name+"/"+m.Class+"/valid-message-refused", "a peer message whose partial verifies under the lock pubshare of the claimed share and whose duty is inside the gater window was refused or not handed to every subscriber exactly once", witness())
			e.tally(tg.Name, m.Class, "must-admit", "REFUSED")

			return false, false
		}
		r.Count("valid_admitted", 1)
		e.tally(tg.Name, m.Class, "must-admit", "admitted")

		return false, true
	case mustReject:
		r.Count("must_reject", 1)
		switch {
		case reached && sameObject:
			c.Violation(sigPrefix+"/"+sigOf(reasons)+"/admitted", "a peer partial signature that must be rejected ("+cls+") reached a subscriber", witness())
			e.tally(tg.Name, m.Class, cls, "ADMITTED")
		case reached:
			// the codec normalised the alteration away and the admitted object re-verified
			r.Count("peer_alteration_normalised_by_codec", 1)
			e.tally(tg.Name, m.Class, cls, "normalised-by-codec")
		case len(out.Errors) == 0 && out.Panic == "" && len(m.Entries) <= 1 && m.Fault == 0:
			c.Violation(sigPrefix+"/"+sigOf(reasons)+"/no-error", "the stream handler reported no error for a message that must be rejected ("+cls+")", witness())
			e.tally(tg.Name, m.Class, cls, "SILENT")
		default:
			r.Count("must_reject_rejected", 1)
			r.Count("peer_must_reject_rejected", 1)
			if m.Fault != 0 {
				r.Count(fmt.Sprintf("peer_ctx_done_mode%d_must_reject_rejected", m.Fault), 1)
			}
			e.tally(tg.Name, m.Class, cls, "rejected")
		}

		return true, false
	default:
		if m.Class == "fork-sweep" {
			r.Count(fmt.Sprintf("fork_sweep_correct_domain_admitted=%v", len(out.Admitted) > 0), 1)
		}
		if len(out.Admitted) > 0 {
			r.Count("may_admit_admitted", 1)
			e.tally(tg.Name, m.Class, cls, "admitted")
			if m.Class == "duty-slot-mismatch" || m.Class == "duty-expired" || strings.HasPrefix(m.Class, "relay") {
				r.Count("observation:"+m.Class+":admitted", 1)
			}
		} else {
			r.Count("may_admit_rejected", 1)
			e.tally(tg.Name, m.Class, cls, "rejected")
		}

		return false, false
	}
}

var _ = eth2p0.Slot(0)
