package c10

// Coordinated multi-item alterations: every altered item is invalid under its own claimed
// public share, but the defects are chosen so that they cancel in any check that looks only at a
// sum / aggregate of the batch (signatures permuted between validators that sign the same root,
// key shares shifted by offsets that add up to zero modulo the group order).

import (
	"fmt"
	"math/big"
	"math/rand"
	"reflect"

	eth2spec "github.com/attestantio/go-eth2-client/spec"
	"github.com/attestantio/go-eth2-client/spec/altair"

	"github.com/obolnetwork/charon/tbls"
)

// blsOrder is the order r of the BLS12-381 groups.
var blsOrder, _ = new(big.Int).SetString("73eda753299d7d483339d80809a1d80553bda402fffe5bfeffffffff00000001", 16)

// shiftKey returns sk + d mod r (big-endian scalars).
func shiftKey(sk tbls.PrivateKey, d *big.Int) (tbls.PrivateKey, error) {
	v := new(big.Int).SetBytes(sk[:])
	v.Add(v, d)
	v.Mod(v, blsOrder)
	if v.Sign() == 0 {
		return tbls.PrivateKey{}, fmt.Errorf("shifted key is zero")
	}
	var out tbls.PrivateKey
	v.FillBytes(out[:])

	return out, nil
}

func randScalar(rng *rand.Rand) *big.Int {
	var b [32]byte
	rng.Read(b[:])
	v := new(big.Int).SetBytes(b[:])
	v.Mod(v, blsOrder)
	if v.Sign() == 0 {
		v.SetInt64(1)
	}

	return v
}

// cobuild builds one unsigned object per validator; all validators must share slot / committee /
// subcommittee (w.co). Where the object type allows it the signed content is made identical, so
// that all items have the same signing root.
func (w *world) cobuild(k kind, vals []*valInfo, rng *rand.Rand) ([]any, error) {
	var items []any
	for i, v := range vals {
		it, err := w.build(k, v, rng)
		if err != nil {
			return nil, err
		}
		if i > 0 {
			switch x := it.(type) {
			case *eth2spec.VersionedAttestation:
				first := items[0].(*eth2spec.VersionedAttestation)
				d0, _, err := attOf(first)
				if err != nil {
					return nil, err
				}
				f, err := versioned(x, x.Version, false)
				if err != nil {
					return nil, err
				}
				f.Elem().FieldByName("Data").Set(reflect.ValueOf(deepCopy(d0)))
			case *altair.SyncCommitteeMessage:
				x.BeaconBlockRoot = items[0].(*altair.SyncCommitteeMessage).BeaconBlockRoot
			}
		}
		items = append(items, it)
	}

	return items, nil
}

type multiAlt struct {
	Class, Detail string
	Items         []any
	AltIdxs       []int
}

// multiAlterations derives the coordinated alterations from three valid items signed with
// secrets[i] (the same share index of three validators).
func (w *world) multiAlterations(rng *rand.Rand, valid []any, secrets []tbls.PrivateKey) []multiAlt {
	return w.multiAlterationsKeyed(rng, valid, secrets, nil, nil)
}

// multiAlterationsKeyed additionally records in keyOf which wire key (claimed validator) belongs
// to every item of the produced batches.
func (w *world) multiAlterationsKeyed(rng *rand.Rand, valid []any, secrets []tbls.PrivateKey, keys []string, keyOf map[any]string) []multiAlt {
	var out []multiAlt
	tag := func(items []any) {
		if keyOf == nil {
			return
		}
		for i, it := range items {
			keyOf[it] = keys[i]
		}
	}
	sigOf := func(it any) (sig [96]byte, ok bool) {
		info, err := w.inspect(it)
		return info.Sig, err == nil
	}
	permute := func(class, detail string, n int, perm []int) {
		items := deepCopy(valid[:n])
		tag(items)
		for i := range perm {
			s, ok := sigOf(valid[perm[i]])
			if !ok || setSig(items[i], s) != nil {
				return
			}
		}
		var idxs []int
		for i := range perm {
			if perm[i] != i {
				idxs = append(idxs, i)
			}
		}
		rng.Shuffle(len(items), func(a, b int) {
			items[a], items[b] = items[b], items[a]
			for j := range idxs {
				switch idxs[j] {
				case a:
					idxs[j] = b
				case b:
					idxs[j] = a
				}
			}
		})
		out = append(out, multiAlt{Class: class, Detail: detail, Items: items, AltIdxs: idxs})
	}
	permute("multi-swap", "two validators, signatures swapped", 2, []int{1, 0})
	permute("multi-swap", "three validators, two signatures swapped, one valid", 3, []int{1, 0, 2})
	if rng.Intn(2) == 0 {
		permute("multi-rotate", "three validators, signatures rotated", 3, []int{1, 2, 0})
	} else {
		permute("multi-rotate", "three validators, signatures rotated", 3, []int{2, 0, 1})
	}

	shift := func(class, detail string, n int, offs []*big.Int) {
		items := deepCopy(valid[:n])
		tag(items)
		var idxs []int
		for i, d := range offs {
			if d == nil {
				continue
			}
			sk, err := shiftKey(secrets[i], d)
			if err != nil || w.sign(items[i], sk, "", nil) != nil {
				return
			}
			idxs = append(idxs, i)
		}
		out = append(out, multiAlt{Class: class, Detail: detail, Items: items, AltIdxs: idxs})
	}
	d := randScalar(rng)
	neg := new(big.Int).Sub(blsOrder, d)
	shift("multi-cancelling-shift", "two validators signed with sk_a+d, sk_b-d", 2, []*big.Int{d, neg})
	shift("multi-cancelling-shift", "three validators: sk_a+d, sk_b-d, one valid", 3, []*big.Int{d, neg, nil})
	d1, d2 := randScalar(rng), randScalar(rng)
	d3 := new(big.Int).Add(d1, d2)
	d3.Mod(d3, blsOrder)
	d3.Sub(blsOrder, d3)
	d3.Mod(d3, blsOrder)
	if d3.Sign() != 0 {
		shift("multi-cancelling-shift", "three validators: offsets d1, d2, -(d1+d2)", 3, []*big.Int{d1, d2, d3})
	}
	one := big.NewInt(1)
	shift("multi-cancelling-shift", "two validators signed with sk_a+1, sk_b-1", 2, []*big.Int{one, new(big.Int).Sub(blsOrder, one)})

	return out
}

// batchSumVerifies reports whether all items share one signing root and the aggregate of their
// signatures verifies against the node's public shares of the claimed validators.
func (w *world) batchSumVerifies(sub *submission, items []any) bool {
	var (
		pubs []tbls.PublicKey
		sigs []tbls.Signature
		sr   [32]byte
	)
	for i, it := range items {
		info, err := w.inspect(it)
		cv := w.claimedValidator(sub, it)
		if err != nil || cv == nil || !cv.InCluster {
			return false
		}
		r, _, err := w.signingRoot(info.Root, info.Domain, info.Epoch)
		if err != nil || (i > 0 && r != sr) {
			return false
		}
		sr = r
		pubs = append(pubs, cv.PubShares[w.shareIdx])
		sigs = append(sigs, tbls.Signature(info.Sig))
	}
	agg, err := tbls.Aggregate(sigs)
	if err != nil {
		return false
	}

	return tbls.VerifyAggregate(pubs, agg, sr[:]) == nil
}
