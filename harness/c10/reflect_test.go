package c10

// Reflection helpers over go-eth2-client structs: deep copy, deterministic generation of
// well-formed values (honouring ssz-size / ssz-max tags), leaf enumeration and leaf mutation.
// Every field of every submitted object is reached this way, so fields added by a later
// go-eth2-client version are covered without touching the harness.

import (
	"fmt"
	"math/big"
	"math/rand"
	"reflect"
	"strconv"
	"strings"
	"time"

	bitfield "github.com/OffchainLabs/go-bitfield"
	"github.com/holiman/uint256"
)

var (
	bitlistType = reflect.TypeOf(bitfield.Bitlist{})
	bigIntType  = reflect.TypeOf(big.Int{})
	u256Type    = reflect.TypeOf(uint256.Int{})
	timeType    = reflect.TypeOf(time.Time{})
)

var _ = u256Type

// maxGenArray bounds the size of array elements the generator will put into dynamic lists
// (deneb.Blob is 128 KiB; such lists stay empty).
const maxGenArray = 4096

// ---- deep copy ----

func deepCopy[T any](v T) T {
	out := deepCopyValue(reflect.ValueOf(v))
	if !out.IsValid() {
		var zero T
		return zero
	}

	return out.Interface().(T)
}

func deepCopyValue(v reflect.Value) reflect.Value {
	if !v.IsValid() {
		return v
	}
	switch v.Kind() {
	case reflect.Ptr:
		if v.IsNil() {
			return reflect.Zero(v.Type())
		}
		if v.Type().Elem() == bigIntType {
			n := new(big.Int).Set(v.Interface().(*big.Int))
			return reflect.ValueOf(n)
		}
		p := reflect.New(v.Type().Elem())
		p.Elem().Set(deepCopyValue(v.Elem()))

		return p
	case reflect.Struct:
		out := reflect.New(v.Type()).Elem()
		out.Set(v) // copies unexported fields shallowly (none are reference types in the spec structs)
		for i := 0; i < v.NumField(); i++ {
			if !out.Field(i).CanSet() {
				continue
			}
			out.Field(i).Set(deepCopyValue(v.Field(i)))
		}

		return out
	case reflect.Slice:
		if v.IsNil() {
			return reflect.Zero(v.Type())
		}
		out := reflect.MakeSlice(v.Type(), v.Len(), v.Len())
		if v.Type().Elem().Kind() == reflect.Uint8 {
			reflect.Copy(out, v)
			return out
		}
		for i := 0; i < v.Len(); i++ {
			out.Index(i).Set(deepCopyValue(v.Index(i)))
		}

		return out
	case reflect.Array:
		out := reflect.New(v.Type()).Elem()
		if v.Type().Elem().Kind() == reflect.Uint8 || v.Type().Elem().Kind() == reflect.Uint64 {
			out.Set(v)
			return out
		}
		for i := 0; i < v.Len(); i++ {
			out.Index(i).Set(deepCopyValue(v.Index(i)))
		}

		return out
	case reflect.Interface:
		if v.IsNil() {
			return reflect.Zero(v.Type())
		}
		out := reflect.New(v.Type()).Elem()
		out.Set(deepCopyValue(v.Elem()))

		return out
	default:
		return v
	}
}

// ---- generation ----

func sszDims(tag reflect.StructTag) (size []string, max []string) {
	if s, ok := tag.Lookup("ssz-size"); ok {
		size = strings.Split(s, ",")
	}
	if s, ok := tag.Lookup("ssz-max"); ok {
		max = strings.Split(s, ",")
	}

	return size, max
}

func dimInt(dims []string, i int) (int, bool) {
	if i >= len(dims) {
		return 0, false
	}
	n, err := strconv.Atoi(strings.TrimSpace(dims[i]))
	if err != nil {
		return 0, false
	}

	return n, true
}

func rest(dims []string) []string {
	if len(dims) <= 1 {
		return nil
	}

	return dims[1:]
}

// genValue returns a well-formed random value of type t.
func genValue(t reflect.Type, size, max []string, rng *rand.Rand) reflect.Value {
	switch t.Kind() {
	case reflect.Ptr:
		if t.Elem() == bigIntType {
			return reflect.Zero(t)
		}
		p := reflect.New(t.Elem())
		p.Elem().Set(genValue(t.Elem(), size, max, rng))

		return p
	case reflect.Struct:
		out := reflect.New(t).Elem()
		if t == timeType {
			out.Set(reflect.ValueOf(time.Unix(1_600_000_000+int64(rng.Intn(100_000_000)), 0).UTC()))
			return out
		}
		for i := 0; i < t.NumField(); i++ {
			f := t.Field(i)
			if !f.IsExported() {
				continue
			}
			fs, fm := sszDims(f.Tag)
			out.Field(i).Set(genValue(f.Type, fs, fm, rng))
		}

		return out
	case reflect.Array:
		out := reflect.New(t).Elem()
		if t.Elem().Kind() == reflect.Uint8 {
			b := make([]byte, t.Len())
			rng.Read(b)
			reflect.Copy(out, reflect.ValueOf(b))

			return out
		}
		for i := 0; i < t.Len(); i++ {
			out.Index(i).Set(genValue(t.Elem(), rest(size), rest(max), rng))
		}

		return out
	case reflect.Slice:
		if t == bitlistType {
			nbits := 1 + rng.Intn(12)
			bl := bitfield.NewBitlist(uint64(nbits))
			for i := 0; i < nbits; i++ {
				if rng.Intn(2) == 0 {
					bl.SetBitAt(uint64(i), true)
				}
			}

			return reflect.ValueOf(bl)
		}
		n, fixed := dimInt(size, 0)
		if t.Elem().Kind() == reflect.Uint8 {
			if !fixed {
				n = 1 + rng.Intn(8)
				if m, ok := dimInt(max, 0); ok && n > m {
					n = m
				}
			}
			b := make([]byte, n)
			rng.Read(b)
			out := reflect.MakeSlice(t, n, n)
			reflect.Copy(out, reflect.ValueOf(b))

			return out
		}
		if !fixed {
			n = 1
			if t.Elem().Kind() == reflect.Array && t.Elem().Len() > maxGenArray {
				n = 0
			}
			if t.Elem().Kind() == reflect.Uint64 {
				n = 1 + rng.Intn(3)
			}
		}
		out := reflect.MakeSlice(t, n, n)
		for i := 0; i < n; i++ {
			out.Index(i).Set(genValue(t.Elem(), rest(size), rest(max), rng))
		}

		return out
	case reflect.Uint8, reflect.Uint16, reflect.Uint32, reflect.Uint64, reflect.Uint:
		out := reflect.New(t).Elem()
		out.SetUint((rng.Uint64() >> uint(rng.Intn(64))) & maxUint(t))

		return out
	case reflect.Int8, reflect.Int16, reflect.Int32, reflect.Int64, reflect.Int:
		out := reflect.New(t).Elem()
		out.SetInt(int64(rng.Intn(1000)))

		return out
	case reflect.Bool:
		out := reflect.New(t).Elem()
		out.SetBool(rng.Intn(2) == 0)

		return out
	default:
		return reflect.Zero(t)
	}
}

func maxUint(t reflect.Type) uint64 {
	bits := t.Bits()
	if bits >= 64 {
		return ^uint64(0)
	}

	return (uint64(1) << uint(bits)) - 1
}

// gen returns a generated *T.
func gen[T any](rng *rand.Rand) *T {
	var zero T
	v := genValue(reflect.TypeOf(zero), nil, nil, rng)
	p := new(T)
	reflect.ValueOf(p).Elem().Set(v)

	return p
}

// ---- leaves ----

type leafKind int

const (
	leafUint leafKind = iota
	leafInt
	leafBool
	leafBytesFixed // byte array or fixed-size byte slice (ssz-size given)
	leafBytesVar   // dynamic byte slice
	leafBitlist
	leafLen  // pseudo leaf: length of a list of non-byte elements
	leafTime // time.Time (builder registration timestamp)
)

type leaf struct {
	Path string
	Kind leafKind
	V    reflect.Value // addressable/settable
	Size []string      // remaining ssz-size dims at this point (for list appends)
	Max  []string
}

// walkLeaves visits every settable leaf reachable from v (pointer to struct expected at the top).
// For lists with more than three elements only the first, a middle and the last element are
// descended into (the length pseudo-leaf still covers the list as a whole).
func walkLeaves(v reflect.Value, path string, size, max []string, visit func(leaf)) {
	switch v.Kind() {
	case reflect.Ptr:
		if v.IsNil() {
			return
		}
		if v.Type().Elem() == bigIntType {
			return
		}
		walkLeaves(v.Elem(), path, size, max, visit)
	case reflect.Interface:
		return
	case reflect.Struct:
		t := v.Type()
		if t == timeType {
			visit(leaf{Path: path, Kind: leafTime, V: v})
			return
		}
		for i := 0; i < t.NumField(); i++ {
			f := t.Field(i)
			if !f.IsExported() {
				continue
			}
			fs, fm := sszDims(f.Tag)
			p := f.Name
			if path != "" {
				p = path + "." + f.Name
			}
			walkLeaves(v.Field(i), p, fs, fm, visit)
		}
	case reflect.Array:
		if v.Type().Elem().Kind() == reflect.Uint8 {
			visit(leaf{Path: path, Kind: leafBytesFixed, V: v})
			return
		}
		for _, i := range pickIdx(v.Len()) {
			walkLeaves(v.Index(i), fmt.Sprintf("%s[%d]", path, i), rest(size), rest(max), visit)
		}
	case reflect.Slice:
		if v.Type() == bitlistType {
			visit(leaf{Path: path, Kind: leafBitlist, V: v})
			return
		}
		if v.Type().Elem().Kind() == reflect.Uint8 {
			if _, fixed := dimInt(size, 0); fixed {
				visit(leaf{Path: path, Kind: leafBytesFixed, V: v})
			} else {
				visit(leaf{Path: path, Kind: leafBytesVar, V: v})
			}

			return
		}
		if _, fixed := dimInt(size, 0); !fixed {
			visit(leaf{Path: path + "[len]", Kind: leafLen, V: v, Size: size, Max: max})
		}
		for _, i := range pickIdx(v.Len()) {
			tag := "first"
			switch {
			case i == v.Len()-1 && i != 0:
				tag = "last"
			case i != 0:
				tag = "mid"
			}
			walkLeaves(v.Index(i), fmt.Sprintf("%s[%s]", path, tag), rest(size), rest(max), visit)
		}
	case reflect.Uint8, reflect.Uint16, reflect.Uint32, reflect.Uint64, reflect.Uint:
		visit(leaf{Path: path, Kind: leafUint, V: v})
	case reflect.Int8, reflect.Int16, reflect.Int32, reflect.Int64, reflect.Int:
		visit(leaf{Path: path, Kind: leafInt, V: v})
	case reflect.Bool:
		visit(leaf{Path: path, Kind: leafBool, V: v})
	}
}

func pickIdx(n int) []int {
	switch {
	case n <= 0:
		return nil
	case n <= 3:
		out := make([]int, n)
		for i := range out {
			out[i] = i
		}

		return out
	default:
		return []int{0, n / 2, n - 1}
	}
}

// leafPaths lists the leaf paths of obj (a pointer) in walk order.
func leafPaths(obj any) []string {
	var out []string
	walkLeaves(reflect.ValueOf(obj), "", nil, nil, func(l leaf) { out = append(out, l.Path) })

	return out
}

// mutateLeaf changes the idx-th leaf (walk order) of obj in place and returns a short description
// of the mutation; ok=false when the leaf could not be changed.
func mutateLeaf(obj any, idx int, rng *rand.Rand) (desc string, ok bool) {
	i := 0
	walkLeaves(reflect.ValueOf(obj), "", nil, nil, func(l leaf) {
		if i == idx {
			desc, ok = mutate(l, rng)
		}
		i++
	})

	return desc, ok
}

func mutate(l leaf, rng *rand.Rand) (string, bool) {
	if !l.V.CanSet() {
		return "", false
	}
	switch l.Kind {
	case leafUint:
		old := l.V.Uint()
		mx := maxUint(l.V.Type())
		var nv uint64
		var how string
		switch rng.Intn(4) {
		case 0:
			nv, how = (old+1)&mx, "plus1"
		case 1:
			nv, how = (old-1)&mx, "minus1"
		case 2:
			nv, how = old^(uint64(1)<<uint(rng.Intn(l.V.Type().Bits()))), "bitflip"
		default:
			nv, how = 0, "zero"
			if old == 0 {
				nv, how = mx, "max"
			}
		}
		if nv == old {
			nv = (old + 1) & mx
		}
		l.V.SetUint(nv)

		return how, true
	case leafInt:
		l.V.SetInt(l.V.Int() + 1)
		return "plus1", true
	case leafBool:
		l.V.SetBool(!l.V.Bool())
		return "flip", true
	case leafTime:
		tm := l.V.Interface().(time.Time)
		l.V.Set(reflect.ValueOf(tm.Add(time.Second)))

		return "plus1s", true
	case leafBytesFixed:
		n := l.V.Len()
		if n == 0 {
			return "", false
		}
		if l.V.Kind() == reflect.Slice && rng.Intn(6) == 0 {
			// wrong size for a fixed-size byte vector
			nv := reflect.MakeSlice(l.V.Type(), n-1, n-1)
			reflect.Copy(nv, l.V)
			l.V.Set(nv)

			return "truncate", true
		}
		flipBit(l.V, rng.Intn(n*8))

		return "bitflip", true
	case leafBytesVar:
		n := l.V.Len()
		switch {
		case n == 0 || rng.Intn(4) == 0:
			nv := reflect.MakeSlice(l.V.Type(), n+1, n+1)
			reflect.Copy(nv, l.V)
			nv.Index(n).SetUint(uint64(1 + rng.Intn(255)))
			l.V.Set(nv)

			return "extend", true
		case rng.Intn(4) == 0:
			nv := reflect.MakeSlice(l.V.Type(), n-1, n-1)
			reflect.Copy(nv, l.V)
			l.V.Set(nv)

			return "truncate", true
		default:
			nv := reflect.MakeSlice(l.V.Type(), n, n)
			reflect.Copy(nv, l.V)
			flipBit(nv, rng.Intn(n*8))
			l.V.Set(nv)

			return "bitflip", true
		}
	case leafBitlist:
		bl := append(bitfield.Bitlist(nil), l.V.Interface().(bitfield.Bitlist)...)
		if len(bl) == 0 || bl.Len() == 0 {
			nb := bitfield.NewBitlist(1)
			nb.SetBitAt(0, true)
			l.V.Set(reflect.ValueOf(nb))

			return "set-bit", true
		}
		ln := bl.Len()
		switch rng.Intn(4) {
		case 0: // flip one bit (changes the number of set bits)
			i := uint64(rng.Intn(int(ln)))
			bl.SetBitAt(i, !bl.BitAt(i))
			l.V.Set(reflect.ValueOf(bl))

			return "flip-bit", true
		case 1: // move a set bit
			idx := bl.BitIndices()
			if len(idx) > 0 && ln > 1 {
				from := uint64(idx[rng.Intn(len(idx))])
				to := (from + 1 + uint64(rng.Intn(int(ln-1)))) % ln
				if !bl.BitAt(to) {
					bl.SetBitAt(from, false)
					bl.SetBitAt(to, true)
					l.V.Set(reflect.ValueOf(bl))

					return "move-bit", true
				}
			}
			i := uint64(rng.Intn(int(ln)))
			bl.SetBitAt(i, !bl.BitAt(i))
			l.V.Set(reflect.ValueOf(bl))

			return "flip-bit", true
		case 2: // same bits, longer list
			nb := bitfield.NewBitlist(ln + 1 + uint64(rng.Intn(8)))
			for _, i := range bl.BitIndices() {
				nb.SetBitAt(uint64(i), true)
			}
			l.V.Set(reflect.ValueOf(nb))

			return "grow-length", true
		default: // raw byte flip (may produce a malformed bitlist)
			flipBit(reflect.ValueOf(bl), rng.Intn(len(bl)*8))
			l.V.Set(reflect.ValueOf(bl))

			return "raw-bitflip", true
		}
	case leafLen:
		n := l.V.Len()
		if n > 0 && rng.Intn(2) == 0 {
			nv := reflect.MakeSlice(l.V.Type(), n-1, n-1)
			reflect.Copy(nv, l.V)
			l.V.Set(nv)

			return "drop-last", true
		}
		et := l.V.Type().Elem()
		if et.Kind() == reflect.Array && et.Len() > maxGenArray {
			if n == 0 {
				return "", false
			}
			nv := reflect.MakeSlice(l.V.Type(), n-1, n-1)
			reflect.Copy(nv, l.V)
			l.V.Set(nv)

			return "drop-last", true
		}
		el := genValue(et, rest(l.Size), rest(l.Max), rng)
		nv := reflect.MakeSlice(l.V.Type(), n+1, n+1)
		reflect.Copy(nv, l.V)
		nv.Index(n).Set(el)
		l.V.Set(nv)

		return "append", true
	}

	return "", false
}

func flipBit(bytesVal reflect.Value, bit int) {
	b := bytesVal.Index(bit / 8)
	b.SetUint(b.Uint() ^ (1 << uint(bit%8)))
}

// field returns the (settable) field reached by following dotted names from the pointer obj,
// dereferencing pointers on the way; invalid Value if a nil pointer or unknown name is met.
func field(obj any, path string) reflect.Value {
	v := reflect.ValueOf(obj)
	for _, name := range strings.Split(path, ".") {
		for v.Kind() == reflect.Ptr {
			if v.IsNil() {
				return reflect.Value{}
			}
			v = v.Elem()
		}
		if v.Kind() != reflect.Struct {
			return reflect.Value{}
		}
		v = v.FieldByName(name)
		if !v.IsValid() {
			return reflect.Value{}
		}
	}

	return v
}
