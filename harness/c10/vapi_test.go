package c10

import (
	"context"
	"errors"
	"fmt"
	"math/rand"
	"reflect"
	"sync"

	bitfield "github.com/OffchainLabs/go-bitfield"
	eth2api "github.com/attestantio/go-eth2-client/api"
	eth2v1 "github.com/attestantio/go-eth2-client/api/v1"
	eth2spec "github.com/attestantio/go-eth2-client/spec"
	"github.com/attestantio/go-eth2-client/spec/altair"
	eth2p0 "github.com/attestantio/go-eth2-client/spec/phase0"

	"github.com/obolnetwork/charon/eth2util"
	"github.com/obolnetwork/charon/tbls"

	"verifharness/kit"
)

// alt is one altered submission.
type alt struct {
	Class  string // alteration class (table row)
	Detail string // leaf path + mutation, key used, …
	Items  []any
	AltIdx int
	// AltIdxs lists all altered items of a coordinated multi-item alteration (nil: just AltIdx).
	AltIdxs []int
	Sub     *submission
	// FailReason names the defect when the item does not verify (otherwise derived by diffing against the baseline).
	FailReason string
	// MustAdmit marks a fresh, fully valid submission (vacuity guard).
	MustAdmit bool
}

type callResult struct {
	Err   error
	Panic string
}

// vapiForm converts the wire/core form of an object into what the endpoint takes.
func vapiForm(k kind, v *valInfo, item any) any {
	switch x := item.(type) {
	case *eth2util.SignedEpoch:
		return &eth2api.ProposalOpts{Slot: eth2p0.Slot(v.Slot), RandaoReveal: x.Signature}
	case *eth2api.VersionedSignedProposal:
		if k.Blinded {
			return proposalToBlinded(x)
		}
	}

	return item
}

func asProposal(item any) *eth2api.VersionedSignedProposal {
	switch x := item.(type) {
	case *eth2api.VersionedSignedProposal:
		return x
	case *eth2api.VersionedSignedBlindedProposal:
		return blindedToProposal(x)
	}

	return nil
}

// callVAPI drives the endpoint of tg with items.
func (w *world) callVAPI(tg target, items []any, sub *submission) (res callResult) {
	ctx, cancel := withSub(sub)
	defer cancel()
	defer func() {
		if r := recover(); r != nil {
			res.Panic = fmt.Sprint(r)
		}
	}()
	switch tg.endpoint() {
	case "vapi/attestations-pre-electra", "vapi/attestations-electra":
		var atts []*eth2spec.VersionedAttestation
		for _, it := range items {
			atts = append(atts, it.(*eth2spec.VersionedAttestation))
		}
		res.Err = w.vapi.SubmitAttestations(ctx, &eth2api.SubmitAttestationsOpts{Attestations: atts})
	case "vapi/proposal-randao":
		_, res.Err = w.vapi.Proposal(ctx, items[0].(*eth2api.ProposalOpts))
	case "vapi/submit-proposal":
		res.Err = w.vapi.SubmitProposal(ctx, &eth2api.SubmitProposalOpts{Proposal: items[0].(*eth2api.VersionedSignedProposal)})
	case "vapi/submit-blinded-proposal":
		res.Err = w.vapi.SubmitBlindedProposal(ctx, &eth2api.SubmitBlindedProposalOpts{Proposal: items[0].(*eth2api.VersionedSignedBlindedProposal)})
	case "vapi/voluntary-exit":
		res.Err = w.vapi.SubmitVoluntaryExit(ctx, items[0].(*eth2p0.SignedVoluntaryExit))
	case "vapi/beacon-committee-selections":
		var sel []*eth2v1.BeaconCommitteeSelection
		for _, it := range items {
			sel = append(sel, it.(*eth2v1.BeaconCommitteeSelection))
		}
		_, res.Err = w.vapi.BeaconCommitteeSelections(ctx, &eth2api.BeaconCommitteeSelectionsOpts{Selections: sel})
	case "vapi/aggregate-attestations":
		var aggs []*eth2spec.VersionedSignedAggregateAndProof
		for _, it := range items {
			aggs = append(aggs, it.(*eth2spec.VersionedSignedAggregateAndProof))
		}
		res.Err = w.vapi.SubmitAggregateAttestations(ctx, &eth2api.SubmitAggregateAttestationsOpts{SignedAggregateAndProofs: aggs})
	case "vapi/sync-committee-messages":
		var msgs []*altair.SyncCommitteeMessage
		for _, it := range items {
			msgs = append(msgs, it.(*altair.SyncCommitteeMessage))
		}
		res.Err = w.vapi.SubmitSyncCommitteeMessages(ctx, msgs)
	case "vapi/sync-committee-contributions":
		var cs []*altair.SignedContributionAndProof
		for _, it := range items {
			cs = append(cs, it.(*altair.SignedContributionAndProof))
		}
		res.Err = w.vapi.SubmitSyncCommitteeContributions(ctx, cs)
	case "vapi/sync-committee-selections":
		var sel []*eth2v1.SyncCommitteeSelection
		for _, it := range items {
			sel = append(sel, it.(*eth2v1.SyncCommitteeSelection))
		}
		_, res.Err = w.vapi.SyncCommitteeSelections(ctx, &eth2api.SyncCommitteeSelectionsOpts{Selections: sel})
	case "vapi/validator-registrations":
		var regs []*eth2api.VersionedSignedValidatorRegistration
		for _, it := range items {
			regs = append(regs, it.(*eth2api.VersionedSignedValidatorRegistration))
		}
		res.Err = w.vapi.SubmitValidatorRegistrations(ctx, regs)
	default:
		res.Err = fmt.Errorf("harness: unknown target %s", tg.Name)
	}

	return res
}

// retarget changes which validator item claims to come from: to (a cluster validator or the
// outsider), or an index / position nobody holds when to is nil. The signature is left alone.
func (w *world) retarget(sub *submission, item any, from, to *valInfo, unknownIdx eth2p0.ValidatorIndex) error {
	idx := unknownIdx
	if to != nil {
		idx = to.Idx
	}
	switch x := item.(type) {
	case *eth2spec.VersionedAttestation:
		data, _, err := attOf(x)
		if err != nil {
			return err
		}
		f, _ := versioned(x, x.Version, false)
		if isPost(x.Version) {
			i := idx
			x.ValidatorIndex = &i
			if to != nil && to.InCluster {
				data.Slot = eth2p0.Slot(to.Slot)
				data.Target.Epoch = eth2p0.Epoch(w.epochOf(to.Slot))
				cb := bitfield.NewBitvector64()
				cb.SetBitAt(to.Comm, true)
				f.Elem().FieldByName("CommitteeBits").Set(reflect.ValueOf(cb))
			}

			return nil
		}
		var bits bitfield.Bitlist
		if to != nil && to.InCluster {
			data.Slot = eth2p0.Slot(to.Slot)
			data.Index = eth2p0.CommitteeIndex(to.Comm)
			data.Target.Epoch = eth2p0.Epoch(w.epochOf(to.Slot))
			bits = bitfield.NewBitlist(to.CommLen)
			bits.SetBitAt(to.Pos, true)
		} else {
			bits = bitfield.NewBitlist(from.CommLen)
			bits.SetBitAt((from.Pos+1)%from.CommLen, true)
		}
		f.Elem().FieldByName("AggregationBits").Set(reflect.ValueOf(bits))
	case *eth2api.VersionedSignedProposal, *eth2api.VersionedSignedBlindedProposal, *eth2api.ProposalOpts:
		info, err := w.inspect(item)
		if err != nil {
			return err
		}
		sub.proposer = map[uint64]*valInfo{info.Slot: to}
	case *eth2p0.SignedVoluntaryExit:
		x.Message.ValidatorIndex = idx
	case *eth2v1.BeaconCommitteeSelection:
		x.ValidatorIndex = idx
	case *eth2v1.SyncCommitteeSelection:
		x.ValidatorIndex = idx
	case *altair.SyncCommitteeMessage:
		x.ValidatorIndex = idx
	case *eth2spec.VersionedSignedAggregateAndProof:
		f, err := versioned(x, x.Version, false)
		if err != nil {
			return err
		}
		f.Elem().FieldByName("Message").Elem().FieldByName("AggregatorIndex").SetUint(uint64(idx))
	case *altair.SignedContributionAndProof:
		x.Message.AggregatorIndex = idx
	default:
		return fmt.Errorf("retarget: unsupported %T", item)
	}

	return nil
}

func (w *world) unknownIndex(rng *rand.Rand) eth2p0.ValidatorIndex {
	for {
		i := eth2p0.ValidatorIndex(6000 + rng.Intn(100000))
		if _, ok := w.byIndex[i]; !ok {
			return i
		}
	}
}

func (w *world) otherForkEpoch(epoch uint64) uint64 {
	if epoch >= w.forkEpoch {
		return w.forkEpoch - 1
	}

	return w.forkEpoch
}

func otherDomain(name string, rng *rand.Rand) string {
	for {
		d := allDomains[rng.Intn(len(allDomains))]
		if d != name {
			return d
		}
	}
}

// sigAlterations appends the signature-level alterations of base (valid, signed by
// signer's share `share`).
func (w *world) sigAlterations(rng *rand.Rand, base any, baseInfo sigInfo, v *valInfo, share int, mk func(class, detail string, f func(item any, sub *submission) error)) {
	otherShare := 1 + rng.Intn(w.n)
	for otherShare == share {
		otherShare = 1 + rng.Intn(w.n)
	}
	var v2 *valInfo
	for _, o := range w.vals {
		if o != v {
			v2 = o
		}
	}
	mk("sig-other-share", fmt.Sprintf("share %d instead of %d", otherShare, share), func(it any, _ *submission) error {
		return w.sign(it, v.Shares[otherShare], "", nil)
	})
	mk("sig-other-validator", "same share index of another cluster validator", func(it any, _ *submission) error {
		return w.sign(it, v2.Shares[share], "", nil)
	})
	mk("sig-group-key", "signed with the validator's group (root) key", func(it any, _ *submission) error {
		return w.sign(it, v.Root, "", nil)
	})
	mk("sig-foreign-key", "signed with a key share of a validator outside the cluster", func(it any, _ *submission) error {
		return w.sign(it, w.outsider.Shares[share], "", nil)
	})
	od := otherDomain(baseInfo.Domain, rng)
	mk("sig-wrong-domain-type", od, func(it any, _ *submission) error {
		return w.sign(it, v.Shares[share], od, nil)
	})
	if baseInfo.Domain != domBuilder {
		oe := w.otherForkEpoch(baseInfo.Epoch)
		mk("sig-wrong-fork-version", fmt.Sprintf("domain of epoch %d instead of %d", oe, baseInfo.Epoch), func(it any, _ *submission) error {
			return w.sign(it, v.Shares[share], "", &oe)
		})
	} else {
		oe := w.forkEpoch
		mk("sig-wrong-fork-version", "builder registration signed under the current fork's domain root", func(it any, _ *submission) error {
			// sign as if DOMAIN_APPLICATION_BUILDER were fork dependent
			dt := w.domainTypes[domBuilder]
			fd := &eth2p0.ForkData{CurrentVersion: w.forkVersionAt(oe), GenesisValidatorsRoot: w.gvr}
			r, err := fd.HashTreeRoot()
			if err != nil {
				return err
			}
			var d eth2p0.Domain
			copy(d[:4], dt[:])
			copy(d[4:], r[:28])
			sr, err := (&eth2p0.SigningData{ObjectRoot: baseInfo.Root, Domain: d}).HashTreeRoot()
			if err != nil {
				return err
			}
			sig, err := tbls.Sign(v.Shares[share], sr[:])
			if err != nil {
				return err
			}

			return setSig(it, eth2p0.BLSSignature(sig))
		})
	}
	mk("sig-zero", "all-zero signature", func(it any, _ *submission) error { return setSig(it, eth2p0.BLSSignature{}) })
	mk("sig-infinity", "BLS point at infinity 0xc0…", func(it any, _ *submission) error { return setSig(it, infinitySig()) })
	mk("sig-garbage", "random 96 bytes", func(it any, _ *submission) error {
		var s eth2p0.BLSSignature
		rng.Read(s[:])

		return setSig(it, s)
	})
	mk("sig-of-other-message", "valid signature by the right share over another root", func(it any, _ *submission) error {
		var root [32]byte
		rng.Read(root[:])
		s, err := w.signRaw(v.Shares[share], root, baseInfo.Domain, baseInfo.Epoch)
		if err != nil {
			return err
		}

		return setSig(it, s)
	})
}

func (e *env) runVAPI(c *kit.Case, w *world, tg target) {
	r := e.r
	rng := c.Rng
	k := tg.pickKind(c)
	r.Seen("kinds", tg.Name+":"+k.String())
	perm := rng.Perm(len(w.vals))
	v, v2 := w.vals[perm[0]], w.vals[perm[1]]
	share := w.shareIdx

	buildSigned := func(val *valInfo) (any, error) {
		raw, err := w.build(k, val, rng)
		if err != nil {
			return nil, err
		}
		item := vapiForm(k, val, raw)
		if err := w.sign(item, val.Shares[share], "", nil); err != nil {
			return nil, err
		}

		return item, nil
	}
	base, err := buildSigned(v)
	if err != nil {
		r.Inconclusive("%s: build baseline: %v", tg.Name, err)
		return
	}
	baseInfo, err := w.inspect(base)
	if err != nil {
		r.Inconclusive("%s: inspect baseline: %v", tg.Name, err)
		return
	}
	other, err := buildSigned(v2)
	if err != nil {
		r.Inconclusive("%s: build second baseline: %v", tg.Name, err)
		return
	}

	// what consensus "agreed" on, per slot (DutyDB answer)
	agreedFor := func(items ...any) map[uint64]*eth2api.VersionedProposal {
		m := map[uint64]*eth2api.VersionedProposal{}
		for _, it := range items {
			switch {
			case tg.Proposal:
				p := asProposal(it)
				if up, err := unsignedOf(p); err == nil {
					if info, err := w.inspect(p); err == nil {
						m[info.Slot] = up
					}
				}
			case tg.Kind == "randao":
				opts := it.(*eth2api.ProposalOpts)
				val := w.proposerAt[uint64(opts.Slot)]
				if val == nil {
					val = v
				}
				if blk, err := w.build(kind{Name: "proposal", Version: eth2spec.DataVersionDeneb}, val, rand.New(rand.NewSource(int64(opts.Slot)))); err == nil {
					if up, err := unsignedOf(blk.(*eth2api.VersionedSignedProposal)); err == nil {
						m[uint64(opts.Slot)] = up
					}
				}
			}
		}

		return m
	}
	defAgreed := agreedFor(base, other)

	var alts []*alt
	mk := func(class, detail string, f func(item any, sub *submission) error) {
		it := deepCopy(base)
		sub := &submission{agreed: defAgreed}
		if err := f(it, sub); err != nil {
			r.Count("alteration_not_applicable", 1)
			r.Seen("alteration_not_applicable", tg.Name+"|"+class+": "+kit.Short(err.Error(), 80))

			return
		}
		alts = append(alts, &alt{Class: class, Detail: detail, Items: []any{it}, Sub: sub})
	}

	// valid submissions (vacuity guard)
	alts = append(alts, &alt{Class: "valid", Detail: "baseline", Items: []any{base}, Sub: &submission{agreed: defAgreed}, MustAdmit: true})
	alts = append(alts, &alt{Class: "valid", Detail: "second validator", Items: []any{other}, Sub: &submission{agreed: defAgreed}, MustAdmit: true})
	if tg.Multi {
		alts = append(alts, &alt{Class: "valid-batch", Detail: "two validators", Items: []any{deepCopy(base), deepCopy(other)}, AltIdx: 0, Sub: &submission{agreed: defAgreed}, MustAdmit: true})
	}

	// 1. every leaf of the submitted object
	paths := leafPaths(base)
	r.Count("leaf_paths_enumerated", int64(len(paths)))
	idxs := rng.Perm(len(paths))
	budget, variants := 36, 1
	if r.Thorough() {
		budget, variants = 400, 2
	}
	if len(idxs) > budget {
		idxs = idxs[:budget]
	}
	for _, li := range idxs {
		for vnt := 0; vnt < variants; vnt++ {
			li := li
			path := paths[li]
			r.Seen("leaves:"+tg.Name, path)
			var how string
			mut := func(it any) error {
				d, ok := mutateLeaf(it, li, rng)
				if !ok {
					return fmt.Errorf("leaf %s not mutable", path)
				}
				how = d

				return nil
			}
			mk("leaf", path, func(it any, _ *submission) error { return mut(it) })
			if n := len(alts); n > 0 && alts[n-1].Class == "leaf" && alts[n-1].Detail == path {
				alts[n-1].Detail = path + " " + how
			}
			if tg.Proposal {
				// payload changed and correctly re-signed by the VC: differs from the agreed proposal
				mk("leaf-resigned", path, func(it any, _ *submission) error {
					if err := mut(it); err != nil {
						return err
					}

					return w.sign(it, v.Shares[share], "", nil)
				})
				// payload and the DutyDB proposal changed consistently, signature still the old one
				mk("leaf-with-dutydb", path, func(it any, sub *submission) error {
					if err := mut(it); err != nil {
						return err
					}
					ag := agreedFor(it)
					if len(ag) == 0 {
						return fmt.Errorf("no unsigned form")
					}
					sub.agreed = ag

					return nil
				})
			}
		}
	}

	// 2. signature-level alterations
	w.sigAlterations(rng, base, baseInfo, v, share, mk)

	// 3. validator-level alterations, re-signed with v's own share (the only defect is the key)
	unk := w.unknownIndex(rng)
	for _, ra := range []struct {
		class string
		to    *valInfo
	}{{"validator-unknown", nil}, {"validator-not-in-cluster", w.outsider}, {"validator-other", v2}} {
		ra := ra
		if tg.Ignored {
			break
		}
		mk(ra.class, "re-signed by the original validator's share", func(it any, sub *submission) error {
			if err := w.retarget(sub, it, v, ra.to, unk); err != nil {
				return err
			}

			return w.sign(it, v.Shares[share], "", nil)
		})
		mk(ra.class+"-sig-kept", "original signature kept", func(it any, sub *submission) error {
			return w.retarget(sub, it, v, ra.to, unk)
		})
	}

	// 4. proposals: payload != agreed proposal although the VC signed its payload correctly
	if tg.Proposal {
		bp := asProposal(base)
		setAgreed := func(sub *submission, up *eth2api.VersionedProposal) {
			sub.agreed = map[uint64]*eth2api.VersionedProposal{baseInfo.Slot: up}
		}
		mk("payload-proposer-index", "agreed proposal has another proposer index", func(_ any, sub *submission) error {
			up, err := unsignedOf(bp)
			if err != nil {
				return err
			}
			f, err := versioned(up, up.Version, up.Blinded)
			if err != nil {
				return err
			}
			blk := f
			if b := f.Elem().FieldByName("Block"); b.IsValid() && b.Kind() == reflect.Ptr {
				blk = b
			}
			blk.Elem().FieldByName("ProposerIndex").SetUint(uint64(v2.Idx))
			setAgreed(sub, up)

			return nil
		})
		mk("payload-body", "agreed proposal is another block of the same slot and proposer", func(_ any, sub *submission) error {
			o, err := w.build(k, v, rng)
			if err != nil {
				return err
			}
			up, err := unsignedOf(o.(*eth2api.VersionedSignedProposal))
			if err != nil {
				return err
			}
			setAgreed(sub, up)

			return nil
		})
		mk("payload-version", "agreed proposal has another data version", func(_ any, sub *submission) error {
			vers := tg.Versions
			ov := vers[rng.Intn(len(vers))]
			for ov == k.Version {
				ov = vers[rng.Intn(len(vers))]
			}
			o, err := w.build(kind{Name: "proposal", Version: ov, Blinded: k.Blinded}, v, rng)
			if err != nil {
				return err
			}
			up, err := unsignedOf(o.(*eth2api.VersionedSignedProposal))
			if err != nil {
				return err
			}
			setAgreed(sub, up)

			return nil
		})
		if k.Version >= eth2spec.DataVersionBellatrix {
			mk("payload-blinded-flag", "agreed proposal is blinded where the VC's is full (or vice versa)", func(_ any, sub *submission) error {
				o, err := w.build(kind{Name: "proposal", Version: k.Version, Blinded: !k.Blinded}, v, rng)
				if err != nil {
					return err
				}
				up, err := unsignedOf(o.(*eth2api.VersionedSignedProposal))
				if err != nil {
					return err
				}
				setAgreed(sub, up)

				return nil
			})
		}
		mk("payload-none", "DutyDB has no proposal for the slot", func(_ any, sub *submission) error {
			sub.agreed = map[uint64]*eth2api.VersionedProposal{}
			return nil
		})
	}

	// 5. batches: one valid item of another validator plus one bad item
	if tg.Multi && !tg.Ignored {
		single := append([]*alt(nil), alts...)
		picked := 0
		for _, pi := range rng.Perm(len(single)) {
			a := single[pi]
			if a.MustAdmit || len(a.Items) != 1 {
				continue
			}
			items := []any{deepCopy(other), deepCopy(a.Items[0])}
			ai := 1
			if rng.Intn(2) == 0 {
				items[0], items[1] = items[1], items[0]
				ai = 0
			}
			alts = append(alts, &alt{Class: "batch:" + a.Class, Detail: a.Detail, Items: items, AltIdx: ai, Sub: &submission{agreed: defAgreed, proposer: a.Sub.proposer}})
			picked++
			if picked >= 6 {
				break
			}
		}
	}

	// 5b. the validator's own VALID item together with an altered copy of it (same validator, same slot,
	// in either order): whatever is remembered from verifying the first must not vouch for the second
	// (a content-altered copy keeps the valid item's signature bytes).
	if tg.Multi && !tg.Ignored {
		single := append([]*alt(nil), alts...)
		picked := 0
		for _, pi := range rng.Perm(len(single)) {
			a := single[pi]
			if a.MustAdmit || len(a.Items) != 1 || len(a.Class) < 4 || a.Class[:4] != "leaf" {
				continue
			}
			items := []any{vapiForm(k, v, deepCopy(base)), deepCopy(a.Items[0])}
			ai := 1
			if rng.Intn(3) == 0 {
				items[0], items[1] = items[1], items[0]
				ai = 0
			}
			alts = append(alts, &alt{Class: "batch:own-valid-item-plus-altered-copy:" + a.Class, Detail: a.Detail, Items: items, AltIdx: ai, Sub: &submission{agreed: defAgreed, proposer: a.Sub.proposer}})
			picked++
			if picked >= 8 {
				break
			}
		}
	}

	// 6. coordinated multi-item alterations: several validators with a duty in the same slot (and,
	// where the object allows it, the same signing root) whose individual defects cancel in any
	// aggregate / sum check: signatures swapped or rotated between validators, key shares shifted
	// by +d / -d. Every item is invalid under its own claimed share.
	if tg.Multi && !tg.Ignored && len(w.co) >= 3 {
		coPerm := rng.Perm(len(w.co))
		cv := []*valInfo{w.co[coPerm[0]], w.co[coPerm[1]], w.co[coPerm[2]]}
		raws, err := w.cobuild(k, cv, rng)
		if err != nil {
			r.Inconclusive("%s: co-slot build: %v", tg.Name, err)
		} else {
			var coItems []any
			for i, raw := range raws {
				it := vapiForm(k, cv[i], raw)
				if err := w.sign(it, cv[i].Shares[share], "", nil); err != nil {
					r.Inconclusive("%s: co-slot sign: %v", tg.Name, err)
				}
				coItems = append(coItems, it)
			}
			secrets := []tbls.PrivateKey{cv[0].Shares[share], cv[1].Shares[share], cv[2].Shares[share]}
			alts = append(alts, &alt{Class: "valid-coslot-batch", Detail: "three validators, same slot", Items: deepCopy(coItems), Sub: &submission{agreed: defAgreed}, MustAdmit: true})
			alts = append(alts, &alt{Class: "valid-coslot-batch", Detail: "two validators, same slot", Items: deepCopy(coItems[:2]), Sub: &submission{agreed: defAgreed}, MustAdmit: true})
			for _, ma := range w.multiAlterations(rng, coItems, secrets) {
				alts = append(alts, &alt{Class: ma.Class, Detail: ma.Detail, Items: ma.Items, AltIdx: ma.AltIdxs[0], AltIdxs: ma.AltIdxs, Sub: &submission{agreed: defAgreed}})
			}
		}
	}

	// 7. production-client worlds: fork-boundary sweep
	for _, si := range w.forkSweep(k, v, v.Shares[share], rng) {
		alts = append(alts, &alt{Class: "fork-sweep", Detail: si.Detail, Items: []any{vapiForm(k, v, si.Item)}, Sub: &submission{agreed: defAgreed}, FailReason: "wrong-fork-domain"})
	}

	// run: a few submissions at a time on the same component
	var wg sync.WaitGroup
	sem := make(chan struct{}, 3)
	var mu sync.Mutex
	classes := map[string]bool{}
	mustRejectSeen, validOK := 0, 0
	for _, a := range alts {
		a := a
		wg.Add(1)
		sem <- struct{}{}
		go func() {
			defer wg.Done()
			defer func() { <-sem }()
			mr, ok := e.judgeVAPI(c, w, tg, k, a, baseInfo, v)
			mu.Lock()
			classes[a.Class] = true
			if mr {
				mustRejectSeen++
			}
			if a.MustAdmit && ok {
				validOK++
			}
			mu.Unlock()
		}()
	}
	wg.Wait()
	if validOK > 0 && (mustRejectSeen > 0 || tg.Ignored) {
		c.NonTrivial(kit.Hash(tg.Name, k.String(), w.n, w.k, w.shareIdx, len(classes), mustRejectSeen))
	}
	if c.Idx < 3 {
		r.Sample(map[string]any{"case": c.Idx, "target": tg.Name, "kind": k.String(), "n": w.n, "k": w.k, "share_idx": w.shareIdx,
			"validators": len(w.vals), "leaf_paths": len(paths), "alterations": len(alts), "must_reject": mustRejectSeen})
	}
}

// judgeVAPI classifies, runs and judges one submission. Returns (mustReject, validAdmitted).
func (e *env) judgeVAPI(c *kit.Case, w *world, tg target, k kind, a *alt, baseInfo sigInfo, baseV *valInfo) (bool, bool) {
	r := e.r
	type altItem struct {
		item    any
		info    sigInfo
		ierr    error
		claimed *valInfo
	}
	idxs := a.AltIdxs
	multi := len(idxs) > 0
	if !multi {
		idxs = []int{a.AltIdx}
	}
	var altItems []altItem
	var reasons []string
	addReason := func(rs ...string) {
		for _, x := range rs {
			dup := false
			for _, y := range reasons {
				dup = dup || x == y
			}
			if !dup {
				reasons = append(reasons, x)
			}
		}
	}
	for _, ix := range idxs {
		ai := altItem{item: a.Items[ix]}
		ai.info, ai.ierr = w.inspect(ai.item)
		ai.claimed = w.claimedValidator(a.Sub, ai.item)
		switch {
		case a.MustAdmit, tg.Ignored:
		case ai.ierr != nil:
			addReason("unparseable")
		case ai.claimed == nil:
			addReason("validator-unknown")
		case !ai.claimed.InCluster:
			addReason("validator-not-in-cluster")
		case !w.verifies(ai.info, ai.claimed.PubShares[w.shareIdx]):
			if a.FailReason != "" {
				addReason(a.FailReason)
			} else if multi {
				addReason("invalid-under-claimed-share")
			} else {
				addReason(w.diffReasons(ai.info, baseInfo, ai.claimed, baseV, w.shareIdx, w.shareIdx)...)
			}
		case !w.innerProofValid(ai.item, ai.claimed):
			addReason("inner-proof-invalid")
		}
		altItems = append(altItems, ai)
	}
	item, info, ierr, claimed := altItems[0].item, altItems[0].info, altItems[0].ierr, altItems[0].claimed
	if multi && len(reasons) > 0 {
		// evidence: do the defects of this batch really cancel in a sum check (same signing root,
		// aggregate signature verifies against the claimed pubshares although no item does)?
		if w.batchSumVerifies(a.Sub, a.Items) {
			r.Count("multi_batches_cancelling_in_aggregate", 1)
		} else {
			r.Count("multi_batches_not_cancelling", 1)
		}
	}
	if tg.Proposal && !a.MustAdmit && ierr == nil {
		ag := a.Sub.agreed[info.Slot]
		mismatch := ag == nil
		if ag != nil {
			p := asProposal(item)
			root, err := unsignedRoot(ag)
			mismatch = err != nil || ag.Version != p.Version || ag.Blinded != p.Blinded || root != info.Root
		}
		if mismatch {
			reasons = append(reasons, "payload-differs-from-agreed")
		}
	}
	mustReject := len(reasons) > 0
	cls := classification(reasons)
	if tg.Ignored {
		cls = "ignored-endpoint"
	}

	res := w.callVAPI(tg, a.Items, a.Sub)
	r.Count("submissions", 1)
	r.Count("vapi_submissions", 1)
	admitted := a.Sub.snapshot()

	witness := func() map[string]any {
		errStr := ""
		if res.Err != nil {
			errStr = res.Err.Error()
		}
		var adm []map[string]any
		for _, ad := range admitted {
			adm = append(adm, map[string]any{"src": ad.Src, "duty": ad.Duty.String(), "pubkey": string(ad.PubKey), "share_idx": ad.Par.ShareIdx})
		}
		cv := "<none>"
		if claimed != nil {
			cv = claimed.Name
		}

		return map[string]any{
			"target": tg.Name, "kind": k.String(), "class": a.Class, "detail": a.Detail, "classification": cls,
			"n": w.n, "k": w.k, "node_share_idx": w.shareIdx, "signer": baseV.Name, "claimed_validator": cv,
			"error": errStr, "panic": res.Panic, "admitted": adm, "alt_index": a.AltIdx, "alt_indices": a.AltIdxs, "items": jsonOrString(a.Items),
		}
	}

	// universal oracle
	reached := false
	for _, ad := range admitted {
		e.checkAdmitted(c, w, tg, ad, w.shareIdx, witness)
		ai, ok := w.admittedInfo(ad)
		if !ok {
			continue
		}
		for _, it := range altItems {
			if it.ierr != nil || ai.Sig != it.info.Sig || ai.Root != it.info.Root {
				continue
			}
			if multi && (it.claimed == nil || it.claimed.Core != ad.PubKey) {
				continue
			}
			reached = true
		}
	}
	if ierr != nil && len(a.Items) == 1 && len(admitted) > 0 {
		reached = true
	}
	if res.Panic != "" {
		r.Count("handler_panics", 1)
		r.Seen("handler_panics", tg.Name+"|"+a.Class+": "+kit.Short(res.Panic, 100))
	}
	if res.Err != nil {
		e.tallyErr(tg.Name, res.Err.Error())
	}

	sigPrefix := tg.Name + "/" + a.Class
	if a.Class == "leaf" || a.Class == "leaf-resigned" || a.Class == "leaf-with-dutydb" {
		sigPrefix += ":" + leafSigName(a.Detail)
	}

	switch {
	case tg.Ignored:
		if len(admitted) > 0 {
			c.Violation(sigPrefix+"/ignored-endpoint-admitted", "SubmitValidatorRegistrations passed a partial signature to a subscriber", witness())
			e.tally(tg.Name, a.Class, cls, "ADMITTED")
		} else {
			e.tally(tg.Name, a.Class, cls, "not-admitted")
			r.Count("ignored_endpoint_not_admitted", 1)
		}

		return false, a.MustAdmit && res.Err == nil
	case a.MustAdmit:
		// every subscriber sees exactly the submitted partial(s)
		want := map[string]sigInfo{}
		for _, it := range a.Items {
			ii, err := w.inspect(it)
			cv := w.claimedValidator(a.Sub, it)
			if err != nil || cv == nil {
				r.Inconclusive("%s: valid item not inspectable", tg.Name)
				return false, false
			}
			want[string(cv.Core)] = ii
		}
		ok := res.Err == nil && res.Panic == ""
		perSrc := map[string]map[string]sigInfo{}
		for _, ad := range admitted {
			it, err := fromCore(ad.Par.SignedData)
			if err != nil {
				ok = false
				continue
			}
			ai, err := w.inspect(it)
			if err != nil {
				ok = false
				continue
			}
			if perSrc[ad.Src] == nil {
				perSrc[ad.Src] = map[string]sigInfo{}
			}
			if _, dup := perSrc[ad.Src][string(ad.PubKey)]; dup {
				ok = false
			}
			perSrc[ad.Src][string(ad.PubKey)] = ai
			if ad.Par.ShareIdx != w.shareIdx {
				ok = false
			}
		}
		if len(perSrc) != 2 {
			ok = false
		}
		for _, got := range perSrc {
			if len(got) != len(want) {
				ok = false
			}
			for pk, wi := range want {
				gi, present := got[pk]
				if !present || gi.Root != wi.Root || gi.Sig != wi.Sig || gi.Domain != wi.Domain || gi.Epoch != wi.Epoch {
					ok = false
				}
			}
		}
		if !ok && res.Err != nil && (errors.Is(res.Err, context.DeadlineExceeded) || errors.Is(res.Err, context.Canceled)) {
			r.Inconclusive("%s: valid submission hit the harness watchdog: %v", tg.Name, res.Err)
			return false, false
		}
		if !ok {
			c.Violation(tg.Name+"/"+a.Class+"/valid-submission-refused", "a submission that verifies under the lock pubshare of this node was refused or not handed to every subscriber exactly once", witness())
			e.tally(tg.Name, a.Class, "must-admit", "REFUSED")

			return false, false
		}
		r.Count("valid_admitted", 1)
		e.tally(tg.Name, a.Class, "must-admit", "admitted")

		return false, true
	case mustReject:
		r.Count("must_reject", 1)
		switch {
		case reached:
			c.Violation(sigPrefix+"/"+sigOf(reasons)+"/admitted", "a partial signature that must be rejected ("+cls+") reached a subscriber", witness())
			e.tally(tg.Name, a.Class, cls, "ADMITTED")
		case res.Err == nil && res.Panic == "":
			c.Violation(sigPrefix+"/"+sigOf(reasons)+"/no-error", "a submission that must be rejected ("+cls+") returned no error to the validator client", witness())
			e.tally(tg.Name, a.Class, cls, "SILENT")
		default:
			r.Count("must_reject_rejected", 1)
			r.Count("vapi_must_reject_rejected", 1)
			e.tally(tg.Name, a.Class, cls, "rejected")
		}

		return true, false
	default:
		if a.Class == "fork-sweep" {
			r.Count(fmt.Sprintf("fork_sweep_correct_domain_admitted=%v", reached), 1)
		}
		if reached {
			r.Count("may_admit_admitted", 1)
			e.tally(tg.Name, a.Class, cls, "admitted")
		} else {
			r.Count("may_admit_rejected", 1)
			e.tally(tg.Name, a.Class, cls, "rejected")
		}

		return false, false
	}
}

// leafSigName strips the mutation description from a leaf detail ("Path how" -> "Path").
func leafSigName(detail string) string {
	for i := 0; i < len(detail); i++ {
		if detail[i] == ' ' {
			return detail[:i]
		}
	}

	return detail
}

var _ = context.Background
