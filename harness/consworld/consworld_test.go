package consworld

import (
	"context"
	"math/rand"
	"testing"
)

func TestExplore(t *testing.T) {
	b, err := NewBeacon(context.Background())
	if err != nil {
		t.Fatal(err)
	}
	rng := rand.New(rand.NewSource(1))
	agr, integ, timeouts, decided := 0, 0, 0, 0
	for k := 0; k < 6; k++ {
		w, err := New(t, b, 4)
		if err != nil {
			t.Fatal(err)
		}
		for d := 0; d < 3; d++ {
			res := w.RunDuty(b, rng, func(l int) Plan { return RandomPlan(rng, 4, l) }, "x")
			a, i := res.Check()
			agr += len(a)
			integ += len(i)
			if res.TimedOut {
				timeouts++
			}
			decided += len(res.Decisions)
			for _, f := range append(a, i...) {
				t.Log(f.Sig, f.What)
			}
			if len(res.Errors) > 0 {
				t.Log("errors", res.Errors)
			}
		}
		w.Close()
	}
	t.Logf("agreement %d integrity %d timeouts %d members-decided %d", agr, integ, timeouts, decided)
}
