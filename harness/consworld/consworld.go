// Package consworld runs small clusters of the real consensus component
// (core/consensus/qbft.Consensus: transport, instance bookkeeping, Participate / Propose entry
// points, subscribers) over the in-memory network. The qbftsim engine drives the algorithm
// (core/qbft.Run) directly; this world adds what sits around it in production — in particular the
// per-duty instance lifecycle, which decides whether a member can be made to run, vote or decide a
// second time for the same duty.
package consworld

import (
	"context"
	"fmt"
	"math/rand"
	"sort"
	"sync"
	"testing"
	"time"

	k1 "github.com/decred/dcrd/dcrec/secp256k1/v4"
	"github.com/libp2p/go-libp2p/core/peer"
	"google.golang.org/protobuf/proto"

	"github.com/obolnetwork/charon/core"
	"github.com/obolnetwork/charon/core/consensus/protocols"
	cqbft "github.com/obolnetwork/charon/core/consensus/qbft"
	pbv1 "github.com/obolnetwork/charon/core/corepb/v1"
	"github.com/obolnetwork/charon/p2p"
	"github.com/obolnetwork/charon/testutil/beaconmock"

	"verifharness/fakenet"
	"verifharness/kit"
)

// Genesis / slot timing of the shared beacon mock.
const (
	SlotDuration  = 12 * time.Second
	SlotsPerEpoch = 16
)

// Beacon is one beacon mock shared by all worlds of a run (its genesis lies 1000 slots in the past).
type Beacon struct {
	Mock    beaconmock.Mock
	Genesis time.Time
}

// NewBeacon creates the shared beacon mock.
func NewBeacon(ctx context.Context) (*Beacon, error) {
	genesis := time.Now().Add(-1000 * SlotDuration).Truncate(SlotDuration)
	m, err := beaconmock.New(ctx, beaconmock.WithGenesisTime(genesis), beaconmock.WithSlotDuration(SlotDuration), beaconmock.WithSlotsPerEpoch(SlotsPerEpoch))
	if err != nil {
		return nil, err
	}

	return &Beacon{Mock: m, Genesis: genesis}, nil
}

// CurrentSlot is the slot the mock chain is in now.
func (b *Beacon) CurrentSlot() uint64 { return uint64(time.Since(b.Genesis) / SlotDuration) }

type deadliner struct{ ch chan core.Duty }

func (d deadliner) Add(core.Duty) core.DeadlineStatus { return core.DeadlineScheduled }
func (d deadliner) C() <-chan core.Duty               { return d.ch }

// Decision is one delivery to a member's subscriber.
type Decision struct {
	Duty  core.Duty
	Value string // identifying content of the decided value
	Seq   int    // world-wide order of deliveries
}

// Node is one member running the real component.
type Node struct {
	Idx  int
	Cons *cqbft.Consensus

	mu        sync.Mutex
	decisions []Decision
	runs      int // completed runs of the component's per-duty instance (sniffer callbacks)
}

// WireMsg is one consensus message a member put on the wire (observed at send time by the network tap).
type WireMsg struct {
	From          int
	Type          int64
	Round         int64
	PreparedRound int64
	ValueHash     string
	Duty          core.Duty
}

// Decisions returns what this member's subscriber has been handed so far.
func (n *Node) Decisions() []Decision {
	n.mu.Lock()
	defer n.mu.Unlock()

	return append([]Decision(nil), n.decisions...)
}

// World is one cluster.
type World struct {
	N      int
	Nodes  []*Node
	Net    *fakenet.Net
	ctx    context.Context
	cancel context.CancelFunc
	seqMu  sync.Mutex
	seq    int
	duties int

	wireMu   sync.Mutex
	wire     []WireMsg
	firstIn  map[int]chan struct{} // closed when the first consensus envelope addressed to member i (current duty) is sent
	firstSet map[int]bool
}

// testingTB is what the constructors need from a test.
type testingTB = testing.TB

// newWorld builds a cluster of n members of which the first `real` run the real component.
func newWorld(t testing.TB, b *Beacon, n, real int) (*World, []*k1.PrivateKey, []peer.ID, error) {
	t.Helper()
	ctx, cancel := context.WithCancel(context.Background())
	w := &World{N: n, Net: fakenet.New(), ctx: ctx, cancel: cancel}
	var keys []*k1.PrivateKey
	var peers []p2p.Peer
	var ids []peer.ID
	for i := 0; i < n; i++ {
		k, err := k1.GeneratePrivateKey()
		if err != nil {
			cancel()
			return nil, nil, nil, err
		}
		id, err := p2p.PeerIDFromKey(k.PubKey())
		if err != nil {
			cancel()
			return nil, nil, nil, err
		}
		keys, ids = append(keys, k), append(ids, id)
		peers = append(peers, p2p.Peer{ID: id, Index: i, Name: p2p.PeerName(id)})
	}
	for i := 0; i < real; i++ {
		nd := &Node{Idx: i}
		c, err := cqbft.NewConsensus(ctx, b.Mock, w.Net.Host(ids[i]), new(p2p.Sender), peers, keys[i], deadliner{ch: make(chan core.Duty)},
			func(core.Duty) bool { return true }, func(*pbv1.SniffedConsensusInstance) {
				nd.mu.Lock()
				nd.runs++
				nd.mu.Unlock()
			}, false)
		if err != nil {
			cancel()
			return nil, nil, nil, err
		}
		c.SubscribePriority(func(_ context.Context, duty core.Duty, msg *pbv1.PriorityResult) error {
			w.seqMu.Lock()
			w.seq++
			s := w.seq
			w.seqMu.Unlock()
			nd.mu.Lock()
			nd.decisions = append(nd.decisions, Decision{Duty: duty, Value: valueID(msg), Seq: s})
			nd.mu.Unlock()

			return nil
		})
		c.Start(ctx)
		nd.Cons = c
		w.Nodes = append(w.Nodes, nd)
	}

	return w, keys, ids, nil
}

// New builds a cluster of n honest members on one in-memory network.
func New(t testing.TB, b *Beacon, n int) (*World, error) {
	t.Helper()
	w, _, ids, err := newWorld(t, b, n, n)
	if err != nil {
		return nil, err
	}
	idx := map[peer.ID]int{}
	for i, id := range ids {
		idx[id] = i
	}
	w.Net.SetTap(func(e *fakenet.Envelope) {
		if e.Proto != protocols.QBFTv2ProtocolID {
			return
		}
		var m pbv1.QBFTConsensusMsg
		if err := fakenet.Unframe(e.Data, &m); err != nil || m.GetMsg() == nil {
			return
		}
		q := m.GetMsg()
		w.wireMu.Lock()
		w.wire = append(w.wire, WireMsg{From: idx[e.From], Type: q.GetType(), Round: q.GetRound(), PreparedRound: q.GetPreparedRound(),
			ValueHash: string(q.GetValueHash()), Duty: core.Duty{Slot: q.GetDuty().GetSlot(), Type: core.DutyType(q.GetDuty().GetType())}})
		to := idx[e.To]
		if ch, ok := w.firstIn[to]; ok && !w.firstSet[to] {
			w.firstSet[to] = true
			close(ch)
		}
		w.wireMu.Unlock()
	})

	return w, nil
}

// Close stops every member.
func (w *World) Close() { w.cancel() }

// Value builds a proposal value with an identifying label.
func Value(label string) *pbv1.PriorityResult {
	return &pbv1.PriorityResult{Msgs: []*pbv1.PriorityMsg{{PeerId: label}}}
}

func valueID(m *pbv1.PriorityResult) string {
	if m == nil || len(m.GetMsgs()) == 0 {
		return "<empty>"
	}

	return m.GetMsgs()[0].GetPeerId()
}

// Plan says how each member joins the duty.
type Plan struct {
	// Early[i]: member i calls Propose at the start; otherwise it calls Participate at the start.
	Early []bool
	// Late[i]: member i (not early) calls Propose again/for the first time after its own subscriber has
	// been handed a decision ("the proposal data arrived late").
	Late []bool
	// Repeat[i]: an early proposer calls Propose a second time after its decision (a retry).
	Repeat []bool
	// OnFirstInbound[i]: member i makes its first call the moment the first consensus message addressed
	// to it for this duty is put on the wire (its local start coincides with its first inbound message;
	// in production both happen around the duty's start time on different goroutines).
	OnFirstInbound []bool
	// StartLag[i]: extra delay of that placement (the receive handler verifies signatures before it
	// touches the component's per-duty bookkeeping; the lag sweeps the local start across that span).
	StartLag []time.Duration
	// Slow[i] > 0: a member that participates at the start obtains its proposal data this much later and
	// calls Propose then, whether or not it has decided meanwhile (a slow beacon node).
	Slow []time.Duration
}

// RandomPlan draws a plan in which the round-1 leader proposes early (so that the duty decides
// without waiting for timeouts) and the others join in PRNG-chosen ways.
func RandomPlan(rng *rand.Rand, n int, leader int) Plan {
	p := Plan{Early: make([]bool, n), Late: make([]bool, n), Repeat: make([]bool, n), OnFirstInbound: make([]bool, n), StartLag: make([]time.Duration, n), Slow: make([]time.Duration, n)}
	for i := 0; i < n; i++ {
		switch rng.Intn(4) {
		case 0:
			p.Early[i] = true
		case 1:
			p.Early[i], p.Repeat[i] = true, true
		case 2:
			p.Late[i] = true
		default: // participates only
		}
	}
	p.Early[leader] = true
	for i := 0; i < n; i++ {
		if i == leader {
			continue
		}
		p.OnFirstInbound[i] = rng.Intn(4) != 0
		p.StartLag[i] = time.Duration(rng.Intn(60)) * 100 * time.Microsecond
		if !p.Early[i] && !p.Late[i] && rng.Intn(2) == 0 {
			p.Slow[i] = time.Duration(5+rng.Intn(300)) * time.Millisecond
		}
	}
	if rng.Intn(2) == 0 { // the shape in which a quorum obtains its proposal late
		for i := 0; i < n; i++ {
			if i != leader {
				p.Early[i], p.Repeat[i], p.Late[i] = false, false, true
			}
		}
	}

	return p
}

// Result of one duty.
type Result struct {
	Duty      core.Duty
	Plan      Plan
	Decisions map[int][]Decision // by member
	Runs      map[int]int        // completed instance runs by member during this duty
	Wire      []WireMsg          // consensus messages the members put on the wire for this duty
	Errors    []string
	TimedOut  bool
	Stuck     bool // some Propose / Participate call did not return after its context ended
}

// RunDuty runs one duty according to plan and returns every subscriber delivery observed until all
// calls have returned and the network has been quiet for a moment.
func (w *World) RunDuty(b *Beacon, rng *rand.Rand, planFn func(leader int) Plan, label string) *Result {
	// the eager round timer is anchored to the duty's slot start: take one of the next slots; every
	// duty of a world is distinct (slot, type)
	types := []core.DutyType{core.DutyAttester, core.DutyProposer, core.DutyRandao, core.DutySyncMessage, core.DutyPrepareAggregator, core.DutyPrepareSyncContribution}
	w.seqMu.Lock()
	k := w.duties
	w.duties++
	w.seqMu.Unlock()
	duty := core.Duty{Slot: b.CurrentSlot() + 1 + uint64(k/len(types)), Type: types[k%len(types)]}
	plan := planFn(int((duty.Slot + uint64(duty.Type) + 1) % uint64(w.N))) // production leader election: (slot + type + round) mod n
	res := &Result{Duty: duty, Plan: plan, Decisions: map[int][]Decision{}, Runs: map[int]int{}}
	ctx, cancel := context.WithTimeout(w.ctx, 15*time.Second)
	defer cancel()
	runs0 := map[int]int{}
	w.wireMu.Lock()
	w.firstIn, w.firstSet = map[int]chan struct{}{}, map[int]bool{}
	for i := range w.Nodes {
		w.firstIn[i] = make(chan struct{})
	}
	firstIn := w.firstIn
	w.wireMu.Unlock()
	for i, nd := range w.Nodes {
		nd.mu.Lock()
		runs0[i] = nd.runs
		nd.mu.Unlock()
	}
	var wg sync.WaitGroup
	var emu sync.Mutex
	fail := func(i int, what string, err error) {
		if err != nil && ctx.Err() == nil {
			emu.Lock()
			res.Errors = append(res.Errors, fmt.Sprintf("member %d %s: %v", i, what, err))
			emu.Unlock()
		}
	}
	decided := func(i int) bool {
		for _, d := range w.Nodes[i].Decisions() {
			if d.Duty == duty {
				return true
			}
		}

		return false
	}
	for i, nd := range w.Nodes {
		wg.Add(1)
		go func(i int, nd *Node) {
			defer wg.Done()
			if len(plan.OnFirstInbound) > i && plan.OnFirstInbound[i] {
				select {
				case <-firstIn[i]:
					if len(plan.StartLag) > i && plan.StartLag[i] > 0 {
						time.Sleep(plan.StartLag[i])
					}
				case <-time.After(20 * time.Millisecond):
				case <-ctx.Done():
				}
			}
			if plan.Early[i] {
				fail(i, "propose", nd.Cons.ProposePriority(ctx, duty, Value(fmt.Sprintf("%s/early-%d", label, i))))
			} else {
				if len(plan.Slow) > i && plan.Slow[i] > 0 && !plan.Late[i] {
					wg.Add(1)
					go func() {
						defer wg.Done()
						select {
						case <-time.After(plan.Slow[i]):
						case <-ctx.Done():
							return
						}
						fail(i, "slow propose", nd.Cons.ProposePriority(ctx, duty, Value(fmt.Sprintf("%s/slow-%d", label, i))))
					}()
				}
				fail(i, "participate", nd.Cons.Participate(ctx, duty))
			}
			if !plan.Late[i] && !plan.Repeat[i] {
				return
			}
			if !kit.WaitUntil(14*time.Second, func() bool { return decided(i) || ctx.Err() != nil }) || ctx.Err() != nil {
				return
			}
			fail(i, "late propose", nd.Cons.ProposePriority(ctx, duty, Value(fmt.Sprintf("%s/late-%d", label, i))))
		}(i, nd)
	}
	done := make(chan struct{})
	go func() { wg.Wait(); close(done) }()
	select {
	case <-done:
	case <-ctx.Done():
		res.TimedOut = true
		// every call takes the context; one that has not returned a generous while after its end is
		// recorded (not a verdict by itself) and left behind, so that what the monitors saw is still judged
		select {
		case <-done:
		case <-time.After(10 * time.Second):
			res.Stuck = true
		}
	}
	// late deliveries of a second run would arrive within its first rounds; the calls above only return
	// once such a run has completed, so a short settle is enough
	time.Sleep(50 * time.Millisecond)
	for i, nd := range w.Nodes {
		for _, d := range nd.Decisions() {
			if d.Duty == duty {
				res.Decisions[i] = append(res.Decisions[i], d)
			}
		}
		nd.mu.Lock()
		res.Runs[i] = nd.runs - runs0[i]
		nd.mu.Unlock()
	}
	w.wireMu.Lock()
	for _, m := range w.wire {
		if m.Duty == duty {
			res.Wire = append(res.Wire, m)
		}
	}
	w.wire = nil
	w.wireMu.Unlock()

	return res
}

// Findings applies the agreement / decide-once statements to a result.
type Finding struct{ Sig, What string }

// Check returns violations of "no two members decide differently" and "a member decides at most once".
func (r *Result) Check() (agreement, integrity []Finding) {
	vals := map[string][]int{}
	var members []int
	for i := range r.Decisions {
		members = append(members, i)
	}
	sort.Ints(members)
	for _, i := range members {
		ds := r.Decisions[i]
		if len(ds) > 1 {
			integrity = append(integrity, Finding{"consensus-component/integrity/member-decided-twice-for-one-duty",
				fmt.Sprintf("member %d's subscriber was handed %d decisions for duty %v: %v", i, len(ds), r.Duty, valuesOf(ds))})
		}
		for _, d := range ds {
			vals[d.Value] = append(vals[d.Value], i)
		}
	}
	// What an honest member puts on the wire for one duty must be what ONE run of the algorithm emits:
	// agreement rests on every member voting once per round and reporting the round it prepared in.
	// (Judged order-independently: sends are asynchronous, so the tap order is not the creation order;
	// a ROUND-CHANGE for round R is always created after the member's COMMIT of a round r < R.)
	type vk struct {
		from  int
		typ   int64
		round int64
	}
	votes := map[vk]string{}
	commitRound := map[int]int64{}
	for _, m := range r.Wire {
		if m.Type == 1 || m.Type == 2 || m.Type == 3 {
			k := vk{m.From, m.Type, m.Round}
			if prev, ok := votes[k]; ok && prev != m.ValueHash {
				agreement = append(agreement, Finding{"consensus-component/member-voted-for-two-values-in-one-round/" + wireTypeName(m.Type),
					fmt.Sprintf("duty %v: member %d sent two %s messages of round %d with different values", r.Duty, m.From, wireTypeName(m.Type), m.Round)})
			}
			votes[k] = m.ValueHash
		}
		if m.Type == 3 && m.Round > commitRound[m.From] {
			commitRound[m.From] = m.Round
		}
	}
	reported := map[int]bool{}
	for _, m := range r.Wire {
		if m.Type != 4 || reported[m.From] {
			continue
		}
		for _, c := range r.Wire {
			if c.From == m.From && c.Type == 3 && c.Round < m.Round && m.PreparedRound < c.Round {
				reported[m.From] = true
				agreement = append(agreement, Finding{"consensus-component/member-understates-its-prepared-round-after-committing",
					fmt.Sprintf("duty %v: member %d sent COMMIT in round %d and a ROUND-CHANGE for round %d that claims prepared round %d (instance runs of that member: %d)",
						r.Duty, m.From, c.Round, m.Round, m.PreparedRound, r.Runs[m.From])})
				break
			}
		}
	}
	for _, i := range sortedKeys(r.Runs) {
		if r.Runs[i] > 1 {
			agreement = append(agreement, Finding{"consensus-component/member-ran-two-instances-for-one-duty",
				fmt.Sprintf("duty %v: member %d ran %d consensus instances (each with blank prepared state and vote record) for the same duty", r.Duty, i, r.Runs[i])})
		}
	}
	if len(vals) > 1 {
		var ks []string
		for k := range vals {
			ks = append(ks, fmt.Sprintf("%q by members %v", k, vals[k]))
		}
		sort.Strings(ks)
		agreement = append(agreement, Finding{"consensus-component/agreement/two-values-decided-for-one-duty",
			fmt.Sprintf("duty %v: different values were decided: %v", r.Duty, ks)})
	}

	return agreement, integrity
}

func wireTypeName(t int64) string {
	return map[int64]string{1: "pre_prepare", 2: "prepare", 3: "commit", 4: "round_change", 5: "decided"}[t]
}

func sortedKeys(m map[int]int) []int {
	var ks []int
	for k := range m {
		ks = append(ks, k)
	}
	sort.Ints(ks)

	return ks
}

func valuesOf(ds []Decision) []string {
	var out []string
	for _, d := range ds {
		out = append(out, d.Value)
	}

	return out
}

var _ = proto.Equal

// RunBatch runs worlds×duties duties with random plans and reports findings through the callbacks
// (agreement findings belong to property C02, integrity findings to C03). It stops a world at its
// first finding. Returns observation counters.
func RunBatch(t testing.TB, b *Beacon, rng *rand.Rand, worlds, duties int, onAgreement, onIntegrity func(Finding, *Result)) map[string]int {
	obs := map[string]int{}
	for k := 0; k < worlds; k++ {
		n := 4
		w, err := New(t, b, n)
		if err != nil {
			obs["world_setup_failed"]++
			continue
		}
		for d := 0; d < duties; d++ {
			res := w.RunDuty(b, rng, func(l int) Plan { return RandomPlan(rng, n, l) }, fmt.Sprintf("w%d-d%d", k, d))
			obs["component_duties"]++
			obs["component_members_decided"] += len(res.Decisions)
			late := 0
			for i := range res.Plan.Late {
				if res.Plan.Late[i] || res.Plan.Repeat[i] {
					late++
				}
			}
			obs["component_propose_calls_after_own_decision"] += late
			if late >= 3 {
				obs["component_duties_with_a_quorum_of_late_proposals"]++
			}
			if res.TimedOut {
				obs["component_duties_timed_out"]++
			}
			if res.Stuck {
				obs["component_duties_with_a_call_that_never_returned"]++
			}
			obs["component_wire_messages_judged"] += len(res.Wire)
			for i := range res.Plan.OnFirstInbound {
				if res.Plan.OnFirstInbound[i] {
					obs["component_local_starts_placed_at_first_inbound_message"]++
				}
				if res.Plan.Slow[i] > 0 && !res.Plan.Late[i] && !res.Plan.Early[i] {
					obs["component_propose_calls_while_participating"]++
				}
			}
			for _, k := range res.Runs {
				obs["component_instance_runs"] += k
			}
			agr, integ := res.Check()
			for _, f := range agr {
				onAgreement(f, res)
			}
			for _, f := range integ {
				onIntegrity(f, res)
			}
			if len(agr)+len(integ) > 0 || res.Stuck {
				break
			}
		}
		w.Close()
	}

	return obs
}
