// Package consworld runs small clusters of the real consensus component
// (core/consensus/qbft.Consensus: transport, instance bookkeeping, Participate / Propose entry
// points, subscribers) over the in-memory network. The qbftsim engine drives the algorithm
// (core/qbft.Run) directly; this world adds what sits around it in production — in particular the
// per-duty instance lifecycle, which decides whether a member can be made to run, vote or decide a
// second time for the same duty.
package consworld

import (
	"context"
	"fmt"
	"math/rand"
	"sort"
	"sync"
	"testing"
	"time"

	k1 "github.com/decred/dcrd/dcrec/secp256k1/v4"
	"github.com/libp2p/go-libp2p/core/peer"
	"google.golang.org/protobuf/proto"

	"github.com/obolnetwork/charon/core"
	cqbft "github.com/obolnetwork/charon/core/consensus/qbft"
	pbv1 "github.com/obolnetwork/charon/core/corepb/v1"
	"github.com/obolnetwork/charon/p2p"
	"github.com/obolnetwork/charon/testutil/beaconmock"

	"verifharness/fakenet"
	"verifharness/kit"
)

// Genesis / slot timing of the shared beacon mock.
const (
	SlotDuration  = 12 * time.Second
	SlotsPerEpoch = 16
)

// Beacon is one beacon mock shared by all worlds of a run (its genesis lies 1000 slots in the past).
type Beacon struct {
	Mock    beaconmock.Mock
	Genesis time.Time
}

// NewBeacon creates the shared beacon mock.
func NewBeacon(ctx context.Context) (*Beacon, error) {
	genesis := time.Now().Add(-1000 * SlotDuration).Truncate(SlotDuration)
	m, err := beaconmock.New(ctx, beaconmock.WithGenesisTime(genesis), beaconmock.WithSlotDuration(SlotDuration), beaconmock.WithSlotsPerEpoch(SlotsPerEpoch))
	if err != nil {
		return nil, err
	}

	return &Beacon{Mock: m, Genesis: genesis}, nil
}

// CurrentSlot is the slot the mock chain is in now.
func (b *Beacon) CurrentSlot() uint64 { return uint64(time.Since(b.Genesis) / SlotDuration) }

type deadliner struct{ ch chan core.Duty }

func (d deadliner) Add(core.Duty) core.DeadlineStatus { return core.DeadlineScheduled }
func (d deadliner) C() <-chan core.Duty               { return d.ch }

// Decision is one delivery to a member's subscriber.
type Decision struct {
	Duty  core.Duty
	Value string // identifying content of the decided value
	Seq   int    // world-wide order of deliveries
}

// Node is one member running the real component.
type Node struct {
	Idx  int
	Cons *cqbft.Consensus

	mu        sync.Mutex
	decisions []Decision
}

// Decisions returns what this member's subscriber has been handed so far.
func (n *Node) Decisions() []Decision {
	n.mu.Lock()
	defer n.mu.Unlock()

	return append([]Decision(nil), n.decisions...)
}

// World is one cluster.
type World struct {
	N      int
	Nodes  []*Node
	Net    *fakenet.Net
	ctx    context.Context
	cancel context.CancelFunc
	seqMu  sync.Mutex
	seq    int
	duties int
}

// New builds a cluster of n honest members on one in-memory network.
func New(t testing.TB, b *Beacon, n int) (*World, error) {
	t.Helper()
	ctx, cancel := context.WithCancel(context.Background())
	w := &World{N: n, Net: fakenet.New(), ctx: ctx, cancel: cancel}
	var keys []*k1.PrivateKey
	var peers []p2p.Peer
	var ids []peer.ID
	for i := 0; i < n; i++ {
		k, err := k1.GeneratePrivateKey()
		if err != nil {
			cancel()
			return nil, err
		}
		id, err := p2p.PeerIDFromKey(k.PubKey())
		if err != nil {
			cancel()
			return nil, err
		}
		keys, ids = append(keys, k), append(ids, id)
		peers = append(peers, p2p.Peer{ID: id, Index: i, Name: p2p.PeerName(id)})
	}
	for i := 0; i < n; i++ {
		nd := &Node{Idx: i}
		c, err := cqbft.NewConsensus(ctx, b.Mock, w.Net.Host(ids[i]), new(p2p.Sender), peers, keys[i], deadliner{ch: make(chan core.Duty)},
			func(core.Duty) bool { return true }, func(*pbv1.SniffedConsensusInstance) {}, false)
		if err != nil {
			cancel()
			return nil, err
		}
		c.SubscribePriority(func(_ context.Context, duty core.Duty, msg *pbv1.PriorityResult) error {
			w.seqMu.Lock()
			w.seq++
			s := w.seq
			w.seqMu.Unlock()
			nd.mu.Lock()
			nd.decisions = append(nd.decisions, Decision{Duty: duty, Value: valueID(msg), Seq: s})
			nd.mu.Unlock()

			return nil
		})
		c.Start(ctx)
		nd.Cons = c
		w.Nodes = append(w.Nodes, nd)
	}

	return w, nil
}

// Close stops every member.
func (w *World) Close() { w.cancel() }

// Value builds a proposal value with an identifying label.
func Value(label string) *pbv1.PriorityResult {
	return &pbv1.PriorityResult{Msgs: []*pbv1.PriorityMsg{{PeerId: label}}}
}

func valueID(m *pbv1.PriorityResult) string {
	if m == nil || len(m.GetMsgs()) == 0 {
		return "<empty>"
	}

	return m.GetMsgs()[0].GetPeerId()
}

// Plan says how each member joins the duty.
type Plan struct {
	// Early[i]: member i calls Propose at the start; otherwise it calls Participate at the start.
	Early []bool
	// Late[i]: member i (not early) calls Propose again/for the first time after its own subscriber has
	// been handed a decision ("the proposal data arrived late").
	Late []bool
	// Repeat[i]: an early proposer calls Propose a second time after its decision (a retry).
	Repeat []bool
}

// RandomPlan draws a plan in which the round-1 leader proposes early (so that the duty decides
// without waiting for timeouts) and the others join in PRNG-chosen ways.
func RandomPlan(rng *rand.Rand, n int, leader int) Plan {
	p := Plan{Early: make([]bool, n), Late: make([]bool, n), Repeat: make([]bool, n)}
	for i := 0; i < n; i++ {
		switch rng.Intn(4) {
		case 0:
			p.Early[i] = true
		case 1:
			p.Early[i], p.Repeat[i] = true, true
		case 2:
			p.Late[i] = true
		default: // participates only
		}
	}
	p.Early[leader] = true
	if rng.Intn(2) == 0 { // the shape in which a quorum obtains its proposal late
		for i := 0; i < n; i++ {
			if i != leader {
				p.Early[i], p.Repeat[i], p.Late[i] = false, false, true
			}
		}
	}

	return p
}

// Result of one duty.
type Result struct {
	Duty      core.Duty
	Plan      Plan
	Decisions map[int][]Decision // by member
	Errors    []string
	TimedOut  bool
}

// RunDuty runs one duty according to plan and returns every subscriber delivery observed until all
// calls have returned and the network has been quiet for a moment.
func (w *World) RunDuty(b *Beacon, rng *rand.Rand, planFn func(leader int) Plan, label string) *Result {
	// the eager round timer is anchored to the duty's slot start: take one of the next slots; every
	// duty of a world is distinct (slot, type)
	types := []core.DutyType{core.DutyAttester, core.DutyProposer, core.DutyRandao, core.DutySyncMessage, core.DutyPrepareAggregator, core.DutyPrepareSyncContribution}
	w.seqMu.Lock()
	k := w.duties
	w.duties++
	w.seqMu.Unlock()
	duty := core.Duty{Slot: b.CurrentSlot() + 1 + uint64(k/len(types)), Type: types[k%len(types)]}
	plan := planFn(int((duty.Slot + uint64(duty.Type) + 1) % uint64(w.N))) // production leader election: (slot + type + round) mod n
	res := &Result{Duty: duty, Plan: plan, Decisions: map[int][]Decision{}}
	ctx, cancel := context.WithTimeout(w.ctx, 15*time.Second)
	defer cancel()
	var wg sync.WaitGroup
	var emu sync.Mutex
	fail := func(i int, what string, err error) {
		if err != nil && ctx.Err() == nil {
			emu.Lock()
			res.Errors = append(res.Errors, fmt.Sprintf("member %d %s: %v", i, what, err))
			emu.Unlock()
		}
	}
	decided := func(i int) bool {
		for _, d := range w.Nodes[i].Decisions() {
			if d.Duty == duty {
				return true
			}
		}

		return false
	}
	for i, nd := range w.Nodes {
		wg.Add(1)
		go func(i int, nd *Node) {
			defer wg.Done()
			if plan.Early[i] {
				fail(i, "propose", nd.Cons.ProposePriority(ctx, duty, Value(fmt.Sprintf("%s/early-%d", label, i))))
			} else {
				fail(i, "participate", nd.Cons.Participate(ctx, duty))
			}
			if !plan.Late[i] && !plan.Repeat[i] {
				return
			}
			if !kit.WaitUntil(14*time.Second, func() bool { return decided(i) || ctx.Err() != nil }) || ctx.Err() != nil {
				return
			}
			fail(i, "late propose", nd.Cons.ProposePriority(ctx, duty, Value(fmt.Sprintf("%s/late-%d", label, i))))
		}(i, nd)
	}
	done := make(chan struct{})
	go func() { wg.Wait(); close(done) }()
	select {
	case <-done:
	case <-ctx.Done():
		res.TimedOut = true
		<-done
	}
	// late deliveries of a second run would arrive within its first rounds; the calls above only return
	// once such a run has completed, so a short settle is enough
	time.Sleep(50 * time.Millisecond)
	for i, nd := range w.Nodes {
		for _, d := range nd.Decisions() {
			if d.Duty == duty {
				res.Decisions[i] = append(res.Decisions[i], d)
			}
		}
	}

	return res
}

// Findings applies the agreement / decide-once statements to a result.
type Finding struct{ Sig, What string }

// Check returns violations of "no two members decide differently" and "a member decides at most once".
func (r *Result) Check() (agreement, integrity []Finding) {
	vals := map[string][]int{}
	var members []int
	for i := range r.Decisions {
		members = append(members, i)
	}
	sort.Ints(members)
	for _, i := range members {
		ds := r.Decisions[i]
		if len(ds) > 1 {
			integrity = append(integrity, Finding{"consensus-component/integrity/member-decided-twice-for-one-duty",
				fmt.Sprintf("member %d's subscriber was handed %d decisions for duty %v: %v", i, len(ds), r.Duty, valuesOf(ds))})
		}
		for _, d := range ds {
			vals[d.Value] = append(vals[d.Value], i)
		}
	}
	if len(vals) > 1 {
		var ks []string
		for k := range vals {
			ks = append(ks, fmt.Sprintf("%q by members %v", k, vals[k]))
		}
		sort.Strings(ks)
		agreement = append(agreement, Finding{"consensus-component/agreement/two-values-decided-for-one-duty",
			fmt.Sprintf("duty %v: different values were decided: %v", r.Duty, ks)})
	}

	return agreement, integrity
}

func valuesOf(ds []Decision) []string {
	var out []string
	for _, d := range ds {
		out = append(out, d.Value)
	}

	return out
}

var _ = proto.Equal

// RunBatch runs worlds×duties duties with random plans and reports findings through the callbacks
// (agreement findings belong to property C02, integrity findings to C03). It stops a world at its
// first finding. Returns observation counters.
func RunBatch(t testing.TB, b *Beacon, rng *rand.Rand, worlds, duties int, onAgreement, onIntegrity func(Finding, *Result)) map[string]int {
	obs := map[string]int{}
	for k := 0; k < worlds; k++ {
		n := 4
		w, err := New(t, b, n)
		if err != nil {
			obs["world_setup_failed"]++
			continue
		}
		for d := 0; d < duties; d++ {
			res := w.RunDuty(b, rng, func(l int) Plan { return RandomPlan(rng, n, l) }, fmt.Sprintf("w%d-d%d", k, d))
			obs["component_duties"]++
			obs["component_members_decided"] += len(res.Decisions)
			late := 0
			for i := range res.Plan.Late {
				if res.Plan.Late[i] || res.Plan.Repeat[i] {
					late++
				}
			}
			obs["component_propose_calls_after_own_decision"] += late
			if late >= 3 {
				obs["component_duties_with_a_quorum_of_late_proposals"]++
			}
			if res.TimedOut {
				obs["component_duties_timed_out"]++
			}
			agr, integ := res.Check()
			for _, f := range agr {
				onAgreement(f, res)
			}
			for _, f := range integ {
				onIntegrity(f, res)
			}
			if len(agr)+len(integ) > 0 {
				break
			}
		}
		w.Close()
	}

	return obs
}
