package consworld

// A Byzantine member on the wire. Three members run the real component, the fourth identity (index
// n-1) is the harness: it sees every message (network tap), holds a real cluster key, signs its own
// messages correctly and otherwise sends whatever it likes — here: DECIDED messages for a value B
// that nobody proposed, "backed" by COMMITs attributed to honest members whose authentication is
// forged in several ways. The victim is cut off from the others for a moment (delays are within the
// statement's quantifier), the others decide the leader's value A with the adversary's genuine
// votes. If the victim's subscriber is handed B, two honest members have decided differently.

import (
	"context"
	"fmt"
	"math/rand"
	"sync"
	"time"

	k1 "github.com/decred/dcrd/dcrec/secp256k1/v4"
	ssz "github.com/ferranbt/fastssz"
	"github.com/libp2p/go-libp2p/core/network"
	"github.com/libp2p/go-libp2p/core/peer"
	"google.golang.org/protobuf/proto"
	"google.golang.org/protobuf/types/known/anypb"

	"github.com/obolnetwork/charon/app/k1util"
	"github.com/obolnetwork/charon/core"
	"github.com/obolnetwork/charon/core/consensus/protocols"
	pbv1 "github.com/obolnetwork/charon/core/corepb/v1"

	"verifharness/fakenet"
	"verifharness/kit"
)

// AdvPlays are the ways the adversary "authenticates" the COMMITs it attributes to honest members.
var AdvPlays = []string{"signature-copied-from-a-verified-message", "signed-with-the-adversarys-own-key", "zero-signature", "honest-prepare-replayed-with-forged-justification", "own-commit-repeated", "genuine-commits-of-an-earlier-duty-of-the-same-type"}

func hashProtoIndep(m proto.Message) [32]byte {
	b, err := proto.MarshalOptions{Deterministic: true}.Marshal(m)
	if err != nil {
		panic(err)
	}
	hh := ssz.NewHasher()
	idx := hh.Index()
	hh.PutBytes(b)
	hh.Merkleize(idx)
	h, err := hh.HashRoot()
	if err != nil {
		panic(err)
	}

	return h
}

func signIndep(m *pbv1.QBFTMsg, key *k1.PrivateKey) *pbv1.QBFTMsg {
	c := proto.Clone(m).(*pbv1.QBFTMsg)
	c.Signature = nil
	h := hashProtoIndep(c)
	sig, err := k1util.Sign(key, h[:])
	if err != nil {
		panic(err)
	}
	c.Signature = sig

	return c
}

// AdvWorld is a 4-member cluster whose last member is the adversary.
type AdvWorld struct {
	*World
	advKey *k1.PrivateKey
	ids    []peer.ID
	adv    int

	mu       sync.Mutex
	recorded []*pbv1.QBFTConsensusMsg // wire messages of the current duty, in tap order
	froms    []int
	duty     core.Duty
	victim   int
	leader   int
	seenPP   chan struct{}
	ppOnce   *sync.Once

	// genuine COMMIT messages (distinct honest sources) of the last decided duty per duty type, with that
	// duty's proto and value: what a member that saw the earlier duty can replay into a later one
	prev map[core.DutyType]*prevDuty
}

type prevDuty struct {
	dutyPB  *pbv1.Duty
	commits []*pbv1.QBFTMsg
	values  []*anypb.Any
	hash    []byte
	label   string
}

// NewAdv builds the cluster. Members 0..2 are real components, member 3 is the harness.
func NewAdv(t testingTB, b *Beacon) (*AdvWorld, error) {
	w, keys, ids, err := newWorld(t, b, 4, 3)
	if err != nil {
		return nil, err
	}
	aw := &AdvWorld{World: w, advKey: keys[3], ids: ids, adv: 3, prev: map[core.DutyType]*prevDuty{}}
	// the adversary's host accepts (and ignores) consensus traffic
	w.Net.Host(ids[3]).SetStreamHandler(protocols.QBFTv2ProtocolID, func(s network.Stream) { _ = s.Close() })
	idx := map[peer.ID]int{}
	for i, id := range ids {
		idx[id] = i
	}
	w.Net.SetTap(func(e *fakenet.Envelope) {
		if e.Proto != protocols.QBFTv2ProtocolID {
			return
		}
		var m pbv1.QBFTConsensusMsg
		if err := fakenet.Unframe(e.Data, &m); err != nil || m.GetMsg() == nil {
			return
		}
		aw.mu.Lock()
		defer aw.mu.Unlock()
		d := core.Duty{Slot: m.GetMsg().GetDuty().GetSlot(), Type: core.DutyType(m.GetMsg().GetDuty().GetType())}
		if d != aw.duty {
			return
		}
		aw.recorded = append(aw.recorded, proto.Clone(&m).(*pbv1.QBFTConsensusMsg))
		aw.froms = append(aw.froms, idx[e.From])
		if m.GetMsg().GetType() == 1 && idx[e.From] == aw.leader && aw.ppOnce != nil {
			aw.ppOnce.Do(func() { close(aw.seenPP) })
		}
	})
	w.Net.SetPolicy(func(e *fakenet.Envelope) fakenet.Verdict {
		if e.Proto != protocols.QBFTv2ProtocolID {
			return fakenet.DeliverAsync
		}
		aw.mu.Lock()
		v, l := aw.victim, aw.leader
		aw.mu.Unlock()
		if v < 0 {
			return fakenet.DeliverAsync
		}
		from, to := idx[e.From], idx[e.To]
		if to == v && from == l {
			var m pbv1.QBFTConsensusMsg
			if fakenet.Unframe(e.Data, &m) == nil && m.GetMsg().GetType() == 1 {
				return fakenet.DeliverAsync // the proposal reaches the victim
			}
		}
		if to == v || from == v {
			return fakenet.Hold
		}

		return fakenet.DeliverAsync
	})

	return aw, nil
}

// AdvResult of one adversarial duty.
type AdvResult struct {
	Duty       core.Duty
	Play       string
	Victim     int
	Leader     int
	Decisions  map[int][]Decision
	OthersGotA bool // both other honest members decided the leader's value with the adversary's genuine votes
	Sent       []string
	TimedOut   bool
	Label      string // every honest proposal of this duty is Label + "/A-<member>"
}

func (aw *AdvWorld) send(to int, m *pbv1.QBFTConsensusMsg) {
	aw.Net.Inject(aw.ids[aw.adv], aw.ids[to], protocols.QBFTv2ProtocolID, m)
}

// RunAdvDuty runs one duty under the given play.
func (aw *AdvWorld) RunAdvDuty(b *Beacon, rng *rand.Rand, play, label string) *AdvResult {
	w := aw.World
	types := []core.DutyType{core.DutyAttester, core.DutyProposer, core.DutySyncMessage} // few types: a type recurs with another slot
	var duty core.Duty
	leader := aw.adv
	for leader == aw.adv { // a duty whose round-1 leader is honest
		w.seqMu.Lock()
		k := w.duties
		w.duties++
		w.seqMu.Unlock()
		duty = core.Duty{Slot: b.CurrentSlot() + 1 + uint64(k/len(types)), Type: types[k%len(types)]}
		leader = int((duty.Slot + uint64(duty.Type) + 1) % 4)
	}
	victim := (leader + 1 + rng.Intn(2)) % 4
	for victim == aw.adv || victim == leader {
		victim = (victim + 1) % 4
	}
	res := &AdvResult{Duty: duty, Play: play, Victim: victim, Leader: leader, Decisions: map[int][]Decision{}, Label: label}
	aw.mu.Lock()
	aw.duty, aw.victim, aw.leader, aw.recorded, aw.froms = duty, victim, leader, nil, nil
	aw.seenPP, aw.ppOnce = make(chan struct{}), new(sync.Once)
	seenPP := aw.seenPP
	aw.mu.Unlock()

	ctx, cancel := context.WithTimeout(w.ctx, 15*time.Second)
	defer cancel()
	var wg sync.WaitGroup
	for i, nd := range w.Nodes {
		wg.Add(1)
		go func(i int, nd *Node) {
			defer wg.Done()
			_ = nd.Cons.ProposePriority(ctx, duty, Value(fmt.Sprintf("%s/A-%d", label, i)))
		}(i, nd)
	}

	note := func(f string, a ...any) { res.Sent = append(res.Sent, fmt.Sprintf(f, a...)) }
	select {
	case <-seenPP:
	case <-ctx.Done():
	}
	var pp *pbv1.QBFTConsensusMsg
	aw.mu.Lock()
	for i, m := range aw.recorded {
		if m.GetMsg().GetType() == 1 && aw.froms[i] == leader {
			pp = m
			break
		}
	}
	aw.mu.Unlock()
	if pp != nil {
		dutyPB := pp.GetMsg().GetDuty()
		hashA := pp.GetMsg().GetValueHash()
		zero := make([]byte, 32)
		mk := func(typ int64, src int, vh []byte, key *k1.PrivateKey) *pbv1.QBFTMsg {
			m := &pbv1.QBFTMsg{Type: typ, Duty: dutyPB, PeerIdx: int64(src), Round: 1, ValueHash: vh, PreparedRound: 0, PreparedValueHash: zero}
			if key != nil {
				return signIndep(m, key)
			}

			return m
		}
		// genuine votes for A towards the two members that are not cut off
		for i := 0; i < 3; i++ {
			if i == victim {
				continue
			}
			aw.send(i, &pbv1.QBFTConsensusMsg{Msg: mk(2, aw.adv, hashA, aw.advKey), Values: pp.GetValues()})
			aw.send(i, &pbv1.QBFTConsensusMsg{Msg: mk(3, aw.adv, hashA, aw.advKey), Values: pp.GetValues()})
		}
		note("genuine PREPARE and COMMIT for the leader's value to members other than %d", victim)
		time.Sleep(time.Duration(20+rng.Intn(40)) * time.Millisecond) // the victim handles the proposal meanwhile

		// the forged decision for B
		valB := Value(label + "/B-by-the-adversary")
		anyB, _ := anypb.New(valB)
		hB := hashProtoIndep(valB)
		hashB := hB[:]
		other := 3 - leader - victim // the third honest member (indices 0,1,2 sum to 3)
		commitAdv := mk(3, aw.adv, hashB, aw.advKey)
		forge := func(src int) *pbv1.QBFTMsg {
			m := mk(3, src, hashB, nil)
			switch play {
			case "signature-copied-from-a-verified-message":
				m.Signature = append([]byte(nil), pp.GetMsg().GetSignature()...)
			case "signed-with-the-adversarys-own-key":
				m = signIndep(m, aw.advKey)
			case "zero-signature":
				m.Signature = make([]byte, 65)
			}

			return m
		}
		if play == "genuine-commits-of-an-earlier-duty-of-the-same-type" && aw.prev[duty.Type] == nil {
			play = "signature-copied-from-a-verified-message" // nothing to replay yet
			res.Play = play
		}
		switch play {
		case "genuine-commits-of-an-earlier-duty-of-the-same-type":
			pd := aw.prev[duty.Type]
			own := signIndep(&pbv1.QBFTMsg{Type: 3, Duty: pd.dutyPB, PeerIdx: int64(aw.adv), Round: 1, ValueHash: pd.hash, PreparedValueHash: zero}, aw.advKey)
			just := append(append([]*pbv1.QBFTMsg(nil), pd.commits...), own)
			aw.send(victim, &pbv1.QBFTConsensusMsg{Msg: mk(5, aw.adv, pd.hash, aw.advKey), Justification: just, Values: pd.values})
			note("DECIDED for the value %s decided in the earlier duty %d/%d to %d, backed by %d genuine COMMITs of that duty and the adversary's own", pd.label, pd.dutyPB.GetSlot(), pd.dutyPB.GetType(), victim, len(pd.commits))
		case "honest-prepare-replayed-with-forged-justification":
			// genuine PREPAREs of honest members (seen on the wire) re-sent with a forged COMMIT(B) attributed to their author
			aw.mu.Lock()
			var preps []*pbv1.QBFTConsensusMsg
			seen := map[int64]bool{}
			for i, m := range aw.recorded {
				if m.GetMsg().GetType() == 2 && aw.froms[i] != victim && aw.froms[i] != aw.adv && !seen[m.GetMsg().GetPeerIdx()] {
					seen[m.GetMsg().GetPeerIdx()] = true
					preps = append(preps, m)
				}
			}
			aw.mu.Unlock()
			for _, p := range preps {
				m := proto.Clone(p).(*pbv1.QBFTConsensusMsg)
				m.Justification = []*pbv1.QBFTMsg{mk(3, int(p.GetMsg().GetPeerIdx()), hashB, nil)}
				m.Values = append(append([]*anypb.Any(nil), p.GetValues()...), anyB)
				aw.send(victim, m)
			}
			aw.send(victim, &pbv1.QBFTConsensusMsg{Msg: commitAdv, Values: []*anypb.Any{anyB}})
			note("%d genuine PREPAREs replayed to %d with a forged COMMIT for B by their author attached, then the adversary's own COMMIT for B", len(preps), victim)
		case "own-commit-repeated":
			aw.send(victim, &pbv1.QBFTConsensusMsg{Msg: mk(5, aw.adv, hashB, aw.advKey), Justification: []*pbv1.QBFTMsg{commitAdv, commitAdv, commitAdv}, Values: []*anypb.Any{anyB}})
			note("DECIDED for B to %d backed by the adversary's own COMMIT three times", victim)
		default:
			aw.send(victim, &pbv1.QBFTConsensusMsg{Msg: mk(5, aw.adv, hashB, aw.advKey), Justification: []*pbv1.QBFTMsg{commitAdv, forge(leader), forge(other)}, Values: []*anypb.Any{anyB}})
			note("DECIDED for B to %d backed by COMMITs attributed to members %d and %d (%s) and the adversary's own", victim, leader, other, play)
		}
	}
	// the cut ends: everything held is delivered
	kit.WaitUntil(400*time.Millisecond, func() bool {
		for _, d := range w.Nodes[victim].Decisions() {
			if d.Duty == duty {
				return true
			}
		}

		return false
	})
	aw.mu.Lock()
	aw.victim = -1
	aw.mu.Unlock()
	for _, e := range w.Net.Pending() {
		if w.Net.Take(e) {
			go w.Net.Deliver(e)
		}
	}
	done := make(chan struct{})
	go func() { wg.Wait(); close(done) }()
	select {
	case <-done:
	case <-ctx.Done():
		res.TimedOut = true
		select {
		case <-done:
		case <-time.After(10 * time.Second):
		}
	}
	time.Sleep(30 * time.Millisecond)
	got := 0
	for i, nd := range w.Nodes {
		for _, d := range nd.Decisions() {
			if d.Duty == duty {
				res.Decisions[i] = append(res.Decisions[i], d)
				if i != victim {
					got++
				}
			}
		}
	}
	res.OthersGotA = got >= 2
	// remember this duty's genuine COMMITs of two honest members for a later duty of the same type
	if pp != nil {
		aw.mu.Lock()
		pd := &prevDuty{dutyPB: pp.GetMsg().GetDuty(), values: pp.GetValues(), hash: pp.GetMsg().GetValueHash(), label: label + "/A"}
		seen := map[int64]bool{}
		for i, m := range aw.recorded {
			q := m.GetMsg()
			if q.GetType() == 3 && aw.froms[i] != aw.adv && !seen[q.GetPeerIdx()] && string(q.GetValueHash()) == string(pd.hash) && len(pd.commits) < 2 {
				seen[q.GetPeerIdx()] = true
				pd.commits = append(pd.commits, proto.Clone(q).(*pbv1.QBFTMsg))
			}
		}
		if len(pd.commits) == 2 {
			aw.prev[duty.Type] = pd
		}
		aw.mu.Unlock()
	}

	return res
}

// CheckAdv applies the agreement statement to an adversarial duty.
func (r *AdvResult) CheckAdv() []Finding {
	vals := map[string][]int{}
	for i, ds := range r.Decisions {
		for _, d := range ds {
			vals[d.Value] = append(vals[d.Value], i)
		}
	}
	if len(vals) > 1 {
		return []Finding{{"consensus-component/agreement/two-values-decided-for-one-duty/byzantine-member-forged-decision/" + r.Play,
			fmt.Sprintf("duty %v: honest members decided different values %v after the Byzantine member sent member %d a DECIDED for its own value (%s)", r.Duty, vals, r.Victim, r.Play)}}
	}

	return nil
}

// CheckAdvValidity applies the validity statement: the leader of round 1 is honest and proposed A, the
// adversary is not a leader of any round the duty reached before the forged message, so a member that
// is handed the adversary's value has decided something no designated leader proposed and that no
// quorum of distinct members committed.
func (r *AdvResult) CheckAdvValidity() []Finding {
	var out []Finding
	want := r.Label + "/A-"
	for i, ds := range r.Decisions {
		for _, d := range ds {
			if len(d.Value) < len(want) || d.Value[:len(want)] != want {
				out = append(out, Finding{"consensus-component/validity/decided-a-value-no-leader-proposed/byzantine-member-forged-decision/" + r.Play,
					fmt.Sprintf("duty %v: member %d was handed %q, which no member proposed for this duty (honest proposals are %q…): only the Byzantine member (not a leader) sent it, backed by COMMITs that were never made for this duty by the members they are attributed to (%s)", r.Duty, i, d.Value, want, r.Play)})
			}
		}
	}

	return out
}
