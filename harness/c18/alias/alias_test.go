package alias

import (
	"math/big"
	"testing"
)

type inner struct {
	B []byte
	N *uint64
}

type outer struct {
	I   *inner
	L   []*inner
	M   map[string]*inner
	Any any
	Big *big.Int
	Arr [4]byte
	S   string
}

func mk() *outer {
	n := uint64(7)
	return &outer{
		I:   &inner{B: []byte{1, 2, 3}, N: &n},
		L:   []*inner{{B: []byte{4}}, {B: []byte{5, 6}}},
		M:   map[string]*inner{"k": {B: []byte{9}}},
		Any: inner{B: []byte{8, 8}},
		Big: big.NewInt(12345),
		Arr: [4]byte{1, 2, 3, 4},
		S:   "s",
	}
}

func TestDisjoint(t *testing.T) {
	a, b := mk(), mk()
	if sh := Overlap(a, b); len(sh) != 0 {
		t.Fatalf("unexpected overlap: %v", sh)
	}
	if Digest(a) != Digest(b) {
		t.Fatal("equal content, different digest")
	}
	var e1, e2 struct{ X []byte }
	e1.X, e2.X = []byte{}, make([]byte, 0)
	if sh := Overlap(&e1, &e2); len(sh) != 0 {
		t.Fatalf("empty slices must not overlap: %v", sh)
	}
}

func TestSharedShapes(t *testing.T) {
	a := mk()
	if sh := Overlap(a, a); len(sh) != 1 || !sh[0].IsRoot() {
		t.Fatalf("same pointer: %v", sh)
	}
	b := mk()
	b.L[1] = a.L[0] // nested pointer
	sh := Overlap(a, b)
	if len(sh) != 1 || sh[0].IsRoot() || PathClass(sh[0].A.Path) != "(root).L[*]" || PathClass(sh[0].B.Path) != "(root).L[*]" {
		t.Fatalf("nested pointer: %v", sh)
	}
	c := mk()
	c.I.B = a.I.B[1:] // sub-slice of the same backing array
	if sh := Overlap(a, c); len(sh) != 1 || sh[0].A.Kind != "slice" {
		t.Fatalf("sub-slice: %v", sh)
	}
	d := mk()
	d.M = a.M
	if sh := Overlap(a, d); len(sh) != 1 || sh[0].A.Kind != "map" {
		t.Fatalf("map: %v", sh)
	}
	e := mk()
	e.I.N = (*uint64)(nil)
	cp := *a.I // struct copy shares B's backing array and N
	e.Any = cp
	if sh := Overlap(a, e); len(sh) != 2 {
		t.Fatalf("boxed copy: %v", sh)
	}
	f := mk()
	f.Big = a.Big
	if sh := Overlap(a, f); len(sh) != 1 {
		t.Fatalf("big: %v", sh)
	}
	g := mk()
	*g.Big = *a.Big // copies the limb slice header: shared limbs behind an unexported field
	if sh := Overlap(a, g); len(sh) != 1 || sh[0].A.Kind != "slice" {
		t.Fatalf("big limbs: %v", sh)
	}
	// interior pointer
	type wrap struct{ P *[4]byte }
	w := wrap{P: &a.Arr}
	if sh := Overlap(a, w); len(sh) != 1 {
		t.Fatalf("interior pointer: %v", sh)
	}
}

func TestScribble(t *testing.T) {
	a, ref := mk(), mk()
	before := Digest(a)
	ra := Reach(a)
	if n := Scribble(a); n < 10 {
		t.Fatalf("scribbled only %d leaves", n)
	}
	if Digest(a) == before {
		t.Fatal("scribble did not change the content")
	}
	rb := Reach(a)
	if len(ra) != len(rb) {
		t.Fatalf("scribble changed the structure: %d vs %d ranges", len(ra), len(rb))
	}
	if a.I.B[0] == ref.I.B[0] || *a.I.N == *ref.I.N || a.L[1].B[1] == ref.L[1].B[1] || a.M["k"].B[0] == ref.M["k"].B[0] ||
		a.Any.(inner).B[0] == ref.Any.(inner).B[0] || a.Big.Cmp(ref.Big) == 0 || a.Arr == ref.Arr || a.S == ref.S {
		t.Fatalf("leaf not scribbled: %+v", a)
	}
	// scribbling a by-value copy reaches the shared memory
	b := mk()
	cp := *b
	Scribble(cp)
	if b.I.B[0] == ref.I.B[0] || b.Arr != ref.Arr {
		t.Fatal("by-value copy: pointed-to memory must change, inline memory must not")
	}
}

func TestDeepCopy(t *testing.T) {
	a := mk()
	a.L = append(a.L, a.I) // shared pointer inside the value stays shared inside the copy
	b, ok := DeepCopy(a).(*outer)
	if !ok {
		t.Fatal("type")
	}
	if sh := Overlap(a, b); len(sh) != 0 {
		t.Fatalf("copy overlaps: %v", sh)
	}
	if Digest(a) != Digest(b) || b.L[2] != b.I || b.Big.Cmp(a.Big) != 0 {
		t.Fatal("copy differs")
	}
	v := *a
	c, ok := DeepCopy(v).(outer)
	if !ok || len(Overlap(v, c)) != 0 || Digest(v) != Digest(c) {
		t.Fatal("by-value copy")
	}
}
