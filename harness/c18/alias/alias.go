// Package alias is a reflection-based reachable-memory isolation checker (DESIGN §4.4).
//
//	Reach(v)      every piece of *mutable* memory reachable from v: non-nil pointers (to non-zero-size
//	              types) as [ptr, ptr+size), slice backing arrays as [ptr, ptr+cap*elemsize), maps by
//	              identity — each with the field path that led there.
//	Overlap(a,b)  the memory shared between two values (address-range intersection, so interior
//	              pointers such as &stored.Field are caught), reduced to the outermost shared regions.
//	Scribble(v)   overwrite every leaf reachable from v the way a later owner of that copy could:
//	              flip integers/bytes/bools, replace strings, rewrite map values; pointers, slice
//	              lengths and the union discriminators (version / blinded) are kept so that the value
//	              stays structurally usable.
//	Digest(v)     deep content hash of everything reachable from v (representation-level content:
//	              used to compare two reads of the same kind, never an input with an output).
//
// Strings, funcs and channels are not followed (immutable / not data). Values boxed in an interface
// are immutable themselves (Go offers no way to write through an interface), only what they point
// to is followed. Zero-size ranges (empty slices with no capacity, pointers to zero-size types) are
// never reported: the runtime hands out one shared address for all of them. Unexported fields are
// followed (reflect.NewAt) so that e.g. big.Int limbs are seen.
package alias

import (
	"crypto/sha256"
	"encoding/binary"
	"encoding/hex"
	"fmt"
	"math/big"
	"reflect"
	"regexp"
	"sort"
	"strconv"
	"strings"
	"sync"
	"time"
	"unsafe"
)

// Range is one piece of reachable mutable memory.
type Range struct {
	Start, End uintptr
	Kind       string // "ptr", "slice", "map"
	Path       string // field path from the root (unchanged by dereference), e.g. (root).Deneb.Block.Body.Attestations[1].Data
	Type       string
	Len        int // slices: len (0 with cap>0 = spare capacity only), otherwise -1
	Depth      int
}

func (r Range) String() string {
	return fmt.Sprintf("%s %s %s [%#x,%#x)", r.Kind, r.Path, r.Type, r.Start, r.End)
}

// Shared is one region of memory reachable from both values.
type Shared struct {
	A, B Range
}

func (s Shared) String() string {
	return fmt.Sprintf("%s %s (%s)  <->  %s %s (%s)", s.A.Kind, s.A.Path, s.A.Type, s.B.Kind, s.B.Path, s.B.Type)
}

var (
	locationType = reflect.TypeOf((*time.Location)(nil))
	bigIntType   = reflect.TypeOf(big.Int{})

	ptrFreeMu    sync.Mutex
	ptrFreeCache = map[reflect.Type]bool{}
)

// pointerFree reports whether values of t contain no pointers, slices, maps, interfaces, strings…
// i.e. nothing to follow and nothing that could alias.
func pointerFree(t reflect.Type) bool {
	ptrFreeMu.Lock()
	v, ok := ptrFreeCache[t]
	ptrFreeMu.Unlock()
	if ok {
		return v
	}
	var res bool
	switch t.Kind() {
	case reflect.Bool, reflect.Int, reflect.Int8, reflect.Int16, reflect.Int32, reflect.Int64,
		reflect.Uint, reflect.Uint8, reflect.Uint16, reflect.Uint32, reflect.Uint64, reflect.Uintptr,
		reflect.Float32, reflect.Float64, reflect.Complex64, reflect.Complex128:
		res = true
	case reflect.Array:
		res = pointerFree(t.Elem())
	case reflect.Struct:
		res = true
		for i := 0; i < t.NumField(); i++ {
			if !pointerFree(t.Field(i).Type) {
				res = false
				break
			}
		}
	default:
		res = false
	}
	ptrFreeMu.Lock()
	ptrFreeCache[t] = res
	ptrFreeMu.Unlock()

	return res
}

func isIntKind(k reflect.Kind) bool {
	switch k {
	case reflect.Bool, reflect.Int, reflect.Int8, reflect.Int16, reflect.Int32, reflect.Int64,
		reflect.Uint, reflect.Uint8, reflect.Uint16, reflect.Uint32, reflect.Uint64, reflect.Uintptr:
		return true
	default:
		return false
	}
}

// addressable returns v itself if it can be addressed, otherwise an addressable copy (the copy
// shares everything v points to, which is all that matters for a non-addressable value).
func addressable(v reflect.Value) reflect.Value {
	if v.CanAddr() {
		return v
	}
	tmp := reflect.New(v.Type()).Elem()
	tmp.Set(v)

	return tmp
}

// field returns struct field i of the addressable struct v with the read-only flag of unexported
// fields removed.
func field(v reflect.Value, i int) reflect.Value {
	f := v.Field(i)
	if f.CanSet() {
		return f
	}

	return reflect.NewAt(f.Type(), unsafe.Pointer(f.UnsafeAddr())).Elem()
}

type visitKey struct {
	p uintptr
	t reflect.Type
	n int
}

type walker struct {
	out     []Range
	visited map[visitKey]bool
}

// Reach lists the mutable memory reachable from v.
func Reach(v any) []Range {
	w := &walker{visited: map[visitKey]bool{}}
	if v == nil {
		return nil
	}
	w.walk(reflect.ValueOf(v), "(root)", 0)

	return w.out
}

func (w *walker) walk(v reflect.Value, path string, depth int) {
	switch v.Kind() {
	case reflect.Pointer:
		if v.IsNil() || v.Type() == locationType {
			return
		}
		p := v.Pointer()
		size := v.Type().Elem().Size()
		if size > 0 {
			w.out = append(w.out, Range{Start: p, End: p + size, Kind: "ptr", Path: path, Type: v.Type().String(), Len: -1, Depth: depth})
		}
		k := visitKey{p, v.Type(), 0}
		if w.visited[k] {
			return
		}
		w.visited[k] = true
		if pointerFree(v.Type().Elem()) {
			return
		}
		w.walk(v.Elem(), path, depth+1)
	case reflect.Interface:
		if v.IsNil() {
			return
		}
		w.walk(v.Elem(), path+".("+v.Elem().Type().String()+")", depth)
	case reflect.Struct:
		if pointerFree(v.Type()) {
			return
		}
		v = addressable(v)
		t := v.Type()
		for i := 0; i < t.NumField(); i++ {
			if pointerFree(t.Field(i).Type) {
				continue
			}
			w.walk(field(v, i), path+"."+t.Field(i).Name, depth+1)
		}
	case reflect.Slice:
		if v.IsNil() {
			return
		}
		p := v.Pointer()
		es := v.Type().Elem().Size()
		if n := uintptr(v.Cap()) * es; n > 0 {
			w.out = append(w.out, Range{Start: p, End: p + n, Kind: "slice", Path: path, Type: v.Type().String(), Len: v.Len(), Depth: depth})
		}
		k := visitKey{p, v.Type(), v.Len()}
		if w.visited[k] {
			return
		}
		w.visited[k] = true
		if pointerFree(v.Type().Elem()) {
			return
		}
		for i := 0; i < v.Len(); i++ {
			w.walk(v.Index(i), path+"["+strconv.Itoa(i)+"]", depth+1)
		}
	case reflect.Array:
		if pointerFree(v.Type().Elem()) {
			return
		}
		v = addressable(v)
		for i := 0; i < v.Len(); i++ {
			w.walk(v.Index(i), path+"["+strconv.Itoa(i)+"]", depth+1)
		}
	case reflect.Map:
		if v.IsNil() {
			return
		}
		p := v.Pointer()
		w.out = append(w.out, Range{Start: p, End: p + 1, Kind: "map", Path: path, Type: v.Type().String(), Len: v.Len(), Depth: depth})
		k := visitKey{p, v.Type(), 0}
		if w.visited[k] {
			return
		}
		w.visited[k] = true
		keyFree, valFree := pointerFree(v.Type().Key()) || v.Type().Key().Kind() == reflect.String, pointerFree(v.Type().Elem())
		if keyFree && valFree {
			return
		}
		it := v.MapRange()
		for it.Next() {
			ks := keyString(it.Key())
			if !keyFree {
				w.walk(it.Key(), path+"{key "+ks+"}", depth+1)
			}
			if !valFree {
				w.walk(it.Value(), path+"["+ks+"]", depth+1)
			}
		}
	default:
		// scalars, strings (immutable), funcs, chans, unsafe pointers: nothing to report
	}
}

func keyString(k reflect.Value) string {
	s := fmt.Sprint(k.Interface())
	if len(s) > 14 {
		s = s[:14] + "…"
	}

	return strconv.Quote(s)
}

// Overlap returns the outermost regions of mutable memory reachable from both a and b.
func Overlap(a, b any) []Shared {
	return OverlapRanges(Reach(a), Reach(b))
}

// OverlapRanges is Overlap on precomputed reach sets.
func OverlapRanges(ra, rb []Range) []Shared {
	if len(ra) == 0 || len(rb) == 0 {
		return nil
	}
	type ev struct {
		r    Range
		side int
	}
	evs := make([]ev, 0, len(ra)+len(rb))
	for _, r := range ra {
		evs = append(evs, ev{r, 0})
	}
	for _, r := range rb {
		evs = append(evs, ev{r, 1})
	}
	sort.SliceStable(evs, func(i, j int) bool { return evs[i].r.Start < evs[j].r.Start })
	var active [2][]Range
	var all []Shared
	for _, e := range evs {
		for s := 0; s < 2; s++ { // drop ranges that ended
			kept := active[s][:0]
			for _, r := range active[s] {
				if r.End > e.r.Start {
					kept = append(kept, r)
				}
			}
			active[s] = kept
		}
		for _, o := range active[1-e.side] {
			if o.End > e.r.Start && e.r.End > o.Start {
				if e.side == 0 {
					all = append(all, Shared{A: e.r, B: o})
				} else {
					all = append(all, Shared{A: o, B: e.r})
				}
			}
		}
		active[e.side] = append(active[e.side], e.r)
	}
	if len(all) == 0 {
		return nil
	}
	// keep the outermost pairs only: a pair is implied when an already kept pair contains it on both sides
	sort.SliceStable(all, func(i, j int) bool {
		di, dj := all[i].A.Depth+all[i].B.Depth, all[j].A.Depth+all[j].B.Depth
		if di != dj {
			return di < dj
		}

		return all[i].A.Path+all[i].B.Path < all[j].A.Path+all[j].B.Path
	})
	var out []Shared
	for _, s := range all {
		implied := false
		for _, k := range out {
			if contains(k.A, s.A) && contains(k.B, s.B) {
				implied = true
				break
			}
		}
		if !implied {
			out = append(out, s)
		}
	}

	return out
}

// contains reports whether inner was reached through outer (paths do not change on dereference).
func contains(outer, inner Range) bool {
	if !strings.HasPrefix(inner.Path, outer.Path) {
		return false
	}
	rest := inner.Path[len(outer.Path):]

	return rest == "" || rest[0] == '.' || rest[0] == '[' || rest[0] == '{'
}

var idxRe = regexp.MustCompile(`\[[^\]]*\]|\{key [^}]*\}`)

// PathClass removes indices and map keys from a path: the class of a field path.
func PathClass(p string) string { return idxRe.ReplaceAllString(p, "[*]") }

// IsRoot reports whether the shared region is the value itself on both sides (the two values are,
// or directly wrap, the same pointer / map / slice).
func (s Shared) IsRoot() bool { return s.A.Depth == 0 && s.B.Depth == 0 }

// OnlySpareCapacity reports whether both sides are empty slices that merely share unused capacity.
func (s Shared) OnlySpareCapacity() bool {
	return s.A.Kind == "slice" && s.B.Kind == "slice" && s.A.Len == 0 && s.B.Len == 0
}

// ---- Scribble ---------------------------------------------------------------------------------

// keep reports fields/types Scribble must not touch so the value stays structurally usable: the
// discriminators of the versioned unions (a flipped version makes every accessor of the *owner's*
// copy fail, which tells nothing about aliasing).
func keep(name string, t reflect.Type) bool {
	if strings.HasSuffix(t.PkgPath(), "go-eth2-client/spec") && (t.Name() == "DataVersion" || t.Name() == "BuilderVersion") {
		return true
	}
	if name == "Blinded" && t.Kind() == reflect.Bool {
		return true
	}

	return false
}

type scribbler struct {
	visited map[visitKey]bool
	n       int
}

// Scribble overwrites every leaf reachable from v and returns the number of leaves changed.
func Scribble(v any) int {
	if v == nil {
		return 0
	}
	s := &scribbler{visited: map[visitKey]bool{}}
	s.walk(addressable(reflect.ValueOf(v)), "")

	return s.n
}

// walk scribbles the addressable value v in place.
func (s *scribbler) walk(v reflect.Value, name string) {
	if keep(name, v.Type()) {
		return
	}
	switch v.Kind() {
	case reflect.Bool:
		v.SetBool(!v.Bool())
		s.n++
	case reflect.Int, reflect.Int8, reflect.Int16, reflect.Int32, reflect.Int64:
		v.SetInt(v.Int() ^ 0x5a)
		s.n++
	case reflect.Uint, reflect.Uint8, reflect.Uint16, reflect.Uint32, reflect.Uint64, reflect.Uintptr:
		v.SetUint(v.Uint() ^ 0x5a)
		s.n++
	case reflect.Float32, reflect.Float64:
		v.SetFloat(v.Float() + 1)
		s.n++
	case reflect.String:
		v.SetString("scribbled:" + v.String())
		s.n++
	case reflect.Pointer:
		if v.IsNil() || v.Type() == locationType {
			return
		}
		k := visitKey{v.Pointer(), v.Type(), 0}
		if s.visited[k] {
			return
		}
		s.visited[k] = true
		if v.Type().Elem() == bigIntType {
			b, _ := v.Interface().(*big.Int)
			b.SetUint64(b.Uint64() ^ 0x5a5a) // in place when the limb slice has capacity, as an owner would
			s.n++

			return
		}
		s.walk(v.Elem(), "")
	case reflect.Interface:
		if v.IsNil() {
			return
		}
		tmp := addressable(v.Elem()) // boxed values are immutable: scribble a copy (and, through it, all it points to) …
		s.walk(tmp, "")
		if v.CanSet() {
			v.Set(tmp) // … and box the copy
		}
	case reflect.Struct:
		if v.Type() == bigIntType {
			return // only reached for embedded-by-value big.Int, not present in the workflow types
		}
		t := v.Type()
		for i := 0; i < t.NumField(); i++ {
			if !t.Field(i).IsExported() {
				continue // an owner outside the defining package cannot write these
			}
			s.walk(v.Field(i), t.Field(i).Name)
		}
	case reflect.Slice:
		if v.IsNil() || v.Len() == 0 {
			return
		}
		k := visitKey{v.Pointer(), v.Type(), v.Len()}
		if s.visited[k] {
			return
		}
		s.visited[k] = true
		if v.Type().Elem().Kind() == reflect.Uint8 {
			b := v.Bytes()
			for i := range b {
				b[i] ^= 0x5a
			}
			s.n += len(b)

			return
		}
		for i := 0; i < v.Len(); i++ {
			s.walk(v.Index(i), "")
		}
	case reflect.Array:
		if v.Type().Elem().Kind() == reflect.Uint8 && v.Len() > 0 {
			b := unsafe.Slice((*byte)(unsafe.Pointer(v.UnsafeAddr())), v.Len())
			for i := range b {
				b[i] ^= 0x5a
			}
			s.n += len(b)

			return
		}
		for i := 0; i < v.Len(); i++ {
			s.walk(v.Index(i), "")
		}
	case reflect.Map:
		if v.IsNil() {
			return
		}
		k := visitKey{v.Pointer(), v.Type(), 0}
		if s.visited[k] {
			return
		}
		s.visited[k] = true
		for _, key := range v.MapKeys() {
			tmp := addressable(v.MapIndex(key))
			s.walk(tmp, "")
			v.SetMapIndex(key, tmp)
		}
	default:
	}
}

// ---- Digest -----------------------------------------------------------------------------------

type digester struct {
	visited map[visitKey]int
	depth   int
}

// Digest returns a deep content hash of everything reachable from v (pointers are followed, maps are
// order independent, nil and empty slices are the same).
func Digest(v any) (res string) {
	defer func() {
		if r := recover(); r != nil {
			res = fmt.Sprintf("digest-panic:%v", r)
		}
	}()
	if v == nil {
		return "nil"
	}
	d := &digester{visited: map[visitKey]int{}}
	h := sha256.New()
	d.walk(reflect.ValueOf(v), h)

	return hex.EncodeToString(h.Sum(nil))[:24]
}

type hashWriter interface {
	Write(p []byte) (int, error)
}

func wr(h hashWriter, tag byte, x uint64) {
	var b [9]byte
	b[0] = tag
	binary.LittleEndian.PutUint64(b[1:], x)
	_, _ = h.Write(b[:])
}

func (d *digester) walk(v reflect.Value, h hashWriter) {
	d.depth++
	defer func() { d.depth-- }()
	if d.depth > 400 {
		wr(h, 'X', 0)
		return
	}
	switch v.Kind() {
	case reflect.Bool:
		if v.Bool() {
			wr(h, 'b', 1)
		} else {
			wr(h, 'b', 0)
		}
	case reflect.Int, reflect.Int8, reflect.Int16, reflect.Int32, reflect.Int64:
		wr(h, 'i', uint64(v.Int()))
	case reflect.Uint, reflect.Uint8, reflect.Uint16, reflect.Uint32, reflect.Uint64, reflect.Uintptr:
		wr(h, 'u', v.Uint())
	case reflect.Float32, reflect.Float64:
		wr(h, 'f', uint64(v.Float()*1e6))
	case reflect.String:
		wr(h, 's', uint64(v.Len()))
		_, _ = h.Write([]byte(v.String()))
	case reflect.Pointer:
		if v.IsNil() {
			wr(h, 'N', 0)
			return
		}
		if v.Type() == locationType {
			wr(h, 'L', 0)
			return
		}
		k := visitKey{v.Pointer(), v.Type(), 0}
		if id, ok := d.visited[k]; ok {
			wr(h, 'C', uint64(id))
			return
		}
		d.visited[k] = len(d.visited)
		wr(h, 'P', 0)
		d.walk(v.Elem(), h)
	case reflect.Interface:
		if v.IsNil() {
			wr(h, 'N', 1)
			return
		}
		wr(h, 'I', 0)
		_, _ = h.Write([]byte(v.Elem().Type().String()))
		d.walk(v.Elem(), h)
	case reflect.Struct:
		v = addressable(v)
		t := v.Type()
		wr(h, 'S', uint64(t.NumField()))
		for i := 0; i < t.NumField(); i++ {
			d.walk(field(v, i), h)
		}
	case reflect.Slice:
		wr(h, 'l', uint64(v.Len()))
		if v.Len() == 0 {
			return
		}
		if v.Type().Elem().Kind() == reflect.Uint8 {
			_, _ = h.Write(v.Bytes())
			return
		}
		for i := 0; i < v.Len(); i++ {
			d.walk(v.Index(i), h)
		}
	case reflect.Array:
		wr(h, 'a', uint64(v.Len()))
		if v.Type().Elem().Kind() == reflect.Uint8 && v.Len() > 0 {
			v = addressable(v)
			_, _ = h.Write(unsafe.Slice((*byte)(unsafe.Pointer(v.UnsafeAddr())), v.Len()))
			return
		}
		for i := 0; i < v.Len(); i++ {
			d.walk(v.Index(i), h)
		}
	case reflect.Map:
		wr(h, 'm', uint64(v.Len()))
		if v.IsNil() || v.Len() == 0 {
			return
		}
		var entries []string
		it := v.MapRange()
		for it.Next() {
			// every entry is hashed on its own (own back-reference numbering) so that the result does
			// not depend on the iteration order
			eh := sha256.New()
			ed := &digester{visited: map[visitKey]int{}, depth: d.depth}
			ed.walk(it.Key(), eh)
			ed.walk(it.Value(), eh)
			entries = append(entries, string(eh.Sum(nil)))
		}
		sort.Strings(entries)
		for _, e := range entries {
			_, _ = h.Write([]byte(e))
		}
	default:
		wr(h, '?', uint64(v.Kind()))
	}
}

// ---- DeepCopy ---------------------------------------------------------------------------------

type copier struct {
	ptrs map[visitKey]reflect.Value
}

// DeepCopy returns a copy of v that shares no mutable memory with v (independent of any Clone
// method of the value: the harness uses it to hand "the same value again" to a component).
func DeepCopy(v any) any {
	if v == nil {
		return nil
	}
	c := &copier{ptrs: map[visitKey]reflect.Value{}}
	src := reflect.ValueOf(v)
	dst := reflect.New(src.Type()).Elem()
	c.copy(dst, src)

	return dst.Interface()
}

// copy fills the settable dst with a deep copy of src.
func (c *copier) copy(dst, src reflect.Value) {
	switch src.Kind() {
	case reflect.Pointer:
		if src.IsNil() {
			return
		}
		if src.Type() == locationType {
			dst.Set(src)
			return
		}
		k := visitKey{src.Pointer(), src.Type(), 0}
		if n, ok := c.ptrs[k]; ok {
			dst.Set(n)
			return
		}
		n := reflect.New(src.Type().Elem())
		c.ptrs[k] = n
		c.copy(n.Elem(), src.Elem())
		dst.Set(n)
	case reflect.Interface:
		if src.IsNil() {
			return
		}
		e := src.Elem()
		n := reflect.New(e.Type()).Elem()
		c.copy(n, e)
		dst.Set(n)
	case reflect.Struct:
		if pointerFree(src.Type()) {
			dst.Set(src)
			return
		}
		src = addressable(src)
		for i := 0; i < src.NumField(); i++ {
			c.copy(field(dst, i), field(src, i))
		}
	case reflect.Slice:
		if src.IsNil() {
			return
		}
		n := reflect.MakeSlice(src.Type(), src.Len(), src.Len())
		if pointerFree(src.Type().Elem()) {
			reflect.Copy(n, src)
		} else {
			for i := 0; i < src.Len(); i++ {
				c.copy(n.Index(i), src.Index(i))
			}
		}
		dst.Set(n)
	case reflect.Array:
		if pointerFree(src.Type().Elem()) {
			dst.Set(src)
			return
		}
		for i := 0; i < src.Len(); i++ {
			c.copy(dst.Index(i), src.Index(i))
		}
	case reflect.Map:
		if src.IsNil() {
			return
		}
		n := reflect.MakeMapWithSize(src.Type(), src.Len())
		it := src.MapRange()
		for it.Next() {
			kc := reflect.New(src.Type().Key()).Elem()
			c.copy(kc, it.Key())
			vc := reflect.New(src.Type().Elem()).Elem()
			c.copy(vc, it.Value())
			n.SetMapIndex(kc, vc)
		}
		dst.Set(n)
	default:
		dst.Set(src)
	}
}
