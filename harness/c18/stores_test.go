package c18

import (
	"context"
	"fmt"
	"time"

	eth2spec "github.com/attestantio/go-eth2-client/spec"
	eth2p0 "github.com/attestantio/go-eth2-client/spec/phase0"

	"github.com/obolnetwork/charon/core"
	"github.com/obolnetwork/charon/core/aggsigdb"
	"github.com/obolnetwork/charon/core/dutydb"
)

// ---- DutyDB: Store → AwaitAttestation / AwaitProposal / AwaitAggAttestation / AwaitSyncContribution / PubKeyByAttestation

func dutydbSpecs() []spec {
	var out []spec
	for _, k := range unsignedKinds {
		k := k
		vers := k.Versions
		if len(vers) == 0 {
			vers = []eth2spec.DataVersion{0}
		}
		for _, ver := range vers {
			ver := ver
			lbl := label(k.Name, k.Versions, ver)
			switch k.Duty {
			case core.DutyAttester:
				out = append(out,
					spec{Comp: "dutydb", Op: "await-attestation", Label: lbl, run: func(pc *probe) { dutydbAttestation(pc, k, ver, "await") }},
					spec{Comp: "dutydb", Op: "await-attestation-commidx0", Label: lbl, run: func(pc *probe) { dutydbAttestation(pc, k, ver, "await0") }},
					spec{Comp: "dutydb", Op: "pubkey-by-attestation", Label: lbl, run: func(pc *probe) { dutydbAttestation(pc, k, ver, "pubkey") }},
				)
			case core.DutyProposer:
				out = append(out, spec{Comp: "dutydb", Op: "await-proposal", Label: lbl, run: func(pc *probe) { dutydbProposal(pc, k, ver) }})
			case core.DutyAggregator:
				out = append(out, spec{Comp: "dutydb", Op: "await-agg-attestation", Label: lbl, run: func(pc *probe) { dutydbAggAtt(pc, k, ver) }})
			case core.DutySyncContribution:
				out = append(out, spec{Comp: "dutydb", Op: "await-sync-contribution", Label: lbl, run: func(pc *probe) { dutydbContrib(pc, k, ver) }})
			}
		}
	}

	return out
}

func dutydbAttestation(pc *probe, k unsignedKind, ver eth2spec.DataVersion, mode string) {
	// two validators of one committee share the attestation data (the usual case)
	base, _ := k.gen(pc.t(), pc.seed, ver).(core.AttestationData)
	second, _ := pc.fresh(base).(core.AttestationData)
	second.Duty.ValidatorIndex = base.Duty.ValidatorIndex + 1
	pkA, pkB := pubkey(pc.seed), pubkey(pc.seed+1)
	orig := core.UnsignedDataSet{pkA: base, pkB: second}
	slot, commIdx := uint64(base.Data.Slot), uint64(base.Duty.CommitteeIndex)
	duty := core.NewAttesterDuty(slot)

	pc.runStore(orig, func() storeOps {
		dl := newDeadliner()
		db := dutydb.NewMemDB(dl)
		ops := storeOps{
			store: func(ctx context.Context, in any) error {
				set, _ := in.(core.UnsignedDataSet)
				return db.Store(ctx, duty, set)
			},
			close: db.Shutdown,
			dl:    dl,
		}
		switch mode {
		case "await":
			ops.read = func(ctx context.Context) (any, error) { return db.AwaitAttestation(ctx, slot, commIdx) }
			ops.expect = &base.Data
		case "await0":
			ops.read = func(ctx context.Context) (any, error) { return db.AwaitAttestation(ctx, slot, 0) }
			ops.expect = &base.Data
		default:
			ops.read = func(ctx context.Context) (any, error) {
				return db.PubKeyByAttestation(ctx, slot, commIdx, uint64(second.Duty.ValidatorIndex))
			}
			ops.expect = pkB
			ops.noWaiters = true // PubKeyByAttestation does not block: only query after a store
		}

		return ops
	})
}

func dutydbProposal(pc *probe, k unsignedKind, ver eth2spec.DataVersion) {
	prop, _ := k.gen(pc.t(), pc.seed, ver).(core.VersionedProposal)
	slot, err := prop.Slot()
	if err != nil {
		pc.inconclusive("generated proposal has no slot: %v", err)
		return
	}
	orig := core.UnsignedDataSet{pubkey(pc.seed): prop}
	duty := core.NewProposerDuty(uint64(slot))
	pc.runStore(orig, func() storeOps {
		dl := newDeadliner()
		db := dutydb.NewMemDB(dl)
		return storeOps{
			store: func(ctx context.Context, in any) error {
				set, _ := in.(core.UnsignedDataSet)
				return db.Store(ctx, duty, set)
			},
			read:   func(ctx context.Context) (any, error) { return db.AwaitProposal(ctx, uint64(slot)) },
			expect: &prop.VersionedProposal,
			close:  db.Shutdown,
			dl:     dl,
		}
	})
}

func dutydbAggAtt(pc *probe, k unsignedKind, ver eth2spec.DataVersion) {
	agg, _ := k.gen(pc.t(), pc.seed, ver).(core.VersionedAggregatedAttestation)
	data, err := agg.Data()
	if err != nil {
		pc.inconclusive("generated aggregate has no data: %v", err)
		return
	}
	root, err := data.HashTreeRoot()
	if err != nil {
		pc.inconclusive("generated aggregate data root: %v", err)
		return
	}
	commIdx, err := agg.CommitteeIndex()
	if err != nil {
		pc.inconclusive("generated aggregate committee index: %v", err)
		return
	}
	slot := uint64(data.Slot)
	orig := core.UnsignedDataSet{pubkey(pc.seed): agg}
	duty := core.NewAggregatorDuty(slot)
	pc.runStore(orig, func() storeOps {
		dl := newDeadliner()
		db := dutydb.NewMemDB(dl)
		return storeOps{
			store: func(ctx context.Context, in any) error {
				set, _ := in.(core.UnsignedDataSet)
				return db.Store(ctx, duty, set)
			},
			read: func(ctx context.Context) (any, error) {
				return db.AwaitAggAttestation(ctx, slot, eth2p0.Root(root), commIdx)
			},
			expect: &agg.VersionedAttestation,
			close:  db.Shutdown,
			dl:     dl,
		}
	})
}

func dutydbContrib(pc *probe, k unsignedKind, ver eth2spec.DataVersion) {
	val := k.gen(pc.t(), pc.seed, ver)
	var target core.SyncContribution
	switch v := val.(type) {
	case core.SyncContribution:
		target = v
	case core.SyncContributions:
		target = v[pc.rng.Intn(len(v))]
	default:
		pc.inconclusive("unexpected sync contribution type %T", val)
		return
	}
	orig := core.UnsignedDataSet{pubkey(pc.seed): val}
	// the duty slot is only the deadline key; entries are keyed by their own slot
	duty := core.NewSyncContributionDuty(uint64(target.Slot))
	pc.runStore(orig, func() storeOps {
		dl := newDeadliner()
		db := dutydb.NewMemDB(dl)
		return storeOps{
			store: func(ctx context.Context, in any) error {
				set, _ := in.(core.UnsignedDataSet)
				return db.Store(ctx, duty, set)
			},
			read: func(ctx context.Context) (any, error) {
				return db.AwaitSyncContribution(ctx, uint64(target.Slot), target.SubcommitteeIndex, target.BeaconBlockRoot)
			},
			expect: &target.SyncCommitteeContribution,
			close:  db.Shutdown,
			dl:     dl,
		}
	})
}

// ---- AggSigDB (both implementations): Store → Await -------------------------------------------------

func aggsigdbSpecs() []spec {
	var out []spec
	for _, impl := range []string{"aggsigdb.MemDB", "aggsigdb.MemDBV2"} {
		impl := impl
		for _, k := range signedKinds {
			k := k
			vers := k.Versions
			if len(vers) == 0 {
				vers = []eth2spec.DataVersion{0}
			}
			for _, ver := range vers {
				ver := ver
				out = append(out, spec{Comp: impl, Op: "await", Label: label(k.Name, k.Versions, ver), run: func(pc *probe) { aggsigdbProbe(pc, impl, k, ver) }})
			}
		}
	}

	return out
}

func aggsigdbProbe(pc *probe, impl string, k signedKind, ver eth2spec.DataVersion) {
	sd := k.gen(pc.t(), pc.seed, ver)
	other := k.gen(pc.t(), pc.seed+1, ver) // a second validator in the same set
	pkA, pkB := pubkey(pc.seed), pubkey(pc.seed+1)
	orig := core.SignedDataSet{pkA: sd, pkB: other}
	duty := core.Duty{Slot: uint64(pc.seed % 100000), Type: k.Duty}
	subcomm, err := core.SyncSubcommitteeIndex(duty.Type, sd)
	if err != nil {
		pc.inconclusive("subcommittee index of generated value: %v", err)
		return
	}
	pc.runStore(orig, func() storeOps {
		ctx, cancel := context.WithCancel(context.Background())
		var db core.AggSigDB
		dl := newDeadliner()
		if impl == "aggsigdb.MemDB" {
			db = aggsigdb.NewMemDB(dl)
		} else {
			db = aggsigdb.NewMemDBV2(dl)
		}
		done := make(chan struct{})
		go func() {
			defer close(done)
			defer func() {
				if p := recover(); p != nil {
					pc.anomaly("panic", fmt.Sprintf("%s.Run panicked: %v", impl, p))
				}
			}()
			db.Run(ctx)
		}()
		// a value under another key, stored up front: the sentinel query of the blocked-readers phase
		sentinelDuty, pkS := core.Duty{Slot: duty.Slot + 1, Type: core.DutySignature}, pubkey(pc.seed+2)
		if err := db.Store(ctx, sentinelDuty, core.SignedDataSet{pkS: make(core.Signature, 96)}); err != nil {
			pc.inconclusive("sentinel store: %v", err)
			cancel()
			<-done

			return storeOps{}
		}

		return storeOps{
			dl: dl,
			store: func(ctx context.Context, in any) error {
				set, _ := in.(core.SignedDataSet)
				return db.Store(ctx, duty, set)
			},
			read:   func(ctx context.Context) (any, error) { return db.Await(ctx, duty, pkA, subcomm) },
			expect: sd,
			sentinel: func(ctx context.Context) error {
				_, err := db.Await(ctx, sentinelDuty, pkS, 0)
				return err
			},
			close: func() {
				cancel()
				select {
				case <-done:
				case <-time.After(watchdog):
				}
			},
		}
	})
}
