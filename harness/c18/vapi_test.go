package c18

import (
	"context"
	"fmt"
	"reflect"
	"sync"

	"github.com/OffchainLabs/go-bitfield"
	eth2api "github.com/attestantio/go-eth2-client/api"
	eth2v1 "github.com/attestantio/go-eth2-client/api/v1"
	eth2spec "github.com/attestantio/go-eth2-client/spec"
	"github.com/attestantio/go-eth2-client/spec/altair"
	eth2p0 "github.com/attestantio/go-eth2-client/spec/phase0"

	"github.com/obolnetwork/charon/core"
	"github.com/obolnetwork/charon/core/dutydb"
	"github.com/obolnetwork/charon/core/validatorapi"
	"github.com/obolnetwork/charon/testutil/beaconmock"

	"verifharness/c18/alias"
)

const shareIdx = 2

func vapiSpecs() []spec {
	var out []spec
	add := func(op, lbl string, run func(pc *probe)) {
		out = append(out, spec{Comp: "validatorapi", Op: op, Label: lbl, run: run})
	}
	// Subscribe fan-out
	for _, k := range signedKinds {
		k := k
		switch k.Name {
		case "VersionedAttestation":
			for _, ver := range k.Versions {
				ver := ver
				add("submit-attestations->subscribers", label(k.Name, k.Versions, ver), func(pc *probe) { vapiSubmitAttestation(pc, k, ver) })
			}
		case "VersionedSignedAggregateAndProof":
			for _, ver := range k.Versions {
				ver := ver
				add("submit-aggregate-attestations->subscribers", label(k.Name, k.Versions, ver), func(pc *probe) { vapiSubmitAggregate(pc, k, ver) })
			}
		case "SignedVoluntaryExit":
			add("submit-voluntary-exit->subscribers", k.Name, func(pc *probe) { vapiSubmitExit(pc, k) })
		case "SignedSyncMessage":
			add("submit-sync-committee-messages->subscribers", k.Name, func(pc *probe) { vapiSubmitSyncMessage(pc, k) })
		case "SignedSyncContributionAndProof":
			add("submit-sync-committee-contributions->subscribers", k.Name, func(pc *probe) { vapiSubmitContribution(pc, k) })
		}
	}
	// readers that serve (and post-process) DutyDB results
	for _, k := range unsignedKinds {
		k := k
		vers := k.Versions
		if len(vers) == 0 {
			vers = []eth2spec.DataVersion{0}
		}
		for _, ver := range vers {
			ver := ver
			lbl := label(k.Name, k.Versions, ver)
			switch k.Duty {
			case core.DutyAttester:
				add("attestation-data(dutydb)", lbl, func(pc *probe) { vapiReadAttestation(pc, k, ver) })
			case core.DutyProposer:
				add("proposal(dutydb)", lbl, func(pc *probe) { vapiReadProposal(pc, k, ver) })
			case core.DutyAggregator:
				add("aggregate-attestation(dutydb)", lbl, func(pc *probe) { vapiReadAggregate(pc, k, ver) })
			case core.DutySyncContribution:
				add("sync-committee-contribution(dutydb)", lbl, func(pc *probe) { vapiReadContribution(pc, k, ver) })
			}
		}
	}

	return out
}

func validatorPK(idx eth2p0.ValidatorIndex) core.PubKey {
	return core.PubKeyFrom48Bytes(beaconmock.ValidatorSetA[idx].Validator.PublicKey)
}

// newVAPI returns an insecure (no signature verification) component over the shared beacon mock.
func newVAPI(pc *probe) (*validatorapi.Component, bool) {
	bm, err := sharedMock()
	if err != nil {
		pc.inconclusive("beacon mock: %v", err)
		return nil, false
	}
	v, err := validatorapi.NewComponentInsecure(pc.t(), bm, shareIdx)
	if err != nil {
		pc.inconclusive("validatorapi: %v", err)
		return nil, false
	}

	return v, true
}

// runSubmit drives a VAPI submit endpoint: orig is the request object (caller's input), want the
// partial-signature set the subscribers must see.
func (pc *probe) runSubmit(orig any, want string, setup func(v *validatorapi.Component), submit func(ctx context.Context, v *validatorapi.Component, in any) error) {
	ctx, cancel := context.WithTimeout(context.Background(), watchdog)
	defer cancel()
	expect := func(*delivery) string { return want }
	pc.hashParts = append(pc.hashParts, alias.Digest(orig))
	mk := func(concurrent bool) (*validatorapi.Component, *fan, bool) {
		v, ok := newVAPI(pc)
		if !ok {
			return nil, nil, false
		}
		if setup != nil {
			setup(v)
		}
		f := &fan{pc: pc, name: "validatorapi fan-out", mutator: pc.rng.Intn(pc.nsubs), concurrent: concurrent}
		for s := 0; s < pc.nsubs; s++ {
			s := s
			v.Subscribe(func(_ context.Context, _ core.Duty, set core.ParSignedDataSet) error {
				f.recv(s, set)
				return nil
			})
		}

		return v, f, true
	}
	v, f, ok := mk(false)
	if !ok {
		return
	}
	inputs := map[string][]alias.Range{}
	for round := 1; round <= 2; round++ {
		in := pc.fresh(orig)
		if err := pc.call("submit", func() error { return submit(ctx, v, in) }); err != nil {
			if round == 1 {
				pc.inconclusive("submit of generated request failed: %v", err)
				return
			}
			pc.anomaly("restore-rejected", fmt.Sprintf("second submit failed: %v", err))
		}
		inputs[fmt.Sprintf("caller's request (call %d)", round)] = pc.reach(in)
		if n := len(f.snapshot()); n != pc.nsubs*round {
			pc.inconclusive("validatorapi subscribers got %d deliveries after call %d", n, round)
			return
		}
		pc.checkFan(f, f.snapshot(), inputs, expect, fmt.Sprintf("after submit call %d returned", round))
		pc.scribble(in)
		pc.checkFan(f, f.snapshot(), inputs, expect, fmt.Sprintf("after the caller scribbled the request of call %d", round))
		pc.phases++
	}
	if pc.aliasingEstablished() {
		return
	}
	v, f, ok = mk(true)
	if !ok {
		return
	}
	g := 4 + pc.rng.Intn(5)
	pc.hashParts = append(pc.hashParts, g)
	cins := make([]any, g)
	for i := range cins {
		cins[i] = pc.fresh(orig)
	}
	var (
		wg    sync.WaitGroup
		start = make(chan struct{})
		emu   sync.Mutex
		errs  []string
	)
	for i := 0; i < g; i++ {
		wg.Add(1)
		go func(i int) {
			defer wg.Done()
			<-start
			if err := pc.call("submit", func() error { return submit(ctx, v, cins[i]) }); err != nil {
				emu.Lock()
				errs = append(errs, fmt.Sprintf("goroutine %d: %v", i, err))
				emu.Unlock()
			}
			alias.Scribble(cins[i])
		}(i)
	}
	close(start)
	wg.Wait()
	pc.r.Count("concurrent_probes", 1)
	pc.r.Count("concurrent_goroutines", int64(g))
	for _, e := range errs {
		pc.anomaly("concurrent-op-failed", e)
	}
	cinputs := map[string][]alias.Range{}
	for i := range cins {
		cinputs[fmt.Sprintf("request of goroutine %d", i)] = pc.reach(cins[i])
	}
	dels := f.snapshot()
	if len(dels) != pc.nsubs*g && len(errs) == 0 {
		pc.inconclusive("validatorapi subscribers got %d deliveries from %d concurrent submits", len(dels), g)
	}
	pc.checkFan(f, dels, cinputs, expect, "after the concurrent phase")
	pc.phases++
}

func vapiSubmitAttestation(pc *probe, k signedKind, ver eth2spec.DataVersion) {
	att, _ := k.gen(pc.t(), pc.seed, ver).(core.VersionedAttestation)
	pk := pubkey(pc.seed)
	// exactly one aggregation bit (pre-electra the validator is found through it) and one committee bit
	const valCommIdx = 3
	bits := bitfield.NewBitlist(8)
	bits.SetBitAt(valCommIdx, true)
	one := bitfield.NewBitvector64()
	one.SetBitAt(5, true)
	inner := reflect.ValueOf(&att.VersionedAttestation).Elem().FieldByName(forkField(ver))
	if !inner.IsValid() || inner.IsNil() {
		pc.inconclusive("generated attestation has no %s payload", ver)
		return
	}
	inner.Elem().FieldByName("AggregationBits").Set(reflect.ValueOf(bits))
	if cb := inner.Elem().FieldByName("CommitteeBits"); cb.IsValid() {
		cb.Set(reflect.ValueOf(one))
	}
	data, err := att.VersionedAttestation.Data()
	if err != nil {
		pc.inconclusive("attestation data: %v", err)
		return
	}
	orig := &eth2api.SubmitAttestationsOpts{Attestations: []*eth2spec.VersionedAttestation{&att.VersionedAttestation}}
	ref, _ := alias.DeepCopy(&att.VersionedAttestation).(*eth2spec.VersionedAttestation)
	psd, err := core.NewPartialVersionedAttestation(ref, shareIdx)
	if err != nil {
		pc.inconclusive("NewPartialVersionedAttestation: %v", err)
		return
	}
	want := fp(core.ParSignedDataSet{pk: psd})
	defSet := core.DutyDefinitionSet{pk: core.NewAttesterDefinition(&eth2v1.AttesterDuty{
		Slot: data.Slot, ValidatorIndex: 77, CommitteeIndex: data.Index, ValidatorCommitteeIndex: valCommIdx, CommitteeLength: 8,
	})}
	pc.runSubmit(orig, want, func(v *validatorapi.Component) {
		v.RegisterGetDutyDefinition(func(context.Context, core.Duty) (core.DutyDefinitionSet, error) {
			cp, _ := alias.DeepCopy(defSet).(core.DutyDefinitionSet)
			return cp, nil
		})
		v.RegisterPubKeyByAttestation(func(context.Context, uint64, uint64, uint64) (core.PubKey, error) { return pk, nil })
	}, func(ctx context.Context, v *validatorapi.Component, in any) error {
		opts, _ := in.(*eth2api.SubmitAttestationsOpts)
		return v.SubmitAttestations(ctx, opts)
	})
}

func forkField(ver eth2spec.DataVersion) string {
	s := ver.String()
	if s == "" {
		return ""
	}

	return string(s[0]-'a'+'A') + s[1:]
}

func vapiSubmitAggregate(pc *probe, k signedKind, ver eth2spec.DataVersion) {
	agg, _ := k.gen(pc.t(), pc.seed, ver).(core.VersionedSignedAggregateAndProof)
	const idx = eth2p0.ValidatorIndex(2)
	inner := reflect.ValueOf(&agg.VersionedSignedAggregateAndProof).Elem().FieldByName(forkField(ver))
	if !inner.IsValid() || inner.IsNil() {
		pc.inconclusive("generated aggregate-and-proof has no %s payload", ver)
		return
	}
	inner.Elem().FieldByName("Message").Elem().FieldByName("AggregatorIndex").SetUint(uint64(idx))
	orig := &eth2api.SubmitAggregateAttestationsOpts{SignedAggregateAndProofs: []*eth2spec.VersionedSignedAggregateAndProof{&agg.VersionedSignedAggregateAndProof}}
	ref, _ := alias.DeepCopy(&agg.VersionedSignedAggregateAndProof).(*eth2spec.VersionedSignedAggregateAndProof)
	want := fp(core.ParSignedDataSet{validatorPK(idx): core.NewPartialVersionedSignedAggregateAndProof(ref, shareIdx)})
	pc.runSubmit(orig, want, nil, func(ctx context.Context, v *validatorapi.Component, in any) error {
		opts, _ := in.(*eth2api.SubmitAggregateAttestationsOpts)
		return v.SubmitAggregateAttestations(ctx, opts)
	})
}

func vapiSubmitExit(pc *probe, k signedKind) {
	exit, _ := k.gen(pc.t(), pc.seed, 0).(core.SignedVoluntaryExit)
	const idx = eth2p0.ValidatorIndex(3)
	exit.Message.ValidatorIndex = idx
	exit.Message.Epoch %= 1 << 40
	orig := &exit.SignedVoluntaryExit
	ref, _ := alias.DeepCopy(orig).(*eth2p0.SignedVoluntaryExit)
	want := fp(core.ParSignedDataSet{validatorPK(idx): core.NewPartialSignedVoluntaryExit(ref, shareIdx)})
	pc.runSubmit(orig, want, nil, func(ctx context.Context, v *validatorapi.Component, in any) error {
		e, _ := in.(*eth2p0.SignedVoluntaryExit)
		return v.SubmitVoluntaryExit(ctx, e)
	})
}

func vapiSubmitSyncMessage(pc *probe, k signedKind) {
	msg, _ := k.gen(pc.t(), pc.seed, 0).(core.SignedSyncMessage)
	const idx = eth2p0.ValidatorIndex(1)
	msg.ValidatorIndex = idx
	orig := []*altair.SyncCommitteeMessage{&msg.SyncCommitteeMessage}
	ref, _ := alias.DeepCopy(&msg.SyncCommitteeMessage).(*altair.SyncCommitteeMessage)
	want := fp(core.ParSignedDataSet{validatorPK(idx): core.NewPartialSignedSyncMessage(ref, shareIdx)})
	pc.runSubmit(orig, want, nil, func(ctx context.Context, v *validatorapi.Component, in any) error {
		msgs, _ := in.([]*altair.SyncCommitteeMessage)
		return v.SubmitSyncCommitteeMessages(ctx, msgs)
	})
}

func vapiSubmitContribution(pc *probe, k signedKind) {
	c, _ := k.gen(pc.t(), pc.seed, 0).(core.SignedSyncContributionAndProof)
	const idx = eth2p0.ValidatorIndex(2)
	c.Message.AggregatorIndex = idx
	orig := []*altair.SignedContributionAndProof{&c.SignedContributionAndProof}
	ref, _ := alias.DeepCopy(&c.SignedContributionAndProof).(*altair.SignedContributionAndProof)
	want := fp(core.ParSignedDataSet{validatorPK(idx): core.NewPartialSignedSyncContributionAndProof(ref, shareIdx)})
	pc.runSubmit(orig, want, nil, func(ctx context.Context, v *validatorapi.Component, in any) error {
		cs, _ := in.([]*altair.SignedContributionAndProof)
		return v.SubmitSyncCommitteeContributions(ctx, cs)
	})
}

// ---- VAPI readers over a real DutyDB ---------------------------------------------------------------

// vapiOverDutyDB wires a fresh insecure VAPI to a fresh DutyDB the way core.Wire does.
func vapiOverDutyDB(pc *probe) (*validatorapi.Component, *dutydb.MemDB, bool) {
	v, ok := newVAPI(pc)
	if !ok {
		return nil, nil, false
	}
	db := dutydb.NewMemDB(newDeadliner())
	v.RegisterAwaitProposal(db.AwaitProposal)
	v.RegisterAwaitAttestation(db.AwaitAttestation)
	v.RegisterAwaitSyncContribution(db.AwaitSyncContribution)
	v.RegisterPubKeyByAttestation(db.PubKeyByAttestation)
	v.RegisterAwaitAggAttestation(db.AwaitAggAttestation)

	return v, db, true
}

func vapiReadAttestation(pc *probe, k unsignedKind, ver eth2spec.DataVersion) {
	base, _ := k.gen(pc.t(), pc.seed, ver).(core.AttestationData)
	orig := core.UnsignedDataSet{pubkey(pc.seed): base}
	slot := uint64(base.Data.Slot)
	duty := core.NewAttesterDuty(slot)
	pc.runStore(orig, func() storeOps {
		v, db, ok := vapiOverDutyDB(pc)
		if !ok {
			return storeOps{}
		}
		return storeOps{
			store: func(ctx context.Context, in any) error {
				set, _ := in.(core.UnsignedDataSet)
				return db.Store(ctx, duty, set)
			},
			read: func(ctx context.Context) (any, error) {
				resp, err := v.AttestationData(ctx, &eth2api.AttestationDataOpts{Slot: base.Data.Slot, CommitteeIndex: base.Duty.CommitteeIndex})
				if err != nil {
					return nil, err
				}
				return resp.Data, nil
			},
			expect: &base.Data,
			close:  db.Shutdown,
		}
	})
}

func vapiReadProposal(pc *probe, k unsignedKind, ver eth2spec.DataVersion) {
	prop, _ := k.gen(pc.t(), pc.seed, ver).(core.VersionedProposal)
	s, err := prop.Slot()
	if err != nil {
		pc.inconclusive("proposal slot: %v", err)
		return
	}
	// keep the slot small: the VAPI derives the randao epoch from it
	pk := pubkey(pc.seed)
	orig := core.UnsignedDataSet{pk: prop}
	duty := core.NewProposerDuty(uint64(s))
	var randao eth2p0.BLSSignature
	fuzzInto(pc.t(), pc.seed+9, &randao)
	getDef := func(context.Context, core.Duty) (core.DutyDefinitionSet, error) {
		return core.DutyDefinitionSet{pk: core.NewProposerDefinition(&eth2v1.ProposerDuty{Slot: s, ValidatorIndex: 1})}, nil
	}
	// Does serving one VC request change what the DutyDB gives the next reader? (Proposal fills
	// ConsensusValue/ExecutionValue into the object it got from the store.)
	func() {
		ctx, cancel := context.WithTimeout(context.Background(), watchdog)
		defer cancel()
		v, db, ok := vapiOverDutyDB(pc)
		if !ok {
			return
		}
		defer db.Shutdown()
		v.RegisterGetDutyDefinition(getDef)
		in, _ := pc.fresh(orig).(core.UnsignedDataSet)
		if err := db.Store(ctx, duty, in); err != nil {
			pc.inconclusive("store of a generated proposal failed: %v", err)
			return
		}
		before, err := db.AwaitProposal(ctx, uint64(s))
		if err != nil {
			pc.inconclusive("AwaitProposal: %v", err)
			return
		}
		d0 := alias.Digest(before)
		pc.reach(before)
		if _, err := v.Proposal(ctx, &eth2api.ProposalOpts{Slot: s, RandaoReveal: randao}); err != nil {
			pc.inconclusive("validatorapi.Proposal: %v", err)
			return
		}
		pc.r.Count("digest_checks", 1)
		if d1 := alias.Digest(before); d1 != d0 {
			pc.mu.Lock()
			pc.findings = append(pc.findings, finding{
				Rule: "post-processing-writes-into-value-held-by-another-reader", Class: "consensus-and-execution-value",
				Where:  "a DutyDB reader's earlier AwaitProposal result <-> validatorapi.Proposal serving another request",
				Shared: []string{fmt.Sprintf("deep digest of the earlier reader's proposal changed from %s to %s while validatorapi.Proposal ran", d0, d1)},
			})
			pc.mu.Unlock()
		}
	}()
	pc.runStore(orig, func() storeOps {
		v, db, ok := vapiOverDutyDB(pc)
		if !ok {
			return storeOps{}
		}
		v.RegisterGetDutyDefinition(getDef)
		v.Subscribe(func(context.Context, core.Duty, core.ParSignedDataSet) error { return nil })

		return storeOps{
			store: func(ctx context.Context, in any) error {
				set, _ := in.(core.UnsignedDataSet)
				return db.Store(ctx, duty, set)
			},
			read: func(ctx context.Context) (any, error) {
				resp, err := v.Proposal(ctx, &eth2api.ProposalOpts{Slot: s, RandaoReveal: randao})
				if err != nil {
					return nil, err
				}
				return resp.Data, nil
			},
			expect: &prop.VersionedProposal,
			close:  db.Shutdown,
		}
	})
}

func vapiReadAggregate(pc *probe, k unsignedKind, ver eth2spec.DataVersion) {
	agg, _ := k.gen(pc.t(), pc.seed, ver).(core.VersionedAggregatedAttestation)
	data, err := agg.Data()
	if err != nil {
		pc.inconclusive("aggregate data: %v", err)
		return
	}
	root, err := data.HashTreeRoot()
	if err != nil {
		pc.inconclusive("aggregate data root: %v", err)
		return
	}
	commIdx, err := agg.CommitteeIndex()
	if err != nil {
		pc.inconclusive("aggregate committee index: %v", err)
		return
	}
	orig := core.UnsignedDataSet{pubkey(pc.seed): agg}
	duty := core.NewAggregatorDuty(uint64(data.Slot))
	pc.runStore(orig, func() storeOps {
		v, db, ok := vapiOverDutyDB(pc)
		if !ok {
			return storeOps{}
		}
		return storeOps{
			store: func(ctx context.Context, in any) error {
				set, _ := in.(core.UnsignedDataSet)
				return db.Store(ctx, duty, set)
			},
			read: func(ctx context.Context) (any, error) {
				resp, err := v.AggregateAttestation(ctx, &eth2api.AggregateAttestationOpts{Slot: data.Slot, AttestationDataRoot: root, CommitteeIndex: commIdx})
				if err != nil {
					return nil, err
				}
				return resp.Data, nil
			},
			expect: &agg.VersionedAttestation,
			close:  db.Shutdown,
		}
	})
}

func vapiReadContribution(pc *probe, k unsignedKind, ver eth2spec.DataVersion) {
	val := k.gen(pc.t(), pc.seed, ver)
	var target core.SyncContribution
	switch x := val.(type) {
	case core.SyncContribution:
		target = x
	case core.SyncContributions:
		target = x[pc.rng.Intn(len(x))]
	default:
		pc.inconclusive("unexpected sync contribution type %T", val)
		return
	}
	orig := core.UnsignedDataSet{pubkey(pc.seed): val}
	duty := core.NewSyncContributionDuty(uint64(target.Slot))
	pc.runStore(orig, func() storeOps {
		v, db, ok := vapiOverDutyDB(pc)
		if !ok {
			return storeOps{}
		}
		return storeOps{
			store: func(ctx context.Context, in any) error {
				set, _ := in.(core.UnsignedDataSet)
				return db.Store(ctx, duty, set)
			},
			read: func(ctx context.Context) (any, error) {
				resp, err := v.SyncCommitteeContribution(ctx, &eth2api.SyncCommitteeContributionOpts{
					Slot: target.Slot, SubcommitteeIndex: target.SubcommitteeIndex, BeaconBlockRoot: target.BeaconBlockRoot,
				})
				if err != nil {
					return nil, err
				}
				return resp.Data, nil
			},
			expect: &target.SyncCommitteeContribution,
			close:  db.Shutdown,
		}
	})
}
