// Package c18 monitors property C18: values passed between workflow components are isolated
// copies. At every boundary the property names (duty store, partial-signature store, both
// aggregate-signature stores, and the subscriber fan-outs of parsigdb, sigagg, fetcher, scheduler
// and validatorapi) the REAL component is driven with every value type × fork the generators
// offer, and two oracles decide:
//
//	overlap   alias.Overlap of (caller's input, what a reader/subscriber got) and of (what two
//	          readers / two subscribers / a reader and a later reader got) must be empty
//	content   after alias.Scribble of the caller's input, or of one reader's / subscriber's copy,
//	          what every other reader, subscriber or later query observes still equals the original
//
// first sequentially, then with 4–8 goroutines under the race detector (one goroutine plays the
// owner that keeps mutating what it received).
package c18

import (
	"context"
	"encoding/json"
	"fmt"
	"os"
	"regexp"
	"runtime"
	"sort"
	"strings"
	"sync"
	"testing"
	"time"

	eth2api "github.com/attestantio/go-eth2-client/api"
	eth2spec "github.com/attestantio/go-eth2-client/spec"

	"github.com/obolnetwork/charon/app/log"
	"github.com/obolnetwork/charon/core"

	"verifharness/c18/alias"
	"verifharness/kit"
)

// watchdog bounds blocking reads of one probe phase; its firing is only ever inconclusive.
const watchdog = 5 * time.Minute

// spec is one boundary × operation × value kind (× fork) cell of the workload.
type spec struct {
	Comp  string // component, first part of a signature
	Op    string // operation at the boundary
	Label string // value kind (@fork)
	run   func(pc *probe)
}

func TestCheck(t *testing.T) {
	r := kit.Start(t, "C18")
	defer r.Finish()

	// charon's debug lines ("Ignoring duplicate partial signature" …) are not observations of this check
	if err := log.InitLogger(log.Config{Level: envOr("C18_LOG", "error"), Format: "console", Color: "disable"}); err != nil {
		t.Fatalf("init logger: %v", err)
	}

	specs := allSpecs()
	r.Rule(fmt.Sprintf("case i probes cell i mod %d of the table boundary×operation×value-kind×fork (every cell the same number of times) with a value from charon's eth2 fuzzer seeded by the case PRNG: "+
		"(a) hand in, scribble the caller's copy, read; (b) two readers / 2–5 subscribers of one fan-out; (c) scribble one result, read again / re-store; (d) the same from 4–8 goroutines with one mutating owner; (e) 2–6 readers blocked on the key (confirmed from the goroutine dump) when one store resolves them together, plus late readers, one blocked reader scribbles its copy; (f) hand-overs that fail or are cancelled (dead context, expired duty, failing subscriber, context cancelled while the harness deadliner holds the store inside Add — confirmed by the gate), caller scribbles, pristine value stored, read back; "+
		"non-trivial = the probed values reach at least one piece of mutable memory (pointer, slice backing, map) and at least the hand-in and the two-observer phases ran; distinct = hash(cell, deep digest of the value, goroutine count)", len(specs)))
	r.Assume("reflection walker (harness/c18/alias) sees all mutable memory of the workflow types: pointers, slices, maps, unexported fields via reflect.NewAt; strings/funcs/chans are treated as immutable; checked by alias's own unit tests and by mutants")
	r.Assume("content equality is judged on the core JSON encoding (plus SSZ-independent deep digest between two reads of the same kind); fields no encoding carries (VersionedProposal.ConsensusValue/ExecutionValue) are only covered by the overlap oracle and the deep digest")
	r.Assume("the harness-supplied Deadliner schedules every expiring duty and never expires one; beacon-node, DutyDB/AggSigDB inputs of fetcher and the sigagg verify function are harness stubs")
	r.Assume("values are produced by testutil.NewEth2Fuzzer (1–2 elements per list); a fresh equal copy is made by the harness's own reflective DeepCopy, never by charon's Clone")
	r.Assume("readers are taken to be blocked before a store when the runtime's goroutine dump shows each of them parked inside the component's Await (plus, for the channel-based aggsigdb.MemDB, an answered sentinel query sent after them through the same FIFO channel); the non-blocking PubKeyByAttestation is only queried after a store")
	r.Assume("the beacon-client → fetcher/scheduler intake is not a boundary the statement names: response objects of the beacon stub are only scribbled after the component finished using them; that the early-fetch cache of the fetcher keeps pointers into the beacon response is counted as information (info_fetchonly_cache_aliases_beacon_response)")
	r.RacePkgs(true, "core/dutydb", "core/parsigdb", "core/aggsigdb", "core/sigagg", "core/fetcher", "core/scheduler", "core/validatorapi")
	r.Require("probes", 200)
	r.Require("overlap_checks", 2000)
	r.Require("content_checks", 2000)
	r.Require("concurrent_probes", 100)
	r.Require("cells_covered", int64(len(specs)))
	r.Require("blocked_reader_probes_confirmed_k>=2", 300)
	r.Require("failed_handover_probes", 400)
	r.Require("vapi_duties_nonempty_answers", 6)
	r.Require("failed_handover_confirmed_returned_while_store_held", 30)
	r.Set("cells", len(specs))

	n := r.N(len(specs)*5, len(specs)*40)
	r.Cases(n, 0, func(c *kit.Case) {
		sp := specs[c.Idx%len(specs)]
		pc := &probe{c: c, r: r, sp: sp, rng: c.Rng, seed: c.Rng.Int63()}
		pc.nsubs = 2 + c.Rng.Intn(4) // subscribers per fan-out: 2..5 (one write resolves all of them)
		t0 := time.Now()
		func() {
			defer func() {
				if p := recover(); p != nil {
					pc.anomaly("panic", fmt.Sprintf("panic escaped the probe: %v", p))
				}
			}()
			sp.run(pc)
		}()
		pc.finish()
		runtime.KeepAlive(pc.keep)
		r.Count("info_wall_ms:"+sp.Comp, time.Since(t0).Milliseconds())
	})
	r.Count("cells_covered", int64(r.SeenCount("cells_probed")))
}

// ---- probe context --------------------------------------------------------------------------

type finding struct {
	Rule   string   `json:"rule"`
	Class  string   `json:"class"`
	Where  string   `json:"between"`
	Shared []string `json:"shared"`
}

type probe struct {
	c     *kit.Case
	r     *kit.Run
	sp    spec
	rng   interface{ Intn(int) int }
	seed  int64
	nsubs int

	mu           sync.Mutex
	findings     []finding
	anomalies    []string
	trace        []string
	mutable      int // mutable ranges reached in checked values
	phases       int
	incon        bool
	hashParts    []any
	equalDigests map[string]bool
	keep         []any // every value whose address ranges were taken stays reachable until the probe ends
}

func (pc *probe) t() *testing.T { return pc.r.T() }

func (pc *probe) logf(format string, a ...any) {
	pc.mu.Lock()
	if len(pc.trace) < 60 {
		pc.trace = append(pc.trace, fmt.Sprintf(format, a...))
	}
	pc.mu.Unlock()
}

func (pc *probe) anomaly(kind, what string) {
	pc.mu.Lock()
	pc.anomalies = append(pc.anomalies, kind+": "+what)
	pc.mu.Unlock()
}

func (pc *probe) inconclusive(format string, a ...any) {
	pc.mu.Lock()
	pc.incon = true
	pc.mu.Unlock()
	pc.r.Inconclusive("case %d %s/%s %s: %s", pc.c.Idx, pc.sp.Comp, pc.sp.Op, pc.sp.Label, fmt.Sprintf(format, a...))
}

var forkRe = regexp.MustCompile(`\.(Phase0|Altair|Bellatrix|Capella|Deneb|Electra|Fulu)(Blinded)?\b`)

func classOf(s alias.Shared, storeRead bool) string {
	if s.IsRoot() {
		if storeRead && s.A.Kind == "ptr" {
			return "returns-stored-pointer"
		}

		return "same-" + s.A.Kind
	}
	p := alias.PathClass(strings.TrimPrefix(s.A.Path, "(root)"))
	p = forkRe.ReplaceAllString(p, ".<fork>")

	return "nested-" + s.A.Kind + ":" + p
}

// reach computes the reach set of v and accounts for it.
// The value is retained until the probe ends: ranges are plain addresses, and memory of a dropped
// value could be reused by a later allocation.
func (pc *probe) reach(v any) []alias.Range {
	rs := alias.Reach(v)
	pc.mu.Lock()
	pc.mutable += len(rs)
	pc.keep = append(pc.keep, v)
	pc.mu.Unlock()

	return rs
}

// noOverlap demands that a and b share no mutable memory. storeRead marks reads from a store.
func (pc *probe) noOverlap(rule, aName string, a []alias.Range, bName string, b []alias.Range, storeRead bool) bool {
	pc.r.Count("overlap_checks", 1)
	sh := alias.OverlapRanges(a, b)
	var real []alias.Shared
	for _, s := range sh {
		if s.OnlySpareCapacity() {
			pc.r.Count("info_shared_spare_capacity_of_empty_slices", 1)
			continue
		}
		real = append(real, s)
	}
	if len(real) == 0 {
		return true
	}
	f := finding{Rule: rule, Class: classOf(real[0], storeRead), Where: aName + " <-> " + bName}
	for i, s := range real {
		if i >= 6 {
			f.Shared = append(f.Shared, fmt.Sprintf("… %d more", len(real)-i))
			break
		}
		f.Shared = append(f.Shared, s.String())
	}
	pc.mu.Lock()
	pc.findings = append(pc.findings, f)
	pc.mu.Unlock()

	return false
}

// sameContent demands that the core encoding of got equals want. A value whose deep digest equals
// that of a value already found equal is equal too (the digest covers strictly more than the
// encoding), which saves re-encoding large blocks.
func (pc *probe) sameContent(what string, got any, want string) bool {
	pc.r.Count("content_checks", 1)
	key := alias.Digest(got) + "|" + kit.Hash(want)
	pc.mu.Lock()
	known := pc.equalDigests[key]
	pc.mu.Unlock()
	if known {
		return true
	}
	if g := fp(got); g != want {
		pc.anomaly("content-changed", fmt.Sprintf("%s: observed %s, original %s", what, kit.Short(g, 160), kit.Short(want, 160)))
		return false
	}
	pc.mu.Lock()
	if pc.equalDigests == nil {
		pc.equalDigests = map[string]bool{}
	}
	pc.equalDigests[key] = true
	pc.mu.Unlock()

	return true
}

// sameDigest demands that everything reachable from got still has the recorded deep digest.
func (pc *probe) sameDigest(what string, got any, want string) bool {
	pc.r.Count("digest_checks", 1)
	if g := alias.Digest(got); g != want {
		pc.anomaly("deep-content-changed", fmt.Sprintf("%s: deep digest %s, before %s", what, g, want))
		return false
	}

	return true
}

// call runs charon code that may meet memory the harness scribbled (only if there is aliasing).
func (pc *probe) call(what string, fn func() error) (err error) {
	defer func() {
		if p := recover(); p != nil {
			pc.anomaly("panic", fmt.Sprintf("%s panicked: %v", what, p))
			err = fmt.Errorf("panic: %v", p)
		}
	}()

	return fn()
}

// aliasingEstablished reports whether the sequential phases already found shared memory in this cell.
// The concurrent phase exists to find what they cannot; with aliasing established it would only
// make the harness's own scribbles race with every later access of the shared object.
func (pc *probe) aliasingEstablished() bool {
	pc.mu.Lock()
	defer pc.mu.Unlock()
	if len(pc.findings) > 0 {
		pc.r.Count("concurrent_phase_skipped_aliasing_already_established", 1)
		return true
	}

	return false
}

func (pc *probe) scribble(v any) {
	n := alias.Scribble(v)
	pc.r.Count("scribbled_leaves", int64(n))
}

// fresh returns an equal copy of v in fresh memory and checks the copy (harness self-check).
func (pc *probe) fresh(v any) any {
	cp := alias.DeepCopy(v)
	if pc.c.Idx%7 == 0 {
		if sh := alias.Overlap(v, cp); len(sh) != 0 || alias.Digest(v) != alias.Digest(cp) || fp(v) != fp(cp) {
			pc.inconclusive("harness DeepCopy is not an isolated equal copy: %v", sh)
		}
	}

	return cp
}

func (pc *probe) finish() {
	r := pc.r
	cell := pc.sp.Comp + "/" + pc.sp.Op + "/" + pc.sp.Label
	r.Seen("cells_probed", cell)
	r.Seen("boundaries", pc.sp.Comp+"/"+pc.sp.Op)
	if strings.Contains(pc.sp.Op, "subscribers") || pc.sp.Comp == "scheduler" {
		r.Seen("subscribers_per_fanout", fmt.Sprint(pc.nsubs))
	}
	r.Seen("value_kinds", pc.sp.Label)
	r.Count("probes", 1)
	r.Count("probes:"+pc.sp.Comp, 1)
	witness := func(extra map[string]any) map[string]any {
		w := map[string]any{"cell": cell, "value_seed": pc.seed, "trace": pc.trace, "other_observations": pc.anomalies}
		for k, v := range extra {
			w[k] = v
		}

		return w
	}
	seen := map[string]bool{}
	for _, f := range pc.findings {
		sig := pc.sp.Comp + "/" + pc.sp.Op + "/" + f.Rule + "/" + f.Class
		if seen[sig] {
			continue
		}
		seen[sig] = true
		what := fmt.Sprintf("%s %s: %s share mutable memory (%s): %s", pc.sp.Comp, pc.sp.Op, f.Where, f.Class, f.Shared[0])
		if len(pc.anomalies) > 0 {
			what += fmt.Sprintf("; consequences observed: %s", kit.Short(strings.Join(pc.anomalies, " | "), 300))
		}
		pc.c.Violation(sig, what, witness(map[string]any{"finding": f, "all_findings": pc.findings}))
	}
	if len(pc.findings) == 0 && len(pc.anomalies) > 0 {
		// What an observer saw changed (or an operation failed / panicked) although no result shares
		// memory with another result or with the caller's value: the sharing is inside the component
		// (e.g. the store kept the caller's object and hands out clones of it). One signature per
		// cell, named after the first observation; the rest are its consequences.
		a := pc.anomalies[0]
		kind := a[:strings.Index(a, ":")]
		sig := pc.sp.Comp + "/" + pc.sp.Op + "/observer-sees-foreign-mutation/" + kind
		pc.c.Violation(sig, fmt.Sprintf("%s %s: %s", pc.sp.Comp, pc.sp.Op, a), witness(nil))
	}
	if !pc.incon && pc.mutable > 0 && pc.phases >= 2 {
		pc.c.NonTrivial(kit.Hash(append([]any{cell}, pc.hashParts...)...))
	}
	if pc.c.Idx < 3 {
		r.Sample(map[string]any{"cell": cell, "mutable_ranges_checked": pc.mutable, "trace": pc.trace})
	}
}

// ---- content fingerprints -----------------------------------------------------------------------

func jsonOf(v any) string {
	if m, ok := v.(json.Marshaler); ok {
		b, err := m.MarshalJSON()
		if err != nil {
			return "ERR:" + err.Error()
		}

		return string(b)
	}
	b, err := json.Marshal(v)
	if err != nil {
		return "ERR:" + err.Error()
	}

	return string(b)
}

// fp is the content of a value in charon's own JSON encoding (type-tagged, maps in key order).
func fp(v any) (out string) {
	defer func() {
		if p := recover(); p != nil {
			out = fmt.Sprintf("PANIC:%v", p)
		}
	}()
	switch x := v.(type) {
	case nil:
		return "nil"
	case *eth2api.VersionedProposal:
		if x == nil {
			return "nil"
		}

		return "proposal:" + jsonOf(core.VersionedProposal{VersionedProposal: *x})
	case *eth2spec.VersionedAttestation:
		if x == nil {
			return "nil"
		}

		return "aggatt:" + jsonOf(core.VersionedAggregatedAttestation{VersionedAttestation: *x})
	case core.ParSignedData:
		return fmt.Sprintf("share=%d %T %s", x.ShareIdx, x.SignedData, jsonOf(x.SignedData))
	case []core.ParSignedData:
		parts := make([]string, 0, len(x))
		for _, p := range x {
			parts = append(parts, fp(p))
		}
		sort.Strings(parts)

		return "[" + strings.Join(parts, ",") + "]"
	case map[core.PubKey][]core.ParSignedData:
		return fpMap(x)
	case core.ParSignedDataSet:
		return fpMap(x)
	case core.SignedDataSet:
		return fpMap(x)
	case core.UnsignedDataSet:
		return fpMap(x)
	case core.DutyDefinitionSet:
		return fpMap(x)
	default:
		return fmt.Sprintf("%T %s", v, jsonOf(v))
	}
}

func fpMap[V any](m map[core.PubKey]V) string {
	keys := make([]string, 0, len(m))
	for k := range m {
		keys = append(keys, string(k))
	}
	sort.Strings(keys)
	var sb strings.Builder
	sb.WriteString("{")
	for _, k := range keys {
		sb.WriteString(k[:10] + ":" + fp(any(m[core.PubKey(k)])) + ";")
	}
	sb.WriteString("}")

	return sb.String()
}

// ---- harness dependencies -----------------------------------------------------------------------

// deadliner schedules every expiring duty forever; exits and builder registrations are exempt as
// with the production deadline function. It is also the hook at which the harness holds a store
// mid-operation: armBlock makes the next Add block until released (and report which goroutine
// called it), armExpired makes the next Add report the duty as expired.
type deadliner struct {
	ch chan core.Duty

	mu      sync.Mutex
	mode    int // 0 pass, 1 block the next Add, 2 next Add says expired
	entered chan int
	release chan struct{}
}

func newDeadliner() *deadliner { return &deadliner{ch: make(chan core.Duty)} }

func (d *deadliner) Add(duty core.Duty) core.DeadlineStatus {
	d.mu.Lock()
	mode, entered, release := d.mode, d.entered, d.release
	d.mode = 0
	d.mu.Unlock()
	switch mode {
	case 1:
		entered <- goid()
		<-release
	case 2:
		return core.DeadlineExpired
	}
	if duty.Type == core.DutyExit || duty.Type == core.DutyBuilderRegistration {
		return core.DeadlineExempt
	}

	return core.DeadlineScheduled
}

func (d *deadliner) C() <-chan core.Duty { return d.ch }

// armBlock gates the next Add: entered yields the goroutine id of its caller once it is inside,
// release lets it continue.
func (d *deadliner) armBlock() (entered <-chan int, release func()) {
	e, r := make(chan int, 1), make(chan struct{})
	d.mu.Lock()
	d.mode, d.entered, d.release = 1, e, r
	d.mu.Unlock()
	var once sync.Once

	return e, func() { once.Do(func() { close(r) }) }
}

func (d *deadliner) armExpired() {
	d.mu.Lock()
	d.mode = 2
	d.mu.Unlock()
}

// ---- generic store probe ------------------------------------------------------------------------

// storeOps are the operations of one store boundary on one fresh component instance.
type storeOps struct {
	store  func(ctx context.Context, in any) error // hand a caller-owned value in
	read   func(ctx context.Context) (any, error)  // one reader / one later query
	expect any                                     // what a read must show (derived from the original)
	close  func()
	// noWaiters: the read does not block (PubKeyByAttestation): no reader is started before a store
	noWaiters bool
	// dl is the deadliner of this instance (the hook for holding the store mid-operation)
	dl *deadliner
	// sentinel (optional) performs a query for another, already stored key through the same
	// hand-over channel as read and returns when it was answered (see blocked_test.go)
	sentinel func(ctx context.Context) error
}

// runStore drives phases (a)–(d) against a store boundary. orig is the original input (never
// handed to charon, never scribbled); mk builds a fresh component instance.
func (pc *probe) runStore(orig any, mk func() storeOps) {
	ctx, cancel := context.WithTimeout(context.Background(), watchdog)
	defer cancel()

	ops := mk()
	if ops.store == nil {
		return // setup failed and said why
	}
	want := fp(ops.expect)
	pc.hashParts = append(pc.hashParts, alias.Digest(orig))
	read := func(what string) (any, []alias.Range, bool) {
		var res any
		err := pc.call(what, func() error {
			var err error
			res, err = ops.read(ctx)
			return err
		})
		pc.r.Count("reads", 1)
		if err != nil {
			if ctx.Err() != nil {
				pc.inconclusive("%s: watchdog", what)
			} else {
				pc.anomaly("read-failed", fmt.Sprintf("%s: %v", what, err))
			}

			return nil, nil, false
		}

		return res, pc.reach(res), true
	}

	// (a) hand in, scribble the caller's copy, read
	in := pc.fresh(orig)
	if err := ops.store(ctx, in); err != nil {
		pc.inconclusive("store of a generated value failed: %v", err)
		ops.close()
		return
	}
	rin := pc.reach(in)
	pc.scribble(in)
	pc.logf("stored; caller's copy scribbled")
	r1, rr1, ok := read("read #1 (after the caller scribbled its input)")
	if !ok {
		ops.close()
		return
	}
	pc.noOverlap("result-aliases-caller-input", "caller's input", rin, "read #1", rr1, true)
	pc.sameContent("read #1 after the caller scribbled its input", r1, want)
	pc.phases++

	// (b) second reader
	r2, rr2, ok := read("read #2")
	if !ok {
		ops.close()
		return
	}
	pc.noOverlap("readers-share-memory", "read #1", rr1, "read #2", rr2, true)
	pc.noOverlap("result-aliases-caller-input", "caller's input", rin, "read #2", rr2, true)
	pc.sameContent("read #2", r2, want)
	d2 := alias.Digest(r2)
	pc.phases++

	// (c) scribble one result; the other reader's copy and a later read must not change
	pc.scribble(r1)
	pc.logf("read #1 scribbled by its owner")
	pc.sameContent("read #2 (held by another reader) after read #1 was scribbled", r2, want)
	pc.sameDigest("read #2 (held by another reader) after read #1 was scribbled", r2, d2)
	if r3, rr3, ok := read("read #3 (after read #1 was scribbled)"); ok {
		pc.noOverlap("readers-share-memory", "read #1", rr1, "read #3", rr3, true)
		pc.noOverlap("readers-share-memory", "read #2", rr2, "read #3", rr3, true)
		pc.sameContent("read #3 after read #1 was scribbled", r3, want)
		pc.sameDigest("read #3 after read #1 was scribbled", r3, d2)
	}
	in2 := pc.fresh(orig)
	if err := pc.call("re-store of the identical value", func() error { return ops.store(ctx, in2) }); err != nil {
		pc.anomaly("restore-rejected", fmt.Sprintf("storing the identical value again after a reader scribbled its copy failed: %v", err))
	}
	if r4, _, ok := read("read #4 (after re-store)"); ok {
		pc.sameContent("read #4 after re-store", r4, want)
	}
	pc.phases++
	ops.close()

	// (d) the same from several goroutines on a fresh instance; goroutine 0 keeps mutating what it reads
	if pc.aliasingEstablished() {
		return
	}
	pc.runStoreConcurrent(orig, want, mk)

	// (e) several readers blocked on the key when one write resolves them together
	if pc.aliasingEstablished() {
		return
	}
	pc.runStoreBlocked(orig, want, mk)

	// (f) hand-overs that fail, are cancelled, or are cancelled while the store is held mid-operation
	if pc.aliasingEstablished() {
		return
	}
	pc.runStoreCancelled(orig, want, mk)
}

func (pc *probe) runStoreConcurrent(orig any, want string, mk func() storeOps) {
	ctx, cancel := context.WithTimeout(context.Background(), watchdog)
	defer cancel()
	ops := mk()
	if ops.store == nil {
		return
	}
	defer ops.close()

	g := 4 + pc.rng.Intn(5)
	reads := 2 + pc.rng.Intn(2)
	pc.hashParts = append(pc.hashParts, g)
	inputs := make([]any, g)
	for i := range inputs {
		inputs[i] = pc.fresh(orig)
	}
	type res struct {
		g, k int
		v    any
	}
	var (
		mu      sync.Mutex
		results []res
		errs    []string
		wg      sync.WaitGroup
		start   = make(chan struct{})
	)
	for i := 0; i < g; i++ {
		wg.Add(1)
		go func(i int) {
			defer wg.Done()
			<-start
			readFirst := i%3 == 2 && !ops.noWaiters // some readers are already waiting when the value arrives
			doStore := func() {
				err := pc.call("concurrent store", func() error { return ops.store(ctx, inputs[i]) })
				if err != nil {
					mu.Lock()
					errs = append(errs, fmt.Sprintf("goroutine %d store: %v", i, err))
					mu.Unlock()
				}
				alias.Scribble(inputs[i]) // the caller owns its copy again once Store returned
			}
			if !readFirst {
				doStore()
			}
			for k := 0; k < reads; k++ {
				var v any
				err := pc.call("concurrent read", func() error {
					var err error
					v, err = ops.read(ctx)
					return err
				})
				if err != nil {
					mu.Lock()
					errs = append(errs, fmt.Sprintf("goroutine %d read: %v", i, err))
					mu.Unlock()

					continue
				}
				if i == 0 {
					alias.Scribble(v) // the one mutating owner
				}
				mu.Lock()
				results = append(results, res{i, k, v})
				mu.Unlock()
			}
			if readFirst {
				doStore()
			}
		}(i)
	}
	close(start)
	wg.Wait()
	pc.r.Count("concurrent_probes", 1)
	pc.r.Count("concurrent_goroutines", int64(g))
	pc.r.Count("reads", int64(len(results)))
	if ctx.Err() != nil {
		pc.inconclusive("concurrent phase: watchdog")
		return
	}
	for _, e := range errs {
		pc.anomaly("concurrent-op-failed", e)
	}
	// analysis after the join (happens-after every access above)
	ranges := make([][]alias.Range, len(results))
	for i, rs := range results {
		ranges[i] = pc.reach(rs.v)
		if rs.g != 0 {
			pc.sameContent(fmt.Sprintf("concurrent read %d of goroutine %d (goroutine 0 scribbles its own results)", rs.k, rs.g), rs.v, want)
		}
	}
	for i := range results {
		for j := i + 1; j < len(results); j++ {
			pc.noOverlap("readers-share-memory", fmt.Sprintf("concurrent read g%d#%d", results[i].g, results[i].k), ranges[i],
				fmt.Sprintf("concurrent read g%d#%d", results[j].g, results[j].k), ranges[j], true)
		}
	}
	for i, in := range inputs {
		rin := pc.reach(in)
		for j := range results {
			pc.noOverlap("result-aliases-caller-input", fmt.Sprintf("input of goroutine %d", i), rin,
				fmt.Sprintf("concurrent read g%d#%d", results[j].g, results[j].k), ranges[j], true)
		}
	}
	pc.phases++
}

// allSpecs builds the table of cells.
func allSpecs() []spec {
	var out []spec
	out = append(out, dutydbSpecs()...)
	out = append(out, aggsigdbSpecs()...)
	out = append(out, parsigdbSpecs()...)
	out = append(out, sigaggSpecs()...)
	out = append(out, fetcherSpecs()...)
	out = append(out, schedulerSpecs()...)
	out = append(out, vapiSpecs()...)
	out = append(out, vapiDutySpecs()...)

	return out
}

func envOr(k, d string) string {
	if v := os.Getenv(k); v != "" {
		return v
	}

	return d
}
