package c18

import (
	"context"
	"errors"
	"fmt"
	"math/rand"
	"sync"
	"time"

	eth2spec "github.com/attestantio/go-eth2-client/spec"

	"github.com/obolnetwork/charon/core"
	"github.com/obolnetwork/charon/core/parsigdb"
	"github.com/obolnetwork/charon/core/sigagg"
	"github.com/obolnetwork/charon/tbls"
	"github.com/obolnetwork/charon/tbls/tblsconv"

	"verifharness/c18/alias"
)

// ---- subscriber fan-out recorder ------------------------------------------------------------------

type delivery struct {
	sub    int
	seq    int
	v      any
	fpAt   string // content at receipt (sequential mode, non-mutating subscribers)
	ranges []alias.Range
	owner  bool // this subscriber scribbled its copy on receipt
}

// fan records what the subscribers of one fan-out receive. Subscriber `mutator` behaves as an owner
// that overwrites its copy as soon as it gets it; the others keep theirs.
type fan struct {
	pc         *probe
	name       string
	mutator    int
	concurrent bool

	mu   sync.Mutex
	dels []*delivery
}

func (f *fan) recv(sub int, v any) *delivery {
	d := &delivery{sub: sub, v: v, owner: sub == f.mutator}
	f.mu.Lock()
	d.seq = len(f.dels)
	f.dels = append(f.dels, d)
	f.mu.Unlock()
	f.pc.r.Count("subscriber_deliveries", 1)
	if d.owner {
		alias.Scribble(v)
		return d
	}
	if !f.concurrent {
		d.fpAt = fp(v)
	}

	return d
}

func (f *fan) snapshot() []*delivery {
	f.mu.Lock()
	defer f.mu.Unlock()

	return append([]*delivery(nil), f.dels...)
}

func (d *delivery) String() string { return fmt.Sprintf("delivery #%d to subscriber %d", d.seq, d.sub) }

// checkFan applies both oracles to the deliveries dels of fan-out f: no shared memory between two
// deliveries nor between a delivery and any of the named caller-owned inputs; content of every
// copy that its subscriber did not overwrite equals expect(delivery).
func (pc *probe) checkFan(f *fan, dels []*delivery, inputs map[string][]alias.Range, expect func(d *delivery) string, when string) {
	for _, d := range dels {
		if d.ranges == nil {
			d.ranges = pc.reach(d.v)
		}
	}
	for i, a := range dels {
		for _, b := range dels[i+1:] {
			pc.noOverlap("subscribers-share-memory", f.name+" "+a.String(), a.ranges, f.name+" "+b.String(), b.ranges, false)
		}
		for name, rin := range inputs {
			pc.noOverlap("delivery-aliases-caller-input", name, rin, f.name+" "+a.String(), a.ranges, false)
		}
		if a.owner {
			continue
		}
		want := expect(a)
		if a.fpAt != "" && a.fpAt != want {
			pc.r.Count("content_checks", 1)
			pc.anomaly("content-changed", fmt.Sprintf("%s %s at receipt: observed %s, original %s", f.name, a, short(a.fpAt), short(want)))
		}
		pc.sameContent(fmt.Sprintf("%s %s %s", f.name, a, when), a.v, want)
	}
}

func short(s string) string {
	if len(s) > 160 {
		return s[:160] + "…"
	}

	return s
}

// ---- ParSigDB: StoreInternal/StoreExternal → internal and threshold subscribers ---------------------

func parsigdbSpecs() []spec {
	var out []spec
	for _, k := range signedKinds {
		k := k
		vers := k.Versions
		if len(vers) == 0 {
			vers = []eth2spec.DataVersion{0}
		}
		for _, ver := range vers {
			ver := ver
			out = append(out, spec{Comp: "parsigdb", Op: "store->subscribers", Label: label(k.Name, k.Versions, ver), run: func(pc *probe) { parsigdbProbe(pc, k, ver) }})
		}
	}

	return out
}

// shareSets returns n partial-signature sets (one per share index 1..n) over the same two
// validators and messages: set i holds share i of both validators.
func shareSets(pc *probe, k signedKind, ver eth2spec.DataVersion, n int, sigOf func(pk, share int) core.Signature) ([]core.ParSignedDataSet, [2]core.PubKey, bool) {
	pks := [2]core.PubKey{pubkey(pc.seed), pubkey(pc.seed + 1)}
	sets := make([]core.ParSignedDataSet, n)
	for i := range sets {
		sets[i] = core.ParSignedDataSet{}
	}
	for p, pk := range pks {
		base := k.gen(pc.t(), pc.seed+int64(p), ver)
		for i := 0; i < n; i++ {
			signed, err := base.SetSignature(sigOf(p, i+1))
			if err != nil {
				pc.inconclusive("SetSignature on generated %s: %v", k.Name, err)
				return nil, pks, false
			}
			sd, _ := pc.fresh(signed).(core.SignedData)
			sets[i][pk] = core.ParSignedData{SignedData: sd, ShareIdx: i + 1}
		}
	}

	return sets, pks, true
}

func randomSig(seed int64) func(pk, share int) core.Signature {
	return func(pk, share int) core.Signature {
		rng := rand.New(rand.NewSource(seed ^ int64(pk*1000003+share*7919))) //nolint:gosec // content only
		sig := make(core.Signature, 96)
		_, _ = rng.Read(sig)

		return sig
	}
}

func parsigdbProbe(pc *probe, k signedKind, ver eth2spec.DataVersion) {
	const threshold = 3
	duty := core.Duty{Slot: uint64(pc.seed % 100000), Type: k.Duty}
	meta := parsigdb.NewMemDBMetadata(12, time.Date(2022, 3, 1, 0, 0, 0, 0, time.UTC))

	g := 4 + pc.rng.Intn(5) // goroutines (= shares) of the concurrent phase
	sets, pks, ok := shareSets(pc, k, ver, g, randomSig(pc.seed))
	if !ok {
		return
	}
	pc.hashParts = append(pc.hashParts, alias.Digest(sets[0]), g)
	// expected content of one share as seen by any subscriber
	wantShare := map[string]string{}
	for _, set := range sets {
		for pk, psd := range set {
			wantShare[fmt.Sprintf("%s/%d", pk, psd.ShareIdx)] = fp(psd)
		}
	}
	expectThr := func(d *delivery) string {
		// the threshold output may hold any `threshold` shares: rebuild the expectation share by share
		out, _ := d.v.(map[core.PubKey][]core.ParSignedData)
		exp := map[core.PubKey][]core.ParSignedData{}
		for pk, list := range out {
			for _, psd := range list {
				if orig, ok := findShare(sets, pk, psd.ShareIdx); ok {
					exp[pk] = append(exp[pk], orig)
				}
			}
		}

		return fp(exp)
	}

	mk := func(concurrent bool) (*parsigdb.MemDB, *fan, *fan) {
		db := parsigdb.NewMemDB(threshold, newDeadliner(), meta)
		mut := pc.rng.Intn(pc.nsubs)
		intF := &fan{pc: pc, name: "internal fan-out", mutator: mut, concurrent: concurrent}
		thrF := &fan{pc: pc, name: "threshold fan-out", mutator: (mut + 1) % pc.nsubs, concurrent: concurrent}
		for s := 0; s < pc.nsubs; s++ {
			s := s
			db.SubscribeInternal(func(_ context.Context, _ core.Duty, set core.ParSignedDataSet) error {
				intF.recv(s, set)
				return nil
			})
			db.SubscribeThreshold(func(_ context.Context, _ core.Duty, set map[core.PubKey][]core.ParSignedData) error {
				thrF.recv(s, set)
				return nil
			})
		}

		return db, intF, thrF
	}

	ctx, cancel := context.WithTimeout(context.Background(), watchdog)
	defer cancel()

	// ---- sequential
	db, intF, thrF := mk(false)
	inputs := map[string][]alias.Range{}
	var ins []any
	for i := 0; i < threshold; i++ {
		in, _ := pc.fresh(sets[i]).(core.ParSignedDataSet)
		var err error
		if i == 0 {
			err = pc.call("StoreInternal", func() error { return db.StoreInternal(ctx, duty, in) })
		} else {
			err = pc.call("StoreExternal", func() error { return db.StoreExternal(ctx, duty, in) })
		}
		if err != nil {
			pc.inconclusive("store of generated share %d failed: %v", i+1, err)
			return
		}
		inputs[fmt.Sprintf("caller's input (share %d)", i+1)] = pc.reach(in)
		ins = append(ins, in)
		if i == 0 {
			if n := len(intF.snapshot()); n != pc.nsubs {
				pc.inconclusive("internal subscribers got %d deliveries, want %d", n, pc.nsubs)
				return
			}
			pc.checkFan(intF, intF.snapshot(), inputs, func(*delivery) string { return fp(sets[0]) }, "after StoreInternal returned")
		}
		pc.scribble(in) // the caller owns its set again
		pc.logf("share %d stored; caller's copy scribbled", i+1)
	}
	pc.phases++
	pc.checkFan(intF, intF.snapshot(), inputs, func(*delivery) string { return fp(sets[0]) }, "after the caller scribbled all its inputs")
	thr := thrF.snapshot()
	if len(thr) != pc.nsubs {
		pc.inconclusive("threshold subscribers got %d deliveries, want %d", len(thr), pc.nsubs)
		return
	}
	for _, d := range intF.snapshot() { // the two fan-outs must not share memory with each other either
		inputs["internal fan-out "+d.String()] = d.ranges
	}
	pc.checkFan(thrF, thr, inputs, expectThr, "after callers and the other subscriber scribbled their copies")
	for _, d := range thr {
		if out, _ := d.v.(map[core.PubKey][]core.ParSignedData); !d.owner && (len(out) != 2 || len(out[pks[0]]) != threshold) {
			pc.anomaly("content-changed", fmt.Sprintf("threshold output has %d validators / %d shares", len(out), len(out[pks[0]])))
		}
	}
	pc.phases++
	// later query: the stored entries must still equal what was stored
	for i := 0; i < threshold; i++ {
		in, _ := pc.fresh(sets[i]).(core.ParSignedDataSet)
		if err := pc.call("re-store", func() error { return db.StoreExternal(ctx, duty, in) }); err != nil {
			pc.anomaly("restore-rejected", fmt.Sprintf("storing identical share %d again after subscribers scribbled their copies failed: %v", i+1, err))
		}
	}
	pc.phases++
	// shares that arrive after the threshold was reached are stored too (they are what a duplicate or
	// an equivocation of that share is later compared with): hand them in, scribble the caller's
	// copies, then hand in identical originals again - they must be recognised as duplicates
	// (seeded change C18-r8: entries beyond the threshold were kept without cloning)
	for i := threshold; i < g; i++ {
		in, _ := pc.fresh(sets[i]).(core.ParSignedDataSet)
		if err := pc.call("StoreExternal", func() error { return db.StoreExternal(ctx, duty, in) }); err != nil {
			pc.anomaly("store-rejected", fmt.Sprintf("storing share %d after the threshold was reached failed: %v", i+1, err))
			continue
		}
		inputs[fmt.Sprintf("caller's input (share %d)", i+1)] = pc.reach(in)
		pc.scribble(in)
	}
	for i := threshold; i < g; i++ {
		in, _ := pc.fresh(sets[i]).(core.ParSignedDataSet)
		if err := pc.call("re-store", func() error { return db.StoreExternal(ctx, duty, in) }); err != nil {
			pc.anomaly("restore-rejected", fmt.Sprintf("storing identical share %d (stored after the threshold) again after the caller scribbled its copy failed: %v", i+1, err))
		}
	}
	pc.r.Count("parsigdb_shares_stored_beyond_threshold", int64(g-threshold))
	pc.phases++

	// ---- hand-overs that fail: subscriber errors, expired duty, dead context
	if pc.aliasingEstablished() {
		return
	}
	parsigdbFailedHandover(pc, ctx, duty, meta, threshold, sets, expectThr)

	// ---- concurrent: share i is stored by goroutine i (plus a duplicate of its neighbour's share)
	if pc.aliasingEstablished() {
		return
	}
	db, intF, thrF = mk(true)
	cins := make([][2]core.ParSignedDataSet, g)
	for i := range cins {
		cins[i][0], _ = pc.fresh(sets[i]).(core.ParSignedDataSet)
		cins[i][1], _ = pc.fresh(sets[(i+1)%g]).(core.ParSignedDataSet)
	}
	var (
		wg    sync.WaitGroup
		start = make(chan struct{})
		emu   sync.Mutex
		errs  []string
	)
	for i := 0; i < g; i++ {
		wg.Add(1)
		go func(i int) {
			defer wg.Done()
			<-start
			for j, in := range cins[i] {
				var err error
				if i == 0 && j == 0 {
					err = pc.call("StoreInternal", func() error { return db.StoreInternal(ctx, duty, in) })
				} else {
					err = pc.call("StoreExternal", func() error { return db.StoreExternal(ctx, duty, in) })
				}
				if err != nil {
					emu.Lock()
					errs = append(errs, fmt.Sprintf("goroutine %d store %d: %v", i, j, err))
					emu.Unlock()
				}
				alias.Scribble(in)
			}
		}(i)
	}
	close(start)
	wg.Wait()
	pc.r.Count("concurrent_probes", 1)
	pc.r.Count("concurrent_goroutines", int64(g))
	if ctx.Err() != nil {
		pc.inconclusive("concurrent phase: watchdog")
		return
	}
	for _, e := range errs {
		pc.anomaly("concurrent-op-failed", e)
	}
	cinputs := map[string][]alias.Range{}
	for i := range cins {
		cinputs[fmt.Sprintf("input of goroutine %d", i)] = pc.reach(cins[i][0])
		cinputs[fmt.Sprintf("duplicate input of goroutine %d", i)] = pc.reach(cins[i][1])
	}
	idels := intF.snapshot()
	pc.checkFan(intF, idels, cinputs, func(*delivery) string { return fp(sets[0]) }, "after the concurrent phase")
	for _, d := range idels {
		cinputs["internal fan-out "+d.String()] = d.ranges
	}
	tdels := thrF.snapshot()
	pc.r.Count("concurrent_threshold_deliveries", int64(len(tdels)))
	pc.checkFan(thrF, tdels, cinputs, expectThr, "after the concurrent phase")
	pc.phases++
}

func findShare(sets []core.ParSignedDataSet, pk core.PubKey, shareIdx int) (core.ParSignedData, bool) {
	if shareIdx < 1 || shareIdx > len(sets) {
		return core.ParSignedData{}, false
	}
	psd, ok := sets[shareIdx-1][pk]

	return psd, ok
}

// ---- SigAgg: Aggregate → subscribers ------------------------------------------------------------------

var (
	poolOnce sync.Once
	poolSigs map[int]tbls.Signature // genuine partial signatures (shares 1..4 of one key over one message)
)

func blsPool(pc *probe) map[int]tbls.Signature {
	poolOnce.Do(func() {
		secret, err := tbls.GenerateInsecureKey(pc.t(), rand.New(rand.NewSource(18))) //nolint:gosec // deterministic test key
		if err != nil {
			panic(err)
		}
		shares, err := tbls.ThresholdSplitInsecure(pc.t(), secret, 4, 3, rand.New(rand.NewSource(19))) //nolint:gosec // deterministic
		if err != nil {
			panic(err)
		}
		poolSigs = map[int]tbls.Signature{}
		for idx, sk := range shares {
			sig, err := tbls.Sign(sk, []byte("c18 aggregate message"))
			if err != nil {
				panic(err)
			}
			poolSigs[idx] = sig
		}
	})

	return poolSigs
}

func sigaggSpecs() []spec {
	var out []spec
	for _, k := range signedKinds {
		k := k
		vers := k.Versions
		if len(vers) == 0 {
			vers = []eth2spec.DataVersion{0}
		}
		for _, ver := range vers {
			ver := ver
			out = append(out, spec{Comp: "sigagg", Op: "aggregate->subscribers", Label: label(k.Name, k.Versions, ver), run: func(pc *probe) { sigaggProbe(pc, k, ver) }})
		}
	}

	return out
}

func sigaggProbe(pc *probe, k signedKind, ver eth2spec.DataVersion) {
	const threshold = 3
	pool := blsPool(pc)
	duty := core.Duty{Slot: uint64(pc.seed % 100000), Type: k.Duty}
	sets, pks, ok := shareSets(pc, k, ver, threshold, func(_, share int) core.Signature { return tblsconv.SigToCore(pool[share]) })
	if !ok {
		return
	}
	orig := map[core.PubKey][]core.ParSignedData{}
	for _, set := range sets {
		for pk, psd := range set {
			orig[pk] = append(orig[pk], psd)
		}
	}
	pc.hashParts = append(pc.hashParts, alias.Digest(orig))
	// expectation: the message of the shares with the threshold-aggregated signature
	aggSig, err := tbls.ThresholdAggregate(map[int]tbls.Signature{1: pool[1], 2: pool[2], 3: pool[3]})
	if err != nil {
		pc.inconclusive("threshold aggregate of the harness pool: %v", err)
		return
	}
	expSet := core.SignedDataSet{}
	for _, pk := range pks {
		base, _ := pc.fresh(orig[pk][0].SignedData).(core.SignedData)
		exp, err := base.SetSignature(tblsconv.SigToCore(aggSig))
		if err != nil {
			pc.inconclusive("SetSignature: %v", err)
			return
		}
		expSet[pk] = exp
	}
	want := fp(expSet)
	expect := func(*delivery) string { return want }

	mk := func(concurrent bool) (*sigagg.Aggregator, *fan) {
		agg, err := sigagg.New(threshold, func(context.Context, core.PubKey, core.SignedData) error {
			pc.r.Count("sigagg_verify_calls", 1)
			return nil
		})
		if err != nil {
			panic(err)
		}
		f := &fan{pc: pc, name: "sigagg fan-out", mutator: pc.rng.Intn(pc.nsubs), concurrent: concurrent}
		for s := 0; s < pc.nsubs; s++ {
			s := s
			agg.Subscribe(func(_ context.Context, _ core.Duty, set core.SignedDataSet) error {
				f.recv(s, set)
				return nil
			})
		}

		return agg, f
	}
	ctx, cancel := context.WithTimeout(context.Background(), watchdog)
	defer cancel()

	// ---- sequential: aggregate twice (the second call is the "later" observer)
	agg, f := mk(false)
	inputs := map[string][]alias.Range{}
	for round := 1; round <= 2; round++ {
		in, _ := pc.fresh(orig).(map[core.PubKey][]core.ParSignedData)
		if err := pc.call("Aggregate", func() error { return agg.Aggregate(ctx, duty, in) }); err != nil {
			if round == 1 {
				pc.inconclusive("Aggregate of generated shares failed: %v", err)
				return
			}
			pc.anomaly("restore-rejected", fmt.Sprintf("second Aggregate of identical shares failed: %v", err))
		}
		inputs[fmt.Sprintf("caller's input (call %d)", round)] = pc.reach(in)
		if n := len(f.snapshot()); n != pc.nsubs*round {
			pc.inconclusive("sigagg subscribers got %d deliveries after call %d", n, round)
			return
		}
		pc.checkFan(f, f.snapshot(), inputs, expect, fmt.Sprintf("after Aggregate call %d returned", round))
		pc.scribble(in)
		pc.checkFan(f, f.snapshot(), inputs, expect, fmt.Sprintf("after the caller scribbled the input of call %d", round))
		pc.phases++
	}

	// ---- concurrent
	if pc.aliasingEstablished() {
		return
	}
	agg, f = mk(true)
	g := 4 + pc.rng.Intn(5)
	pc.hashParts = append(pc.hashParts, g)
	cins := make([]map[core.PubKey][]core.ParSignedData, g)
	for i := range cins {
		cins[i], _ = pc.fresh(orig).(map[core.PubKey][]core.ParSignedData)
	}
	var (
		wg    sync.WaitGroup
		start = make(chan struct{})
		emu   sync.Mutex
		errs  []string
	)
	for i := 0; i < g; i++ {
		wg.Add(1)
		go func(i int) {
			defer wg.Done()
			<-start
			if err := pc.call("Aggregate", func() error { return agg.Aggregate(ctx, duty, cins[i]) }); err != nil {
				emu.Lock()
				errs = append(errs, fmt.Sprintf("goroutine %d: %v", i, err))
				emu.Unlock()
			}
			alias.Scribble(cins[i])
		}(i)
	}
	close(start)
	wg.Wait()
	pc.r.Count("concurrent_probes", 1)
	pc.r.Count("concurrent_goroutines", int64(g))
	for _, e := range errs {
		pc.anomaly("concurrent-op-failed", e)
	}
	cinputs := map[string][]alias.Range{}
	for i := range cins {
		cinputs[fmt.Sprintf("input of goroutine %d", i)] = pc.reach(cins[i])
	}
	dels := f.snapshot()
	if len(dels) != pc.nsubs*g && len(errs) == 0 {
		pc.inconclusive("sigagg subscribers got %d deliveries from %d concurrent calls", len(dels), g)
	}
	pc.checkFan(f, dels, cinputs, expect, "after the concurrent phase")
	pc.phases++
}

// parsigdbFailedHandover: StoreInternal/StoreExternal calls that return an error (a subscriber
// fails), drop their input (expired duty) or get a dead context; the caller scribbles its set after
// every call. The threshold output that a later share triggers, and a re-store of the pristine
// shares, must still see exactly what was handed in. (Both calls run on the caller's goroutine, so
// they cannot return while a dependency holds them: there is no early-return window here.)
func parsigdbFailedHandover(pc *probe, ctx context.Context, duty core.Duty, meta parsigdb.MemDBMetadata, threshold int,
	sets []core.ParSignedDataSet, expectThr func(*delivery) string,
) {
	dl := newDeadliner()
	db := parsigdb.NewMemDB(threshold, dl, meta)
	thrF := &fan{pc: pc, name: "threshold fan-out", mutator: -1}
	subErr := errors.New("harness: subscriber failed")
	db.SubscribeInternal(func(context.Context, core.Duty, core.ParSignedDataSet) error { return subErr })
	db.SubscribeThreshold(func(_ context.Context, _ core.Duty, set map[core.PubKey][]core.ParSignedData) error {
		thrF.recv(0, set)
		return subErr
	})
	variant := []string{"internal-subscriber-error", "duty-expired", "cancelled-before"}[pc.rng.Intn(3)]
	pc.r.Count("failed_handover_probes:parsigdb/"+variant, 1)
	pc.r.Count("failed_handover_probes", 1)
	inputs := map[string][]alias.Range{}
	handIn := func(name string, set core.ParSignedDataSet, call func(in core.ParSignedDataSet) error) error {
		in, _ := pc.fresh(set).(core.ParSignedDataSet)
		err := pc.call(name, func() error { return call(in) })
		inputs[name] = pc.reach(in)
		pc.scribble(in)

		return err
	}
	dead, cancel := context.WithCancel(ctx)
	cancel()
	switch variant {
	case "internal-subscriber-error":
		if err := handIn("StoreInternal whose subscriber fails", sets[0], func(in core.ParSignedDataSet) error { return db.StoreInternal(ctx, duty, in) }); err == nil {
			pc.anomaly("error-swallowed", "StoreInternal returned nil although its subscriber failed")
		}
	case "duty-expired":
		dl.armExpired()
		_ = handIn("StoreExternal of an expired duty", sets[0], func(in core.ParSignedDataSet) error { return db.StoreExternal(ctx, duty, in) })
		_ = handIn("StoreExternal of share 1", sets[0], func(in core.ParSignedDataSet) error { return db.StoreExternal(ctx, duty, in) })
	default:
		_ = handIn("StoreExternal with a cancelled context", sets[0], func(in core.ParSignedDataSet) error { return db.StoreExternal(dead, duty, in) })
	}
	_ = handIn("StoreExternal of share 2", sets[1], func(in core.ParSignedDataSet) error { return db.StoreExternal(ctx, duty, in) })
	err3 := handIn("StoreExternal of share 3 whose threshold subscriber fails", sets[2], func(in core.ParSignedDataSet) error { return db.StoreExternal(ctx, duty, in) })
	dels := thrF.snapshot()
	if len(dels) != 1 {
		pc.inconclusive("failed hand-over (%s): %d threshold deliveries, want 1 (last error %v)", variant, len(dels), err3)
		return
	}
	pc.checkFan(thrF, dels, inputs, expectThr, "after failed / cancelled hand-overs ("+variant+") whose inputs were scribbled")
	for i := 0; i < threshold; i++ {
		in, _ := pc.fresh(sets[i]).(core.ParSignedDataSet)
		if err := pc.call("re-store", func() error { return db.StoreExternal(ctx, duty, in) }); err != nil {
			pc.anomaly("store-kept-mutated-object", fmt.Sprintf("storing pristine share %d again after failed hand-overs (%s) failed: %v", i+1, variant, err))
		}
	}
	pc.phases++
}
