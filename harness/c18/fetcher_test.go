package c18

import (
	"context"
	"encoding/hex"
	"fmt"
	"sync"
	"time"

	eth2api "github.com/attestantio/go-eth2-client/api"
	eth2v1 "github.com/attestantio/go-eth2-client/api/v1"
	eth2spec "github.com/attestantio/go-eth2-client/spec"
	"github.com/attestantio/go-eth2-client/spec/altair"
	eth2p0 "github.com/attestantio/go-eth2-client/spec/phase0"

	"github.com/obolnetwork/charon/core"
	"github.com/obolnetwork/charon/core/fetcher"
	"github.com/obolnetwork/charon/testutil/beaconmock"

	"verifharness/c18/alias"
)

var (
	bmockOnce sync.Once
	bmockVal  beaconmock.Mock
	bmockErr  error
	genesis   = time.Date(2022, 3, 1, 0, 0, 0, 0, time.UTC)
)

// sharedMock is one beacon-node mock (loopback HTTP server for the static endpoints) for the whole
// run; probes copy the struct and override the function fields they need.
func sharedMock() (beaconmock.Mock, error) {
	bmockOnce.Do(func() {
		bmockVal, bmockErr = beaconmock.New(context.Background(),
			beaconmock.WithValidatorSet(beaconmock.ValidatorSetA),
			beaconmock.WithGenesisTime(genesis),
		)
	})

	return bmockVal, bmockErr
}

// bnLog records the objects the harness (as beacon node / upstream store) handed to a component.
type bnLog struct {
	mu   sync.Mutex
	objs []any
}

func (l *bnLog) hand(v any) any {
	cp := alias.DeepCopy(v)
	l.mu.Lock()
	l.objs = append(l.objs, cp)
	l.mu.Unlock()

	return cp
}

func (l *bnLog) take() []any {
	l.mu.Lock()
	defer l.mu.Unlock()
	out := l.objs
	l.objs = nil

	return out
}

// a selection proof that makes its validator a sync-committee aggregator under the mainnet preset
// (taken from core/fetcher/fetcher_test.go).
const syncAggregatorProof = "a9dbd88a49a7269e91b8ef1296f1e07f87fed919d51a446b67122bfdfd61d23f3f929fc1cd5209bd6862fd60f739b27213fb0a8d339f7f081fc84281f554b190bb49cc97a6b3364e622af9e7ca96a97fe2b766f9e746dead0b33b58473d91562"

func fetcherSpecs() []spec {
	var out []spec
	add := func(op, lbl string, run func(pc *probe)) {
		out = append(out, spec{Comp: "fetcher", Op: op, Label: lbl, run: run})
	}
	add("fetch->subscribers", "AttestationData", func(pc *probe) { fetchAttester(pc, false) })
	add("fetchonly+fetch->subscribers", "AttestationData", func(pc *probe) { fetchAttester(pc, true) })
	for _, k := range unsignedKinds {
		k := k
		switch k.Duty {
		case core.DutyProposer:
			for _, ver := range k.Versions {
				ver := ver
				add("fetch->subscribers", label(k.Name, k.Versions, ver), func(pc *probe) { fetchProposer(pc, k, ver) })
			}
		case core.DutyAggregator:
			for _, ver := range k.Versions {
				ver := ver
				add("fetch->subscribers", label(k.Name, k.Versions, ver), func(pc *probe) { fetchAggregator(pc, k, ver) })
			}
		}
	}
	add("fetch->subscribers", "SyncContribution", func(pc *probe) { fetchContribution(pc, false) })
	add("fetch->subscribers", "SyncContributions", func(pc *probe) { fetchContribution(pc, true) })

	return out
}

// fetchRig is one fetcher with two subscribers and its harness-side dependencies.
type fetchRig struct {
	f    *fetcher.Fetcher
	fan  *fan
	bn   *bnLog
	duty core.Duty
}

// runFetch drives a fetch boundary: defSet is the caller's input, want the expected delivered set.
func (pc *probe) runFetch(defSet core.DutyDefinitionSet, want string, mk func(concurrent bool) (*fetchRig, error), early func(rig *fetchRig, ctx context.Context, in core.DutyDefinitionSet) error) {
	ctx, cancel := context.WithTimeout(context.Background(), watchdog)
	defer cancel()
	expect := func(*delivery) string { return want }
	pc.hashParts = append(pc.hashParts, alias.Digest(defSet), want)

	rig, err := mk(false)
	if err != nil {
		pc.inconclusive("fetcher setup: %v", err)
		return
	}
	inputs := map[string][]alias.Range{}
	for round := 1; round <= 2; round++ {
		in, _ := pc.fresh(defSet).(core.DutyDefinitionSet)
		if early != nil {
			early1, _ := pc.fresh(defSet).(core.DutyDefinitionSet)
			if err := pc.call("FetchOnly", func() error { return early(rig, ctx, early1) }); err != nil {
				pc.inconclusive("FetchOnly failed: %v", err)
				return
			}
			inputs[fmt.Sprintf("FetchOnly definitions (call %d)", round)] = pc.reach(early1)
			pc.scribble(early1)
			// The beacon node's response objects of the early fetch are NOT scribbled here: the early
			// cache keeps pointers into them (Source/Target checkpoints) until Fetch consumes it. That
			// intake from the eth2 client is not one of the boundaries the property names; it is
			// measured separately below as information (info_fetchonly_cache_aliases_beacon_response).
			for i, o := range rig.bn.take() {
				inputs[fmt.Sprintf("beacon-node/upstream object %d of early fetch %d", i, round)] = pc.reach(o)
			}
		}
		if err := pc.call("Fetch", func() error { return rig.f.Fetch(ctx, rig.duty, in) }); err != nil {
			if round == 1 {
				pc.inconclusive("Fetch of generated duty failed: %v", err)
				return
			}
			pc.anomaly("restore-rejected", fmt.Sprintf("second Fetch failed: %v", err))
		}
		inputs[fmt.Sprintf("caller's definitions (call %d)", round)] = pc.reach(in)
		objs := rig.bn.take()
		for i, o := range objs {
			inputs[fmt.Sprintf("beacon-node/upstream object %d of call %d", i, round)] = pc.reach(o)
		}
		if n := len(rig.fan.snapshot()); n != pc.nsubs*round {
			pc.inconclusive("fetcher subscribers got %d deliveries after call %d", n, round)
			return
		}
		pc.checkFan(rig.fan, rig.fan.snapshot(), inputs, expect, fmt.Sprintf("after Fetch call %d returned", round))
		pc.scribble(in)
		for _, o := range objs {
			pc.scribble(o)
		}
		pc.checkFan(rig.fan, rig.fan.snapshot(), inputs, expect, fmt.Sprintf("after the caller and the beacon node scribbled the objects of call %d", round))
		pc.phases++
	}
	if early != nil {
		// information only: does the early-fetch cache reference the beacon client's response objects?
		if irig, err := mk(false); err == nil {
			e, _ := alias.DeepCopy(defSet).(core.DutyDefinitionSet)
			in, _ := alias.DeepCopy(defSet).(core.DutyDefinitionSet)
			if err := pc.call("FetchOnly", func() error { return early(irig, ctx, e) }); err == nil {
				for _, o := range irig.bn.take() {
					alias.Scribble(o)
				}
				_ = pc.call("Fetch", func() error { return irig.f.Fetch(ctx, irig.duty, in) })
				for _, d := range irig.fan.snapshot() {
					if !d.owner && fp(d.v) != want {
						pc.r.Count("info_fetchonly_cache_aliases_beacon_response", 1)
						break
					}
				}
			}
		}
	}
	if pc.aliasingEstablished() {
		return
	}

	// concurrent: several triggers of the same duty at once
	rig, err = mk(true)
	if err != nil {
		pc.inconclusive("fetcher setup: %v", err)
		return
	}
	g := 4 + pc.rng.Intn(5)
	pc.hashParts = append(pc.hashParts, g)
	cins := make([]core.DutyDefinitionSet, g)
	for i := range cins {
		cins[i], _ = pc.fresh(defSet).(core.DutyDefinitionSet)
	}
	var (
		wg    sync.WaitGroup
		start = make(chan struct{})
		emu   sync.Mutex
		errs  []string
	)
	for i := 0; i < g; i++ {
		wg.Add(1)
		go func(i int) {
			defer wg.Done()
			<-start
			if early != nil && i%2 == 1 {
				e, _ := alias.DeepCopy(cins[i]).(core.DutyDefinitionSet)
				_ = pc.call("FetchOnly", func() error { return early(rig, ctx, e) })
			}
			if err := pc.call("Fetch", func() error { return rig.f.Fetch(ctx, rig.duty, cins[i]) }); err != nil {
				emu.Lock()
				errs = append(errs, fmt.Sprintf("goroutine %d: %v", i, err))
				emu.Unlock()
			}
			alias.Scribble(cins[i])
		}(i)
	}
	close(start)
	wg.Wait()
	pc.r.Count("concurrent_probes", 1)
	pc.r.Count("concurrent_goroutines", int64(g))
	for _, e := range errs {
		pc.anomaly("concurrent-op-failed", e)
	}
	cinputs := map[string][]alias.Range{}
	for i := range cins {
		cinputs[fmt.Sprintf("definitions of goroutine %d", i)] = pc.reach(cins[i])
	}
	for i, o := range rig.bn.take() {
		cinputs[fmt.Sprintf("beacon-node/upstream object %d", i)] = pc.reach(o)
	}
	dels := rig.fan.snapshot()
	if len(dels) != pc.nsubs*g && len(errs) == 0 {
		pc.inconclusive("fetcher subscribers got %d deliveries from %d concurrent fetches", len(dels), g)
	}
	pc.checkFan(rig.fan, dels, cinputs, expect, "after the concurrent phase")
	pc.phases++
}

func newFetchRig(pc *probe, bm beaconmock.Mock, duty core.Duty, concurrent bool, bn *bnLog) (*fetchRig, error) {
	f, err := fetcher.New(bm, func(core.PubKey) string { return "0x0000000000000000000000000000000000000000" }, true, &fetcher.GraffitiBuilder{}, 0, false)
	if err != nil {
		return nil, err
	}
	fn := &fan{pc: pc, name: "fetcher fan-out", mutator: pc.rng.Intn(pc.nsubs), concurrent: concurrent}
	for s := 0; s < pc.nsubs; s++ {
		s := s
		f.Subscribe(func(_ context.Context, _ core.Duty, set core.UnsignedDataSet) error {
			fn.recv(s, set)
			return nil
		})
	}

	return &fetchRig{f: f, fan: fn, bn: bn, duty: duty}, nil
}

func fetchAttester(pc *probe, early bool) {
	bm, err := sharedMock()
	if err != nil {
		pc.inconclusive("beacon mock: %v", err)
		return
	}
	var tmpl core.AttestationData
	fuzzInto(pc.t(), pc.seed, &tmpl)
	slot := uint64(tmpl.Data.Slot)
	duty := core.NewAttesterDuty(slot)
	// two validators in one committee, one in another
	pks := []core.PubKey{pubkey(pc.seed), pubkey(pc.seed + 1), pubkey(pc.seed + 2)}
	defSet := core.DutyDefinitionSet{}
	expSet := core.UnsignedDataSet{}
	dataFor := map[eth2p0.CommitteeIndex]*eth2p0.AttestationData{}
	for i, pk := range pks {
		d := tmpl.Duty
		d.Slot = eth2p0.Slot(slot)
		d.ValidatorIndex = eth2p0.ValidatorIndex(10 + i)
		d.CommitteeIndex = eth2p0.CommitteeIndex(100 + i/2)
		defSet[pk] = core.NewAttesterDefinition(&d)
		if dataFor[d.CommitteeIndex] == nil {
			data, _ := alias.DeepCopy(&tmpl.Data).(*eth2p0.AttestationData)
			data.Index = d.CommitteeIndex
			dataFor[d.CommitteeIndex] = data
		}
		expSet[pk] = core.AttestationData{Data: *dataFor[d.CommitteeIndex], Duty: d}
	}
	mk := func(concurrent bool) (*fetchRig, error) {
		bn := &bnLog{}
		m := bm
		m.AttestationDataFunc = func(_ context.Context, _ eth2p0.Slot, idx eth2p0.CommitteeIndex) (*eth2p0.AttestationData, error) {
			data, _ := bn.hand(dataFor[idx]).(*eth2p0.AttestationData)
			return data, nil
		}

		return newFetchRig(pc, m, duty, concurrent, bn)
	}
	var earlyFn func(rig *fetchRig, ctx context.Context, in core.DutyDefinitionSet) error
	if early {
		earlyFn = func(rig *fetchRig, ctx context.Context, in core.DutyDefinitionSet) error {
			return rig.f.FetchOnly(ctx, rig.duty, in, "http://bn", tmpl.Data.BeaconBlockRoot)
		}
	}
	pc.runFetch(defSet, fp(expSet), mk, earlyFn)
}

func fetchProposer(pc *probe, k unsignedKind, ver eth2spec.DataVersion) {
	bm, err := sharedMock()
	if err != nil {
		pc.inconclusive("beacon mock: %v", err)
		return
	}
	prop, _ := k.gen(pc.t(), pc.seed, ver).(core.VersionedProposal)
	s, err := prop.Slot()
	if err != nil {
		pc.inconclusive("proposal slot: %v", err)
		return
	}
	slot := uint64(s)
	duty := core.NewProposerDuty(slot)
	pk := pubkey(pc.seed)
	defSet := core.DutyDefinitionSet{pk: core.NewProposerDefinition(&eth2v1.ProposerDuty{Slot: s, ValidatorIndex: 7})}
	var randao core.SignedRandao
	fuzzInto(pc.t(), pc.seed+5, &randao)
	mk := func(concurrent bool) (*fetchRig, error) {
		bn := &bnLog{}
		m := bm
		m.ProposalFunc = func(context.Context, *eth2api.ProposalOpts) (*eth2api.VersionedProposal, error) {
			p, _ := bn.hand(&prop.VersionedProposal).(*eth2api.VersionedProposal)
			return p, nil
		}
		rig, err := newFetchRig(pc, m, duty, concurrent, bn)
		if err != nil {
			return nil, err
		}
		rig.f.RegisterAggSigDB(func(context.Context, core.Duty, core.PubKey, core.SubcommitteeIndex) (core.SignedData, error) {
			sd, _ := bn.hand(randao).(core.SignedData)
			return sd, nil
		})

		return rig, nil
	}
	pc.runFetch(defSet, fp(core.UnsignedDataSet{pk: prop}), mk, nil)
}

func fetchAggregator(pc *probe, k unsignedKind, ver eth2spec.DataVersion) {
	bm, err := sharedMock()
	if err != nil {
		pc.inconclusive("beacon mock: %v", err)
		return
	}
	agg, _ := k.gen(pc.t(), pc.seed, ver).(core.VersionedAggregatedAttestation)
	data, err := agg.Data()
	if err != nil {
		pc.inconclusive("aggregate data: %v", err)
		return
	}
	slot := uint64(data.Slot)
	duty := core.NewAggregatorDuty(slot)
	// two aggregators of the same committee: the fetcher hands both the same beacon-node object
	pks := []core.PubKey{pubkey(pc.seed), pubkey(pc.seed + 1)}
	defSet := core.DutyDefinitionSet{}
	expSet := core.UnsignedDataSet{}
	for i, pk := range pks {
		defSet[pk] = core.NewAttesterDefinition(&eth2v1.AttesterDuty{
			Slot: data.Slot, ValidatorIndex: eth2p0.ValidatorIndex(20 + i), CommitteeIndex: 9, CommitteeLength: 0, CommitteesAtSlot: 16,
		})
		expSet[pk] = agg
	}
	var sel core.BeaconCommitteeSelection
	fuzzInto(pc.t(), pc.seed+5, &sel)
	mk := func(concurrent bool) (*fetchRig, error) {
		bn := &bnLog{}
		m := bm
		m.AggregateAttestationFunc = func(context.Context, eth2p0.Slot, eth2p0.Root) (*eth2spec.VersionedAttestation, error) {
			a, _ := bn.hand(&agg.VersionedAttestation).(*eth2spec.VersionedAttestation)
			return a, nil
		}
		rig, err := newFetchRig(pc, m, duty, concurrent, bn)
		if err != nil {
			return nil, err
		}
		rig.f.RegisterAggSigDB(func(context.Context, core.Duty, core.PubKey, core.SubcommitteeIndex) (core.SignedData, error) {
			sd, _ := bn.hand(sel).(core.SignedData)
			return sd, nil
		})
		rig.f.RegisterAwaitAttData(func(context.Context, uint64, uint64) (*eth2p0.AttestationData, error) {
			d, _ := bn.hand(data).(*eth2p0.AttestationData)
			return d, nil
		})

		return rig, nil
	}
	pc.runFetch(defSet, fp(expSet), mk, nil)
}

func fetchContribution(pc *probe, plural bool) {
	bm, err := sharedMock()
	if err != nil {
		pc.inconclusive("beacon mock: %v", err)
		return
	}
	proofBytes, _ := hex.DecodeString(syncAggregatorProof)
	var proof eth2p0.BLSSignature
	copy(proof[:], proofBytes)

	var tmpl altair.SyncCommitteeContribution
	fuzzInto(pc.t(), pc.seed, &tmpl)
	slot := uint64(tmpl.Slot)
	duty := core.NewSyncContributionDuty(slot)
	var msg core.SignedSyncMessage
	fuzzInto(pc.t(), pc.seed+3, &msg)
	msg.BeaconBlockRoot = tmpl.BeaconBlockRoot

	// validator A sits in subcommittees 0 and 1, validator B in subcommittee 1 (shares that contribution)
	pks := []core.PubKey{pubkey(pc.seed), pubkey(pc.seed + 1)}
	positions := [][]eth2p0.CommitteeIndex{{3, 130}, {140}}
	contribFor := func(sub uint64) *altair.SyncCommitteeContribution {
		c, _ := alias.DeepCopy(&tmpl).(*altair.SyncCommitteeContribution)
		c.SubcommitteeIndex = sub
		c.Signature[0] ^= byte(sub + 1)
		return c
	}
	defSet := core.DutyDefinitionSet{}
	expSet := core.UnsignedDataSet{}
	for i, pk := range pks {
		defSet[pk] = core.NewSyncCommitteeDefinition(&eth2v1.SyncCommitteeDuty{
			ValidatorIndex: eth2p0.ValidatorIndex(30 + i), ValidatorSyncCommitteeIndices: positions[i],
		})
		var list core.SyncContributions
		for _, pos := range positions[i] {
			list = append(list, core.SyncContribution{SyncCommitteeContribution: *contribFor(uint64(pos) / 128)})
		}
		if plural {
			expSet[pk] = list
		} else {
			expSet[pk] = list[0]
		}
	}
	mk := func(concurrent bool) (*fetchRig, error) {
		bn := &bnLog{}
		m := bm
		m.SyncCommitteeContributionFunc = func(_ context.Context, _ eth2p0.Slot, sub uint64, _ eth2p0.Root) (*altair.SyncCommitteeContribution, error) {
			c, _ := bn.hand(contribFor(sub)).(*altair.SyncCommitteeContribution)
			return c, nil
		}
		rig, err := newFetchRig(pc, m, duty, concurrent, bn)
		if err != nil {
			return nil, err
		}
		rig.f.RegisterSyncContributionV2(func(uint64) bool { return plural })
		rig.f.RegisterAggSigDB(func(_ context.Context, d core.Duty, _ core.PubKey, sub core.SubcommitteeIndex) (core.SignedData, error) {
			if d.Type == core.DutySyncMessage {
				sd, _ := bn.hand(msg).(core.SignedData)
				return sd, nil
			}
			sel := core.NewSyncCommitteeSelection(&eth2v1.SyncCommitteeSelection{
				ValidatorIndex: 1, Slot: eth2p0.Slot(slot), SubcommitteeIndex: uint64(sub), SelectionProof: proof,
			})
			sd, _ := bn.hand(sel).(core.SignedData)

			return sd, nil
		})

		return rig, nil
	}
	pc.runFetch(defSet, fp(expSet), mk, nil)
}
