package c18

import (
	"context"
	"fmt"
	"sync/atomic"
	"time"

	"verifharness/kit"
)

// Phase (f): "a mutation after handing an object to a store never changes what later queries
// observe" must also hold when the hand-over call FAILED or was CANCELLED. Variants (PRNG-chosen):
//
//	cancelled-before      Store is called with an already cancelled context
//	expired-before        Store is called with a context whose deadline has passed
//	cancelled-mid-store   the harness-supplied deadliner holds the store inside deadliner.Add (the
//	                      gate reports that Add was entered, and by which goroutine); then the
//	                      context is cancelled. If the store can return early (Add runs on another
//	                      goroutine than the Store call, as in the channel-based aggsigdb.MemDB) the
//	                      caller scribbles its object while the gate is still closed; otherwise the
//	                      call cannot return before the gate opens and the scribble follows the return
//	duty-expired          the deadliner reports the duty as expired: the store refuses / drops it
//
// Afterwards the caller scribbles its whole object, the gate is opened, an identical pristine value is
// stored with a healthy context, and the key is read back: the store must hold either nothing from
// the failed hand-over or exactly the pristine content — the second store must not clash and the
// read must equal the original, and share no memory with the scribbled object.
func (pc *probe) runStoreCancelled(orig any, want string, mk func() storeOps) {
	ops := mk()
	if ops.store == nil {
		return
	}
	defer ops.close()
	if ops.dl == nil {
		return
	}
	bg, cancelBg := context.WithTimeout(context.Background(), watchdog)
	defer cancelBg()

	variant := []string{"cancelled-before", "expired-before", "cancelled-mid-store", "cancelled-mid-store", "duty-expired"}[pc.rng.Intn(5)]
	pc.hashParts = append(pc.hashParts, "cancelled", variant)
	pc.r.Count("failed_handover_probes:"+variant, 1)
	in := pc.fresh(orig)
	rin := pc.reach(in)
	var storeErr error

	switch variant {
	case "cancelled-before", "expired-before":
		ctx, cancel := context.WithCancel(bg)
		if variant == "expired-before" {
			cancel()
			ctx, cancel = context.WithDeadline(bg, time.Unix(1, 0))
		}
		cancel()
		storeErr = pc.call("store with a dead context", func() error { return ops.store(ctx, in) })
		pc.scribble(in)
	case "duty-expired":
		ops.dl.armExpired()
		storeErr = pc.call("store of an expired duty", func() error { return ops.store(bg, in) })
		pc.scribble(in)
	default:
		entered, release := ops.dl.armBlock()
		defer release()
		ctx, cancel := context.WithCancel(bg)
		defer cancel()
		var (
			returned atomic.Bool
			done     = make(chan struct{})
			callerID = make(chan int, 1)
		)
		go func() {
			defer close(done)
			callerID <- goid()
			storeErr = pc.call("store held mid-operation", func() error { return ops.store(ctx, in) })
			returned.Store(true)
		}()
		caller := <-callerID
		var inAdd int
		select {
		case inAdd = <-entered: // the store is inside deadliner.Add now, holding what it was handed
		case <-done:
			pc.inconclusive("store returned without consulting the deadliner: %v", storeErr)
			return
		case <-bg.Done():
			pc.inconclusive("failed hand-over: watchdog")
			return
		}
		cancel()
		if inAdd != caller {
			// Add runs on another goroutine: the cancelled Store call can come back while the store
			// still works on the command (pacing wait; it is not a verdict)
			kit.WaitUntil(20*time.Second, returned.Load)
		}
		if returned.Load() {
			// causally confirmed: Store returned, the gate is still closed, the store is mid-operation
			pc.r.Count("failed_handover_confirmed_returned_while_store_held", 1)
			pc.logf("Store returned %v while the store was held in deadliner.Add; caller scribbles its object", storeErr)
			pc.scribble(in)
			release()
			<-done
		} else {
			pc.r.Count("failed_handover_store_call_blocked_in_dependency", 1)
			release()
			select {
			case <-done:
			case <-bg.Done():
				pc.inconclusive("failed hand-over: store did not return after the gate opened")
				return
			}
			pc.scribble(in)
		}
	}
	pc.r.Count("failed_handover_probes", 1)
	pc.logf("hand-over variant %s returned %v; caller's object scribbled", variant, storeErr)

	// read back: identical pristine value, healthy context
	in2 := pc.fresh(orig)
	readCtx := bg
	if err := pc.call("store of the pristine value after the failed hand-over", func() error { return ops.store(bg, in2) }); err != nil {
		// already a finding; the key may now be absent, so do not let the read-back wait for the watchdog
		var cancelRead context.CancelFunc
		readCtx, cancelRead = context.WithTimeout(bg, 2*time.Second)
		defer cancelRead()
		pc.anomaly("store-kept-mutated-object", fmt.Sprintf("after a %s hand-over (Store returned: %v) and a scribble of the caller's object, storing the pristine value fails: %v", variant, storeErr, err))
	}
	rin2 := pc.reach(in2)
	pc.scribble(in2)
	for i := 1; i <= 2; i++ {
		var v any
		if err := pc.call("read back", func() error {
			var err error
			v, err = ops.read(readCtx)
			return err
		}); err != nil {
			if readCtx == bg {
				pc.anomaly("read-failed", fmt.Sprintf("read back after a %s hand-over: %v", variant, err))
			}

			break
		}
		pc.r.Count("reads", 1)
		rs := pc.reach(v)
		if !pc.sameContent(fmt.Sprintf("read back #%d after a %s hand-over (Store returned: %v) whose object the caller then scribbled", i, variant, storeErr), v, want) {
			pc.r.Count("failed_handover_mutation_visible", 1)
		}
		pc.noOverlap("result-aliases-caller-input", "caller's object of the failed hand-over", rin, fmt.Sprintf("read back #%d", i), rs, true)
		pc.noOverlap("result-aliases-caller-input", "caller's pristine object", rin2, fmt.Sprintf("read back #%d", i), rs, true)
	}
	pc.phases++
}
