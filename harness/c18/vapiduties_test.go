package c18

import (
	"context"
	"encoding/json"
	"fmt"
	"sync"
	"time"

	eth2api "github.com/attestantio/go-eth2-client/api"
	eth2p0 "github.com/attestantio/go-eth2-client/spec/phase0"

	"github.com/obolnetwork/charon/app/eth2wrap"
	"github.com/obolnetwork/charon/core"
	"github.com/obolnetwork/charon/core/validatorapi"
	"github.com/obolnetwork/charon/tbls"
	"github.com/obolnetwork/charon/testutil/beaconmock"
)

// Duty readers of the validator API over the production duties cache (seeded change C18-r7).
//
// validatorapi.AttesterDuties / ProposerDuties / SyncCommitteeDuties receive duty objects from a
// query (eth2Cl.*DutiesCache, wired to one eth2wrap.DutiesCache per node as app.go does) and
// post-process them IN PLACE (root public key -> this node's public share) before returning them to
// the validator client. The scheduler reads the same cache. Whatever the validator API or its caller
// does to a received object must not change what the next reader of the cache observes.

func vapiDutySpecs() []spec {
	var out []spec
	for _, kind := range []string{"attester", "proposer", "sync"} {
		kind := kind
		out = append(out, spec{Comp: "validatorapi", Op: kind + "-duties(duties-cache)", Label: "duties", run: func(pc *probe) { vapiReadDuties(pc, kind) }})
	}

	return out
}

func vapiReadDuties(pc *probe, kind string) {
	bm, err := dutiesMock()
	if err != nil {
		pc.inconclusive("beacon mock: %v", err)
		return
	}
	top := bm // copy of the Mock value
	cache := eth2wrap.NewDutiesCache(bm, []eth2p0.ValidatorIndex{})
	top.CachedProposerDutiesFunc = cache.ProposerDutiesCache
	top.CachedAttesterDutiesFunc = cache.AttesterDutiesCache
	top.CachedSyncCommDutiesFunc = cache.SyncCommDutiesCache

	// real (secure-constructor) component: public shares differ from the root keys, so the in-place
	// rewrite is a real mutation
	var idxs []eth2p0.ValidatorIndex
	shares := map[core.PubKey]map[int]tbls.PublicKey{}
	n := 0
	for idx, v := range beaconmock.ValidatorSetA {
		idxs = append(idxs, idx)
		var share tbls.PublicKey
		copy(share[:], pubkeyBytes(pc.seed+int64(n)))
		n++
		shares[core.PubKeyFrom48Bytes(v.Validator.PublicKey)] = map[int]tbls.PublicKey{shareIdx: share}
	}
	v, err := validatorapi.NewComponent(top, shares, shareIdx, func(core.PubKey) string { return "0x0000000000000000000000000000000000000000" }, false, 30000000)
	if err != nil {
		pc.inconclusive("validatorapi: %v", err)
		return
	}
	ctx, cancel := context.WithTimeout(context.Background(), 20*time.Second)
	defer cancel()
	epoch := eth2p0.Epoch(1 + pc.rng.Intn(6))

	viaVAPI := func() (any, error) {
		switch kind {
		case "attester":
			resp, err := v.AttesterDuties(ctx, &eth2api.AttesterDutiesOpts{Epoch: epoch, Indices: idxs})
			if err != nil {
				return nil, err
			}
			return resp.Data, nil
		case "proposer":
			resp, err := v.ProposerDuties(ctx, &eth2api.ProposerDutiesOpts{Epoch: epoch, Indices: idxs})
			if err != nil {
				return nil, err
			}
			return resp.Data, nil
		default:
			resp, err := v.SyncCommitteeDuties(ctx, &eth2api.SyncCommitteeDutiesOpts{Epoch: epoch, Indices: idxs})
			if err != nil {
				return nil, err
			}
			return resp.Data, nil
		}
	}
	viaCache := func() (any, error) { // what the scheduler (another reader of the same cache) gets
		switch kind {
		case "attester":
			d, err := top.AttesterDutiesCache(ctx, epoch, idxs)
			return d.Duties, err
		case "proposer":
			d, err := top.ProposerDutiesCache(ctx, epoch, idxs)
			return d.Duties, err
		default:
			d, err := top.SyncCommDutiesCache(ctx, epoch, idxs)
			return d.Duties, err
		}
	}
	js := func(x any) string { b, _ := json.Marshal(x); return string(b) }

	// reference answers before anybody mutated anything (first the cache reader: root keys)
	var sched0, vc0 any
	if pc.call("duties cache read", func() error { var e error; sched0, e = viaCache(); return e }) != nil {
		pc.inconclusive("duties cache read failed on a fresh cache")
		return
	}
	wantSched := js(sched0)
	if err := pc.call("validatorapi duties", func() error { var e error; vc0, e = viaVAPI(); return e }); err != nil {
		pc.anomaly("read-failed", fmt.Sprintf("first %s duties request through the validator API failed: %v", kind, err))
		return
	}
	wantVC := js(vc0)
	if wantVC == "null" || wantVC == "[]" {
		pc.r.Count("info_vapi_duties_empty_answer:"+kind, 1)
	} else {
		pc.r.Count("vapi_duties_nonempty_answers", 1)
	}
	pc.phases++
	rs0 := pc.reach(sched0)
	rv0 := pc.reach(vc0)
	pc.noOverlap("readers-share-memory", "duties-cache reader #1", rs0, "validator API answer #1", rv0, true)
	pc.phases++

	// the validator client and the first cache reader do what they like with their answers
	pc.scribble(vc0)
	pc.scribble(sched0)

	for round := 2; round <= 3; round++ {
		var sched, vc any
		if err := pc.call("duties cache read", func() error { var e error; sched, e = viaCache(); return e }); err != nil {
			pc.anomaly("read-failed", fmt.Sprintf("%s duties cache read #%d failed after earlier answers were mutated: %v", kind, round, err))
			return
		}
		if g := js(sched); g != wantSched {
			pc.anomaly("content-changed", fmt.Sprintf("%s duties cache read #%d: observed %s, first answer %s", kind, round, shortStr(g), shortStr(wantSched)))
		}
		pc.r.Count("content_checks", 1)
		if err := pc.call("validatorapi duties", func() error { var e error; vc, e = viaVAPI(); return e }); err != nil {
			pc.anomaly("read-failed", fmt.Sprintf("%s duties request #%d through the validator API failed after earlier answers were mutated: %v", kind, round, err))
			return
		}
		if g := js(vc); g != wantVC {
			pc.anomaly("content-changed", fmt.Sprintf("validator API %s duties answer #%d: observed %s, first answer %s", kind, round, shortStr(g), shortStr(wantVC)))
		}
		pc.r.Count("content_checks", 1)
		rs, rv := pc.reach(sched), pc.reach(vc)
		pc.noOverlap("readers-share-memory", "duties-cache reader #1", rs0, fmt.Sprintf("duties-cache reader #%d", round), rs, true)
		pc.noOverlap("readers-share-memory", "validator API answer #1", rv0, fmt.Sprintf("validator API answer #%d", round), rv, true)
		pc.noOverlap("readers-share-memory", fmt.Sprintf("duties-cache reader #%d", round), rs, fmt.Sprintf("validator API answer #%d", round), rv, true)
		pc.scribble(vc)
	}
	pc.hashParts = append(pc.hashParts, kind, uint64(epoch), wantVC)
	pc.r.Count("vapi_duties_over_cache_probes", 1)
}

var (
	dutiesMockOnce sync.Once
	dutiesMockVal  beaconmock.Mock
	dutiesMockErr  error
)

// dutiesMock is a beacon mock that assigns attester, proposer and sync committee duties to
// every validator of the set.
func dutiesMock() (beaconmock.Mock, error) {
	dutiesMockOnce.Do(func() {
		dutiesMockVal, dutiesMockErr = beaconmock.New(context.Background(),
			beaconmock.WithValidatorSet(beaconmock.ValidatorSetA),
			beaconmock.WithGenesisTime(genesis),
			beaconmock.WithDeterministicAttesterDuties(0),
			beaconmock.WithDeterministicProposerDuties(0),
			beaconmock.WithDeterministicSyncCommDuties(2, 8),
		)
	})

	return dutiesMockVal, dutiesMockErr
}

func shortStr(s string) string {
	if len(s) > 140 {
		return s[:140] + "…"
	}

	return s
}

func pubkeyBytes(seed int64) []byte {
	pk := pubkey(seed)
	b, _ := pk.Bytes()

	return b
}
