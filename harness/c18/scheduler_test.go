package c18

import (
	"context"
	"fmt"
	"sync"
	"time"

	eth2api "github.com/attestantio/go-eth2-client/api"
	eth2v1 "github.com/attestantio/go-eth2-client/api/v1"
	eth2p0 "github.com/attestantio/go-eth2-client/spec/phase0"
	"github.com/jonboulle/clockwork"

	"github.com/obolnetwork/charon/app/eth2wrap"
	"github.com/obolnetwork/charon/core"
	"github.com/obolnetwork/charon/core/scheduler"
	"github.com/obolnetwork/charon/testutil/beaconmock"

	"verifharness/c18/alias"
	"verifharness/kit"
)

func schedulerSpecs() []spec {
	return []spec{
		{Comp: "scheduler", Op: "duty-fan-out+get-duty-definition", Label: "AttesterDefinition+ProposerDefinition+SyncCommitteeDefinition", run: schedulerProbe},
	}
}

type noRegs struct{}

func (noRegs) Registrations() []*eth2api.VersionedSignedValidatorRegistration { return nil }

// dutyFan is a fan whose deliveries are grouped by duty.
type dutyFan struct {
	*fan
	dmu    sync.Mutex
	byDuty map[core.Duty][]*delivery
}

func (f *dutyFan) recv(sub int, duty core.Duty, set core.DutyDefinitionSet) {
	d := f.fan.recv(sub, set)
	f.dmu.Lock()
	f.byDuty[duty] = append(f.byDuty[duty], d)
	f.dmu.Unlock()
}

// count is the number of deliveries fully recorded (grouped by duty).
func (f *dutyFan) count() int {
	f.dmu.Lock()
	defer f.dmu.Unlock()
	n := 0
	for _, l := range f.byDuty {
		n += len(l)
	}

	return n
}

func (f *dutyFan) of(duty core.Duty) []*delivery {
	f.dmu.Lock()
	defer f.dmu.Unlock()

	return append([]*delivery(nil), f.byDuty[duty]...)
}

func schedulerProbe(pc *probe) {
	bm, err := sharedMock()
	if err != nil {
		pc.inconclusive("beacon mock: %v", err)
		return
	}
	const slotsPerEpoch = 16
	slotDuration := 12 * time.Second
	pubkeys := map[eth2p0.ValidatorIndex]eth2p0.BLSPubKey{}
	for idx, v := range beaconmock.ValidatorSetA {
		pubkeys[idx] = v.Validator.PublicKey
	}
	rnd := uint64(pc.seed)
	next := func(n int64) int64 {
		rnd = rnd*6364136223846793005 + 1442695040888963407
		return int64((rnd >> 33) % uint64(n))
	}

	// the harness is the beacon node: duties of one epoch, spread over its first two slots
	expected := map[core.Duty]core.DutyDefinitionSet{}
	put := func(d core.Duty, pk core.PubKey, def core.DutyDefinition) {
		if expected[d] == nil {
			expected[d] = core.DutyDefinitionSet{}
		}
		expected[d][pk] = def
	}
	attFor := func(epoch eth2p0.Epoch) []*eth2v1.AttesterDuty {
		var out []*eth2v1.AttesterDuty
		for _, idx := range []eth2p0.ValidatorIndex{1, 2, 3} {
			out = append(out, &eth2v1.AttesterDuty{
				PubKey: pubkeys[idx], Slot: eth2p0.Slot(uint64(epoch)*slotsPerEpoch + uint64(idx)/3), ValidatorIndex: idx,
				CommitteeIndex: eth2p0.CommitteeIndex(40 + idx), CommitteeLength: 128, CommitteesAtSlot: 4, ValidatorCommitteeIndex: uint64(idx) * 3,
			})
		}

		return out
	}
	proFor := func(epoch eth2p0.Epoch) []*eth2v1.ProposerDuty {
		return []*eth2v1.ProposerDuty{
			{PubKey: pubkeys[1], Slot: eth2p0.Slot(uint64(epoch) * slotsPerEpoch), ValidatorIndex: 1},
			{PubKey: pubkeys[2], Slot: eth2p0.Slot(uint64(epoch)*slotsPerEpoch + 1), ValidatorIndex: 2},
		}
	}
	syncIdx := map[eth2p0.ValidatorIndex][]eth2p0.CommitteeIndex{}
	for _, idx := range []eth2p0.ValidatorIndex{1, 2, 3} {
		for j, n := int64(0), 1+next(3); j < n; j++ { // 1–3 sync committee positions per validator
			syncIdx[idx] = append(syncIdx[idx], eth2p0.CommitteeIndex(next(512)))
		}
	}
	syncFor := func(eth2p0.Epoch) []*eth2v1.SyncCommitteeDuty {
		var out []*eth2v1.SyncCommitteeDuty
		for _, idx := range []eth2p0.ValidatorIndex{1, 2, 3} {
			out = append(out, &eth2v1.SyncCommitteeDuty{PubKey: pubkeys[idx], ValidatorIndex: idx,
				ValidatorSyncCommitteeIndices: append([]eth2p0.CommitteeIndex(nil), syncIdx[idx]...)})
		}

		return out
	}
	for _, d := range attFor(0) {
		pk := core.PubKeyFrom48Bytes(d.PubKey)
		put(core.NewAttesterDuty(uint64(d.Slot)), pk, core.NewAttesterDefinition(d))
		put(core.NewAggregatorDuty(uint64(d.Slot)), pk, core.NewAttesterDefinition(d))
	}
	for _, d := range proFor(0) {
		put(core.NewProposerDuty(uint64(d.Slot)), core.PubKeyFrom48Bytes(d.PubKey), core.NewProposerDefinition(d))
	}
	for _, d := range syncFor(0) {
		for s := uint64(0); s < slotsPerEpoch; s++ {
			put(core.NewSyncContributionDuty(s), core.PubKeyFrom48Bytes(d.PubKey), core.NewSyncCommitteeDefinition(d))
		}
	}
	pc.hashParts = append(pc.hashParts, alias.Digest(expected[core.NewSyncContributionDuty(0)]))

	m := bm
	m.CachedAttesterDutiesFunc = func(_ context.Context, e eth2p0.Epoch, _ []eth2p0.ValidatorIndex) (eth2wrap.AttesterDutyWithMeta, error) {
		return eth2wrap.AttesterDutyWithMeta{Duties: attFor(e)}, nil
	}
	m.CachedProposerDutiesFunc = func(_ context.Context, e eth2p0.Epoch, _ []eth2p0.ValidatorIndex) (eth2wrap.ProposerDutyWithMeta, error) {
		return eth2wrap.ProposerDutyWithMeta{Duties: proFor(e)}, nil
	}
	m.CachedSyncCommDutiesFunc = func(_ context.Context, e eth2p0.Epoch, _ []eth2p0.ValidatorIndex) (eth2wrap.SyncDutyWithMeta, error) {
		return eth2wrap.SyncDutyWithMeta{Duties: syncFor(e)}, nil
	}

	clock := clockwork.NewFakeClockAt(genesis)
	immediate := func(_ core.Duty, deadline time.Time) <-chan time.Time {
		ch := make(chan time.Time, 1)
		ch <- deadline
		return ch
	}
	sched := scheduler.NewForT(pc.t(), clock, immediate, noRegs{}, m, nil, false)
	df := &dutyFan{fan: &fan{pc: pc, name: "scheduler fan-out", mutator: pc.rng.Intn(pc.nsubs), concurrent: true}, byDuty: map[core.Duty][]*delivery{}}
	for s := 0; s < pc.nsubs; s++ {
		s := s
		sched.SubscribeDuties(func(_ context.Context, duty core.Duty, set core.DutyDefinitionSet) error {
			df.recv(s, duty, set)
			return nil
		})
	}
	runDone := make(chan error, 1)
	go func() {
		defer func() {
			if p := recover(); p != nil {
				pc.anomaly("panic", fmt.Sprintf("scheduler.Run panicked: %v", p))
				runDone <- nil
			}
		}()
		runDone <- sched.Run()
	}()
	defer func() {
		sched.Stop()
		select {
		case <-runDone:
		case <-time.After(watchdog):
			pc.inconclusive("scheduler did not stop")
		}
	}()

	ctx, cancel := context.WithTimeout(context.Background(), watchdog)
	defer cancel()
	slotDuties := func(slot uint64) []core.Duty {
		return []core.Duty{core.NewAttesterDuty(slot), core.NewAggregatorDuty(slot), core.NewProposerDuty(slot), core.NewSyncContributionDuty(slot)}
	}
	waitDeliveries := func(n int, what string) bool {
		if !kit.WaitUntil(watchdog, func() bool { return df.count() >= n }) {
			df.dmu.Lock()
			var got []string
			for d, l := range df.byDuty {
				got = append(got, fmt.Sprintf("%v x%d", d, len(l)))
			}
			df.dmu.Unlock()
			pc.inconclusive("scheduler delivered %d of %d expected duty triggers (%s): %v", df.count(), n, what, got)
			return false
		}

		return true
	}
	inputs := map[string][]alias.Range{}
	checkSlot := func(slot uint64, when string) {
		for _, duty := range slotDuties(slot) {
			dels := df.of(duty)
			if len(dels) != pc.nsubs {
				pc.inconclusive("duty %v: %d deliveries, want %d", duty, len(dels), pc.nsubs)
				continue
			}
			want := fp(expected[duty])
			pc.checkFan(df.fan, dels, inputs, func(*delivery) string { return want }, when+" ("+duty.String()+")")
			for _, d := range dels {
				inputs["scheduler fan-out "+d.String()+" of "+duty.String()] = d.ranges
			}
		}
	}

	// slot 0 fan-out (two subscribers, one of them scribbles what it gets)
	if !waitDeliveries(4*pc.nsubs, "slot 0") {
		return
	}
	checkSlot(0, "after slot 0 was triggered")
	pc.phases++

	// GetDutyDefinition: two readers, scribble one result, read again
	for _, duty := range slotDuties(0) {
		want := fp(expected[duty])
		var reads []core.DutyDefinitionSet
		var ranges [][]alias.Range
		for i := 1; i <= 3; i++ {
			var set core.DutyDefinitionSet
			err := pc.call("GetDutyDefinition", func() error {
				var err error
				set, err = sched.GetDutyDefinition(ctx, duty)
				return err
			})
			pc.r.Count("reads", 1)
			if err != nil {
				pc.anomaly("read-failed", fmt.Sprintf("GetDutyDefinition(%v) #%d: %v", duty, i, err))
				break
			}
			rs := pc.reach(set)
			pc.sameContent(fmt.Sprintf("GetDutyDefinition(%v) read #%d", duty, i), set, want)
			for j, prev := range ranges {
				pc.noOverlap("readers-share-memory", fmt.Sprintf("GetDutyDefinition(%v) read #%d", duty, j+1), prev, fmt.Sprintf("read #%d", i), rs, false)
			}
			for name, in := range inputs {
				pc.noOverlap("result-aliases-subscriber-copy", name, in, fmt.Sprintf("GetDutyDefinition(%v) read #%d", duty, i), rs, false)
			}
			reads, ranges = append(reads, set), append(ranges, rs)
			if i == 2 {
				pc.scribble(reads[0]) // reader 1 overwrites its copy; reader 2 keeps its own
				pc.sameContent(fmt.Sprintf("GetDutyDefinition(%v) read #2 after read #1 was scribbled", duty), reads[1], want)
			}
		}
	}
	pc.phases++

	// slot 1 fan-out after subscribers and readers scribbled their slot-0 copies; concurrently
	// several readers query the slot-0 definitions and one of them keeps scribbling its results
	if pc.aliasingEstablished() {
		return
	}
	g := 4 + pc.rng.Intn(5)
	pc.hashParts = append(pc.hashParts, g)
	type res struct {
		g    int
		duty core.Duty
		set  core.DutyDefinitionSet
	}
	var (
		wg      sync.WaitGroup
		mu      sync.Mutex
		results []res
		start   = make(chan struct{})
	)
	for i := 0; i < g; i++ {
		wg.Add(1)
		go func(i int) {
			defer wg.Done()
			<-start
			for k, duty := range slotDuties(0) {
				if (k+i)%2 == 0 {
					continue
				}
				var set core.DutyDefinitionSet
				if err := pc.call("GetDutyDefinition", func() error {
					var err error
					set, err = sched.GetDutyDefinition(ctx, duty)
					return err
				}); err != nil {
					pc.anomaly("concurrent-op-failed", fmt.Sprintf("GetDutyDefinition(%v): %v", duty, err))
					continue
				}
				if i == 0 {
					alias.Scribble(set)
				}
				mu.Lock()
				results = append(results, res{i, duty, set})
				mu.Unlock()
			}
		}(i)
	}
	close(start)
	clock.Advance(slotDuration)
	wg.Wait()
	pc.r.Count("concurrent_probes", 1)
	pc.r.Count("concurrent_goroutines", int64(g))
	pc.r.Count("reads", int64(len(results)))
	if !waitDeliveries(8*pc.nsubs, "slot 1") {
		return
	}
	checkSlot(1, "after slot 1 was triggered")
	var rranges [][]alias.Range
	for i, rs := range results {
		rr := pc.reach(rs.set)
		if rs.g != 0 {
			pc.sameContent(fmt.Sprintf("concurrent GetDutyDefinition(%v) of goroutine %d", rs.duty, rs.g), rs.set, fp(expected[rs.duty]))
		}
		for j, prev := range rranges {
			pc.noOverlap("readers-share-memory", fmt.Sprintf("concurrent GetDutyDefinition #%d", j), prev, fmt.Sprintf("#%d", i), rr, false)
		}
		for name, in := range inputs {
			pc.noOverlap("result-aliases-subscriber-copy", name, in, fmt.Sprintf("concurrent GetDutyDefinition #%d", i), rr, false)
		}
		rranges = append(rranges, rr)
	}
	pc.phases++
}
