package c18

import (
	"math/big"
	"testing"

	"github.com/OffchainLabs/go-bitfield"
	eth2api "github.com/attestantio/go-eth2-client/api"
	eth2v1 "github.com/attestantio/go-eth2-client/api/v1"
	eth2spec "github.com/attestantio/go-eth2-client/spec"
	"github.com/attestantio/go-eth2-client/spec/altair"
	"github.com/attestantio/go-eth2-client/spec/deneb"
	eth2p0 "github.com/attestantio/go-eth2-client/spec/phase0"

	fuzz "github.com/google/gofuzz"

	"github.com/obolnetwork/charon/core"
	"github.com/obolnetwork/charon/eth2util"
	"github.com/obolnetwork/charon/testutil"
)

// All generated values come from charon's own deterministic fuzzer (testutil.NewEth2Fuzzer, the one
// core/ssz_test.go and core/serialise_test.go use): same seed ⇒ content-equal value in fresh memory.
// That is how the harness obtains "the same value again" without trusting Clone.

var allVersions = []eth2spec.DataVersion{
	eth2spec.DataVersionPhase0, eth2spec.DataVersionAltair, eth2spec.DataVersionBellatrix, eth2spec.DataVersionCapella,
	eth2spec.DataVersionDeneb, eth2spec.DataVersionElectra, eth2spec.DataVersionFulu,
}

var blindedVersions = allVersions[2:]

// newFuzzer is charon's eth2 fuzzer with 1–2 elements per list (keeps every SSZ list limit and the
// cost of 128 KiB blobs down; the fuzzer's own post-hoc trimming of the versioned unions is then
// never needed, which matters because the harness fills the chosen fork's payload directly).
func newFuzzer(t *testing.T, seed int64) *fuzz.Fuzzer {
	t.Helper()
	if seed == 0 {
		seed = 1
	}

	return testutil.NewEth2Fuzzer(t, seed).NumElements(1, 2).Funcs(
		// fill the 128 KiB blobs in one read instead of 131072 reflective byte assignments
		func(b *deneb.Blob, c fuzz.Continue) { _, _ = c.Read(b[:]) },
	)
}

// dropBlobs empties the blob sidecars of an unblinded deneb+ proposal in seven of eight values:
// every encode/clone/compare of a 128 KiB blob is byte-wise work under the race detector, and the
// blob slices are still probed in the remaining eighth.
func dropBlobs(seed int64, blobs *[]deneb.Blob, proofs *[]deneb.KZGProof) {
	if seed%8 == 0 {
		return
	}
	*blobs, *proofs = []deneb.Blob{}, []deneb.KZGProof{} // empty, not nil: SSZ decoding yields empty lists
}

func fuzzInto(t *testing.T, seed int64, v any) {
	t.Helper()
	newFuzzer(t, seed).Fuzz(v)
}

// fuzzVersion fills the payload of fork ver of the versioned union e (a pointer to a core type).
func fuzzVersion(t *testing.T, seed int64, e any, ver eth2spec.DataVersion, blinded *bool) {
	t.Helper()
	version, err := eth2util.DataVersionFromETH2(ver)
	if err != nil {
		panic(err)
	}
	if blinded != nil {
		newFuzzer(t, seed).Fuzz(core.VersionedBlindedSSZValueForT(t, e, version, *blinded))
		return
	}
	newFuzzer(t, seed).Fuzz(core.VersionedSSZValueForT(t, e, version))
}

// signedKind describes one core.SignedData type together with the duty type it travels under.
type signedKind struct {
	Name     string
	Duty     core.DutyType
	Versions []eth2spec.DataVersion // forks the type exists in (nil: not versioned)
	gen      func(t *testing.T, seed int64, ver eth2spec.DataVersion) core.SignedData
}

func boolp(b bool) *bool { return &b }

var signedKinds = []signedKind{
	{Name: "VersionedSignedProposal", Duty: core.DutyProposer, Versions: allVersions, gen: func(t *testing.T, seed int64, ver eth2spec.DataVersion) core.SignedData {
		var v core.VersionedSignedProposal
		v.Version = ver
		fuzzVersion(t, seed, &v, ver, boolp(false))
		switch {
		case v.Deneb != nil:
			dropBlobs(seed, &v.Deneb.Blobs, &v.Deneb.KZGProofs)
		case v.Electra != nil:
			dropBlobs(seed, &v.Electra.Blobs, &v.Electra.KZGProofs)
		case v.Fulu != nil:
			dropBlobs(seed, &v.Fulu.Blobs, &v.Fulu.KZGProofs)
		}
		return v
	}},
	{Name: "VersionedSignedProposal/blinded", Duty: core.DutyProposer, Versions: blindedVersions, gen: func(t *testing.T, seed int64, ver eth2spec.DataVersion) core.SignedData {
		var v core.VersionedSignedProposal
		v.Version, v.Blinded = ver, true
		fuzzVersion(t, seed, &v, ver, boolp(true))
		return v
	}},
	{Name: "VersionedAttestation", Duty: core.DutyAttester, Versions: allVersions, gen: func(t *testing.T, seed int64, ver eth2spec.DataVersion) core.SignedData {
		var v core.VersionedAttestation
		v.Version = ver
		idx := eth2p0.ValidatorIndex(seed & 0xff)
		v.ValidatorIndex = &idx
		fuzzVersion(t, seed, &v, ver, nil)
		return v
	}},
	{Name: "VersionedSignedAggregateAndProof", Duty: core.DutyAggregator, Versions: allVersions, gen: func(t *testing.T, seed int64, ver eth2spec.DataVersion) core.SignedData {
		var v core.VersionedSignedAggregateAndProof
		v.Version = ver
		fuzzVersion(t, seed, &v, ver, nil)
		return v
	}},
	{Name: "SignedAggregateAndProof", Duty: core.DutyAggregator, gen: func(t *testing.T, seed int64, _ eth2spec.DataVersion) core.SignedData {
		var v core.SignedAggregateAndProof
		fuzzInto(t, seed, &v)
		return v
	}},
	{Name: "SignedVoluntaryExit", Duty: core.DutyExit, gen: func(t *testing.T, seed int64, _ eth2spec.DataVersion) core.SignedData {
		var v core.SignedVoluntaryExit
		fuzzInto(t, seed, &v)
		return v
	}},
	{Name: "VersionedSignedValidatorRegistration", Duty: core.DutyBuilderRegistration, gen: func(t *testing.T, seed int64, _ eth2spec.DataVersion) core.SignedData {
		var reg eth2v1.SignedValidatorRegistration
		fuzzInto(t, seed, &reg)
		return core.VersionedSignedValidatorRegistration{VersionedSignedValidatorRegistration: eth2api.VersionedSignedValidatorRegistration{
			Version: eth2spec.BuilderVersionV1, V1: &reg,
		}}
	}},
	{Name: "SignedRandao", Duty: core.DutyRandao, gen: func(t *testing.T, seed int64, _ eth2spec.DataVersion) core.SignedData {
		var v core.SignedRandao
		fuzzInto(t, seed, &v)
		return v
	}},
	{Name: "Signature", Duty: core.DutySignature, gen: func(t *testing.T, seed int64, _ eth2spec.DataVersion) core.SignedData {
		var sig eth2p0.BLSSignature
		fuzzInto(t, seed, &sig)
		return core.SigFromETH2(sig)
	}},
	{Name: "BeaconCommitteeSelection", Duty: core.DutyPrepareAggregator, gen: func(t *testing.T, seed int64, _ eth2spec.DataVersion) core.SignedData {
		var v core.BeaconCommitteeSelection
		fuzzInto(t, seed, &v)
		return v
	}},
	{Name: "SyncCommitteeSelection", Duty: core.DutyPrepareSyncContribution, gen: func(t *testing.T, seed int64, _ eth2spec.DataVersion) core.SignedData {
		var v core.SyncCommitteeSelection
		fuzzInto(t, seed, &v)
		return v
	}},
	{Name: "SignedSyncMessage", Duty: core.DutySyncMessage, gen: func(t *testing.T, seed int64, _ eth2spec.DataVersion) core.SignedData {
		var v core.SignedSyncMessage
		fuzzInto(t, seed, &v)
		return v
	}},
	{Name: "SignedSyncContributionAndProof", Duty: core.DutySyncContribution, gen: func(t *testing.T, seed int64, _ eth2spec.DataVersion) core.SignedData {
		var v core.SignedSyncContributionAndProof
		fuzzInto(t, seed, &v)
		return v
	}},
}

// pickVersion returns the fork to use for a kind: entry want of its fork list (wrapping).
func pickVersion(vs []eth2spec.DataVersion, want int) eth2spec.DataVersion {
	if len(vs) == 0 {
		return 0
	}
	if want < 0 {
		want = -want
	}

	return vs[want%len(vs)]
}

// label is "Kind" or "Kind@fork".
func label(name string, vs []eth2spec.DataVersion, ver eth2spec.DataVersion) string {
	if len(vs) == 0 {
		return name
	}

	return name + "@" + ver.String()
}

// unsignedKind describes one core.UnsignedData type of the DutyDB / fetcher / consensus path.
type unsignedKind struct {
	Name     string
	Duty     core.DutyType
	Versions []eth2spec.DataVersion
	gen      func(t *testing.T, seed int64, ver eth2spec.DataVersion) core.UnsignedData
}

var unsignedKinds = []unsignedKind{
	{Name: "AttestationData", Duty: core.DutyAttester, gen: func(t *testing.T, seed int64, _ eth2spec.DataVersion) core.UnsignedData {
		var v core.AttestationData
		fuzzInto(t, seed, &v)
		return v
	}},
	{Name: "VersionedProposal", Duty: core.DutyProposer, Versions: allVersions, gen: func(t *testing.T, seed int64, ver eth2spec.DataVersion) core.UnsignedData {
		var v core.VersionedProposal
		v.Version = ver
		fuzzVersion(t, seed, &v, ver, boolp(false))
		switch {
		case v.Deneb != nil:
			dropBlobs(seed, &v.Deneb.Blobs, &v.Deneb.KZGProofs)
		case v.Electra != nil:
			dropBlobs(seed, &v.Electra.Blobs, &v.Electra.KZGProofs)
		case v.Fulu != nil:
			dropBlobs(seed, &v.Fulu.Blobs, &v.Fulu.KZGProofs)
		}
		setBlockValues(seed, &v)
		return v
	}},
	{Name: "VersionedProposal/blinded", Duty: core.DutyProposer, Versions: blindedVersions, gen: func(t *testing.T, seed int64, ver eth2spec.DataVersion) core.UnsignedData {
		var v core.VersionedProposal
		v.Version, v.Blinded = ver, true
		fuzzVersion(t, seed, &v, ver, boolp(true))
		setBlockValues(seed, &v)
		return v
	}},
	{Name: "VersionedAggregatedAttestation", Duty: core.DutyAggregator, Versions: allVersions, gen: func(t *testing.T, seed int64, ver eth2spec.DataVersion) core.UnsignedData {
		var v core.VersionedAggregatedAttestation
		v.Version = ver
		fuzzVersion(t, seed, &v, ver, nil)
		// post-electra the committee index is the single set committee bit
		one := bitfield.NewBitvector64()
		one.SetBitAt(uint64(seed&31), true)
		if v.Electra != nil {
			v.Electra.CommitteeBits = one
		}
		if v.Fulu != nil {
			v.Fulu.CommitteeBits = one
		}
		return v
	}},
	{Name: "SyncContribution", Duty: core.DutySyncContribution, gen: func(t *testing.T, seed int64, _ eth2spec.DataVersion) core.UnsignedData {
		var c altair.SyncCommitteeContribution
		fuzzInto(t, seed, &c)
		return core.SyncContribution{SyncCommitteeContribution: c}
	}},
	{Name: "SyncContributions", Duty: core.DutySyncContribution, gen: func(t *testing.T, seed int64, _ eth2spec.DataVersion) core.UnsignedData {
		var out core.SyncContributions
		for i := int64(0); i < 3; i++ {
			var c altair.SyncCommitteeContribution
			fuzzInto(t, seed+i*104729+1, &c)
			c.SubcommitteeIndex = uint64(i)
			out = append(out, core.SyncContribution{SyncCommitteeContribution: c})
		}
		return out
	}},
}

// pubkey returns a deterministic validator public key (content only matters as a map key).
func pubkey(seed int64) core.PubKey {
	var b [48]byte
	for i := range b {
		b[i] = byte(seed >> (uint(i%8) * 8))
		seed = seed*6364136223846793005 + 1442695040888963407
	}
	pk, err := core.PubKeyFromBytes(b[:])
	if err != nil {
		panic(err)
	}

	return pk
}

// setBlockValues populates the optional produceBlockV3 block values (not part of the SSZ encoding) as
// a beacon node's answer does: multi-limb big integers, so that both the pointer and the limb
// slice are reachable mutable memory (seeded change C18-r6). One seed in four leaves them nil.
func setBlockValues(seed int64, v *core.VersionedProposal) {
	if seed&3 == 3 {
		return
	}
	mk := func(x int64) *big.Int {
		b := new(big.Int).SetUint64(uint64(x)*0x9e3779b97f4a7c15 | 1)
		return b.Lsh(b, 70).Add(b, big.NewInt(x&0xffff))
	}
	v.ConsensusValue = mk(seed + 11)
	v.ExecutionValue = mk(seed + 17)
}
