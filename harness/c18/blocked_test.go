package c18

import (
	"bytes"
	"context"
	"fmt"
	"regexp"
	"runtime"
	"strconv"
	"strings"
	"sync"
	"sync/atomic"
	"time"

	"verifharness/c18/alias"
	"verifharness/kit"
)

// Phase (e): several readers are BLOCKED on the same key when one write arrives and resolves them
// together; further readers arrive after the write. All values handed out must be pairwise free of
// shared memory (reader vs reader, reader vs the caller's stored input, reader vs a later read) and
// scribbling one blocked reader's copy must not change any other copy nor a fresh read.
//
// "Blocked before the write" is established causally, not by waiting some time: every reader
// goroutine reports its goroutine id, and the harness inspects the runtime's goroutine dump until
// each of them is parked (select / chan receive / sync wait) with its innermost charon frame inside
// the component's Await function; for the channel-based aggsigdb.MemDB, whose Await parks first on
// handing the query to the database goroutine, a sentinel query for another key is then sent through
// the same (FIFO) channel and awaited, which proves the earlier parked queries have been received
// and registered. Only then is the value stored. Cases where this could not be confirmed still run
// (the oracles do not depend on it) but are counted separately; r.Require demands a minimum of
// confirmed ones.

var goroutineHdr = regexp.MustCompile(`(?m)^goroutine (\d+) \[([^\]]*)\]:$`)

func goid() int {
	buf := make([]byte, 64)
	buf = buf[:runtime.Stack(buf, false)]
	// "goroutine 123 [running]:"
	buf = bytes.TrimPrefix(buf, []byte("goroutine "))
	i := bytes.IndexByte(buf, ' ')
	if i < 0 {
		return -1
	}
	id, err := strconv.Atoi(string(buf[:i]))
	if err != nil {
		return -1
	}

	return id
}

const charonPath = "github.com/obolnetwork/charon/"

// parkedInAwait reports how many of the goroutines ids are parked with their innermost charon
// frame inside a function whose name contains "Await".
func parkedInAwait(ids map[int]bool) int {
	buf := make([]byte, 1<<20)
	for {
		n := runtime.Stack(buf, true)
		if n < len(buf) {
			buf = buf[:n]
			break
		}
		buf = make([]byte, 2*len(buf))
	}
	locs := goroutineHdr.FindAllSubmatchIndex(buf, -1)
	parked := 0
	for i, loc := range locs {
		id, _ := strconv.Atoi(string(buf[loc[2]:loc[3]]))
		if !ids[id] {
			continue
		}
		state := string(buf[loc[4]:loc[5]])
		if !strings.HasPrefix(state, "select") && !strings.HasPrefix(state, "chan receive") {
			continue
		}
		end := len(buf)
		if i+1 < len(locs) {
			end = locs[i+1][0]
		}
		// innermost charon frame of the parked goroutine
		for _, line := range bytes.Split(buf[loc[1]:end], []byte("\n")) {
			if bytes.HasPrefix(line, []byte(charonPath)) {
				if bytes.Contains(line, []byte("Await")) {
					parked++
				}

				break
			}
		}
	}

	return parked
}

func (pc *probe) runStoreBlocked(orig any, want string, mk func() storeOps) {
	ctx, cancel := context.WithTimeout(context.Background(), watchdog)
	defer cancel()
	ops := mk()
	if ops.store == nil {
		return
	}
	defer ops.close()
	if ops.noWaiters {
		return // the read does not block
	}

	k := 2 + pc.rng.Intn(5)    // readers blocked before the write
	late := 1 + pc.rng.Intn(2) // readers arriving after it
	owner := pc.rng.Intn(k)    // the blocked reader that will overwrite its copy
	settle := time.Duration(1+pc.rng.Intn(3)) * time.Millisecond
	pc.hashParts = append(pc.hashParts, "blocked", k, late)

	type res struct {
		v   any
		err error
	}
	var (
		wg          sync.WaitGroup
		results     = make([]res, k)
		idCh        = make(chan int, k)
		storeCalled atomic.Bool
		early       atomic.Int32 // reads that returned before the store was even called (must stay 0)
	)
	for i := 0; i < k; i++ {
		wg.Add(1)
		go func(i int) {
			defer wg.Done()
			idCh <- goid()
			var v any
			err := pc.call("blocked read", func() error {
				var err error
				v, err = ops.read(ctx)
				return err
			})
			if !storeCalled.Load() {
				early.Add(1)
			}
			results[i] = res{v, err}
		}(i)
	}
	ids := map[int]bool{}
	for i := 0; i < k; i++ {
		ids[<-idCh] = true
	}
	confirmed := kit.WaitUntil(20*time.Second, func() bool { return parkedInAwait(ids) == k })
	if confirmed && ops.sentinel != nil {
		// FIFO hand-over channel: once a later query has been answered, the earlier parked ones were received
		if err := ops.sentinel(ctx); err != nil {
			pc.inconclusive("sentinel query failed: %v", err)
			return
		}
		confirmed = parkedInAwait(ids) == k
	}
	if !confirmed {
		time.Sleep(settle) // pacing only
	}

	in := pc.fresh(orig)
	storeCalled.Store(true)
	if err := pc.call("store resolving blocked readers", func() error { return ops.store(ctx, in) }); err != nil {
		pc.inconclusive("store of a generated value failed: %v", err)
		cancel()
		wg.Wait()
		return
	}
	wg.Wait()
	if ctx.Err() != nil {
		pc.inconclusive("blocked readers: watchdog")
		return
	}
	pc.r.Count("blocked_reader_probes", 1)
	pc.r.Count("blocked_readers", int64(k))
	if confirmed && early.Load() == 0 {
		pc.r.Count("blocked_reader_probes_confirmed_k>=2", 1)
		pc.r.Seen("blocked_k_confirmed", strconv.Itoa(k))
	} else {
		pc.r.Count("blocked_reader_probes_unconfirmed", 1)
	}
	if early.Load() != 0 {
		pc.anomaly("read-before-store", fmt.Sprintf("%d reads returned before the value was stored", early.Load()))
	}

	// everything handed out: blocked readers, the caller's input, later readers
	type held struct {
		name string
		v    any
		rs   []alias.Range
		dig  string
	}
	var all []held
	for i, rs := range results {
		pc.r.Count("reads", 1)
		if rs.err != nil {
			pc.anomaly("read-failed", fmt.Sprintf("blocked reader %d: %v", i, rs.err))
			continue
		}
		all = append(all, held{name: fmt.Sprintf("blocked reader %d", i), v: rs.v})
	}
	rin := pc.reach(in)
	pc.scribble(in) // the caller owns its input again
	for i := 0; i < late; i++ {
		var v any
		if err := pc.call("late read", func() error {
			var err error
			v, err = ops.read(ctx)
			return err
		}); err != nil {
			pc.anomaly("read-failed", fmt.Sprintf("late reader %d: %v", i, err))
			continue
		}
		pc.r.Count("reads", 1)
		all = append(all, held{name: fmt.Sprintf("late reader %d", i), v: v})
	}
	for i := range all {
		all[i].rs = pc.reach(all[i].v)
		all[i].dig = alias.Digest(all[i].v)
		pc.sameContent(all[i].name+" (resolved by one store)", all[i].v, want)
		pc.noOverlap("result-aliases-caller-input", "caller's input", rin, all[i].name, all[i].rs, true)
		for j := 0; j < i; j++ {
			pc.noOverlap("blocked-readers-share-memory", all[j].name, all[j].rs, all[i].name, all[i].rs, false)
		}
	}
	// behavioural: one blocked reader overwrites all of its copy
	victim := -1
	for i := range all {
		if all[i].name == fmt.Sprintf("blocked reader %d", owner) {
			victim = i
		}
	}
	if victim >= 0 {
		pc.scribble(all[victim].v)
		pc.logf("blocked reader %d of %d scribbled its copy", owner, k)
		for i := range all {
			if i == victim {
				continue
			}
			pc.sameContent(fmt.Sprintf("%s after blocked reader %d scribbled its copy", all[i].name, owner), all[i].v, want)
			pc.sameDigest(fmt.Sprintf("%s after blocked reader %d scribbled its copy", all[i].name, owner), all[i].v, all[i].dig)
		}
		var v any
		if err := pc.call("fresh read", func() error {
			var err error
			v, err = ops.read(ctx)
			return err
		}); err != nil {
			pc.anomaly("read-failed", fmt.Sprintf("fresh read after a blocked reader scribbled its copy: %v", err))
		} else {
			pc.r.Count("reads", 1)
			rs := pc.reach(v)
			pc.sameContent("fresh read after a blocked reader scribbled its copy", v, want)
			for i := range all {
				pc.noOverlap("readers-share-memory", all[i].name, all[i].rs, "fresh read", rs, true)
			}
		}
	}
	pc.phases++
}
