// Package kit holds the shared plumbing of the verif harness: seeds, case lists, verdict and
// evidence collection, replay witnesses. Every property package (c01 … c20) exposes one
// `TestCheck` that builds a *Run, executes a PRNG-determined list of cases and calls Finish.
//
// The driver (/verif/check) runs the compiled test binary as a child process with
//
//	VERIF_SEED   integer seed (default 1)
//	VERIF_TIER   quick | thorough
//	VERIF_OUT    directory for result.json, cases.log
//	VERIF_REPLAY directory for violation witnesses
//	VERIF_CASE   optional: run only this case index (replay)
//	VERIF_SCALE  optional float multiplier on case counts (used by the mutant self-test)
//
// and turns result.json + race logs into /verif/evidence/<id>.json and the exit code.
package kit

import (
	"crypto/sha256"
	"encoding/hex"
	"encoding/json"
	"fmt"
	"math/rand"
	"os"
	"path/filepath"
	"regexp"
	"runtime"
	"sort"
	"strconv"
	"strings"
	"sync"
	"sync/atomic"
	"testing"
	"time"
)

// Violation is one refuted oracle, reduced to a signature (see DESIGN §3.4).
type Violation struct {
	Sig    string `json:"sig"`
	What   string `json:"what"`
	Count  int    `json:"count"`
	Replay string `json:"replay"`
	Case   int    `json:"case"`
}

// Run collects everything one check execution observes.
type Run struct {
	Prop string
	Tier string
	Seed int64

	t         *testing.T
	outDir    string
	replayDir string
	onlyCase  int
	scale     float64
	start     time.Time

	mu           sync.Mutex
	evaluations  int64
	distinct     map[string]struct{}
	samples      []any
	maxSamples   int
	counters     map[string]int64
	sets         map[string]map[string]struct{}
	extra        map[string]any
	violations   map[string]*Violation
	inconclusive []string
	rule         string
	assumptions  []string
	racePkgs     []string
	raceAnySide  bool
	minima       map[string]int64
	caseLog      *os.File
	exhaustive   bool
}

// Start creates the Run for property prop from the environment.
func Start(t *testing.T, prop string) *Run {
	t.Helper()
	r := &Run{
		Prop:       prop,
		Tier:       envOr("VERIF_TIER", "quick"),
		t:          t,
		outDir:     envOr("VERIF_OUT", filepath.Join(os.TempDir(), "verif-out-"+prop)),
		replayDir:  envOr("VERIF_REPLAY", filepath.Join(os.TempDir(), "verif-replay")),
		onlyCase:   -1,
		scale:      1,
		start:      time.Now(),
		distinct:   map[string]struct{}{},
		counters:   map[string]int64{},
		sets:       map[string]map[string]struct{}{},
		extra:      map[string]any{},
		violations: map[string]*Violation{},
		minima:     map[string]int64{},
		maxSamples: 4,
	}
	if r.Tier != "quick" && r.Tier != "thorough" {
		r.Tier = "quick"
	}
	seed, err := strconv.ParseInt(envOr("VERIF_SEED", "1"), 10, 64)
	if err != nil {
		seed = 1
	}
	r.Seed = seed
	if s := os.Getenv("VERIF_CASE"); s != "" {
		if v, err := strconv.Atoi(s); err == nil {
			r.onlyCase = v
		}
	}
	if s := os.Getenv("VERIF_SCALE"); s != "" {
		if v, err := strconv.ParseFloat(s, 64); err == nil && v > 0 {
			r.scale = v
		}
	}
	if fp := os.Getenv("VERIF_FAILPOINTS"); fp != "" {
		if len(fp) > 400 {
			fp = fp[:400] + "…"
		}
		r.extra["failpoints_armed"] = fp
		r.extra["failpoints_armed_count"] = strings.Count(os.Getenv("VERIF_FAILPOINTS"), "=")
	}
	_ = os.MkdirAll(r.outDir, 0o755)
	_ = os.MkdirAll(r.replayDir, 0o755)
	f, err := os.OpenFile(filepath.Join(r.outDir, "cases.log"), os.O_CREATE|os.O_WRONLY|os.O_APPEND, 0o644)
	if err == nil {
		r.caseLog = f
	}

	return r
}

func envOr(k, d string) string {
	if v := os.Getenv(k); v != "" {
		return v
	}

	return d
}

// T returns the testing.T of the check (for charon constructors that want one).
func (r *Run) T() *testing.T { return r.t }

// Thorough reports whether the thorough tier was requested.
func (r *Run) Thorough() bool { return r.Tier == "thorough" }

// Replaying reports whether a single case is being replayed.
func (r *Run) Replaying() bool { return r.onlyCase >= 0 }

// N picks the case count for the tier (scaled by VERIF_SCALE, at least 1).
func (r *Run) N(quick, thorough int) int {
	n := quick
	if r.Thorough() {
		n = thorough
	}
	n = int(float64(n) * r.scale)
	if n < 1 {
		n = 1
	}

	return n
}

// Rule records how cases are generated and what counts as distinct / non-trivial.
func (r *Run) Rule(s string) { r.mu.Lock(); r.rule = s; r.mu.Unlock() }

// Assume records an assumption / trusted base item for the evidence file.
func (r *Run) Assume(s string) { r.mu.Lock(); r.assumptions = append(r.assumptions, s); r.mu.Unlock() }

// Exhaustive marks that a finite space was enumerated completely.
func (r *Run) Exhaustive(b bool) { r.mu.Lock(); r.exhaustive = b; r.mu.Unlock() }

// RacePkgs declares the package path prefixes (relative to the charon module, e.g.
// "core/dutydb") whose data races count as violations of this property. anySide=true means a
// report counts when either access is in those packages (C18), otherwise both must be.
func (r *Run) RacePkgs(anySide bool, pkgs ...string) {
	r.mu.Lock()
	r.racePkgs = append(r.racePkgs, pkgs...)
	r.raceAnySide = anySide
	r.mu.Unlock()
}

// Require states that counter key must reach at least min, otherwise the run is inconclusive.
func (r *Run) Require(key string, min int64) { r.mu.Lock(); r.minima[key] = min; r.mu.Unlock() }

// Count adds n to the named observation counter.
func (r *Run) Count(key string, n int64) {
	r.mu.Lock()
	r.counters[key] += n
	r.mu.Unlock()
}

// Counter returns the current value of a counter.
func (r *Run) Counter(key string) int64 {
	r.mu.Lock()
	defer r.mu.Unlock()

	return r.counters[key]
}

// Seen adds member to the named set (evidence reports the set size and, for small sets, members).
func (r *Run) Seen(set, member string) {
	r.mu.Lock()
	m := r.sets[set]
	if m == nil {
		m = map[string]struct{}{}
		r.sets[set] = m
	}
	m[member] = struct{}{}
	r.mu.Unlock()
}

// SeenCount returns the size of a named set.
func (r *Run) SeenCount(set string) int {
	r.mu.Lock()
	defer r.mu.Unlock()

	return len(r.sets[set])
}

// Set stores an arbitrary extra coverage value.
func (r *Run) Set(key string, v any) { r.mu.Lock(); r.extra[key] = v; r.mu.Unlock() }

// Sample keeps up to maxSamples example cases for the evidence file.
func (r *Run) Sample(v any) {
	r.mu.Lock()
	if len(r.samples) < r.maxSamples {
		r.samples = append(r.samples, v)
	}
	r.mu.Unlock()
}

// Inconclusive records a reason the run cannot be counted as "held".
func (r *Run) Inconclusive(format string, a ...any) {
	r.mu.Lock()
	if len(r.inconclusive) < 20 {
		r.inconclusive = append(r.inconclusive, fmt.Sprintf(format, a...))
	}
	r.mu.Unlock()
}

var sigSan = regexp.MustCompile(`[^A-Za-z0-9_.-]+`)

// Violation records a refuted oracle. sig identifies the failing rule and call site/shape (no
// seeds, no random values); witness is written to the replay directory (first 3 per signature).
func (r *Run) Violation(caseIdx int, sig, what string, witness any) {
	r.mu.Lock()
	defer r.mu.Unlock()
	v := r.violations[sig]
	if v == nil {
		v = &Violation{Sig: sig, What: what, Case: caseIdx}
		r.violations[sig] = v
	}
	v.Count++
	if v.Count > 3 {
		return
	}
	name := fmt.Sprintf("%s-%s-%d-%d.json", r.Prop, trunc(sigSan.ReplaceAllString(sig, "_"), 80), r.Seed, caseIdx)
	path := filepath.Join(r.replayDir, name)
	doc := map[string]any{
		"property": r.Prop, "sig": sig, "what": what, "seed": r.Seed, "tier": r.Tier,
		"case": caseIdx, "witness": witness,
	}
	b, err := json.MarshalIndent(doc, "", " ")
	if err != nil {
		b, _ = json.MarshalIndent(map[string]any{
			"property": r.Prop, "sig": sig, "what": what, "seed": r.Seed, "tier": r.Tier,
			"case": caseIdx, "witness": fmt.Sprintf("%+v", witness),
		}, "", " ")
	}
	if err := os.WriteFile(path, b, 0o644); err == nil && v.Replay == "" {
		v.Replay = path
	}
	// Journal entry: lets the driver report this violation even if the process later hangs until the
	// watchdog or crashes before result.json is written.
	if f, err := os.OpenFile(filepath.Join(r.outDir, "violations.jsonl"), os.O_CREATE|os.O_WRONLY|os.O_APPEND, 0o644); err == nil {
		line, _ := json.Marshal(map[string]any{"sig": sig, "what": what, "case": caseIdx, "replay": path})
		_, _ = f.Write(append(line, '\n'))
		_ = f.Close()
	}
}

func trunc(s string, n int) string {
	if len(s) > n {
		return s[:n]
	}

	return s
}

// Case is one generated execution.
type Case struct {
	R   *Run
	Idx int
	Rng *rand.Rand

	nontrivial string
}

// Violation records a violation attributed to this case.
func (c *Case) Violation(sig, what string, witness any) { c.R.Violation(c.Idx, sig, what, witness) }

// NonTrivial marks this case as non-trivial with the given distinctness hash (see Rule).
func (c *Case) NonTrivial(hash string) { c.nontrivial = hash }

// Rand returns a deterministic PRNG for (seed, case index, stream).
func (r *Run) Rand(caseIdx int, stream int) *rand.Rand {
	h := sha256.Sum256([]byte(fmt.Sprintf("%s/%d/%d/%d", r.Prop, r.Seed, caseIdx, stream)))
	var s int64
	for i := 0; i < 8; i++ {
		s = s<<8 | int64(h[i])
	}

	return rand.New(rand.NewSource(s)) //nolint:gosec // reproducible workloads
}

// Cases runs fn for case indices 0..n-1 on par workers (par<=0: GOMAXPROCS). Each case is logged
// before it starts and after it ends so a crash of the process is attributable.
func (r *Run) Cases(n, par int, fn func(c *Case)) {
	if par <= 0 {
		par = runtime.GOMAXPROCS(0)
	}
	if r.onlyCase >= 0 {
		r.runCase(r.onlyCase, fn)
		return
	}
	var next int64 = -1
	var wg sync.WaitGroup
	for w := 0; w < par; w++ {
		wg.Add(1)
		go func() {
			defer wg.Done()
			for {
				i := int(atomic.AddInt64(&next, 1))
				if i >= n {
					return
				}
				r.runCase(i, fn)
			}
		}()
	}
	wg.Wait()
}

func (r *Run) runCase(i int, fn func(c *Case)) {
	c := &Case{R: r, Idx: i, Rng: r.Rand(i, 0)}
	r.logCase("start", i)
	fn(c)
	r.logCase("end", i)
	r.mu.Lock()
	r.evaluations++
	if c.nontrivial != "" {
		r.distinct[c.nontrivial] = struct{}{}
	}
	r.mu.Unlock()
}

func (r *Run) logCase(ev string, i int) {
	if r.caseLog == nil {
		return
	}
	r.mu.Lock()
	fmt.Fprintf(r.caseLog, "%s %d\n", ev, i)
	r.mu.Unlock()
}

// AddEvaluations lets checks that do not use Cases account for work done.
func (r *Run) AddEvaluations(n int64) { r.mu.Lock(); r.evaluations += n; r.mu.Unlock() }

// Distinct registers a distinct non-trivial case hash directly.
func (r *Run) Distinct(hash string) { r.mu.Lock(); r.distinct[hash] = struct{}{}; r.mu.Unlock() }

// Result is the JSON document handed to the driver.
type Result struct {
	Property     string           `json:"property"`
	Tier         string           `json:"tier"`
	Seed         int64            `json:"seed"`
	Evaluations  int64            `json:"evaluations"`
	Distinct     int              `json:"distinct_nontrivial"`
	Rule         string           `json:"rule"`
	Samples      []any            `json:"samples"`
	Counters     map[string]int64 `json:"counters"`
	Sets         map[string]any   `json:"sets"`
	Extra        map[string]any   `json:"extra"`
	Violations   []*Violation     `json:"violations"`
	Inconclusive []string         `json:"inconclusive"`
	Assumptions  []string         `json:"assumptions"`
	RacePkgs     []string         `json:"race_pkgs"`
	RaceAnySide  bool             `json:"race_any_side"`
	Exhaustive   bool             `json:"exhaustive"`
	WallS        float64          `json:"wall_s"`
	Replayed     bool             `json:"replayed"`
}

// Finish evaluates the minimum-observation thresholds and writes result.json.
func (r *Run) Finish() {
	r.mu.Lock()
	defer r.mu.Unlock()
	if r.onlyCase < 0 {
		for k, min := range r.minima {
			if r.counters[k] < min {
				r.inconclusive = append(r.inconclusive,
					fmt.Sprintf("observed %d %q events, need at least %d", r.counters[k], k, min))
			}
		}
	}
	res := Result{
		Property: r.Prop, Tier: r.Tier, Seed: r.Seed, Evaluations: r.evaluations,
		Distinct: len(r.distinct), Rule: r.rule, Samples: r.samples, Counters: r.counters,
		Sets: map[string]any{}, Extra: r.extra, Inconclusive: r.inconclusive,
		Assumptions: r.assumptions, RacePkgs: r.racePkgs, RaceAnySide: r.raceAnySide,
		Exhaustive: r.exhaustive, WallS: time.Since(r.start).Seconds(), Replayed: r.onlyCase >= 0,
	}
	for name, m := range r.sets {
		keys := make([]string, 0, len(m))
		for k := range m {
			keys = append(keys, k)
		}
		sort.Strings(keys)
		if len(keys) > 60 {
			res.Sets[name] = map[string]any{"size": len(keys), "first": keys[:60]}
		} else {
			res.Sets[name] = map[string]any{"size": len(keys), "members": keys}
		}
	}
	sigs := make([]string, 0, len(r.violations))
	for s := range r.violations {
		sigs = append(sigs, s)
	}
	sort.Strings(sigs)
	for _, s := range sigs {
		res.Violations = append(res.Violations, r.violations[s])
	}
	b, err := json.MarshalIndent(res, "", " ")
	if err != nil {
		// Samples or extras that do not marshal must not lose the verdict.
		res.Samples = []any{fmt.Sprintf("%+v", r.samples)}
		res.Extra = map[string]any{"marshal_error": err.Error()}
		b, _ = json.MarshalIndent(res, "", " ")
	}
	tmp := filepath.Join(r.outDir, "result.json.tmp")
	if err := os.WriteFile(tmp, b, 0o644); err != nil {
		r.t.Fatalf("write result: %v", err)
	}
	if err := os.Rename(tmp, filepath.Join(r.outDir, "result.json")); err != nil {
		r.t.Fatalf("rename result: %v", err)
	}
	if r.caseLog != nil {
		_ = r.caseLog.Close()
	}
	for _, v := range res.Violations {
		r.t.Logf("violation sig=%s count=%d what=%s", v.Sig, v.Count, v.What)
	}
	for _, s := range res.Inconclusive {
		r.t.Logf("inconclusive: %s", s)
	}
}

// Hash returns a short stable hash of the printed parts.
func Hash(parts ...any) string {
	h := sha256.New()
	for _, p := range parts {
		fmt.Fprintf(h, "%v|", p)
	}

	return hex.EncodeToString(h.Sum(nil))[:16]
}

// JSONHash hashes the JSON form of v (falls back to %+v).
func JSONHash(v any) string {
	b, err := json.Marshal(v)
	if err != nil {
		b = []byte(fmt.Sprintf("%+v", v))
	}
	h := sha256.Sum256(b)

	return hex.EncodeToString(h[:])[:16]
}

// Short trims a string for witness output.
func Short(s string, n int) string {
	s = strings.TrimSpace(s)
	if len(s) > n {
		return s[:n] + "…"
	}

	return s
}

// Perm returns a PRNG permutation of 0..n-1.
func Perm(rng *rand.Rand, n int) []int { return rng.Perm(n) }

// Pick returns a PRNG-chosen element.
func Pick[T any](rng *rand.Rand, xs []T) T { return xs[rng.Intn(len(xs))] }

// Subsets enumerates all k-subsets of 0..n-1 in lexicographic order.
func Subsets(n, k int) [][]int {
	var out [][]int
	idx := make([]int, k)
	var rec func(start, d int)
	rec = func(start, d int) {
		if d == k {
			out = append(out, append([]int(nil), idx...))
			return
		}
		for i := start; i <= n-(k-d); i++ {
			idx[d] = i
			rec(i+1, d+1)
		}
	}
	rec(0, 0)

	return out
}

// WaitUntil polls cond (real time) until it holds or the generous watchdog d expires. The result
// must only be used for workload pacing or for an *inconclusive* verdict, never for a violation.
func WaitUntil(d time.Duration, cond func() bool) bool {
	deadline := time.Now().Add(d)
	for i := 0; ; i++ {
		if cond() {
			return true
		}
		if time.Now().After(deadline) {
			return false
		}
		if i < 50 {
			runtime.Gosched()
		} else {
			time.Sleep(200 * time.Microsecond)
		}
	}
}
