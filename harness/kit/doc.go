// Package kit holds shared helpers for the verif harness.
package kit
