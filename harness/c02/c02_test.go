// Package c02 checks consensus agreement (property C02) over scheduled executions of the real
// core/qbft.Run (engine: verifharness/qbftsim).
package c02

import (
	"context"
	"fmt"
	"sort"
	"testing"

	"github.com/obolnetwork/charon/core/qbft"

	"verifharness/consworld"
	"verifharness/kit"
	"verifharness/qbftsim"
)

func TestCheck(t *testing.T) {
	r := kit.Start(t, "C02")
	defer r.Finish()
	qbftsim.QuietLogs(t)
	r.Rule("case = one consensus instance of the real qbft.Run, n in {3,4,5,6,7}, PRNG instance id (leader rotation), up to f Byzantine ids driven by an omniscient strategy library " +
		"(equivocating leaders with real round-change quorums, vote splitting, forged prepared-claims, assembled DECIDED, replay with re-attached justifications, garbage) and/or absent members, " +
		"random asynchronous schedule (any pending delivery / timer / input / start next; loss, duplication, partitions, small FIFO, failing or blocking Compare); " +
		"plus a component world: clusters of 4 real consensus components over the in-memory network running duties with early / late / repeated Propose and Participate calls, every subscriber delivery judged; " +
		"non-trivial = a round change happened or a Byzantine message passed isJustified; distinct = hash of the event trace")
	r.Assume("message authenticity is provided by the wrapper layer (C05): the adversary never fabricates an honest source")
	r.Assume("Byzantine behaviour is a strategy library plus random search, schedules are sampled")
	r.RacePkgs(false, "core/qbft")
	for _, rule := range []string{"justified_pre_prepare", "quorum_prepares", "quorum_commits", "f_plus_1_round_changes", "quorum_round_changes", "justified_decided", "round_timeout"} {
		r.Require("rule/"+rule, 1)
	}
	r.Require("decisions", 100)
	r.Require("byz_msgs_accepted", 100)

	// Component world: the algorithm is only half of what decides a duty in production. Clusters of
	// the real consensus component (Participate / Propose entry points, per-duty instance bookkeeping,
	// transport, subscribers) run duties in which members obtain their proposals early, late (after
	// their own subscriber was already handed the decision) or never, and retry; every subscriber
	// delivery is judged.
	if b, err := consworld.NewBeacon(context.Background()); err != nil {
		r.Inconclusive("component world: beacon mock: %v", err)
	} else {
		worlds, duties := 12, 6
		if r.Thorough() {
			worlds, duties = 150, 8
		}
		report := func(mine bool) func(consworld.Finding, *consworld.Result) {
			return func(f consworld.Finding, res *consworld.Result) {
				if !mine {
					r.Count("component_findings_of_the_sibling_property/"+f.Sig, 1)
					return
				}
				r.Violation(-1, f.Sig, f.What, map[string]any{"duty": res.Duty.String(), "plan": res.Plan, "decisions": res.Decisions, "errors": res.Errors})
			}
		}
		obs := consworld.RunBatch(t, b, r.Rand(-1, 77), worlds, duties, report(true), report(false))
		for k, v := range obs {
			r.Count(k, int64(v))
		}
		if k := obs["component_duties_with_a_call_that_never_returned"]; k > 0 {
			r.Inconclusive("component world: in %d duties a Propose / Participate call did not return after its context had ended (not a verdict by itself; what the monitors observed up to then was judged)", k)
		}
		// Byzantine member on the wire (consworld/adversary.go): forged decisions for a value nobody proposed.
		advWorlds, advDuties := 5, 6
		if r.Thorough() {
			advWorlds, advDuties = 40, 10
		}
		rngA := r.Rand(-1, 78)
		for k := 0; k < advWorlds; k++ {
			aw, err := consworld.NewAdv(t, b)
			if err != nil {
				r.Count("adversary_world_setup_failed", 1)
				continue
			}
			for d := 0; d < advDuties; d++ {
				play := consworld.AdvPlays[(k*advDuties+d)%5]
				if d == advDuties-1 || d == advDuties/2 {
					play = consworld.AdvPlays[5] // replay of an earlier duty's genuine COMMITs (falls back while there is no earlier duty of the type)
				}
				res := aw.RunAdvDuty(b, rngA, play, fmt.Sprintf("adv%d-d%d", k, d))
				r.Count("adversary_duties", 1)
				r.Count("adversary_duties/"+res.Play, 1)
				if res.OthersGotA {
					r.Count("adversary_duties_in_which_the_other_members_decided_with_the_adversarys_genuine_votes", 1)
				}
				if len(res.Decisions[res.Victim]) > 0 {
					r.Count("adversary_duties_in_which_the_victim_decided", 1)
				}
				if res.TimedOut {
					r.Count("adversary_duties_timed_out", 1)
				}
				fs := res.CheckAdv()
				for _, f := range fs {
					r.Violation(-1, f.Sig, f.What, map[string]any{"duty": res.Duty.String(), "play": res.Play, "victim": res.Victim, "leader": res.Leader, "decisions": res.Decisions, "adversary_sent": res.Sent})
				}
				if len(fs) > 0 {
					break
				}
			}
			aw.Close()
		}
		r.Require("adversary_duties_in_which_the_other_members_decided_with_the_adversarys_genuine_votes", int64(advWorlds*advDuties/2))
		r.Require("adversary_duties_in_which_the_victim_decided", int64(advWorlds*advDuties/2))
		r.Require("component_members_decided", int64(worlds*duties*2))
		r.Require("component_duties_with_a_quorum_of_late_proposals", int64(worlds))
	}

	n := r.N(6000, 150000)
	r.Cases(n, 0, func(c *kit.Case) {
		res := qbftsim.RunAsyncCase(c.Rng)
		account(c, res)
		for _, f := range qbftsim.CheckAgreement(res.Sim) {
			w := res.Witness()
			w["finding"] = f.What
			c.Violation(f.Sig, f.What, w)
		}
	})
}

// account records coverage counters common to C02/C03.
func account(c *kit.Case, res *qbftsim.AsyncResult) {
	r := c.R
	s := res.Sim
	for rule, k := range s.RuleSeen {
		r.Count("rule/"+rule.String(), int64(k))
	}
	r.Count("decisions", int64(len(res.DecisionRounds())))
	for _, rd := range res.DecisionRounds() {
		if rd > 6 {
			rd = 6
		}
		r.Count(fmt.Sprintf("decided_in_round/%d", rd), 1)
	}
	r.Count("byz_msgs_injected", int64(res.Runner.Injected))
	r.Count("byz_msgs_accepted", int64(res.ByzAccepted()))
	r.Count("honest_msgs", int64(len(s.Sent)))
	r.Count("drops", int64(res.Runner.Drops))
	r.Count("dups", int64(res.Runner.Dups))
	r.Count("events", int64(len(res.Runner.Trace)))
	r.Count(fmt.Sprintf("cases_n/%d", res.Meta.N), 1)
	r.Count("cases_policy/"+res.Meta.Policy, 1)
	if s.MaxRound > r.Counter("max_round") {
		r.Count("max_round", s.MaxRound-r.Counter("max_round"))
	}
	if res.Adv != nil {
		var ks []string
		for k := range res.Adv.StratCount {
			ks = append(ks, k)
		}
		sort.Strings(ks)
		for _, k := range ks {
			r.Count("adversary/"+k, int64(res.Adv.StratCount[k]))
		}
	}
	for _, id := range s.Cfg.Honest {
		p := s.Procs[id]
		if p.Panic != nil {
			c.Violation("qbft/run-panicked", fmt.Sprint("qbft.Run panicked: ", p.Panic), res.Witness())
		} else if p.ExitErr != nil && p.ExitErr.Error() != "context canceled" {
			if res.Meta.Policy == "adversarial" {
				r.Count("honest_instance_aborted_under_byzantine_input/"+kit.Short(p.ExitErr.Error(), 60), 1)
			} else {
				r.Count("honest_instance_exit_error/"+kit.Short(p.ExitErr.Error(), 40), 1)
			}
		}
	}
	if res.NonTrivial() {
		c.NonTrivial(res.TraceHash())
	}
	if c.Idx < 2 {
		r.Sample(map[string]any{"meta": res.Meta, "events": len(res.Runner.Trace), "max_round": s.MaxRound, "decision_rounds": res.DecisionRounds(), "trace_head": res.Runner.TraceStrings(100000)[:min(25, len(res.Runner.Trace))]})
	}
	_ = qbft.MsgPrepare
}
