// Package c08 monitors the tbls package (property C08): for every t-of-n split, every subset of at
// least t shares must recover the secret, the group public key and — via ThresholdAggregate — the
// very signature the undivided key produces; below-threshold subsets and single substitutions of a
// share, an index or a message must never yield an accepted aggregate.
package c08

import (
	"bytes"
	"crypto/sha1"
	"encoding/hex"
	"encoding/json"
	"fmt"
	"math/big"
	"math/bits"
	"math/rand"
	"os"
	"os/exec"
	"path/filepath"
	"sort"
	"strings"
	"testing"

	"github.com/obolnetwork/charon/tbls"

	"verifharness/kit"
)

const (
	minN          = 2
	maxN          = 10
	sampledPerNT  = 64 // subsets of size >= t evaluated per (n,t) case above the exhaustive limit
	belowSampled  = 16 // subsets of size t-1 evaluated per case above the exhaustive limit
	negSubsetsMax = 6  // subsets per case that get the full negative (substitution) treatment
)

// r is the order of the BLS12-381 scalar field; valid secrets are 1..r-1 (tbls rejects 0 as a key
// in SecretToPublicKey and anything >= r on deserialisation; probed).
var fieldOrder, _ = new(big.Int).SetString("73eda753299d7d483339d80809a1d80553bda402fffe5bfeffffffff00000001", 16)

type pair struct{ n, t int }

func allPairs() []pair {
	var ps []pair
	for n := minN; n <= maxN; n++ {
		for t := 2; t <= n; t++ {
			ps = append(ps, pair{n, t})
		}
	}

	return ps
}

// secretKinds: the even kinds are edge scalars, "prng" is a PRNG-drawn key.
var secretKinds = []string{"prng", "one", "prng", "r-1", "prng", "two", "prng", "r-2", "prng", "2^254", "prng", "half", "prng", "hibits", "prng", "0x55", "prng", "low-ff", "prng", "r-2^32"}

func scalar(v *big.Int) tbls.PrivateKey {
	var sk tbls.PrivateKey
	v.FillBytes(sk[:])

	return sk
}

func makeSecret(t *testing.T, kind string, rng *rand.Rand) (tbls.PrivateKey, error) {
	one := big.NewInt(1)
	switch kind {
	case "one":
		return scalar(one), nil
	case "two":
		return scalar(big.NewInt(2)), nil
	case "r-1":
		return scalar(new(big.Int).Sub(fieldOrder, one)), nil
	case "r-2":
		return scalar(new(big.Int).Sub(fieldOrder, big.NewInt(2))), nil
	case "2^254":
		return scalar(new(big.Int).Lsh(one, 254)), nil
	case "half":
		return scalar(new(big.Int).Rsh(fieldOrder, 1)), nil
	case "hibits": // top bytes equal to r's, random tail below r
		v := new(big.Int).Set(fieldOrder)
		v.Sub(v, new(big.Int).SetUint64(2+uint64(rng.Int63())))

		return scalar(v), nil
	case "0x55":
		var sk tbls.PrivateKey
		for i := range sk {
			sk[i] = 0x55
		}

		return sk, nil
	case "low-ff": // 0x73eda752 ff…ff : every low bit set, just below r
		var sk tbls.PrivateKey
		for i := range sk {
			sk[i] = 0xff
		}
		copy(sk[:4], []byte{0x73, 0xed, 0xa7, 0x52})

		return sk, nil
	case "r-2^32":
		return scalar(new(big.Int).Sub(fieldOrder, new(big.Int).Lsh(one, 32))), nil
	default:
		return tbls.GenerateInsecureKey(t, rng)
	}
}

var msgLens = []int{0, 1, 2, 31, 32, 33, 48, 64, 96, 127, 128, 255, 256}

func popcount(m uint32) int { return bits.OnesCount32(m) }

// idsOf lists the share ids selected by mask out of the sorted ids the split returned.
func idsOf(mask uint32, all []int) []int {
	var ids []int
	for i, id := range all {
		if mask&(1<<i) != 0 {
			ids = append(ids, id)
		}
	}

	return ids
}

// randMask draws a uniformly random subset of 0..n-1 with exactly k members.
func randMask(rng *rand.Rand, n, k int) uint32 {
	var m uint32
	for _, i := range rng.Perm(n)[:k] {
		m |= 1 << i
	}

	return m
}

// countGE returns the number of subsets of an n-set with at least t members.
func countGE(n, t int) int {
	c := 0
	for k := t; k <= n; k++ {
		c += int(new(big.Int).Binomial(int64(n), int64(k)).Int64())
	}

	return c
}

func TestCheck(t *testing.T) {
	r := kit.Start(t, "C08")
	defer r.Finish()
	defer reportArgFindings(r)

	exhLimit := 6
	if r.Thorough() {
		exhLimit = 7
	}
	rounds := r.N(8, 64)
	pairs := allPairs()
	serialOps := r.N(400, 4000)
	nPurity := r.N(72, 576)

	r.Rule(fmt.Sprintf("case = one (n,t) pair of the 45 pairs n in 2..10, 2<=t<=n (each pair visited once per round, %d rounds) x one secret "+
		"(alternating PRNG keys and edge scalars 1, 2, r-1, r-2, 2^254, (r-1)/2, r-k, 0x55.., 0x73eda752ff..ff, r-2^32 built as tbls.PrivateKey bytes) x one PRNG message of length 0..256 "+
		"x ThresholdSplit (CSPRNG coefficients, so shares are fresh on every run) or ThresholdSplitInsecure (seeded); "+
		"EXHAUSTIVE part: for n <= %d every subset of size >= t and every non-empty subset of size < t of the returned shares is evaluated in every case; "+
		"SAMPLED part: secrets, messages, polynomials; for n > %d up to %d distinct PRNG subsets of size >= t (all of them when fewer exist), all singletons and %d subsets of size t-1; "+
		"single substitutions (foreign share of another secret / of a re-split of the same secret, relabelled index, partial over another message, partial from an unrelated key, malformed partial: zero / zeroed tail / infinity / bit flip) on up to %d PRNG subsets per case, every position of one size-t subset; "+
		"non-trivial = at least one subset with more than t members or a substitution was evaluated; distinct = hash(n,t,split kind,secret,message); "+
		"CPU part: a serial prologue repeats aggregate / recover identities for every subset of size >= t of 7 small (n,t) pairs under GOMAXPROCS 1..5 and the machine's own value; PURITY part (history / aliasing): a serial prologue of %d operations on one goroutine with nothing else running, then %d purity cases (1..4 concurrent actors x 24..47 operations, run among the other cases) over 2..3 key sets (n 2..5): "+
		"Sign / all-shares-sign-one-buffer rounds / Verify with known expectation (valid, prefix-sharing other message, other message, other key, bit-flipped signature) / ThresholdAggregate (optionally right after a failing call) / RecoverSecret+RecoverPubkey / ThresholdSplit(+Insecure) / Aggregate+VerifyAggregate, "+
		"key set chosen stickily (A-ops, B-ops, A-ops); messages are passed out of a scratch buffer overwritten in place (same / other length), a sub-slice of a larger buffer or a fresh copy; every slice and map handed to tbls is scribbled over after the call returns, returned maps after use; "+
		"every result is compared with the result remembered for the same argument values and with the semantic oracles; a purity case is non-trivial when a message buffer was overwritten in place (same length) between two signing calls, distinct = hash of the operation traces",
		rounds, exhLimit, exhLimit, sampledPerNT, belowSampled, negSubsetsMax, serialOps, nPurity))
	r.Assume("herumi bls-eth-go-binary (pre-built native library) computes BLS12-381 group operations correctly; the oracle compares tbls outputs against each other (direct Sign/SecretToPublicKey of the undivided key), not against a second BLS implementation")
	r.Assume("valid secrets are the scalars 1..r-1; 0 and values >= r are not keys (tbls itself rejects them) and are not generated")
	r.Assume("polynomial coefficients drawn by the split are non-degenerate (a below-threshold subset or a substituted share reproduces the key only with probability ~2^-255)")
	r.Assume("tbls is a pure-function API: byte arrays (keys, signatures) are values; only message slices and share / signature maps and slices can alias caller memory, and those are what the purity workload recycles")
	r.Assume("the native CSPRNG state of herumi is initialised by one single-threaded GenerateSecretKey call before the parallel workload (concurrent first use makes the process abort in libc exit() with a double free; exit-time only, -race/-asan builds only)")
	r.RacePkgs(false, "tbls")
	r.Require("subsets_ge_t", 1000)
	r.Require("subsets_below_t", 300)
	r.Require("neg/foreign-share", 100)
	r.Require("neg/resplit-share", 100)
	r.Require("neg/relabel-index", 100)
	r.Require("neg/other-message", 100)
	r.Require("neg/unrelated-key", 100)
	r.Require("neg/malformed-partial", 100)
	r.Require("malformed_signatures", 100)
	r.Require("purity_ops/sign", 1000)
	r.Require("purity_ops/share-round", 300)
	r.Require("purity_ops/verify", 300)
	r.Require("purity_inplace_same_length_overwrites_between_signs", 200)
	r.Require("purity_repeated_calls_compared", 300)
	r.Require("cpu_sweep_subsets", 400)

	// herumi initialises the static state behind SetByCSPRNG lazily and without synchronisation:
	// when the first calls race, its destructor is registered twice and glibc aborts with "double
	// free" when the process leaves through libc exit() (only -race/-asan builds do; probed: 7/80
	// cold, 0/80 after this warm-up). Not part of the property; reported as a side observation.
	if _, err := tbls.GenerateSecretKey(); err != nil {
		r.Violation(-1, "tbls/GenerateSecretKey/error-on-valid-input", err.Error(), nil)
	}

	// History / aliasing dimension (purity_test.go): a strictly serial prologue, then purity cases with
	// 1..4 concurrent actors mixed among the algebraic cases.
	if !r.Replaying() {
		runPuritySerial(r, serialOps)
		runCPUSweep(r)
	}

	base := len(pairs) * rounds
	n := base + nPurity
	r.Cases(n, 0, func(c *kit.Case) {
		if c.Idx >= base {
			runPurityCase(c)
			return
		}
		p := pairs[c.Idx%len(pairs)]
		round := c.Idx / len(pairs)
		runCase(c, p, round, c.Idx%len(pairs), exhLimit)
	})

	// Was the finite subset space really enumerated completely? Compare measured counts with the
	// closed form.
	if !r.Replaying() {
		var wantGE, wantBelow int64
		for _, p := range pairs {
			if p.n > exhLimit {
				continue
			}
			ge := countGE(p.n, p.t)
			wantGE += int64(ge)
			wantBelow += int64((1<<p.n)-1) - int64(ge)
		}
		wantGE *= int64(rounds)
		wantBelow *= int64(rounds)
		gotGE, gotBelow := r.Counter("exhaustive_subsets_ge_t"), r.Counter("exhaustive_subsets_below_t")
		r.Set("exhaustive_limit_n", exhLimit)
		r.Set("exhaustive_expected", map[string]int64{"ge_t": wantGE, "below_t": wantBelow})
		if gotGE == wantGE && gotBelow == wantBelow {
			r.Exhaustive(true)
		} else {
			r.Inconclusive("exhaustive subset enumeration incomplete: evaluated %d/%d subsets >= t and %d/%d below t (an earlier API error aborts a case)", gotGE, wantGE, gotBelow, wantBelow)
		}
	}

	if r.Thorough() && !r.Replaying() && os.Getenv("VERIF_ASAN_CHILD") == "" {
		runAsanChild(r)
	}
}

// split is everything derived from one ThresholdSplit call.
type split struct {
	n, t     int
	ids      []int // sorted share ids as returned by the split
	secret   tbls.PrivateKey
	group    tbls.PublicKey
	shares   map[int]tbls.PrivateKey
	pubs     map[int]tbls.PublicKey
	partials map[int]tbls.Signature
	msg      []byte
	ref      tbls.Signature
}

func hx(b []byte) string { return hex.EncodeToString(b) }

func (s *split) witness(ids []int, extra map[string]any) map[string]any {
	w := map[string]any{
		"n": s.n, "t": s.t, "secret": hx(s.secret[:]), "group_pubkey": hx(s.group[:]),
		"message": hx(s.msg), "reference_signature": hx(s.ref[:]), "subset_ids": ids,
	}
	sh := map[string]string{}
	for id, k := range s.shares {
		sh[fmt.Sprint(id)] = hx(k[:])
	}
	w["shares"] = sh
	for k, v := range extra {
		w[k] = v
	}

	return w
}

func doSplit(c *kit.Case, secret tbls.PrivateKey, n, t int, insecure bool, rng *rand.Rand) (map[int]tbls.PrivateKey, error) {
	if insecure {
		return tbls.ThresholdSplitInsecure(c.R.T(), secret, uint(n), uint(t), rng)
	}

	return tbls.ThresholdSplit(secret, uint(n), uint(t))
}

func runCase(c *kit.Case, p pair, round, pairIdx, exhLimit int) {
	r, rng := c.R, c.Rng
	n, t := p.n, p.t

	ki := round + pairIdx
	kind := secretKinds[ki%len(secretKinds)]
	insecure := (ki/2+ki/len(secretKinds))%2 == 0 // every secret kind meets both split functions
	splitName := "ThresholdSplit"
	if insecure {
		splitName = "ThresholdSplitInsecure"
	}
	mlen := msgLens[rng.Intn(len(msgLens))]
	if rng.Intn(2) == 0 {
		mlen = rng.Intn(257)
	}
	msg := make([]byte, mlen)
	rng.Read(msg)

	apiErr := func(op string, err error, w map[string]any) {
		c.Violation("tbls/"+op+"/error-on-valid-input", fmt.Sprintf("%s failed on valid input (n=%d t=%d secret kind %s): %v", op, n, t, kind, err), w)
	}

	secret, err := makeSecret(r.T(), kind, rng)
	if err != nil {
		apiErr("GenerateInsecureKey", err, nil)
		return
	}
	base := map[string]any{"n": n, "t": t, "secret": hx(secret[:]), "secret_kind": kind, "split": splitName, "message": hx(msg)}

	group, err := tbls.SecretToPublicKey(secret)
	if err != nil {
		apiErr("SecretToPublicKey", err, base)
		return
	}
	ref, err := tbls.Sign(secret, msg)
	if err != nil {
		apiErr("Sign", err, base)
		return
	}
	if err := tbls.Verify(group, msg, ref); err != nil {
		c.Violation("tbls/Verify/direct-signature-rejected", fmt.Sprintf("signature of the undivided key does not verify under its public key: %v", err), base)
		return
	}

	shares, err := doSplit(c, secret, n, t, insecure, rng)
	if err != nil {
		apiErr(splitName, err, base)
		return
	}
	s := &split{n: n, t: t, secret: secret, group: group, shares: shares, msg: msg, ref: ref,
		pubs: map[int]tbls.PublicKey{}, partials: map[int]tbls.Signature{}}

	// The split must hand out n shares under the ids 1..n (mechanism of the property; every other
	// charon component addresses shares by these ids).
	var ids []int
	for id := range shares {
		ids = append(ids, id)
	}
	sort.Ints(ids)
	okIDs := len(ids) == n
	for i, id := range ids {
		okIDs = okIDs && id == i+1
	}
	if !okIDs {
		c.Violation("tbls/"+splitName+"/share-ids-not-1..n", fmt.Sprintf("%s(n=%d,t=%d) returned share ids %v, want 1..%d", splitName, n, t, ids, n), s.witness(ids, nil))
		if len(ids) != n {
			return
		}
		// keep going with the ids as returned: the algebraic oracles below do not depend on them
	}
	s.ids = ids
	for _, id := range ids {
		sh := shares[id]
		pub, err := tbls.SecretToPublicKey(sh)
		if err != nil {
			apiErr("SecretToPublicKey(share)", err, s.witness([]int{id}, nil))
			return
		}
		s.pubs[id] = pub
		sig, err := tbls.Sign(sh, msg)
		if err != nil {
			apiErr("Sign(share)", err, s.witness([]int{id}, nil))
			return
		}
		s.partials[id] = sig
		if err := tbls.Verify(pub, msg, sig); err != nil {
			c.Violation("tbls/Verify/partial-rejected-under-own-public-share", fmt.Sprintf("partial signature of share %d does not verify under that share's public key: %v", id, err), s.witness([]int{id}, nil))
		}
		r.Count("partials_verified", 1)
	}

	// Material for substitutions: a split of another secret, a second split of the same secret,
	// another message, an unrelated key.
	otherSecret, err := tbls.GenerateInsecureKey(r.T(), rng)
	if err != nil {
		apiErr("GenerateInsecureKey", err, nil)
		return
	}
	for otherSecret == secret {
		otherSecret, _ = tbls.GenerateInsecureKey(r.T(), rng)
	}
	foreign, err := doSplit(c, otherSecret, n+3, t, !insecure, rng) // n+3: also provides shares for unused ids when the subset is 1..n
	if err != nil {
		apiErr("ThresholdSplit(other)", err, base)
		return
	}
	resplit, err := doSplit(c, secret, n, t, true, rng)
	if err != nil {
		apiErr("ThresholdSplitInsecure(resplit)", err, base)
		return
	}
	otherMsg := append([]byte(nil), msg...)
	switch {
	case len(otherMsg) == 0:
		otherMsg = []byte{0}
	case rng.Intn(3) == 0:
		otherMsg = otherMsg[:len(otherMsg)-1] // a strict prefix
	case rng.Intn(2) == 0:
		otherMsg = append(otherMsg, 0) // zero-extended
	default:
		otherMsg[rng.Intn(len(otherMsg))] ^= 1 << rng.Intn(8)
	}
	unrelated, err := tbls.GenerateInsecureKey(r.T(), rng)
	if err != nil {
		apiErr("GenerateInsecureKey", err, nil)
		return
	}

	// Cheap cross checks of Verify itself: the reference must not verify for the other message or
	// under the other group key.
	if tbls.Verify(group, otherMsg, ref) == nil {
		c.Violation("tbls/Verify/accepts-other-message", "group signature verifies for a different message", s.witness(nil, map[string]any{"other_message": hx(otherMsg)}))
	}
	if og, err := tbls.SecretToPublicKey(otherSecret); err == nil && tbls.Verify(og, msg, ref) == nil {
		c.Violation("tbls/Verify/accepts-other-key", "group signature verifies under an unrelated public key", s.witness(nil, map[string]any{"other_key": hx(og[:])}))
	}

	// Malformed encodings of the group signature are never accepted: all-zero, zeroed tail
	// ("truncated" in a fixed 96-byte array), the point at infinity, single bit flips.
	for name, bad := range malformed(ref, rng) {
		r.Count("malformed_signatures", 1)
		if bad != ref && tbls.Verify(group, msg, bad) == nil {
			c.Violation("tbls/Verify/accepts-malformed-signature/"+name, "Verify accepts a "+name+" signature under the group key", s.witness(nil, map[string]any{"signature": hx(bad[:])}))
		}
	}

	// ---- subsets ----
	exhaustive := n <= exhLimit
	var geMasks, belowMasks []uint32
	full := uint32(1)<<n - 1
	if exhaustive || countGE(n, t) <= sampledPerNT {
		for m := uint32(1); m <= full; m++ {
			if popcount(m) >= t {
				geMasks = append(geMasks, m)
			}
		}
	} else {
		seen := map[uint32]bool{full: true}
		geMasks = append(geMasks, full)
		for k := 0; k < 4 && len(geMasks) < sampledPerNT; k++ { // always some minimal subsets
			m := randMask(rng, n, t)
			if !seen[m] {
				seen[m] = true
				geMasks = append(geMasks, m)
			}
		}
		for len(geMasks) < sampledPerNT {
			m := randMask(rng, n, t+rng.Intn(n-t+1))
			if !seen[m] {
				seen[m] = true
				geMasks = append(geMasks, m)
			}
		}
	}
	if exhaustive {
		for m := uint32(1); m <= full; m++ {
			if popcount(m) < t {
				belowMasks = append(belowMasks, m)
			}
		}
	} else {
		seen := map[uint32]bool{}
		for i := 0; i < n; i++ {
			seen[1<<i] = true
			belowMasks = append(belowMasks, 1<<i)
		}
		total := int(new(big.Int).Binomial(int64(n), int64(t-1)).Int64())
		for k := 0; k < belowSampled*4 && len(belowMasks) < n+belowSampled && len(belowMasks) < n+total; k++ {
			m := randMask(rng, n, t-1)
			if !seen[m] {
				seen[m] = true
				belowMasks = append(belowMasks, m)
			}
		}
	}

	larger := false
	for _, m := range geMasks {
		sub := idsOf(m, ids)
		if len(sub) > t {
			larger = true
		}
		s.checkPositive(c, sub)
		r.Count("subsets_ge_t", 1)
		if exhaustive {
			r.Count("exhaustive_subsets_ge_t", 1)
		}
	}
	for _, m := range belowMasks {
		s.checkBelow(c, idsOf(m, ids))
		r.Count("subsets_below_t", 1)
		if exhaustive {
			r.Count("exhaustive_subsets_below_t", 1)
		}
	}

	// ---- single substitutions ----
	negs := 0
	var negMasks []uint32
	negMasks = append(negMasks, randMask(rng, n, t)) // every position of this one
	if n > t {
		negMasks = append(negMasks, full)
	}
	for len(negMasks) < negSubsetsMax && len(negMasks) < len(geMasks) {
		negMasks = append(negMasks, geMasks[rng.Intn(len(geMasks))])
	}
	for i, m := range negMasks {
		sub := idsOf(m, ids)
		var positions []int
		if i == 0 {
			for j := range sub {
				positions = append(positions, j)
			}
		} else {
			positions = []int{rng.Intn(len(sub))}
		}
		for _, j := range positions {
			negs += s.checkSubstitutions(c, sub, j, foreign, resplit, otherMsg, unrelated, rng)
		}
	}

	if larger || negs > 0 {
		c.NonTrivial(kit.Hash(n, t, splitName, hx(secret[:]), hx(msg)))
	}
	r.Seen("n_t_pairs", fmt.Sprintf("%02d/%02d", n, t))
	r.Seen("secret_kinds", kind)
	r.Seen("split_functions", splitName)
	r.Seen("message_lengths", fmt.Sprintf("%03d", mlen))
	if exhaustive {
		r.Seen("exhaustive_pairs", fmt.Sprintf("%02d/%02d", n, t))
	}
	if c.Idx == 7 || c.Idx == 30 {
		r.Sample(map[string]any{"n": n, "t": t, "secret_kind": kind, "split": splitName, "message_len": mlen,
			"subsets_ge_t": len(geMasks), "subsets_below_t": len(belowMasks), "substitutions": negs, "exhaustive": exhaustive})
	}
}

func pick[V any](m map[int]V, ids []int) map[int]V {
	out := make(map[int]V, len(ids))
	for _, id := range ids {
		out[id] = m[id]
	}

	return out
}

// checkPositive: a subset with at least t members reproduces secret, group key and signature.
func (s *split) checkPositive(c *kit.Case, ids []int) {
	cls := "size-eq-t"
	if len(ids) > s.t {
		cls = "size-gt-t"
	}
	rec, err := ckRecoverSecret(pick(s.shares, ids), uint(s.n), uint(s.t))
	switch {
	case err != nil:
		c.Violation("tbls/RecoverSecret/"+cls+"/error", fmt.Sprintf("RecoverSecret failed for %d>=t=%d genuine shares: %v", len(ids), s.t, err), s.witness(ids, nil))
	case rec != s.secret:
		c.Violation("tbls/RecoverSecret/"+cls+"/wrong-secret", fmt.Sprintf("RecoverSecret of %d>=t=%d genuine shares returned a different secret", len(ids), s.t), s.witness(ids, map[string]any{"recovered": hx(rec[:])}))
	}
	pub, err := ckRecoverPubkey(pick(s.pubs, ids))
	switch {
	case err != nil:
		c.Violation("tbls/RecoverPubkey/"+cls+"/error", fmt.Sprintf("RecoverPubkey failed for %d>=t=%d genuine public shares: %v", len(ids), s.t, err), s.witness(ids, nil))
	case pub != s.group:
		c.Violation("tbls/RecoverPubkey/"+cls+"/wrong-group-key", fmt.Sprintf("RecoverPubkey of %d>=t=%d genuine public shares differs from SecretToPublicKey(secret)", len(ids), s.t), s.witness(ids, map[string]any{"recovered": hx(pub[:])}))
	}
	agg, err := ckThresholdAggregate(pick(s.partials, ids))
	switch {
	case err != nil:
		c.Violation("tbls/ThresholdAggregate/"+cls+"/error", fmt.Sprintf("ThresholdAggregate failed for %d>=t=%d genuine partials: %v", len(ids), s.t, err), s.witness(ids, nil))
		return
	case agg != s.ref:
		c.Violation("tbls/ThresholdAggregate/"+cls+"/differs-from-direct-signature", fmt.Sprintf("aggregate of %d>=t=%d genuine partials is not byte-identical to Sign(secret)", len(ids), s.t), s.witness(ids, map[string]any{"aggregate": hx(agg[:])}))
	}
	if err := tbls.Verify(s.group, s.msg, agg); err != nil {
		c.Violation("tbls/Verify/"+cls+"/aggregate-rejected", fmt.Sprintf("aggregate of %d>=t=%d genuine partials does not verify under the group key: %v", len(ids), s.t, err), s.witness(ids, map[string]any{"aggregate": hx(agg[:])}))
	}
}

// checkBelow: fewer than t shares never reproduce secret, group key or signature.
func (s *split) checkBelow(c *kit.Case, ids []int) {
	r := c.R
	rec, err := ckRecoverSecret(pick(s.shares, ids), uint(s.n), uint(s.t))
	if err == nil && rec == s.secret {
		c.Violation("tbls/below-threshold/RecoverSecret-reproduces-secret", fmt.Sprintf("%d<t=%d shares recover the secret", len(ids), s.t), s.witness(ids, nil))
	}
	pub, err := ckRecoverPubkey(pick(s.pubs, ids))
	if err == nil && pub == s.group {
		c.Violation("tbls/below-threshold/RecoverPubkey-reproduces-group-key", fmt.Sprintf("%d<t=%d public shares recover the group key", len(ids), s.t), s.witness(ids, nil))
	}
	agg, err := ckThresholdAggregate(pick(s.partials, ids))
	if err != nil {
		r.Count("below_t_rejected_by_error", 1)
		return
	}
	if agg == s.ref {
		c.Violation("tbls/below-threshold/aggregate-equals-group-signature", fmt.Sprintf("%d<t=%d partials aggregate to the group signature", len(ids), s.t), s.witness(ids, nil))
	}
	if tbls.Verify(s.group, s.msg, agg) == nil {
		c.Violation("tbls/below-threshold/aggregate-verifies", fmt.Sprintf("aggregate of %d<t=%d partials verifies under the group key", len(ids), s.t), s.witness(ids, map[string]any{"aggregate": hx(agg[:])}))
	} else {
		r.Count("below_t_rejected_by_verify", 1)
	}
}

// negSig evaluates the signature-level oracle for a tampered partial set.
func (s *split) negSig(c *kit.Case, kind string, ids []int, partials map[int]tbls.Signature, w map[string]any) {
	r := c.R
	r.Count("neg/"+kind, 1)
	agg, err := ckThresholdAggregate(partials)
	if err != nil {
		r.Count("neg_rejected_by_aggregate_error/"+kind, 1)
		return
	}
	w["aggregate"] = hx(agg[:])
	if agg == s.ref {
		c.Violation("tbls/substitution/"+kind+"/aggregate-equals-group-signature", "aggregate of a tampered partial set ("+kind+") is byte-identical to the group signature", s.witness(ids, w))
	}
	if tbls.Verify(s.group, s.msg, agg) == nil {
		c.Violation("tbls/substitution/"+kind+"/aggregate-verifies", "aggregate of a tampered partial set ("+kind+") verifies under the group key", s.witness(ids, w))
	} else {
		r.Count("neg_rejected_by_verify/"+kind, 1)
	}
}

// negKeys evaluates the secret / public key level oracle for a tampered share set.
func (s *split) negKeys(c *kit.Case, kind string, ids []int, shares map[int]tbls.PrivateKey, w map[string]any) {
	rec, err := ckRecoverSecret(shares, uint(s.n), uint(s.t))
	if err == nil && rec == s.secret {
		c.Violation("tbls/substitution/"+kind+"/RecoverSecret-reproduces-secret", "tampered share set ("+kind+") still recovers the secret", s.witness(ids, w))
	}
	pubs := map[int]tbls.PublicKey{}
	for id, sh := range shares {
		pub, err := tbls.SecretToPublicKey(sh)
		if err != nil {
			return // a degenerate substitute; nothing to assert
		}
		pubs[id] = pub
	}
	pub, err := ckRecoverPubkey(pubs)
	if err == nil && pub == s.group {
		c.Violation("tbls/substitution/"+kind+"/RecoverPubkey-reproduces-group-key", "tampered public share set ("+kind+") still recovers the group key", s.witness(ids, w))
	}
}

// malformed returns corrupted variants of a valid signature.
func malformed(sig tbls.Signature, rng *rand.Rand) map[string]tbls.Signature {
	out := map[string]tbls.Signature{"all-zero": {}}
	tail := sig
	for i := 48; i < len(tail); i++ {
		tail[i] = 0
	}
	out["zeroed-tail"] = tail
	var inf tbls.Signature
	inf[0] = 0xc0
	out["infinity"] = inf
	flip := sig
	flip[rng.Intn(len(flip))] ^= 1 << rng.Intn(8)
	out["bit-flip"] = flip

	return out
}

// checkSubstitutions applies every single-substitution kind at position j of subset ids.
func (s *split) checkSubstitutions(c *kit.Case, ids []int, j int, foreign, resplit map[int]tbls.PrivateKey, otherMsg []byte, unrelated tbls.PrivateKey, rng *rand.Rand) int {
	id := ids[j]
	done := 0
	signAll := func(shares map[int]tbls.PrivateKey) (map[int]tbls.Signature, bool) {
		out := map[int]tbls.Signature{}
		for i, sh := range shares {
			sig, err := tbls.Sign(sh, s.msg)
			if err != nil {
				return nil, false
			}
			out[i] = sig
		}

		return out, true
	}

	// (a) share of another secret's split, same id; (a') share of a second split of the same secret.
	for _, sub := range []struct {
		kind string
		from map[int]tbls.PrivateKey
	}{{"foreign-share", foreign}, {"resplit-share", resplit}} {
		if sh, ok := sub.from[id]; !ok || sh == s.shares[id] {
			continue
		}
		shares := pick(s.shares, ids)
		subst := sub.from[id]
		shares[id] = subst
		w := map[string]any{"substituted_id": id, "substitute_share": hx(subst[:])}
		s.negKeys(c, sub.kind, ids, shares, w)
		if partials, ok := signAll(shares); ok {
			s.negSig(c, sub.kind, ids, partials, w)
			done++
		}
	}

	// (b) relabel id -> an id not in the subset (inside 1..n when one is free, else n+1..n+3).
	used := map[int]bool{}
	for _, i := range ids {
		used[i] = true
	}
	var free []int
	for _, i := range s.ids {
		if !used[i] {
			free = append(free, i)
		}
	}
	if len(free) == 0 || rng.Intn(4) == 0 {
		free = append(free, s.ids[len(s.ids)-1]+1+rng.Intn(3))
	}
	newID := free[rng.Intn(len(free))]
	{
		shares := pick(s.shares, ids)
		delete(shares, id)
		shares[newID] = s.shares[id]
		w := map[string]any{"relabelled_id": id, "as_id": newID}
		s.negKeys(c, "relabel-index", ids, shares, w)
		partials := pick(s.partials, ids)
		delete(partials, id)
		partials[newID] = s.partials[id]
		s.negSig(c, "relabel-index", ids, partials, w)
		done++
	}

	// (c) the partial of the right share over another message.
	if sig, err := tbls.Sign(s.shares[id], otherMsg); err == nil {
		partials := pick(s.partials, ids)
		partials[id] = sig
		s.negSig(c, "other-message", ids, partials, map[string]any{"substituted_id": id, "other_message": hx(otherMsg)})
		done++
	}

	// (e) a malformed partial (zero / zeroed tail / infinity / bit flip).
	for name, bad := range malformed(s.partials[id], rng) {
		if bad == s.partials[id] {
			continue
		}
		partials := pick(s.partials, ids)
		partials[id] = bad
		s.negSig(c, "malformed-partial", ids, partials, map[string]any{"substituted_id": id, "malformation": name, "partial": hx(bad[:])})
		done++
	}

	// (d) a partial produced by an unrelated key over the right message.
	if sig, err := tbls.Sign(unrelated, s.msg); err == nil {
		partials := pick(s.partials, ids)
		partials[id] = sig
		s.negSig(c, "unrelated-key", ids, partials, map[string]any{"substituted_id": id, "unrelated_key": hx(unrelated[:])})
		done++
	}

	return done
}

// runAsanChild re-runs the same workload (same seed, thorough tier, a quarter of the rounds) in a child `go test -asan`
// build so that AddressSanitizer's interceptors watch the cgo boundary of the herumi library.
// Its violations are merged; an ASan report is a violation; a toolchain that cannot build with
// -asan is recorded, not judged.
func runAsanChild(r *kit.Run) {
	dir, err := os.Getwd()
	if err != nil {
		r.Set("asan_child", "skipped: "+err.Error())
		return
	}
	if v := os.Getenv("VERIF_DIR"); v != "" {
		dir = filepath.Join(v, "harness", "c08")
	}
	out, err := os.MkdirTemp(os.Getenv("VERIF_OUT"), "asan-")
	if err != nil {
		r.Set("asan_child", "skipped: "+err.Error())
		return
	}
	args := []string{"test", "-asan", "-tags", "verif", "-vet=off"}
	if repo := os.Getenv("VERIF_REPO_DIR"); repo != "" && repo != "/repo" {
		tag := hex.EncodeToString(func() []byte { h := sha1.Sum([]byte(repo)); return h[:] }())[:10]
		args = append(args, "-modfile="+filepath.Join(filepath.Dir(dir), ".alt-"+tag+".mod"))
	}
	args = append(args, "-run", "^TestCheck$", "-count=1", "-timeout", "0", ".")
	cmd := exec.Command("go1.26.8", args...)
	cmd.Dir = dir
	// a quarter of the rounds: the -asan build is there to watch the cgo boundary, not to repeat the volume
	cmd.Env = append(os.Environ(), "VERIF_ASAN_CHILD=1", "VERIF_OUT="+out, "VERIF_TIER=thorough", "VERIF_SCALE=0.25",
		fmt.Sprintf("VERIF_SEED=%d", r.Seed), "ASAN_OPTIONS=detect_leaks=0:halt_on_error=1")
	var buf bytes.Buffer
	cmd.Stdout, cmd.Stderr = &buf, &buf
	runErr := cmd.Run()
	text := buf.String()
	info := map[string]any{"ran": true}
	defer func() { r.Set("asan_child", info) }()

	if strings.Contains(text, "AddressSanitizer") {
		r.Violation(-1, "tbls/asan/report", "AddressSanitizer reported an error while the C08 workload ran in an -asan build", map[string]any{"output": kit.Short(text, 20000)})
		info["asan_report"] = true
		return
	}
	b, err := os.ReadFile(filepath.Join(out, "result.json"))
	if err != nil {
		info["ran"] = false
		info["note"] = "child produced no result (build with -asan not possible here?): " + kit.Short(text, 600)
		if runErr != nil && (strings.Contains(text, "panic:") || strings.Contains(text, "fatal error:")) {
			r.Violation(-1, "tbls/asan/child-crash", "the -asan child crashed while running the C08 workload", map[string]any{"output": kit.Short(text, 20000)})
		}

		return
	}
	var res kit.Result
	if err := json.Unmarshal(b, &res); err != nil {
		info["note"] = "unreadable child result: " + err.Error()
		return
	}
	info["evaluations"] = res.Evaluations
	info["subsets_ge_t"] = res.Counters["subsets_ge_t"]
	info["exhaustive"] = res.Exhaustive
	info["wall_s"] = res.WallS
	for _, v := range res.Violations {
		r.Violation(v.Case, v.Sig, "[-asan build] "+v.What, map[string]any{"child_replay": v.Replay})
	}
	for _, s := range res.Inconclusive {
		r.Inconclusive("asan child: %s", s)
	}
	r.Count("asan_child_subsets_ge_t", res.Counters["subsets_ge_t"])
}
