package c08

import (
	"bytes"
	"fmt"
	"runtime"

	"github.com/obolnetwork/charon/tbls"

	"verifharness/kit"
)

// CPU-count dimension (seeded change C08-r8). The statement quantifies over keys, messages and
// subsets, not over the machine: the result of combining shares or partial signatures must not
// depend on how many CPUs the process may use. A serial prologue (nothing else is running, so
// changing the process-wide GOMAXPROCS disturbs nobody) repeats the core identities for every
// subset of size >= t of small clusters under GOMAXPROCS = 1..5 and the machine's own value: with
// fewer processors than partials, with a count that does not divide their number, and with more.
func runCPUSweep(r *kit.Run) {
	rng := r.Rand(-1, 9)
	prev := runtime.GOMAXPROCS(0)
	defer runtime.GOMAXPROCS(prev)
	type nt struct{ n, t int }
	pairs := []nt{{3, 2}, {3, 3}, {4, 3}, {5, 3}, {5, 4}, {6, 4}, {7, 5}}
	for _, procs := range []int{1, 2, 3, 4, 5, prev} {
		runtime.GOMAXPROCS(procs)
		for _, p := range pairs {
			secret, err := tbls.GenerateInsecureKey(r.T(), rng)
			if err != nil {
				r.Violation(-1, "tbls/GenerateSecretKey/error-on-valid-input", err.Error(), nil)
				return
			}
			msg := make([]byte, 1+rng.Intn(64))
			rng.Read(msg)
			group, err1 := tbls.SecretToPublicKey(secret)
			ref, err2 := tbls.Sign(secret, msg)
			shares, err3 := tbls.ThresholdSplitInsecure(r.T(), secret, uint(p.n), uint(p.t), rng)
			if err1 != nil || err2 != nil || err3 != nil {
				r.Violation(-1, "tbls/cpu-sweep/error-on-valid-input", fmt.Sprintf("GOMAXPROCS=%d n=%d t=%d: %v %v %v", procs, p.n, p.t, err1, err2, err3), nil)
				continue
			}
			partials := map[int]tbls.Signature{}
			pubs := map[int]tbls.PublicKey{}
			for id, sh := range shares {
				if partials[id], err = tbls.Sign(sh, msg); err != nil {
					r.Violation(-1, "tbls/cpu-sweep/error-on-valid-input", err.Error(), nil)
				}
				pubs[id], _ = tbls.SecretToPublicKey(sh)
			}
			for mask := 1; mask < 1<<p.n; mask++ {
				var ids []int
				for i := 0; i < p.n; i++ {
					if mask&(1<<i) != 0 {
						ids = append(ids, i+1)
					}
				}
				if len(ids) < p.t {
					continue
				}
				ps, ss, pk := map[int]tbls.Signature{}, map[int]tbls.PrivateKey{}, map[int]tbls.PublicKey{}
				for _, id := range ids {
					ps[id], ss[id], pk[id] = partials[id], shares[id], pubs[id]
				}
				w := map[string]any{"gomaxprocs": procs, "n": p.n, "t": p.t, "subset_ids": ids, "message": hx(msg), "secret": hx(secret[:])}
				cls := fmt.Sprintf("size-%s", map[bool]string{true: "t", false: "above-t"}[len(ids) == p.t])
				agg, err := ckThresholdAggregate(ps)
				switch {
				case err != nil:
					r.Violation(-1, "tbls/ThresholdAggregate/"+cls+"/error", fmt.Sprintf("GOMAXPROCS=%d: ThresholdAggregate failed for %d>=t=%d genuine partials: %v", procs, len(ids), p.t, err), w)
				case !bytes.Equal(agg[:], ref[:]):
					r.Violation(-1, "tbls/ThresholdAggregate/"+cls+"/differs-from-direct-signature", fmt.Sprintf("GOMAXPROCS=%d: aggregate of %d>=t=%d genuine partials (n=%d) is not byte-identical to Sign(secret)", procs, len(ids), p.t, p.n), w)
				default:
					if err := tbls.Verify(group, msg, agg); err != nil {
						r.Violation(-1, "tbls/Verify/"+cls+"/aggregate-rejected", fmt.Sprintf("GOMAXPROCS=%d: aggregate does not verify under the group key: %v", procs, err), w)
					}
				}
				if rec, err := ckRecoverSecret(ss, uint(p.n), uint(p.t)); err != nil || rec != secret {
					r.Violation(-1, "tbls/RecoverSecret/"+cls+"/wrong-secret", fmt.Sprintf("GOMAXPROCS=%d: RecoverSecret of %d>=t=%d genuine shares: err=%v", procs, len(ids), p.t, err), w)
				}
				if rp, err := ckRecoverPubkey(pk); err != nil || rp != group {
					r.Violation(-1, "tbls/RecoverPubkey/"+cls+"/wrong-group-key", fmt.Sprintf("GOMAXPROCS=%d: RecoverPubkey of %d>=t=%d genuine public shares: err=%v", procs, len(ids), p.t, err), w)
				}
				r.Count("cpu_sweep_subsets", 1)
				r.Count(fmt.Sprintf("cpu_sweep_subsets/gomaxprocs=%d", procs), 1)
			}
		}
	}
	r.AddEvaluations(1)
}
