package c08

// History / aliasing dimension of C08. tbls is a pure-function API: every result must be a
// function of the VALUES of the arguments only — not of what was called before, and not of memory
// the caller still owns after the call returned. The "purity" workload therefore drives the same
// operations the algebraic cases use, but
//   - messages are passed out of a scratch buffer that is overwritten IN PLACE between calls
//     (same length, other length), out of sub-slices of a larger buffer, or as fresh copies;
//   - every slice / map handed to tbls is scribbled over right after the call returns, every map
//     handed back by tbls is scribbled over after use;
//   - operations on different key sets are interleaved (A-ops, B-ops, A-ops), on one goroutine
//     (a strictly serial prologue: precise histories with no foreign call in between) and on
//     several goroutines at once (under -race);
// and every result is compared with the result remembered for the same argument VALUES
// (determinism) and with the semantic oracles (a signature verifies under the signer's public
// key for the message value that was passed and for nothing else; aggregates equal the direct
// signature; recoveries return the secret / group key).

import (
	"fmt"
	"math/rand"
	"sort"
	"sync"

	"github.com/obolnetwork/charon/tbls"

	"verifharness/kit"
)

type keySet struct {
	name   string
	n, t   int
	secret tbls.PrivateKey
	group  tbls.PublicKey
	ids    []int
	shares map[int]tbls.PrivateKey
	pubs   map[int]tbls.PublicKey
}

// sigRec is a signature the harness has seen Sign produce (and has verified) for key/message values.
type sigRec struct {
	set int
	id  int // 0: the undivided key
	msg []byte
	sig tbls.Signature
}

type purity struct {
	r       *kit.Run
	caseIdx int
	sets    []*keySet

	mu    sync.Mutex
	memo  map[string][]byte // op + argument values -> first result seen
	known []sigRec
	pool  [][]byte // message values (never handed to tbls themselves)
	viol  int
}

var purityLens = []int{0, 1, 31, 32, 32, 32, 33, 48, 64, 96, 200}

func newPurity(r *kit.Run, caseIdx int, rng *rand.Rand) (*purity, error) {
	p := &purity{r: r, caseIdx: caseIdx, memo: map[string][]byte{}}
	nsets := 2 + rng.Intn(2)
	for i := 0; i < nsets; i++ {
		n := 2 + rng.Intn(4)
		t := 2 + rng.Intn(n-1)
		secret, err := tbls.GenerateInsecureKey(r.T(), rng)
		if err != nil {
			return nil, err
		}
		group, err := tbls.SecretToPublicKey(secret)
		if err != nil {
			return nil, err
		}
		shares, err := tbls.ThresholdSplitInsecure(r.T(), secret, uint(n), uint(t), rng)
		if err != nil {
			return nil, err
		}
		ks := &keySet{name: string(rune('A' + i)), n: n, t: t, secret: secret, group: group, shares: map[int]tbls.PrivateKey{}, pubs: map[int]tbls.PublicKey{}}
		for id, sh := range shares {
			pub, err := tbls.SecretToPublicKey(sh)
			if err != nil {
				return nil, err
			}
			ks.ids = append(ks.ids, id)
			ks.shares[id], ks.pubs[id] = sh, pub
		}
		sort.Ints(ks.ids)
		p.sets = append(p.sets, ks)
	}
	for i := 0; i < 6; i++ {
		p.newMsg(rng, purityLens[rng.Intn(len(purityLens))])
	}

	return p, nil
}

func (p *purity) newMsg(rng *rand.Rand, l int) []byte {
	v := make([]byte, l)
	rng.Read(v)
	p.mu.Lock()
	p.pool = append(p.pool, v)
	p.mu.Unlock()

	return v
}

// actor is one goroutine's view: its own scratch memory and PRNG, shared key sets and memo.
type actor struct {
	p       *purity
	name    string
	rng     *rand.Rand
	scratch []byte
	cur     []byte // the part of scratch passed to the last scratch-sourced call (nil: none yet)
	big     []byte
	lastSet int
	trace   []string

	overwritesBetweenSigns int
	lastSignFromScratch    bool
}

func newActor(p *purity, name string, rng *rand.Rand) *actor {
	return &actor{p: p, name: name, rng: rng, scratch: make([]byte, 512), big: make([]byte, 1024)}
}

func (a *actor) log(format string, args ...any) {
	a.trace = append(a.trace, fmt.Sprintf(format, args...))
}

func (a *actor) fail(sig, what string, extra map[string]any) {
	w := map[string]any{"actor": a.name, "last_operations": lastN(a.trace, 40)}
	var sets []map[string]any
	for _, ks := range a.p.sets {
		sets = append(sets, map[string]any{"set": ks.name, "n": ks.n, "t": ks.t, "secret": hx(ks.secret[:]), "group": hx(ks.group[:])})
	}
	w["key_sets"] = sets
	for k, v := range extra {
		w[k] = v
	}
	a.p.mu.Lock()
	a.p.viol++
	a.p.mu.Unlock()
	a.p.r.Violation(a.p.caseIdx, sig, what, w)
}

func lastN(s []string, n int) []string {
	if len(s) > n {
		s = s[len(s)-n:]
	}

	return append([]string(nil), s...)
}

// pickMsg chooses a message value: mostly one of the same length as what currently sits in the
// scratch buffer (so that an in-place overwrite keeps the length), often a known one (so that the
// same key/message recurs under another history), sometimes a one-bit variation of the current one.
func (a *actor) pickMsg() []byte {
	rng := a.rng
	a.p.mu.Lock()
	pool := a.p.pool
	a.p.mu.Unlock()
	if a.cur != nil && rng.Intn(100) < 55 {
		var same [][]byte
		for _, v := range pool {
			if len(v) == len(a.cur) {
				same = append(same, v)
			}
		}
		if len(same) > 1 && rng.Intn(3) > 0 {
			return same[rng.Intn(len(same))]
		}
		if len(a.cur) > 0 && rng.Intn(2) == 0 { // neighbour of the current content
			v := append([]byte(nil), a.cur...)
			v[rng.Intn(len(v))] ^= 1 << rng.Intn(8)
			a.p.mu.Lock()
			a.p.pool = append(a.p.pool, v)
			a.p.mu.Unlock()

			return v
		}

		return a.p.newMsg(rng, len(a.cur))
	}
	if rng.Intn(100) < 70 {
		return pool[rng.Intn(len(pool))]
	}

	return a.p.newMsg(rng, purityLens[rng.Intn(len(purityLens))])
}

// load places message value v into memory that is handed to tbls and says how.
func (a *actor) load(v []byte) ([]byte, string) {
	switch x := a.rng.Intn(100); {
	case x < 55: // scratch buffer, overwritten in place
		src := "scratch-new-length"
		if a.cur != nil && len(a.cur) == len(v) {
			src = "scratch-same-length"
		}
		copy(a.scratch, v)
		a.cur = a.scratch[:len(v)]

		return a.cur, src
	case x < 70:
		off := a.rng.Intn(128)
		copy(a.big[off:], v)

		return a.big[off : off+len(v)], "subslice-of-larger-buffer"
	default:
		return append([]byte{}, v...), "fresh-copy"
	}
}

// after scribbles over memory that was handed to tbls, now that the call has returned.
func (a *actor) after(buf []byte) {
	if len(buf) == 0 || a.rng.Intn(100) >= 45 {
		return
	}
	if a.rng.Intn(2) == 0 {
		a.rng.Read(buf)
	} else {
		buf[a.rng.Intn(len(buf))] ^= 1 << a.rng.Intn(8)
	}
	a.log("  (caller overwrites the %d-byte buffer it had passed)", len(buf))
}

// remember compares a result with the one remembered for the same argument values.
func (a *actor) remember(op, args string, res []byte, sig string, extra map[string]any) {
	key := op + "|" + args
	a.p.mu.Lock()
	old, ok := a.p.memo[key]
	if !ok {
		a.p.memo[key] = append([]byte(nil), res...)
	}
	a.p.mu.Unlock()
	if ok {
		a.p.r.Count("purity_repeated_calls_compared", 1)
		if string(old) != string(res) {
			if extra == nil {
				extra = map[string]any{}
			}
			extra["first_result"], extra["this_result"] = hx(old), hx(res)
			a.fail(sig, op+" returned different results for identical argument values under different call histories", extra)
		}
	}
}

func (a *actor) keyOf(ks *keySet, id int) (tbls.PrivateKey, tbls.PublicKey, string) {
	if id == 0 {
		return ks.secret, ks.group, ks.name + ".group"
	}

	return ks.shares[id], ks.pubs[id], fmt.Sprintf("%s.share%d", ks.name, id)
}

// sign runs Sign(key, <v placed somewhere>) and applies the Sign oracles.
func (a *actor) sign(si, id int, v []byte) (tbls.Signature, bool) {
	ks := a.p.sets[si]
	key, pub, kname := a.keyOf(ks, id)
	buf, src := a.load(v)
	if src == "scratch-same-length" && a.lastSignFromScratch {
		a.overwritesBetweenSigns++
		a.p.r.Count("purity_inplace_same_length_overwrites_between_signs", 1)
	}
	a.lastSignFromScratch = src == "scratch-same-length" || src == "scratch-new-length"
	sig, err := tbls.Sign(key, buf)
	a.log("Sign(%s, %s len=%d %s) = %s", kname, src, len(v), hx(v[:min(len(v), 6)]), hx(sig[:6]))
	a.after(buf)
	a.p.r.Count("purity_ops/sign", 1)
	a.p.r.Count("purity_sign_message_source/"+src, 1)
	w := map[string]any{"key": kname, "message": hx(v), "message_source": src, "signature": hx(sig[:])}
	if err != nil {
		a.fail("tbls/purity/Sign/error-on-valid-input", err.Error(), w)
		return sig, false
	}
	a.remember("Sign", hx(key[:])+"|"+hx(v), sig[:], "tbls/purity/Sign/result-depends-on-call-history", w)
	if verr := tbls.Verify(pub, append([]byte{}, v...), sig); verr != nil {
		a.fail("tbls/purity/Sign/signature-not-over-the-message-passed/"+src, fmt.Sprintf("the signature returned by Sign does not verify under the signer's public key for the message value that was passed (%s): %v", src, verr), w)
		return sig, false
	}
	if a.rng.Intn(4) == 0 {
		oks := a.p.sets[(si+1)%len(a.p.sets)]
		if tbls.Verify(oks.group, append([]byte{}, v...), sig) == nil {
			a.fail("tbls/purity/Verify/accepts-signature-of-another-key", "a signature verifies under an unrelated public key", w)
		}
	}
	a.p.mu.Lock()
	if len(a.p.known) < 400 {
		a.p.known = append(a.p.known, sigRec{set: si, id: id, msg: v, sig: sig})
	}
	a.p.mu.Unlock()

	return sig, true
}

func (a *actor) opSign(si int) {
	ks := a.p.sets[si]
	id := 0
	if a.rng.Intn(4) > 0 {
		id = ks.ids[a.rng.Intn(len(ks.ids))]
	}
	a.sign(si, id, a.pickMsg())
}

// opShareRound: every share signs the message out of ONE buffer (the DKG / create-cluster pattern),
// then a threshold subset must aggregate to the group signature over that message value.
func (a *actor) opShareRound(si int) {
	ks := a.p.sets[si]
	v := a.pickMsg()
	buf, src := a.load(v)
	if src == "scratch-same-length" && a.lastSignFromScratch {
		a.overwritesBetweenSigns++
		a.p.r.Count("purity_inplace_same_length_overwrites_between_signs", 1)
	}
	a.lastSignFromScratch = src == "scratch-same-length" || src == "scratch-new-length"
	a.p.r.Count("purity_ops/share-round", 1)
	a.log("share round on %s: every share signs (%s len=%d %s)", ks.name, src, len(v), hx(v[:min(len(v), 6)]))
	ids := append([]int(nil), ks.ids...)
	a.rng.Shuffle(len(ids), func(i, j int) { ids[i], ids[j] = ids[j], ids[i] })
	partials := map[int]tbls.Signature{}
	for _, id := range ids {
		sig, err := tbls.Sign(ks.shares[id], buf)
		w := map[string]any{"key": fmt.Sprintf("%s.share%d", ks.name, id), "message": hx(v), "message_source": src, "signature": hx(sig[:])}
		if err != nil {
			a.fail("tbls/purity/Sign/error-on-valid-input", err.Error(), w)
			return
		}
		sh := ks.shares[id]
		a.remember("Sign", hx(sh[:])+"|"+hx(v), sig[:], "tbls/purity/Sign/result-depends-on-call-history", w)
		if verr := tbls.Verify(ks.pubs[id], append([]byte{}, v...), sig); verr != nil {
			a.fail("tbls/purity/share-round/partial-rejected-under-own-public-share/"+src, fmt.Sprintf("partial signature of share %d over the message value passed (%s) does not verify against that share's public key: %v", id, src, verr), w)
		}
		other := ks.ids[(indexOf(ks.ids, id)+1)%len(ks.ids)]
		if a.rng.Intn(3) == 0 && tbls.Verify(ks.pubs[other], append([]byte{}, v...), sig) == nil {
			a.fail("tbls/purity/Verify/accepts-partial-under-another-share", "a partial signature verifies under another share's public key", w)
		}
		partials[id] = sig
	}
	a.after(buf)
	sub := map[int]tbls.Signature{}
	for _, id := range ids[:ks.t+a.rng.Intn(ks.n-ks.t+1)] {
		sub[id] = partials[id]
	}
	agg, err := ckThresholdAggregate(sub)
	for id := range sub { // the caller recycles its map
		var junk tbls.Signature
		a.rng.Read(junk[:])
		sub[id] = junk
	}
	w := map[string]any{"set": ks.name, "message": hx(v), "message_source": src, "aggregate": hx(agg[:])}
	if err != nil {
		a.fail("tbls/purity/ThresholdAggregate/error-on-valid-input", err.Error(), w)
		return
	}
	if verr := tbls.Verify(ks.group, append([]byte{}, v...), agg); verr != nil {
		a.fail("tbls/purity/share-round/aggregate-rejected-under-group-key/"+src, fmt.Sprintf("the aggregate of >= t partials made over the passed message value does not verify under the group key: %v", verr), w)
	}
	a.remember("Sign", hx(ks.secret[:])+"|"+hx(v), agg[:], "tbls/purity/ThresholdAggregate/differs-from-direct-signature", w)
}

func indexOf(xs []int, x int) int {
	for i, v := range xs {
		if v == x {
			return i
		}
	}

	return 0
}

// opVerify: Verify with a known expectation, message out of recycled memory.
func (a *actor) opVerify() {
	a.p.mu.Lock()
	if len(a.p.known) == 0 {
		a.p.mu.Unlock()
		return
	}
	rec := a.p.known[a.rng.Intn(len(a.p.known))]
	a.p.mu.Unlock()
	ks := a.p.sets[rec.set]
	_, pub, kname := a.keyOf(ks, rec.id)
	a.p.r.Count("purity_ops/verify", 1)

	call := func(pub tbls.PublicKey, v []byte, sig tbls.Signature, variant string, wantOK bool) {
		buf, src := a.load(v)
		err := tbls.Verify(pub, buf, sig)
		a.log("Verify(%s, %s len=%d %s, sig %s) [%s] = %v", kname, src, len(v), hx(v[:min(len(v), 6)]), hx(sig[:6]), variant, err == nil)
		a.after(buf)
		a.p.r.Count("purity_verify/"+variant, 1)
		w := map[string]any{"key": kname, "message": hx(v), "message_source": src, "signature": hx(sig[:]), "variant": variant, "signed_message": hx(rec.msg)}
		switch {
		case wantOK && err != nil:
			a.fail("tbls/purity/Verify/rejects-valid-signature/"+src, fmt.Sprintf("Verify rejects a signature Sign produced for this key and message value: %v", err), w)
		case !wantOK && err == nil:
			a.fail("tbls/purity/Verify/accepts-invalid/"+variant, "Verify accepts a signature for "+variant, w)
		}
	}

	switch a.rng.Intn(6) {
	case 0, 1:
		call(pub, rec.msg, rec.sig, "valid", true)
	case 2: // another message that shares a long prefix / is a truncation / an extension
		call(pub, rec.msg, rec.sig, "valid", true)
		var v []byte
		switch {
		case len(rec.msg) > 32 && a.rng.Intn(2) == 0:
			v = append([]byte{}, rec.msg...)
			v[32+a.rng.Intn(len(v)-32)] ^= 1 << a.rng.Intn(8)
		case len(rec.msg) > 32:
			v = append([]byte{}, rec.msg[:32]...)
		case len(rec.msg) > 0 && a.rng.Intn(2) == 0:
			v = append([]byte{}, rec.msg[:len(rec.msg)-1]...)
		default:
			v = append(append([]byte{}, rec.msg...), 0)
		}
		call(pub, v, rec.sig, "another-message-sharing-a-prefix", false)
	case 3:
		v := a.pickMsg()
		if string(v) == string(rec.msg) {
			return
		}
		call(pub, v, rec.sig, "another-message", false)
	case 4:
		oks := a.p.sets[(rec.set+1)%len(a.p.sets)]
		opub := oks.group
		if rec.id != 0 {
			opub = ks.pubs[ks.ids[(indexOf(ks.ids, rec.id)+1)%len(ks.ids)]]
		}
		call(pub, rec.msg, rec.sig, "valid", true)
		call(opub, rec.msg, rec.sig, "another-public-key", false)
	default:
		bad := rec.sig
		bad[a.rng.Intn(len(bad))] ^= 1 << a.rng.Intn(8)
		call(pub, rec.msg, bad, "bit-flipped-signature", false)
	}
}

// partialsFor signs v with the given shares (through the Sign oracles).
func (a *actor) partialsFor(si int, ids []int, v []byte) (map[int]tbls.Signature, bool) {
	out := map[int]tbls.Signature{}
	for _, id := range ids {
		sig, ok := a.sign(si, id, v)
		if !ok {
			return nil, false
		}
		out[id] = sig
	}

	return out, true
}

func (a *actor) subset(ks *keySet) []int {
	ids := append([]int(nil), ks.ids...)
	a.rng.Shuffle(len(ids), func(i, j int) { ids[i], ids[j] = ids[j], ids[i] })
	ids = ids[:ks.t+a.rng.Intn(ks.n-ks.t+1)]
	sort.Ints(ids)

	return ids
}

// opThresholdAggregate: optionally a failing call first (error history), then a valid one; the map
// is recycled by the caller afterwards.
func (a *actor) opThresholdAggregate(si int) {
	ks := a.p.sets[si]
	v := a.pickMsg()
	ids := a.subset(ks)
	partials, ok := a.partialsFor(si, ids, v)
	if !ok {
		return
	}
	a.p.r.Count("purity_ops/threshold-aggregate", 1)
	if a.rng.Intn(3) == 0 {
		bad := map[int]tbls.Signature{}
		for id, s := range partials {
			bad[id] = s
		}
		for id := range bad { // first entry in iteration order becomes undeserialisable
			bad[id] = tbls.Signature{}
			break
		}
		if a.rng.Intn(2) == 0 {
			bad = map[int]tbls.Signature{0: partials[ids[0]], ids[0]: partials[ids[0]]}
		}
		_, err := ckThresholdAggregate(bad)
		a.log("ThresholdAggregate(%s, malformed input) = error:%v", ks.name, err != nil)
		a.p.r.Count("purity_error_history_calls", 1)
	}
	agg, err := ckThresholdAggregate(partials)
	a.log("ThresholdAggregate(%s ids %v, len=%d %s) = %s", ks.name, ids, len(v), hx(v[:min(len(v), 6)]), hx(agg[:6]))
	for id := range partials {
		var junk tbls.Signature
		a.rng.Read(junk[:])
		partials[id] = junk
	}
	delete(partials, ids[0])
	w := map[string]any{"set": ks.name, "ids": ids, "message": hx(v), "aggregate": hx(agg[:])}
	if err != nil {
		a.fail("tbls/purity/ThresholdAggregate/error-on-valid-input", err.Error(), w)
		return
	}
	a.remember("Sign", hx(ks.secret[:])+"|"+hx(v), agg[:], "tbls/purity/ThresholdAggregate/differs-from-direct-signature", w)
	if verr := tbls.Verify(ks.group, append([]byte{}, v...), agg); verr != nil {
		a.fail("tbls/purity/ThresholdAggregate/aggregate-rejected-under-group-key", verr.Error(), w)
	}
	if a.rng.Intn(2) == 0 { // make sure the direct signature takes part in the comparison
		a.sign(si, 0, v)
	}
}

func (a *actor) opRecover(si int) {
	ks := a.p.sets[si]
	ids := a.subset(ks)
	shares, pubs := map[int]tbls.PrivateKey{}, map[int]tbls.PublicKey{}
	for _, id := range ids {
		shares[id], pubs[id] = ks.shares[id], ks.pubs[id]
	}
	a.p.r.Count("purity_ops/recover", 1)
	sec, err := ckRecoverSecret(shares, uint(ks.n), uint(ks.t))
	for id := range shares {
		var junk tbls.PrivateKey
		a.rng.Read(junk[:])
		shares[id] = junk
	}
	a.log("RecoverSecret(%s ids %v) ok=%v", ks.name, ids, err == nil && sec == ks.secret)
	w := map[string]any{"set": ks.name, "ids": ids}
	if err != nil || sec != ks.secret {
		a.fail("tbls/purity/RecoverSecret/wrong-result", fmt.Sprintf("RecoverSecret of >= t genuine shares: err=%v, equal=%v", err, sec == ks.secret), w)
	}
	pub, err := ckRecoverPubkey(pubs)
	for id := range pubs {
		var junk tbls.PublicKey
		a.rng.Read(junk[:])
		pubs[id] = junk
	}
	a.log("RecoverPubkey(%s ids %v) ok=%v", ks.name, ids, err == nil && pub == ks.group)
	if err != nil || pub != ks.group {
		a.fail("tbls/purity/RecoverPubkey/wrong-result", fmt.Sprintf("RecoverPubkey of >= t genuine public shares: err=%v, equal=%v", err, pub == ks.group), w)
	}
}

// opSplit: a new split of the same secret; the returned map is scribbled over after use.
func (a *actor) opSplit(si int) {
	ks := a.p.sets[si]
	var (
		sh  map[int]tbls.PrivateKey
		err error
	)
	if a.rng.Intn(2) == 0 {
		sh, err = tbls.ThresholdSplit(ks.secret, uint(ks.n), uint(ks.t))
	} else {
		sh, err = tbls.ThresholdSplitInsecure(a.p.r.T(), ks.secret, uint(ks.n), uint(ks.t), a.rng)
	}
	a.p.r.Count("purity_ops/split", 1)
	w := map[string]any{"set": ks.name}
	if err != nil || len(sh) != ks.n {
		a.fail("tbls/purity/ThresholdSplit/error-on-valid-input", fmt.Sprintf("err=%v shares=%d", err, len(sh)), w)
		return
	}
	cp := map[int]tbls.PrivateKey{}
	for id, s := range sh {
		cp[id] = s
	}
	for id := range sh { // the caller scribbles over the map it was handed
		var junk tbls.PrivateKey
		a.rng.Read(junk[:])
		sh[id] = junk
	}
	sec, err := ckRecoverSecret(cp, uint(ks.n), uint(ks.t))
	a.log("ThresholdSplit(%s) then RecoverSecret ok=%v", ks.name, err == nil && sec == ks.secret)
	if err != nil || sec != ks.secret {
		a.fail("tbls/purity/ThresholdSplit/shares-do-not-recover-secret", fmt.Sprintf("err=%v", err), w)
	}
}

// opBLSAggregate: plain aggregation (Aggregate / VerifyAggregate) over slices the caller recycles.
func (a *actor) opBLSAggregate(si int) {
	ks := a.p.sets[si]
	v := a.pickMsg()
	partials, ok := a.partialsFor(si, ks.ids, v)
	if !ok {
		return
	}
	a.p.r.Count("purity_ops/bls-aggregate", 1)
	var (
		sigs []tbls.Signature
		pubs []tbls.PublicKey
		args string
	)
	for _, id := range ks.ids {
		sigs = append(sigs, partials[id])
		pubs = append(pubs, ks.pubs[id])
		s := partials[id]
		args += hx(s[:8])
	}
	agg, err := ckAggregate(sigs)
	for i := range sigs {
		a.rng.Read(sigs[i][:])
	}
	w := map[string]any{"set": ks.name, "message": hx(v), "aggregate": hx(agg[:])}
	if err != nil {
		a.fail("tbls/purity/Aggregate/error-on-valid-input", err.Error(), w)
		return
	}
	a.remember("Aggregate", ks.name+"|"+hx(v)+"|"+args, agg[:], "tbls/purity/Aggregate/result-depends-on-call-history", w)
	buf, src := a.load(v)
	verr := ckVerifyAggregate(pubs, agg, buf)
	a.log("Aggregate+VerifyAggregate(%s, %s len=%d) = %v", ks.name, src, len(v), verr == nil)
	a.after(buf)
	if verr != nil {
		a.fail("tbls/purity/VerifyAggregate/rejects-valid-aggregate/"+src, verr.Error(), w)
	}
	// a foreign public key in the list must be refused; then the caller recycles the slice
	oks := a.p.sets[(si+1)%len(a.p.sets)]
	pubs[a.rng.Intn(len(pubs))] = oks.group
	if ckVerifyAggregate(pubs, agg, append([]byte{}, v...)) == nil {
		a.fail("tbls/purity/VerifyAggregate/accepts-foreign-public-key", "VerifyAggregate accepts although one public key was replaced", w)
	}
	for i := range pubs {
		a.rng.Read(pubs[i][:])
	}
}

// run performs nOps operations; key sets are chosen stickily so that A-ops, B-ops, A-ops alternate.
func (a *actor) run(nOps int) {
	for i := 0; i < nOps; i++ {
		if a.rng.Intn(100) < 30 {
			a.lastSet = a.rng.Intn(len(a.p.sets))
		}
		si := a.lastSet
		switch x := a.rng.Intn(100); {
		case x < 38:
			a.opSign(si)
		case x < 56:
			a.opShareRound(si)
		case x < 74:
			a.opVerify()
		case x < 84:
			a.opThresholdAggregate(si)
		case x < 90:
			a.opRecover(si)
		case x < 94:
			a.opSplit(si)
		default:
			a.opBLSAggregate(si)
		}
	}
}

// runPuritySerial is the strictly serial prologue: one goroutine, nothing else running in the
// process, so every history is exactly the one in the trace.
func runPuritySerial(r *kit.Run, nOps int) {
	rng := r.Rand(-1, 1)
	p, err := newPurity(r, -1, rng)
	if err != nil {
		r.Violation(-1, "tbls/purity/setup/error-on-valid-input", err.Error(), nil)
		return
	}
	a := newActor(p, "serial", rng)
	a.run(nOps)
	r.AddEvaluations(1)
	r.Count("purity_serial_ops", int64(nOps))
	if a.overwritesBetweenSigns > 0 {
		r.Distinct(kit.Hash("purity-serial", a.trace))
	}
}

// runPurityCase: 1..4 actors on the same key sets and memo, each with its own scratch memory.
func runPurityCase(c *kit.Case) {
	r := c.R
	p, err := newPurity(r, c.Idx, c.Rng)
	if err != nil {
		c.Violation("tbls/purity/setup/error-on-valid-input", err.Error(), nil)
		return
	}
	nActors := 1 + c.Rng.Intn(4)
	nOps := 24 + c.Rng.Intn(24)
	var actors []*actor
	for i := 0; i < nActors; i++ {
		actors = append(actors, newActor(p, fmt.Sprintf("g%d", i), r.Rand(c.Idx, 100+i)))
	}
	var wg sync.WaitGroup
	for _, a := range actors {
		wg.Add(1)
		go func(a *actor) {
			defer wg.Done()
			a.run(nOps)
		}(a)
	}
	wg.Wait()
	ow := 0
	var traces []any
	for _, a := range actors {
		ow += a.overwritesBetweenSigns
		traces = append(traces, a.trace)
	}
	r.Count("purity_cases", 1)
	r.Count(fmt.Sprintf("purity_cases_with_%d_actors", nActors), 1)
	if ow > 0 {
		c.NonTrivial(kit.Hash("purity", nActors, traces))
	}
	if c.Idx%16 == 0 {
		r.Sample(map[string]any{"purity_case": c.Idx, "actors": nActors, "ops_per_actor": nOps, "trace_head": lastN(actors[0].trace[:min(len(actors[0].trace), 12)], 12)})
	}
}
