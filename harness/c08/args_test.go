package c08

// Argument integrity: tbls is a pure-function API, the share / signature maps and slices a caller
// passes remain the caller's. Every call of the workload that passes such a container goes through
// one of the wrappers below: the container is compared with a copy taken before the call, and in a
// fraction of the calls the SAME container is used for a second identical call whose result must
// equal the first (a caller that recovers, signs or aggregates twice from one share set).

import (
	"fmt"
	"maps"
	"slices"
	"sync"
	"sync/atomic"

	"github.com/obolnetwork/charon/tbls"

	"verifharness/kit"
)

var (
	argMu       sync.Mutex
	argFindings = map[string]string{}
	argCalls    atomic.Int64
	argRepeats  atomic.Int64
)

func argFinding(sig, what string) {
	argMu.Lock()
	if _, ok := argFindings[sig]; !ok {
		argFindings[sig] = what
	}
	argMu.Unlock()
}

// reportArgFindings turns what the wrappers saw into violations (called once at the end of the run).
func reportArgFindings(r *kit.Run) {
	r.Count("argument_integrity_calls_checked", argCalls.Load())
	r.Count("argument_integrity_repeated_calls_on_the_same_container", argRepeats.Load())
	argMu.Lock()
	defer argMu.Unlock()
	for sig, what := range argFindings {
		r.Violation(-1, sig, what, map[string]any{"detail": what})
	}
}

func repeatNow() bool { return argCalls.Add(1)%3 == 0 }

func ckRecoverSecret(shares map[int]tbls.PrivateKey, n, t uint) (tbls.PrivateKey, error) {
	before := maps.Clone(shares)
	out, err := tbls.RecoverSecret(shares, n, t)
	if !maps.Equal(before, shares) {
		argFinding("tbls/RecoverSecret/modifies-the-callers-share-map", fmt.Sprintf("after RecoverSecret (err=%v) the caller's map of %d shares no longer holds the values passed", err, len(before)))
		return out, err
	}
	if err == nil && repeatNow() {
		argRepeats.Add(1)
		if again, err2 := tbls.RecoverSecret(shares, n, t); err2 != nil || again != out {
			argFinding("tbls/RecoverSecret/second-call-on-the-same-share-map-differs", fmt.Sprintf("a second RecoverSecret over the same map returned another secret (err=%v)", err2))
		}
	}

	return out, err
}

func ckRecoverPubkey(pubs map[int]tbls.PublicKey) (tbls.PublicKey, error) {
	before := maps.Clone(pubs)
	out, err := tbls.RecoverPubkey(pubs)
	if !maps.Equal(before, pubs) {
		argFinding("tbls/RecoverPubkey/modifies-the-callers-public-share-map", fmt.Sprintf("after RecoverPubkey (err=%v) the caller's map of %d public shares no longer holds the values passed", err, len(before)))
		return out, err
	}
	if err == nil && repeatNow() {
		argRepeats.Add(1)
		if again, err2 := tbls.RecoverPubkey(pubs); err2 != nil || again != out {
			argFinding("tbls/RecoverPubkey/second-call-on-the-same-map-differs", fmt.Sprintf("a second RecoverPubkey over the same map returned another key (err=%v)", err2))
		}
	}

	return out, err
}

func ckThresholdAggregate(sigs map[int]tbls.Signature) (tbls.Signature, error) {
	before := maps.Clone(sigs)
	out, err := tbls.ThresholdAggregate(sigs)
	if !maps.Equal(before, sigs) {
		argFinding("tbls/ThresholdAggregate/modifies-the-callers-signature-map", fmt.Sprintf("after ThresholdAggregate (err=%v) the caller's map of %d partial signatures no longer holds the values passed", err, len(before)))
		return out, err
	}
	if err == nil && repeatNow() {
		argRepeats.Add(1)
		if again, err2 := tbls.ThresholdAggregate(sigs); err2 != nil || again != out {
			argFinding("tbls/ThresholdAggregate/second-call-on-the-same-map-differs", fmt.Sprintf("a second ThresholdAggregate over the same map returned another signature (err=%v)", err2))
		}
	}

	return out, err
}

func ckAggregate(sigs []tbls.Signature) (tbls.Signature, error) {
	before := slices.Clone(sigs)
	out, err := tbls.Aggregate(sigs)
	if !slices.Equal(before, sigs) {
		argFinding("tbls/Aggregate/modifies-the-callers-signature-slice", fmt.Sprintf("after Aggregate (err=%v) the caller's slice of %d signatures no longer holds the values passed", err, len(before)))
	}

	return out, err
}

func ckVerifyAggregate(pubs []tbls.PublicKey, sig tbls.Signature, data []byte) error {
	before, dataBefore := slices.Clone(pubs), slices.Clone(data)
	err := tbls.VerifyAggregate(pubs, sig, data)
	if !slices.Equal(before, pubs) || !slices.Equal(dataBefore, data) {
		argFinding("tbls/VerifyAggregate/modifies-the-callers-arguments", fmt.Sprintf("after VerifyAggregate (err=%v) the caller's key slice or message no longer holds the values passed", err))
	}

	return err
}
