package c15

import (
	"fmt"
	"sort"
	"strings"

	eth2p0 "github.com/attestantio/go-eth2-client/spec/phase0"

	"github.com/obolnetwork/charon/core"
)

// ---------------------------------------------------------------------------------------------
// Oracle: subscriber event log + delay log + what the scheduler was told, against the model.
// ---------------------------------------------------------------------------------------------

type snapshot struct {
	ticks  []tickEv
	calls  []callEv
	delays []delayEv
	trigs  []trigEv
	reorgs []reorgEv
}

func (h *harness) snap() snapshot {
	h.mu.Lock()
	defer h.mu.Unlock()
	s := snapshot{
		ticks: append([]tickEv(nil), h.ticks...), calls: append([]callEv(nil), h.calls...),
		trigs: append([]trigEv(nil), h.trigs...), reorgs: append([]reorgEv(nil), h.reorgs...),
	}
	for _, d := range h.delays {
		s.delays = append(s.delays, *d)
	}

	return s
}

// attempt is one run of resolveDuties as seen from the answers the scheduler received.
type attempt struct {
	Frame   int
	ValsOK  bool
	Seen    map[eth2p0.ValidatorIndex]seenVal
	Epoch   uint64
	HasEp   bool
	K       map[kind]*callEv // attester / proposer / sync answers of this attempt
	AllGood bool             // validators + all three duty answers delivered intact: the epoch is resolved
}

func (a *attempt) kindGood(k kind) bool {
	c := a.K[k]

	return c != nil && c.OK && !c.Corrupt
}

// codeRule is the documented rule of resolveActiveValidators: active status, or activating exactly
// in the epoch being resolved.
func (a *attempt) codeRule(v *mval) bool {
	s, ok := a.Seen[v.Idx]

	return ok && (s.Active || s.Act == a.Epoch)
}

// implied says whether the validators answer itself implies that v is active in the epoch being
// resolved: a pending validator whose activation epoch is not after it (and which does not exit before).
func (a *attempt) implied(v *mval) bool {
	s, ok := a.Seen[v.Idx]

	return ok && s.Pending && s.Act <= a.Epoch && a.Epoch < s.Exit
}

func (a *attempt) eligible(v *mval) bool { return a.codeRule(v) || a.implied(v) }

func parseAttempts(calls []callEv) []*attempt {
	var out []*attempt
	var cur *attempt
	for i := range calls {
		c := &calls[i]
		if c.Kind == kVals {
			cur = &attempt{Frame: c.Frame, ValsOK: c.OK && !c.Corrupt, Seen: c.Seen, K: map[kind]*callEv{}}
			out = append(out, cur)
			continue
		}
		if cur == nil || cur.Frame != c.Frame || cur.K[c.Kind] != nil || (cur.HasEp && cur.Epoch != c.Epoch) {
			// a duty answer without a preceding validators answer: keep it as its own (never good) attempt
			cur = &attempt{Frame: c.Frame, K: map[kind]*callEv{}}
			out = append(out, cur)
		}
		cur.K[c.Kind] = c
		cur.Epoch, cur.HasEp = c.Epoch, true
	}
	for _, a := range out {
		a.AllGood = a.ValsOK && a.HasEp && a.kindGood(kAtt) && a.kindGood(kPro) && a.kindGood(kSync)
	}

	return out
}

type finding struct {
	Sig  string
	What string
	Data map[string]any
}

type demand struct {
	Duty  core.Duty
	Frame int
	Want  []*mval
}

type analysis struct {
	findings []finding
	missing  []demand // demanded duties with no trigger at all (per subscriber 0/1 combined)
	info     map[string]int
	attempts []*attempt
	demands  int

	classifyMissing func(d demand) (plain, pendingPast []string)
}

// predatesInfo counts (active, assigned) validators left out of a trigger, or duties never triggered,
// because every validators answer the scheduler was given for that epoch's resolution predates the
// validator's activation: it lists the validator neither as active nor as pending with an activation
// epoch <= the epoch. The statement lets missed slot ticks skip duties, so this is counted, not judged
// (same rule as for the inactive-validator oracle, which also goes by what the scheduler was told).
const predatesInfo = "omitted_because_validators_answer_predates_activation"

// pendingPastSig: the (old) validators answer given to the scheduler did carry the information: the
// validator is listed as pending with an activation epoch before the epoch being resolved (and not
// exited), yet the scheduler left it out (resolveActiveValidators accepting only ActivationEpoch ==
// epoch; fixed in /repo by d1401ed).
const pendingPastSig = "scheduler/resolve-active-validators/pending-validator-with-earlier-activation-epoch-omitted"

var kindOfType = map[core.DutyType]kind{
	core.DutyAttester: kAtt, core.DutyAggregator: kAtt, core.DutyProposer: kPro, core.DutySyncContribution: kSync,
}

var judgedTypes = []core.DutyType{core.DutyProposer, core.DutyAttester, core.DutyAggregator, core.DutySyncContribution}

// modelDefs returns, for duty (t, slot), the allowed definition JSON per cluster validator (every
// entry the BN model lists, hostile extras included) and the expected set (assignments of validators
// that are active in the epoch).
func (s *scenario) modelDefs(t core.DutyType, slot uint64) (allowed map[core.PubKey]string, expected map[core.PubKey]*mval) {
	allowed, expected = map[core.PubKey]string{}, map[core.PubKey]*mval{}
	tbl := s.Tables[s.epochOf(slot)]
	if tbl == nil {
		return allowed, expected
	}
	add := func(v *mval, extra bool, js []byte, err error) {
		if !v.Cluster {
			return
		}
		if err != nil {
			js = []byte("model marshal error: " + err.Error())
		}
		allowed[v.Core] = string(js)
		if !extra {
			expected[v.Core] = v
		}
	}
	switch kindOfType[t] {
	case kAtt:
		for i := range tbl.Att {
			e := &tbl.Att[i]
			if uint64(e.D.Slot) == slot {
				js, err := e.D.MarshalJSON()
				add(e.V, e.Extra, js, err)
			}
		}
	case kPro:
		for i := range tbl.Pro {
			e := &tbl.Pro[i]
			if uint64(e.D.Slot) == slot {
				js, err := e.D.MarshalJSON()
				add(e.V, e.Extra, js, err)
			}
		}
	case kSync:
		for i := range tbl.Sync {
			e := &tbl.Sync[i]
			js, err := e.D.MarshalJSON()
			add(e.V, e.Extra, js, err)
		}
	}

	return allowed, expected
}

func analyze(sc *scenario, sn snapshot, reorgFeature bool) *analysis {
	an := &analysis{info: map[string]int{}}
	add := func(sig, what string, data map[string]any) {
		an.findings = append(an.findings, finding{Sig: sig, What: what, Data: data})
	}
	an.attempts = parseAttempts(sn.calls)

	frameOf := map[uint64]int{}
	for i, t := range sn.ticks {
		if _, ok := frameOf[t.Slot]; !ok {
			frameOf[t.Slot] = i
		}
	}
	lastFrame := len(sn.ticks) - 1

	// classify says why validator v could be missing from duty (t, slot):
	//  "offered": an attempt up to the slot's frame told the scheduler that v is active (status active, or activating exactly in that epoch) and delivered an intact <kind> answer
	//  "offered-as-pending-with-earlier-activation-epoch": the validators answers only listed v as pending, but with an activation epoch before the epoch being resolved
	//  "not-reported-active": intact <kind> answers were delivered only together with validators answers that do not list v as active
	//  "no-intact-answer": no intact <kind> answer reached the scheduler (beacon node failures): omission is tolerated
	// lastTrim is the last gate <= f at which a handled reorg event may have made the scheduler drop
	// the duties of epoch e (it drops its resolved epoch when the event's epoch is lower; every higher
	// epoch is treated as possibly dropped). Resolution runs before that gate no longer count.
	lastTrim := func(e uint64, f int) int {
		g := -1
		if !reorgFeature {
			return g
		}
		for _, r := range sn.reorgs {
			if r.Gate <= f && r.Epoch < e && r.Gate > g {
				g = r.Gate
			}
		}

		return g
	}
	classify := func(v *mval, t core.DutyType, slot uint64) string {
		e, k := sc.epochOf(slot), kindOfType[t]
		f, ticked := frameOf[slot]
		if !ticked {
			f = lastFrame
		}
		trim := lastTrim(e, f)
		res, rank := "no-intact-answer", 0
		for _, a := range an.attempts {
			if a.Frame > f || a.Frame < trim || !a.HasEp || a.Epoch != e || !a.ValsOK || !a.kindGood(k) {
				continue
			}
			switch {
			case a.codeRule(v):
				return "offered"
			case a.implied(v):
				res, rank = "offered-as-pending-with-earlier-activation-epoch", 2
			case rank < 1:
				res, rank = "not-reported-active", 1
			}
		}

		return res
	}
	reportedActive := func(v *mval, slot uint64) bool {
		e := sc.epochOf(slot)
		f, ticked := frameOf[slot]
		if !ticked {
			f = lastFrame
		}
		for _, a := range an.attempts {
			if a.Frame <= f && a.HasEp && a.Epoch == e && a.ValsOK && a.eligible(v) {
				return true
			}
		}

		return false
	}

	// ---- per trigger: duplicates, content, membership, completeness, offset ----
	type key struct {
		sub  int
		duty core.Duty
	}
	count := map[key]int{}
	trigBy := map[key]*trigEv{}
	for i := range sn.trigs {
		tr := &sn.trigs[i]
		k := key{tr.Sub, tr.Duty}
		count[k]++
		if count[k] == 2 {
			add("scheduler/trigger/duplicate/"+tr.Duty.Type.String(),
				fmt.Sprintf("duty %v was delivered more than once to subscriber %d", tr.Duty, tr.Sub), map[string]any{"duty": tr.Duty.String()})
		}
		if trigBy[k] == nil {
			trigBy[k] = tr
		}
		tname := tr.Duty.Type.String()
		if _, ok := kindOfType[tr.Duty.Type]; !ok {
			add("scheduler/trigger/unassigned/duty-type-not-derived-from-any-bn-answer/"+tname,
				fmt.Sprintf("duty %v triggered although the model derives no such duty from the beacon node's answers", tr.Duty), map[string]any{"duty": tr.Duty.String()})
			continue
		}
		an.info["triggers/"+tname]++
		slot := tr.Duty.Slot
		e := sc.epochOf(slot)
		allowed, expected := sc.modelDefs(tr.Duty.Type, slot)
		if len(tr.Set) == 0 {
			add("scheduler/trigger/empty-definition-set/"+tname,
				fmt.Sprintf("duty %v delivered to subscriber %d with an empty definition set", tr.Duty, tr.Sub), map[string]any{"duty": tr.Duty.String()})
		}
		for pk, js := range tr.Set {
			v := sc.byCore[pk]
			switch {
			case v == nil || !v.Cluster:
				add("scheduler/trigger/validator-outside-cluster/"+tname,
					fmt.Sprintf("duty %v triggered for pubkey %s which is not a cluster validator", tr.Duty, short(pk)), map[string]any{"duty": tr.Duty.String(), "pubkey": string(pk)})
				continue
			case allowed[pk] == "":
				add("scheduler/trigger/unassigned/"+tname,
					fmt.Sprintf("duty %v triggered for validator %d although the beacon node lists no such assignment for it at that slot", tr.Duty, v.Idx),
					map[string]any{"duty": tr.Duty.String(), "validator": v.Idx, "definition": js})
				continue
			case allowed[pk] != js:
				add("scheduler/trigger/altered-definition/"+tname,
					fmt.Sprintf("duty %v validator %d: definition differs from the beacon node's assignment", tr.Duty, v.Idx),
					map[string]any{"duty": tr.Duty.String(), "validator": v.Idx, "got": js, "bn_assignment": allowed[pk]})
			}
			if !v.activeAt(e) {
				if reportedActive(v, slot) {
					an.info["inactive_by_chain_but_reported_active_to_scheduler"]++
				} else {
					add("scheduler/trigger/inactive-validator/"+tname,
						fmt.Sprintf("duty %v triggered for validator %d which is not active in epoch %d (act=%s exit=%s) and was never reported active for it", tr.Duty, v.Idx, e, epochStr(v.Act), epochStr(v.Exit)),
						map[string]any{"duty": tr.Duty.String(), "validator": v.Idx})
				}
			}
		}
		// completeness of the definition set
		var omitted, pendingPast, stale []string
		for pk, v := range expected {
			if _, ok := tr.Set[pk]; ok {
				continue
			}
			switch classify(v, tr.Duty.Type, slot) {
			case "offered":
				omitted = append(omitted, fmt.Sprint(v.Idx))
			case "offered-as-pending-with-earlier-activation-epoch":
				pendingPast = append(pendingPast, fmt.Sprint(v.Idx))
			case "not-reported-active":
				stale = append(stale, fmt.Sprint(v.Idx))
			default:
				an.info["omitted_validator_tolerated_no_intact_answer"]++
			}
		}
		sort.Strings(omitted)
		sort.Strings(pendingPast)
		if len(pendingPast) > 0 {
			add(pendingPastSig,
				fmt.Sprintf("duty %v delivered without validators %v: they are active in epoch %d and assigned by the beacon node; the validators answers the scheduler used listed them as pending with an activation epoch before %d (cached status older than one epoch), and the scheduler only accepts a pending validator whose activation epoch equals the epoch being resolved", tr.Duty, pendingPast, e, e),
				map[string]any{"duty": tr.Duty.String(), "omitted": pendingPast, "sub": tr.Sub})
		}
		if len(omitted) > 0 {
			add("scheduler/trigger/incomplete-definition-set/"+tname,
				fmt.Sprintf("duty %v delivered without validators %v although they are active, assigned, and were offered to the scheduler with an intact beacon node answer", tr.Duty, omitted),
				map[string]any{"duty": tr.Duty.String(), "omitted": omitted, "sub": tr.Sub})
		}
		// Validators that no validators answer given to the scheduler for this epoch reported as active (or as
		// pending with an activation epoch <= the epoch and not exited) are outside the completeness demand: the
		// scheduler was never told about them (cached answer predates the activation after missed first-slot ticks).
		an.info[predatesInfo] += len(stale)

		// offset / not-early: (a) the fake-clock time at which the subscriber was actually invoked, for every
		// duty type; (b) the deadline handed to the delay function. When the scheduler waited on the harness
		// channel (which stands for "the deadline has been reached" and is released without moving the
		// clock), the effective trigger time is the later of the two; when the wait used a timer of the
		// fake clock itself (early-fetch cases) it is the observed clock time alone.
		start := sc.slotStart(slot)
		off := sc.offsetOf(tr.Duty.Type)
		an.info["trigger_times_checked"]++
		if tr.Now.Before(start) {
			add("scheduler/offset/triggered-before-slot-start/"+tname,
				fmt.Sprintf("duty %v delivered at clock %v before its slot starts at %v", tr.Duty, tr.Now.Sub(genesis), start.Sub(genesis)), map[string]any{"duty": tr.Duty.String()})
		}
		if off > 0 {
			var rel, anyD *delayEv
			for i := range sn.delays {
				d := &sn.delays[i]
				if d.Duty != tr.Duty {
					continue
				}
				anyD = d
				if d.Clock || (d.RelSeq != 0 && d.RelSeq < tr.Seq) {
					rel = d
				}
			}
			effective, explained := tr.Now, false
			if rel != nil && !rel.Clock && rel.Deadline.After(effective) {
				effective = rel.Deadline
			}
			switch {
			case anyD == nil:
				an.info["offset_duty_triggers_without_delay_function/"+tname]++
			case rel == nil:
				explained = true
				add("scheduler/offset/triggered-before-delay-released/"+tname,
					fmt.Sprintf("duty %v delivered before the delay function released it", tr.Duty), map[string]any{"duty": tr.Duty.String()})
			default:
				want := start.Add(off)
				if rel.Deadline.Before(want) {
					explained = true
					add("scheduler/offset/deadline-before-offset/"+tname,
						fmt.Sprintf("duty %v waits until slot start + %v, the documented offset is %v", tr.Duty, rel.Deadline.Sub(start), off), map[string]any{"duty": tr.Duty.String()})
				} else if rel.Deadline.After(want) {
					add("scheduler/offset/deadline-after-documented-offset/"+tname,
						fmt.Sprintf("duty %v waits until slot start + %v, the documented offset is %v", tr.Duty, rel.Deadline.Sub(start), off), map[string]any{"duty": tr.Duty.String()})
				}
				an.info["deadlines_checked"]++
				if rel.Held {
					an.info["held_delays_checked"]++
				}
			}
			if effective.Before(start.Add(off)) && !explained {
				add("scheduler/offset/triggered-before-offset/"+tname,
					fmt.Sprintf("duty %v delivered to the subscriber at slot start + %v on the fake clock; its documented offset into the slot is %v", tr.Duty, effective.Sub(start), off),
					map[string]any{"duty": tr.Duty.String(), "trigger_clock_offset_into_slot": effective.Sub(start).String(), "delay_function_called": anyD != nil})
			}
		}
	}

	// ---- no loss: walk the frames, track which epochs are resolved ----
	resolvedAt := map[uint64]int{} // epoch -> frame in which the resolving attempt ran
	reorgAt := map[int][]reorgEv{}
	for _, r := range sn.reorgs {
		reorgAt[r.Gate] = append(reorgAt[r.Gate], r)
	}
	ai := 0
	for f := range sn.ticks {
		for _, r := range reorgAt[f] {
			if !reorgFeature {
				continue
			}
			// The scheduler drops the duties of its resolved epoch when the event's epoch is lower, and
			// resolves again on the next slot. Every higher epoch is treated as dropped (conservative).
			for e := range resolvedAt {
				if r.Epoch < e {
					delete(resolvedAt, e)
					an.info["reorg_unresolved_epoch"]++
				}
			}
		}
		if f < lastFrame { // the last tick is the sentinel gate: its slot is never processed
			slot := sn.ticks[f].Slot
			// demanded: ticked after the resolving run AND a slot that begins after it (a later slot number)
			if rf, ok := resolvedAt[sc.epochOf(slot)]; ok && rf < f && frameOf[slot] == f && slot > sn.ticks[rf].Slot {
				for _, t := range judgedTypes {
					_, expected := sc.modelDefs(t, slot)
					if len(expected) == 0 {
						continue
					}
					an.demands++
					duty := core.Duty{Slot: slot, Type: t}
					if trigBy[key{0, duty}] != nil && trigBy[key{1, duty}] != nil {
						continue
					}
					var want []*mval
					for _, v := range expected {
						if c := classify(v, t, slot); c == "offered" || c == "offered-as-pending-with-earlier-activation-epoch" {
							want = append(want, v)
						}
					}
					if len(want) == 0 { // nobody the scheduler was told about: nothing is demanded
						an.info[predatesInfo+"/whole_duty"]++
						continue
					}
					sort.Slice(want, func(i, j int) bool { return want[i].Idx < want[j].Idx })
					an.missing = append(an.missing, demand{Duty: duty, Frame: f, Want: want})
				}
			}
		}
		for ; ai < len(an.attempts) && an.attempts[ai].Frame <= f; ai++ {
			a := an.attempts[ai]
			if a.Frame == f && a.AllGood {
				if _, ok := resolvedAt[a.Epoch]; !ok {
					resolvedAt[a.Epoch] = f
				}
			}
		}
	}
	an.classifyMissing = func(d demand) (plain, pendingPast []string) {
		for _, v := range d.Want {
			if classify(v, d.Duty.Type, d.Duty.Slot) == "offered" {
				plain = append(plain, fmt.Sprint(v.Idx))
			} else {
				pendingPast = append(pendingPast, fmt.Sprint(v.Idx))
			}
		}

		return plain, pendingPast
	}

	return an
}

func short(pk core.PubKey) string {
	s := string(pk)
	if len(s) > 14 {
		return s[:14] + "…"
	}

	return s
}

func joinKinds(m map[kind]*callEv) string {
	var parts []string
	for _, k := range dutyKinds {
		c := m[k]
		switch {
		case c == nil:
		case !c.OK:
			parts = append(parts, string(k)+":error")
		case c.Corrupt:
			parts = append(parts, string(k)+":corrupt")
		default:
			parts = append(parts, string(k)+":ok")
		}
	}

	return strings.Join(parts, " ")
}
