package c15

import (
	"context"
	"errors"
	"fmt"
	"strconv"
	"sync"
	"sync/atomic"
	"time"

	eth2api "github.com/attestantio/go-eth2-client/api"
	eth2v1 "github.com/attestantio/go-eth2-client/api/v1"
	eth2p0 "github.com/attestantio/go-eth2-client/spec/phase0"
	"github.com/jonboulle/clockwork"

	"github.com/obolnetwork/charon/app/eth2wrap"
	"github.com/obolnetwork/charon/core"
	"github.com/obolnetwork/charon/testutil/beaconmock"

	"verifharness/kit"
)

// ---------------------------------------------------------------------------------------------
// Observation records (all appended under harness.mu)
// ---------------------------------------------------------------------------------------------

type tickEv struct {
	Slot uint64
	Now  time.Time // fake clock at the gate
}

type seenVal struct {
	Active  bool // status is one of the active states
	Pending bool // status is one of the pending states
	Act     uint64
	Exit    uint64
}

// callEv is one answer the scheduler received from its eth2 client (after the caches).
type callEv struct {
	Frame   int
	Kind    kind
	Epoch   uint64
	OK      bool
	Corrupt bool                              // a returned duty carries a pubkey that is not the validator's
	Seen    map[eth2p0.ValidatorIndex]seenVal // validators answer only
}

type delayEv struct {
	Duty     core.Duty
	Deadline time.Time
	Seq      int
	Held     bool
	Clock    bool // the wait is a timer of the fake clock itself (early-fetch cases)
	RelSeq   int  // 0: not released yet
	ch       chan time.Time
}

type trigEv struct {
	Sub  int
	Duty core.Duty
	Set  map[core.PubKey]string // definition JSON per validator
	Seq  int
	Now  time.Time
}

type reorgEv struct {
	Gate  int
	Epoch uint64
}

type gateEv struct {
	slot    core.Slot
	release chan struct{}
}

// baseNet is one beaconmock (HTTP spec server) per (slots-per-epoch, slot-duration); cases copy the
// Mock value and override its functions.
type baseNet struct {
	mock    beaconmock.Mock
	spec    map[string]any
	genesis *eth2v1.Genesis
}

var (
	baseMu   sync.Mutex
	baseNets = map[string]*baseNet{}
)

func getBase(spe uint64, slotDur time.Duration) (*baseNet, error) {
	baseMu.Lock()
	defer baseMu.Unlock()
	key := fmt.Sprintf("%d/%v", spe, slotDur)
	if b, ok := baseNets[key]; ok {
		return b, nil
	}
	ctx := context.Background()
	m, err := beaconmock.New(ctx,
		beaconmock.WithGenesisTime(genesis),
		beaconmock.WithSlotDuration(slotDur),
		beaconmock.WithSlotsPerEpoch(int(spe)),
	)
	if err != nil {
		return nil, err
	}
	spec, err := m.Spec(ctx, &eth2api.SpecOpts{})
	if err != nil {
		return nil, err
	}
	gen, err := m.Genesis(ctx, &eth2api.GenesisOpts{})
	if err != nil {
		return nil, err
	}
	if d, _ := spec.Data["SECONDS_PER_SLOT"].(time.Duration); d != slotDur {
		return nil, fmt.Errorf("beaconmock spec SECONDS_PER_SLOT=%v want %v", spec.Data["SECONDS_PER_SLOT"], slotDur)
	}
	if n, _ := spec.Data["SLOTS_PER_EPOCH"].(uint64); n != spe {
		return nil, fmt.Errorf("beaconmock spec SLOTS_PER_EPOCH=%v want %v", spec.Data["SLOTS_PER_EPOCH"], spe)
	}
	if !gen.Data.GenesisTime.Equal(genesis) {
		return nil, fmt.Errorf("beaconmock genesis %v want %v", gen.Data.GenesisTime, genesis)
	}
	b := &baseNet{mock: m, spec: spec.Data, genesis: gen.Data}
	baseNets[key] = b

	return b, nil
}

func closeBases() {
	baseMu.Lock()
	defer baseMu.Unlock()
	for k, b := range baseNets {
		_ = b.mock.Close()
		delete(baseNets, k)
	}
}

// ---------------------------------------------------------------------------------------------
// harness: beacon stub + recording client + delay function + subscribers + gate
// ---------------------------------------------------------------------------------------------

type harness struct {
	sc    *scenario
	clock *clockwork.FakeClock

	mu      sync.Mutex
	closed  bool
	seq     int
	frame   int    // index of the tick being processed (-1 before the first gate)
	curSlot uint64 // slot of that tick: what the BN considers "head"
	nth     map[kind]int
	ticks   []tickEv
	calls   []callEv
	delays  []*delayEv
	trigs   []trigEv
	reorgs  []reorgEv
	events  int // bumped on every recorded observation (quiescence detection)

	headEvents map[string]int  // head events injected per class (early-fetch cases)
	fetchOnly  int             // FetchOnly (early attestation data fetch) invocations
	bnCalls    map[string]int  // kind/ok|fail|corrupt
	prefetched map[string]bool // kind/epoch fetched by the foreign cache user
	served     map[string]int  // foreign / extra entries served to the scheduler side
	probeCalls int

	gateCh chan gateEv
	done   chan struct{}

	valCache    *eth2wrap.ValidatorCache
	dutiesCache *eth2wrap.DutiesCache
	refresh     *refresher
	asyncWG     sync.WaitGroup
}

func newHarness(sc *scenario, clock *clockwork.FakeClock) *harness {
	return &harness{
		sc: sc, clock: clock, frame: -1, curSlot: sc.S0, nth: map[kind]int{},
		bnCalls: map[string]int{}, served: map[string]int{}, headEvents: map[string]int{}, prefetched: map[string]bool{},
		gateCh: make(chan gateEv), done: make(chan struct{}),
	}
}

var errInjected = errors.New("injected beacon node failure")

// foreignKey marks the context of calls made by the foreign user of the duties cache.
type foreignKey struct{}

// bnDecide consults the failure plan for one beacon node call.
func (h *harness) bnDecide(ctx context.Context, k kind, epoch uint64) (fail, corrupt bool, head uint64) {
	h.mu.Lock()
	defer h.mu.Unlock()
	slot := h.curSlot
	if ctx.Value(foreignKey{}) != nil {
		// another user of the duties cache (validator client through validatorapi, tracker): its fetches are
		// not the scheduler's and are left alone, so that errors hit exactly the scheduler's own fetches
		h.bnCalls[string(k)+"/foreign-user-ok"]++
		h.prefetched[fmt.Sprintf("%s/%d", k, epoch)] = true

		return false, false, slot
	}
	n := h.nth[k]
	h.nth[k]++
	m, ok := h.sc.Fail[slot]
	if ok {
		if m.P > 0 && hashFloat(h.sc.Seed, "fail", slot, k, n) < m.P {
			fail = true
		}
		if m.All || m.Kinds[k] {
			fail = !(m.FirstOnly && n > 0)
		}
		if m.Corrupt == k {
			corrupt = true
		}
	}
	switch {
	case fail:
		h.bnCalls[string(k)+"/fail"]++
		if h.prefetched[fmt.Sprintf("%s/%d", k, epoch)] {
			h.bnCalls["failed_scheduler_fetch_for_epoch_partly_cached_by_foreign_user"]++
		}
	case corrupt:
		h.bnCalls[string(k)+"/corrupt"]++
	default:
		h.bnCalls[string(k)+"/ok"]++
	}

	return fail, corrupt, slot
}

func (h *harness) countServed(key string, n int) {
	if n == 0 {
		return
	}
	h.mu.Lock()
	h.served[key] += n
	h.mu.Unlock()
}

// --- beacon node stub (below the caches) ---

func (h *harness) bnValidators(ctx context.Context, opts *eth2api.ValidatorsOpts) (map[eth2p0.ValidatorIndex]*eth2v1.Validator, error) {
	fail, _, head := h.bnDecide(ctx, kVals, 0)
	if fail {
		return nil, errInjected
	}
	stateSlot := head
	if opts != nil && opts.State != "" && opts.State != "head" {
		if v, err := strconv.ParseUint(opts.State, 10, 64); err == nil {
			stateSlot = v
		}
	}
	q := h.sc.epochOf(stateSlot)
	resp := map[eth2p0.ValidatorIndex]*eth2v1.Validator{}
	want := map[eth2p0.BLSPubKey]bool{}
	if opts != nil {
		for _, pk := range opts.PubKeys {
			want[pk] = true
		}
	}
	for _, v := range h.sc.Vals {
		if !want[v.Pub] { // the BN answers exactly the pubkeys it is asked for (the cluster's)
			continue
		}
		resp[v.Idx] = &eth2v1.Validator{
			Index: v.Idx, Balance: 32_000_000_000, Status: v.statusAt(q),
			Validator: &eth2p0.Validator{
				PublicKey: v.Pub, EffectiveBalance: 32_000_000_000, Slashed: v.Slashed,
				ActivationEligibilityEpoch: 0,
				ActivationEpoch:            eth2p0.Epoch(v.reportedActivation(q)),
				ExitEpoch:                  eth2p0.Epoch(v.Exit),
				WithdrawableEpoch:          eth2p0.Epoch(farEpoch),
			},
		}
	}

	return resp, nil
}

func wanted(indices []eth2p0.ValidatorIndex) map[eth2p0.ValidatorIndex]bool {
	m := map[eth2p0.ValidatorIndex]bool{}
	for _, i := range indices {
		m[i] = true
	}

	return m
}

// corruptPub returns a pubkey that is not v's (another validator's).
func (h *harness) corruptPub(v *mval) eth2p0.BLSPubKey {
	for _, o := range h.sc.Vals {
		if o != v {
			return o.Pub
		}
	}
	var pk eth2p0.BLSPubKey
	pk[0] = 0xff

	return pk
}

func (h *harness) bnAttester(ctx context.Context, epoch eth2p0.Epoch, indices []eth2p0.ValidatorIndex) ([]*eth2v1.AttesterDuty, error) {
	fail, corrupt, _ := h.bnDecide(ctx, kAtt, uint64(epoch))
	if fail {
		return nil, errInjected
	}
	t := h.sc.Tables[uint64(epoch)]
	if t == nil {
		return []*eth2v1.AttesterDuty{}, nil
	}
	want := wanted(indices)
	var out []*eth2v1.AttesterDuty
	foreign, extra := 0, 0
	for _, e := range t.Att {
		if !h.sc.Loose[kAtt] && !want[e.V.Idx] {
			continue
		}
		d := e.D
		if corrupt && e.V.Cluster && !e.Extra {
			d.PubKey = h.corruptPub(e.V)
			corrupt = false // one entry
		}
		if !e.V.Cluster {
			foreign++
		}
		if e.Extra {
			extra++
		}
		out = append(out, &d)
	}
	h.countServed("foreign_attester_entries", foreign)
	h.countServed("inactive_validator_attester_entries", extra)
	h.shuffle(len(out), uint64(epoch), kAtt, func(i, j int) { out[i], out[j] = out[j], out[i] })

	return out, nil
}

func (h *harness) bnProposer(ctx context.Context, epoch eth2p0.Epoch, indices []eth2p0.ValidatorIndex) ([]*eth2v1.ProposerDuty, error) {
	fail, corrupt, _ := h.bnDecide(ctx, kPro, uint64(epoch))
	if fail {
		return nil, errInjected
	}
	t := h.sc.Tables[uint64(epoch)]
	if t == nil {
		return []*eth2v1.ProposerDuty{}, nil
	}
	want := wanted(indices)
	var out []*eth2v1.ProposerDuty
	foreign, extra := 0, 0
	for _, e := range t.Pro {
		if !h.sc.Loose[kPro] && !want[e.V.Idx] {
			continue
		}
		d := e.D
		if corrupt && e.V.Cluster && !e.Extra {
			d.PubKey = h.corruptPub(e.V)
			corrupt = false
		}
		if !e.V.Cluster {
			foreign++
		}
		if e.Extra {
			extra++
		}
		out = append(out, &d)
	}
	h.countServed("foreign_proposer_entries", foreign)
	h.countServed("inactive_validator_proposer_entries", extra)
	h.shuffle(len(out), uint64(epoch), kPro, func(i, j int) { out[i], out[j] = out[j], out[i] })

	return out, nil
}

func (h *harness) bnSync(ctx context.Context, epoch eth2p0.Epoch, indices []eth2p0.ValidatorIndex) ([]*eth2v1.SyncCommitteeDuty, error) {
	fail, corrupt, _ := h.bnDecide(ctx, kSync, uint64(epoch))
	if fail {
		return nil, errInjected
	}
	t := h.sc.Tables[uint64(epoch)]
	if t == nil {
		return []*eth2v1.SyncCommitteeDuty{}, nil
	}
	want := wanted(indices)
	var out []*eth2v1.SyncCommitteeDuty
	foreign, extra := 0, 0
	for _, e := range t.Sync {
		if !h.sc.Loose[kSync] && !want[e.V.Idx] {
			continue
		}
		d := e.D
		d.ValidatorSyncCommitteeIndices = append([]eth2p0.CommitteeIndex(nil), e.D.ValidatorSyncCommitteeIndices...)
		if corrupt && e.V.Cluster && !e.Extra {
			d.PubKey = h.corruptPub(e.V)
			corrupt = false
		}
		if !e.V.Cluster {
			foreign++
		}
		if e.Extra {
			extra++
		}
		out = append(out, &d)
	}
	h.countServed("foreign_sync_entries", foreign)
	h.countServed("inactive_validator_sync_entries", extra)
	h.shuffle(len(out), uint64(epoch), kSync, func(i, j int) { out[i], out[j] = out[j], out[i] })

	return out, nil
}

// shuffle permutes an answer deterministically per (scenario, epoch, kind, current slot).
func (h *harness) shuffle(n int, epoch uint64, k kind, swap func(i, j int)) {
	h.mu.Lock()
	slot := h.curSlot
	h.mu.Unlock()
	for i := n - 1; i > 0; i-- {
		j := int(hash64(h.sc.Seed, "shuffle", epoch, k, slot, i) % uint64(i+1))
		swap(i, j)
	}
}

// --- wiring: mock + caches as in app/app.go ---

// refresher is a copy of the validator-cache refresh slot subscriber of app/app.go (wireCoreWorkflow).
type refresher struct {
	mu                 sync.RWMutex
	firstCacheRefresh  bool
	refreshedBySlot    bool
	valCache           *eth2wrap.ValidatorCache
	dutiesCache        *eth2wrap.DutiesCache
	refreshes, skipped int
}

func (rf *refresher) shouldUpdate(slot core.Slot) bool {
	rf.mu.RLock()
	defer rf.mu.RUnlock()
	if !slot.FirstInEpoch() && !rf.firstCacheRefresh && rf.refreshedBySlot {
		return false
	}

	return true
}

func (rf *refresher) onSlot(ctx context.Context, slot core.Slot) error {
	if !rf.shouldUpdate(slot) {
		return nil
	}
	rf.mu.Lock()
	defer rf.mu.Unlock()
	var slotToFetch uint64
	if !rf.refreshedBySlot {
		slotToFetch = slot.Epoch() * slot.SlotsPerEpoch
	} else {
		slotToFetch = slot.Slot
	}
	rf.valCache.Trim()
	if rf.dutiesCache != nil {
		rf.dutiesCache.Trim(eth2p0.Epoch(slot.Epoch()))
	}
	rf.refreshes++
	active, _, refresh, err := rf.valCache.GetBySlot(ctx, slotToFetch)
	if err != nil {
		return err
	}
	if rf.dutiesCache != nil {
		rf.dutiesCache.UpdateActiveValIndices(active.Indices())
	}
	rf.refreshedBySlot = refresh
	rf.firstCacheRefresh = false

	return nil
}

// recClient is the eth2 client handed to the scheduler: the beaconmock (with caches wired) plus
// recording of what the scheduler was told. Spec/Genesis/NodeSyncing answer from the values read
// once from the beaconmock's HTTP server, so that no real-time network timeout sits in the loop.
type recClient struct {
	eth2wrap.Client
	h    *harness
	base *baseNet
}

func (c *recClient) Spec(context.Context, *eth2api.SpecOpts) (*eth2api.Response[map[string]any], error) {
	return &eth2api.Response[map[string]any]{Data: c.base.spec}, nil
}

func (c *recClient) Genesis(context.Context, *eth2api.GenesisOpts) (*eth2api.Response[*eth2v1.Genesis], error) {
	return &eth2api.Response[*eth2v1.Genesis]{Data: c.base.genesis}, nil
}

func (c *recClient) NodeSyncing(context.Context, *eth2api.NodeSyncingOpts) (*eth2api.Response[*eth2v1.SyncState], error) {
	return &eth2api.Response[*eth2v1.SyncState]{Data: &eth2v1.SyncState{IsSyncing: false}}, nil
}

func (c *recClient) record(ev callEv) {
	h := c.h
	h.mu.Lock()
	defer h.mu.Unlock()
	if h.closed {
		return
	}
	ev.Frame = h.frame
	h.calls = append(h.calls, ev)
	h.events++
}

func (c *recClient) CompleteValidators(ctx context.Context) (eth2wrap.CompleteValidators, error) {
	resp, err := c.Client.CompleteValidators(ctx)
	ev := callEv{Kind: kVals, OK: err == nil}
	if err == nil {
		ev.Seen = map[eth2p0.ValidatorIndex]seenVal{}
		for idx, v := range resp {
			if v == nil || v.Validator == nil {
				ev.Corrupt = true
				continue
			}
			ev.Seen[idx] = seenVal{
				Active: v.Status.IsActive(), Pending: v.Status.IsPending(),
				Act: uint64(v.Validator.ActivationEpoch), Exit: uint64(v.Validator.ExitEpoch),
			}
		}
	}
	c.record(ev)

	return resp, err
}

func (c *recClient) pubOK(idx eth2p0.ValidatorIndex, pk eth2p0.BLSPubKey) bool {
	v := c.h.sc.byIdx[idx]

	return v != nil && v.Pub == pk
}

func (c *recClient) AttesterDutiesCache(ctx context.Context, epoch eth2p0.Epoch, idxs []eth2p0.ValidatorIndex) (eth2wrap.AttesterDutyWithMeta, error) {
	resp, err := c.Client.AttesterDutiesCache(ctx, epoch, idxs)
	ev := callEv{Kind: kAtt, Epoch: uint64(epoch), OK: err == nil}
	for _, d := range resp.Duties {
		if d == nil || !c.pubOK(d.ValidatorIndex, d.PubKey) {
			ev.Corrupt = true
		}
	}
	c.record(ev)

	return resp, err
}

func (c *recClient) ProposerDutiesCache(ctx context.Context, epoch eth2p0.Epoch, idxs []eth2p0.ValidatorIndex) (eth2wrap.ProposerDutyWithMeta, error) {
	resp, err := c.Client.ProposerDutiesCache(ctx, epoch, idxs)
	ev := callEv{Kind: kPro, Epoch: uint64(epoch), OK: err == nil}
	for _, d := range resp.Duties {
		if d == nil || !c.pubOK(d.ValidatorIndex, d.PubKey) {
			ev.Corrupt = true
		}
	}
	c.record(ev)

	return resp, err
}

func (c *recClient) SyncCommDutiesCache(ctx context.Context, epoch eth2p0.Epoch, idxs []eth2p0.ValidatorIndex) (eth2wrap.SyncDutyWithMeta, error) {
	resp, err := c.Client.SyncCommDutiesCache(ctx, epoch, idxs)
	ev := callEv{Kind: kSync, Epoch: uint64(epoch), OK: err == nil}
	for _, d := range resp.Duties {
		if d == nil || !c.pubOK(d.ValidatorIndex, d.PubKey) {
			ev.Corrupt = true
		}
	}
	c.record(ev)

	return resp, err
}

// buildClient wires the beacon stub, the real ValidatorCache / DutiesCache and the recorder.
func (h *harness) buildClient(base *baseNet) *recClient {
	sc := h.sc
	m := base.mock // copy of the Mock value
	m.ValidatorsFunc = h.bnValidators
	m.AttesterDutiesFunc = h.bnAttester
	m.ProposerDutiesFunc = h.bnProposer
	m.SyncCommitteeDutiesFunc = h.bnSync

	var pubkeys []eth2p0.BLSPubKey
	for _, v := range sc.Cluster {
		pubkeys = append(pubkeys, v.Pub)
	}

	top := m
	if sc.DutyMode == "cache" {
		h.dutiesCache = eth2wrap.NewDutiesCache(m, []eth2p0.ValidatorIndex{})
		top.CachedProposerDutiesFunc = h.dutiesCache.ProposerDutiesCache
		top.CachedAttesterDutiesFunc = h.dutiesCache.AttesterDutiesCache
		top.CachedSyncCommDutiesFunc = h.dutiesCache.SyncCommDutiesCache
	} else {
		top.CachedProposerDutiesFunc = func(ctx context.Context, e eth2p0.Epoch, idxs []eth2p0.ValidatorIndex) (eth2wrap.ProposerDutyWithMeta, error) {
			resp, err := m.ProposerDuties(ctx, &eth2api.ProposerDutiesOpts{Epoch: e, Indices: idxs})
			if err != nil {
				return eth2wrap.ProposerDutyWithMeta{}, err
			}

			return eth2wrap.ProposerDutyWithMeta{Duties: resp.Data, Metadata: resp.Metadata}, nil
		}
		top.CachedAttesterDutiesFunc = func(ctx context.Context, e eth2p0.Epoch, idxs []eth2p0.ValidatorIndex) (eth2wrap.AttesterDutyWithMeta, error) {
			resp, err := m.AttesterDuties(ctx, &eth2api.AttesterDutiesOpts{Epoch: e, Indices: idxs})
			if err != nil {
				return eth2wrap.AttesterDutyWithMeta{}, err
			}

			return eth2wrap.AttesterDutyWithMeta{Duties: resp.Data, Metadata: resp.Metadata}, nil
		}
		top.CachedSyncCommDutiesFunc = func(ctx context.Context, e eth2p0.Epoch, idxs []eth2p0.ValidatorIndex) (eth2wrap.SyncDutyWithMeta, error) {
			resp, err := m.SyncCommitteeDuties(ctx, &eth2api.SyncCommitteeDutiesOpts{Epoch: e, Indices: idxs})
			if err != nil {
				return eth2wrap.SyncDutyWithMeta{}, err
			}

			return eth2wrap.SyncDutyWithMeta{Duties: resp.Data, Metadata: resp.Metadata}, nil
		}
	}
	if sc.ValMode == "direct" {
		top.CachedValidatorsFunc = func(ctx context.Context) (eth2wrap.ActiveValidators, eth2wrap.CompleteValidators, error) {
			resp, err := m.Validators(ctx, &eth2api.ValidatorsOpts{State: "head", PubKeys: pubkeys})
			if err != nil {
				return nil, nil, err
			}
			active := eth2wrap.ActiveValidators{}
			for _, v := range resp.Data {
				if v.Status.IsActive() {
					active[v.Index] = v.Validator.PublicKey
				}
			}

			return active, resp.Data, nil
		}
	} else {
		h.valCache = eth2wrap.NewValidatorCache(m, pubkeys)
		top.CachedValidatorsFunc = h.valCache.GetByHead
		h.refresh = &refresher{firstCacheRefresh: true, refreshedBySlot: true, valCache: h.valCache, dutiesCache: h.dutiesCache}
	}

	return &recClient{Client: top, h: h, base: base}
}

// --- scheduler-facing callbacks ---

// hook is the scheduler's schedSlotFunc: it parks the scheduler goroutine at the start of every
// scheduleSlot until the driver opens the gate. Its invocation for slot n+1 proves that
// scheduleSlot(n) has returned.
func (h *harness) hook(_ context.Context, slot core.Slot) {
	ev := gateEv{slot: slot, release: make(chan struct{})}
	select {
	case h.gateCh <- ev:
	case <-h.done:
		return
	}
	select {
	case <-ev.release:
	case <-h.done:
	}
}

// delay is the scheduler's delayFunc: records (duty, deadline); releases immediately or, for a
// PRNG-chosen subset, only when the driver says so at a later gate.
func (h *harness) delay(duty core.Duty, deadline time.Time) <-chan time.Time {
	ch := make(chan time.Time, 1)
	h.mu.Lock()
	defer h.mu.Unlock()
	h.seq++
	d := &delayEv{Duty: duty, Deadline: deadline, Seq: h.seq, ch: ch}
	if h.sc.Early && !h.closed {
		// early-fetch cases advance the clock in sub-slot steps: the duty really waits for the fake clock
		d.Clock = true
		h.delays = append(h.delays, d)
		h.events++

		return h.clock.After(deadline.Sub(h.clock.Now()))
	}
	if !h.closed && hashFloat(h.sc.Seed, "hold", duty.Slot, duty.Type) < h.sc.HoldP {
		d.Held = true
	} else {
		h.seq++
		d.RelSeq = h.seq
		ch <- deadline
	}
	if !h.closed {
		h.delays = append(h.delays, d)
		h.events++
	}

	return ch
}

// releaseHeld releases held delays; all==false releases only those registered before the previous tick.
func (h *harness) releaseHeld(all bool) int {
	h.mu.Lock()
	defer h.mu.Unlock()
	n := 0
	for _, d := range h.delays {
		if !d.Held || d.RelSeq != 0 {
			continue
		}
		if !all && hash64(h.sc.Seed, "rel", d.Seq, h.frame)%3 == 0 {
			continue // keep it for a later gate
		}
		h.seq++
		d.RelSeq = h.seq
		d.ch <- d.Deadline
		n++
	}

	return n
}

func (h *harness) subscriber(sub int, scribble bool) func(context.Context, core.Duty, core.DutyDefinitionSet) error {
	return func(_ context.Context, duty core.Duty, set core.DutyDefinitionSet) error {
		now := h.clock.Now()
		rec := map[core.PubKey]string{}
		for pk, def := range set {
			b, err := def.MarshalJSON()
			if err != nil {
				rec[pk] = "marshal error: " + err.Error()
				continue
			}
			rec[pk] = string(b)
		}
		if scribble { // the subscriber owns its clone; a later subscriber must not see this
			for pk := range set {
				delete(set, pk)
			}
		}
		h.mu.Lock()
		defer h.mu.Unlock()
		if h.closed {
			return nil
		}
		h.seq++
		h.trigs = append(h.trigs, trigEv{Sub: sub, Duty: duty, Set: rec, Seq: h.seq, Now: now})
		h.events++
		if sub == 0 && hash64(h.sc.Seed, "suberr", duty.Slot, duty.Type)%5 == 0 {
			return errors.New("injected subscriber error")
		}

		return nil
	}
}

func (h *harness) eventCount() int {
	h.mu.Lock()
	defer h.mu.Unlock()

	return h.events
}

// fetchOnlyFunc is registered as the fetcher's FetchOnly (early attestation data fetch on a head event).
func (h *harness) fetchOnlyFunc(context.Context, core.Duty, core.DutyDefinitionSet, string, eth2p0.Root) error {
	h.mu.Lock()
	defer h.mu.Unlock()
	if !h.closed {
		h.fetchOnly++
		h.events++
	}

	return nil
}

var cancelledCtx = func() context.Context {
	ctx, cancel := context.WithCancel(context.Background())
	cancel()

	return ctx
}()

// waiters returns how many timers are pending on the fake clock (ticker, offset waits).
func (h *harness) waiters() int {
	n := 0
	for n < 500 && h.clock.BlockUntilContext(cancelledCtx, n+1) == nil {
		n++
	}

	return n
}

// settle waits until the harness has not recorded anything new and the number of timers pending on the
// fake clock has not changed for a while (a duty goroutine that was spawned reaches its timer): pacing only.
func (h *harness) settle() {
	stable, last, lastW := 0, h.eventCount(), h.waiters()
	kit.WaitUntil(2*time.Second, func() bool {
		ec, w := h.eventCount(), h.waiters()
		if ec != last || w != lastW {
			last, lastW, stable = ec, w, 0
		} else {
			stable++
		}

		return stable > 30
	})
}

// wallSized is the threshold above which a duration handed to the scheduler's clock cannot be a slot
// timer: the model's genesis (2030) is years ahead of the wall clock.
const wallSized = 365 * 24 * time.Hour

// schedClock is the clock handed to the scheduler: the case's FakeClock, plus two things.
//
// (1) It counts the slot ticker's timer registrations (one per emitted tick, also when the duration is
// not positive and the timer fires at once), so that the driver knows, without any wait on real time,
// that the ticker has armed itself for the next slot and whether it sleeps or already queued a tick.
//
// (2) The attester wait of the early-fetch path is `s.clock.After(time.Until(deadline))`
// (scheduler.go waitForEarlyFetchOrTimeout): the duration is measured on the WALL clock although the
// timer runs on s.clock. On a fake clock years ahead of the wall clock that timer would sit years after
// the deadline. After recognises such a wall-clock sized duration, recovers the absolute deadline
// (wall now + d; read after the scheduler's time.Until, so never earlier than the scheduler's deadline)
// and arms the fake clock for that instant, which is what the code does in production where both clocks
// are the same. A scheduler that sizes the timer on s.clock is passed through unchanged.
type schedClock struct {
	*clockwork.FakeClock

	tickerArms   atomic.Int64
	lastTickerD  atomic.Int64 // duration of the ticker's latest timer: <= 0 means it fired at once (a tick is queued)
	fallbackArms atomic.Int64
}

func (c *schedClock) After(d time.Duration) <-chan time.Time {
	if d > wallSized {
		deadline := time.Now().Add(d)
		ch := c.FakeClock.After(deadline.Sub(c.FakeClock.Now()))
		c.fallbackArms.Add(1)

		return ch
	}
	ch := c.FakeClock.After(d)
	c.lastTickerD.Store(int64(d))
	c.tickerArms.Add(1)

	return ch
}
