// Package c15 monitors core/scheduler (property C15): every duty the beacon node assigns to an
// active cluster validator is triggered exactly once, not before its offset, with the beacon
// node's definitions — under failing duty-resolution calls, missed ticks, validator lifecycle
// changes and reorg events. The real scheduler runs on a fake clock against a scripted beacon
// node (beaconmock + the real ValidatorCache/DutiesCache wired as in app/app.go) whose answers
// come from a reference model; the oracle compares the subscriber log with the model.
package c15

import (
	"context"
	"fmt"
	"math/rand"
	"os"
	"runtime/pprof"
	"strings"
	"sync"
	"sync/atomic"
	"testing"
	"time"

	eth2p0 "github.com/attestantio/go-eth2-client/spec/phase0"
	"github.com/jonboulle/clockwork"

	"github.com/obolnetwork/charon/app/featureset"
	"github.com/obolnetwork/charon/app/log"
	"github.com/obolnetwork/charon/core"
	"github.com/obolnetwork/charon/core/scheduler"

	"verifharness/kit"
)

const (
	gateWatchdog = 90 * time.Second // inconclusive when it fires
	idleForLoss  = 5 * time.Second  // harness silent this long with the scheduler parked before a loss is declared
	maxFrames    = 120
)

// logSink swallows charon's log output and counts the messages that show which paths ran.
type logSink struct {
	counts sync.Map // msg fragment -> *int64
}

var logFragments = []string{
	"Slot(s) skipped", "Resolving duties error", "Received attester duty for unknown validator",
	"Received proposer duty for unknown validator", "Received sync committee duty for unknown validator",
	"Missing attester duties from beacon node", "No active validators for slot",
	"Chain reorg event handled", "Chain reorg event ignored", "invalid attester duty pubkey",
	"invalid proposer duty pubkey", "invalid sync committee duty pubkey", "Failed to trigger duty subscriber",
}

func (s *logSink) Write(p []byte) (int, error) {
	line := string(p)
	if strings.Contains(line, "for unknown validator") {
		// The log writer is a dependency the harness supplies: this line is written inside the resolve loops,
		// between two setDutyDefinition calls. A short pause here widens that window for concurrent head events.
		time.Sleep(100 * time.Microsecond)
	}
	for _, f := range logFragments {
		if strings.Contains(line, f) {
			v, _ := s.counts.LoadOrStore(f, new(int64))
			atomic.AddInt64(v.(*int64), 1)
		}
	}

	return len(p), nil
}

func (*logSink) Sync() error { return nil }

func TestCheck(t *testing.T) {
	r := kit.Start(t, "C15")
	defer r.Finish()
	defer closeBases()
	r.Rule("case = PRNG scenario run against the real scheduler.NewForT on a fake clock: 3-6 epochs of 4-8 slots (slot 2/3/4/12 s), arbitrary start slot and start offset, " +
		"2-6 cluster + 1-4 foreign validators with pending/active/exiting/exited lifecycles, PRNG attester/proposer/sync assignments (plus BN answers listing foreign and inactive validators), " +
		"per-slot beacon node failure modes (all calls, one kind, first call only, probabilistic, corrupt pubkey), missed ticks, reorg events at slot boundaries, held offset delays, " +
		"validator cache refreshed as in app.go (async subscriber / same logic run synchronously) or no cache, duties cache or direct; phase B repeats with feature sse_reorg_duties enabled; " +
		"phases C1/C2 (early-fetch cases) add fetch_att_on_block / fetch_att_on_block_with_delay with a registered FetchOnly function: every slot is ticked, the fake clock moves in sub-slot steps (before 1/3, at 1/3, before/after the fallback timeout, 2/3, 5/6) and SSE head events are injected before the tick of a slot (after its duties were stored), concurrently with scheduleSlot, at slot start, at every stop, for the next slot, for old and far-future slots, repeatedly, and after the duty fired; offset waits are timers of the fake clock there; " +
		"non-trivial = at least one no-loss demand was checked and (a failed resolution attempt was followed by a successful one, or ticks were missed, or a reorg un-resolved an epoch); distinct = hash of the scenario description")
	r.Assume("beacon node model: duties of an epoch never change once served (reorg events do not change assignments); validators answers list exactly the requested cluster pubkeys; activation epochs are reported 4 epochs ahead")
	r.Assume("'epoch resolved' = one resolveDuties run in which the scheduler received an intact validators answer and intact attester, proposer and sync answers for that epoch; no-loss is demanded only for slots ticked after that run (and until a handled reorg event drops the epoch again)")
	r.Assume("a trigger of a validator that the chain model calls inactive is tolerated (and counted) when a validators answer given to the scheduler for that epoch listed it as active or activating")
	r.Assume("no-loss and set-completeness are demanded for a validator only if a validators answer given to the scheduler for that epoch's resolution reported it active, or pending with an activation epoch <= the epoch and not exited; otherwise (cached answer predates the activation after missed first-slot ticks) it is counted as omitted_because_validators_answer_predates_activation, not judged")
	r.Assume("not-before-its-time is judged on the fake-clock time at which the subscriber is invoked, for every duty type (>= slot start + 1/3 attester, 2/3 aggregator and sync contribution, 0 others); where the scheduler waits on the harness delay channel (released without moving the clock) the deadline handed to the delay function counts as the trigger time")
	r.Assume("early-fetch cases: the clock handed to the scheduler converts the wall-clock sized duration of `s.clock.After(time.Until(deadline))` (waitForEarlyFetchOrTimeout mixes the wall clock with s.clock) back into the absolute deadline, read later than the scheduler read it, so a trigger can only be observed later, never earlier, than the scheduler meant it")
	r.Assume("the validator-cache refresh subscriber is a copy of the closure in app/app.go wireCoreWorkflow (not callable from outside)")
	// "core": helpers of package core (DutyDefinitionSet.Clone) run on the scheduler's own maps when called from it
	r.RacePkgs(false, "core/scheduler", "core")
	r.Require("triggers", 2000)
	r.Require("no_loss_demands_checked", 1000)
	r.Require("resolution_attempts_failed", 100)
	r.Require("advances_with_missed_ticks", 50)
	r.Require("missed_tick_jumps/fractional_slots", 20)
	r.Require("missed_tick_jumps/across_epoch_boundary", 20)
	r.Require("missed_tick_jumps/while_scheduleSlot_is_blocked", 15)
	r.Require("foreign_cache_user_fetches", 200)
	r.Require("bn_calls/failed_scheduler_fetch_for_epoch_partly_cached_by_foreign_user", 20)
	r.Require("deadlines_checked", 1000)
	r.Require("head_events_injected", 1000)
	r.Require("early_fetch_attester_triggers", 300)

	sink := &logSink{}
	log.InitJSONForT(t, sink)

	nA := r.N(1500, 45000)
	nB := r.N(500, 15000)
	nC := r.N(250, 6000)
	r.Cases(nA, 0, func(c *kit.Case) { runCase(c, c.Rng, "A:default-features", false, 0) })
	// Feature flags are process-global: each flag set gets its own phase, phases run one after the other.
	featureset.EnableForT(t, featureset.SSEReorgDuties)
	r.Cases(nB, 0, func(c *kit.Case) { runCase(c, r.Rand(c.Idx, 15), "B:sse_reorg_duties", true, 0) })
	featureset.EnableForT(t, featureset.FetchAttOnBlock)
	r.Cases(nC, 0, func(c *kit.Case) {
		runCase(c, r.Rand(c.Idx, 16), "C1:sse_reorg_duties+fetch_att_on_block", true, 1)
	})
	featureset.EnableForT(t, featureset.FetchAttOnBlockWithDelay)
	r.Cases(nC, 0, func(c *kit.Case) {
		runCase(c, r.Rand(c.Idx, 17), "C2:sse_reorg_duties+fetch_att_on_block+fetch_att_on_block_with_delay", true, 2)
	})

	if p := os.Getenv("C15_GOROUTINE_DUMP"); p != "" { // diagnostic: goroutines still alive after all cases
		if f, err := os.Create(p); err == nil {
			_ = pprof.Lookup("goroutine").WriteTo(f, 1)
			_ = f.Close()
		}
	}
	sink.counts.Range(func(k, v any) bool {
		r.Count("log/"+k.(string), atomic.LoadInt64(v.(*int64)))
		return true
	})
}

// runCase runs one scenario. early: 0 = offset waits through the delay function (default features),
// 1 = early-fetch case with fetch_att_on_block, 2 = early-fetch case with fetch_att_on_block_with_delay too.
func runCase(c *kit.Case, rng *rand.Rand, phase string, reorgFeature bool, early int) {
	r := c.R
	sc := genScenario(rng)
	if early > 0 {
		sc.makeEarly(rng, early == 2)
	}
	base, err := getBase(sc.SPE, sc.SlotDur)
	if err != nil {
		r.Inconclusive("case %d: beaconmock setup failed: %v", c.Idx, err)
		return
	}
	ctx, cancel := context.WithCancel(context.Background())
	defer cancel()

	clock := clockwork.NewFakeClockAt(sc.slotStart(sc.S0).Add(sc.StartOff))
	h := newHarness(sc, clock)
	client := h.buildClient(base)
	sclock := &schedClock{FakeClock: clock}
	sched := scheduler.NewForT(r.T(), sclock, h.delay, nil, client, h.hook, false)
	sched.SubscribeDuties(h.subscriber(0, true))
	sched.SubscribeDuties(h.subscriber(1, false))
	root := eth2p0.Root{0x01}
	head := func(class string, slot uint64) { // one SSE head event, as the SSE listener would deliver it
		sched.HandleHeadEvent(ctx, eth2p0.Slot(slot), root, "http://bn")
		h.mu.Lock()
		h.headEvents[class]++
		h.mu.Unlock()
	}
	chance := func(p float64, parts ...any) bool { return hashFloat(append([]any{sc.Seed, "head"}, parts...)...) < p }
	if sc.Early {
		sched.RegisterFetcherFetchOnly(h.fetchOnlyFunc)
	}
	if sc.ValMode == "prod-async" {
		sched.SubscribeSlots(h.refresh.onSlot) // as app.go: runs in its own goroutine, racing scheduleSlot
	}

	runDone := make(chan error, 1)
	go func() { runDone <- sched.Run() }()

	var (
		probeWG      sync.WaitGroup
		inconclusive string
		step         int
		missedAdv    int
		missedSlots  int
		repeats      int
		lastSlot     uint64
		haveLast     bool
		heldReleased int
	)
	for {
		var ev gateEv
		select {
		case ev = <-h.gateCh:
		case err := <-runDone:
			inconclusive = fmt.Sprintf("scheduler.Run returned early: %v", err)
		case <-time.After(gateWatchdog):
			inconclusive = "no slot tick reached the scheduler within the watchdog"
		}
		if inconclusive != "" {
			break
		}
		slot := ev.slot.Slot
		h.mu.Lock()
		h.frame++
		gate := h.frame
		h.curSlot = slot
		h.nth = map[kind]int{}
		h.ticks = append(h.ticks, tickEv{Slot: slot, Now: clock.Now()})
		h.events++
		h.mu.Unlock()
		repeatedTick := haveLast && slot <= lastSlot
		if repeatedTick {
			repeats++
			r.Count("ticks_not_increasing", 1)
		}
		lastSlot, haveLast = slot, true

		// --- the scheduler goroutine is parked: scheduleSlot of the previous tick has returned ---
		heldReleased += h.releaseHeld(false)
		if rel, ok := sc.Reorgs[gate]; ok {
			e := sc.epochOf(slot)
			if rel > e {
				rel = e
			}
			arg := e - rel
			h.mu.Lock()
			h.reorgs = append(h.reorgs, reorgEv{Gate: gate, Epoch: arg})
			h.mu.Unlock()
			sched.HandleChainReorgEvent(ctx, eth2p0.Epoch(arg)) // subscription order of app.go: scheduler, then duties cache
			if h.dutiesCache != nil {
				h.dutiesCache.InvalidateCache(ctx, eth2p0.Epoch(arg))
			}
		}
		if sc.ValMode == "prod-sync" {
			_ = h.refresh.onSlot(ctx, ev.slot) // production only logs the error
		}

		if sc.Early {
			// Head events while the scheduler is parked before scheduleSlot(slot): the previous slot's
			// scheduleSlot has returned, so this slot's definitions are stored if its epoch was resolved,
			// and its attester goroutine has not been started yet.
			if chance(0.5, "gate", slot) {
				head("before-tick-of-slot-after-its-duties-were-stored", slot)
				if chance(0.3, "gate-repeat", slot) {
					head("repeated-for-same-slot", slot)
				}
			}
			if slot > 0 && chance(0.15, "old", slot) {
				back := 1 + hash64(sc.Seed, "old-back", slot)%(2*sc.SPE)
				if back > slot {
					back = slot
				}
				head("old-slot", slot-back)
			}
			if chance(0.1, "future", slot) {
				head("far-future-slot-without-definitions", slot+1000)
			}
		}

		if step >= len(sc.Steps) || repeats >= 2 || gate >= maxFrames {
			break // sentinel gate: the scheduler stays parked in the hook while the oracle waits
		}
		if sc.Probe {
			probeWG.Add(1)
			go func(slot uint64) {
				defer probeWG.Done()
				pctx, pcancel := context.WithTimeout(ctx, 2*time.Second)
				defer pcancel()
				for i, t := range []core.DutyType{core.DutyAttester, core.DutyProposer, core.DutySyncContribution} {
					_, _ = sched.GetDutyDefinition(pctx, core.Duty{Slot: slot + uint64(i), Type: t})
				}
				h.mu.Lock()
				h.probeCalls += 3
				h.mu.Unlock()
			}(slot)
		}

		if sc.Foreign && h.dutiesCache != nil && chance(0.5, "foreign", slot) {
			// A foreign user of the duties cache (validator client through validatorapi, tracker) asks for a
			// NARROWER index list, for this and the next epoch, before the scheduler resolves them.
			fctx := context.WithValue(ctx, foreignKey{}, true)
			for de := uint64(0); de < 2; de++ {
				e := sc.epochOf(slot) + de
				var subset []eth2p0.ValidatorIndex
				for _, v := range sc.Cluster {
					if chance(0.4, "foreign-v", slot, e, v.Idx) {
						subset = append(subset, v.Idx)
					}
				}
				if len(subset) == 0 || len(subset) == len(sc.Cluster) {
					continue
				}
				// Like the validator API, this user rewrites the public key of every duty it is handed
				// (group key -> its node's public share) and polls again a moment later (the second poll is
				// answered from the cache).
				var share eth2p0.BLSPubKey
				copy(share[:], "verif-c15-foreign-user-public-share-of-this-node")
				if chance(0.7, "foreign-att", slot, e) {
					for poll := 0; poll < 2; poll++ {
						ds, _ := h.dutiesCache.AttesterDutiesCache(fctx, eth2p0.Epoch(e), subset)
						for _, d := range ds.Duties {
							if d != nil {
								d.PubKey = share
							}
						}
						r.Count("foreign_cache_user_fetches", 1)
					}
				}
				if chance(0.5, "foreign-pro", slot, e) {
					for poll := 0; poll < 2; poll++ {
						ds, _ := h.dutiesCache.ProposerDutiesCache(fctx, eth2p0.Epoch(e), subset)
						for _, d := range ds.Duties {
							if d != nil {
								d.PubKey = share
							}
						}
						r.Count("foreign_cache_user_fetches", 1)
					}
				}
				if chance(0.5, "foreign-sync", slot, e) {
					for poll := 0; poll < 2; poll++ {
						ds, _ := h.dutiesCache.SyncCommDutiesCache(fctx, eth2p0.Epoch(e), subset)
						for _, d := range ds.Duties {
							if d != nil {
								d.PubKey = share
							}
						}
						r.Count("foreign_cache_user_fetches", 1)
					}
				}
			}
		}

		// The ticker arms one timer per emitted tick (schedClock counts them): once it has armed the timer that
		// follows this tick it either sleeps until the next slot or - duration <= 0 - has fired at once and
		// queued the next tick. No advance may fall between its clock.Now() and its clock.After().
		if !kit.WaitUntil(gateWatchdog, func() bool { return sclock.tickerArms.Load() >= int64(gate)+2 }) {
			inconclusive = "slot ticker did not arm its timer for the next slot within the watchdog"
			close(ev.release)
			break
		}
		if sclock.lastTickerD.Load() <= 0 { // a tick is already queued: no clock movement
			r.Count("ticks_delivered_from_backlog", 1)
			close(ev.release)
			continue
		}

		if sc.Early {
			close(ev.release)
			if chance(0.5, "racing", slot) { // concurrently with scheduleSlot(slot): resolution, duty goroutines starting
				for i := 0; i < 8; i++ {
					head("racing-scheduleSlot", slot+uint64(i%3))
				}
			}
			h.settle()
			if chance(0.3, "start", slot) {
				head("at-slot-start-after-tick", slot)
			}
			// walk through the slot in sub-slot steps; offsets are measured from the slot start
			third := sc.SlotDur / 3
			fallback := third
			if sc.WithDly {
				fallback += 300 * time.Millisecond
			}
			cands := []time.Duration{third / 2, third - time.Millisecond, third, third + 150*time.Millisecond, fallback + 50*time.Millisecond, 2 * sc.SlotDur / 3, 5 * sc.SlotDur / 6}
			pos := clock.Now().Sub(sc.slotStart(slot))
			for i, o := range cands {
				if o <= pos || !chance(0.5, "stop", slot, i) {
					continue
				}
				clock.Advance(o - pos)
				pos = o
				h.settle()
				class := "after-fallback-timeout"
				switch {
				case o < third:
					class = "before-one-third"
				case o < fallback:
					class = "after-one-third-before-fallback-timeout"
				}
				if chance(0.5, "stop-head", slot, i) {
					head(class, slot)
				}
				if chance(0.25, "stop-next", slot, i) {
					head("next-slot-before-its-tick", slot+1)
				}
				if chance(0.1, "stop-repeat", slot, i) {
					head("repeated-for-same-slot", slot)
				}
			}
			step++
			clock.Advance(sc.SlotDur + sc.StartOff - pos) // on to the same offset in the next slot
			continue
		}

		plan := sc.Steps[step]
		step++
		adv := time.Duration(plan.Slots * float64(sc.SlotDur))
		if plan.Slots > 1 {
			missedAdv++
			missedSlots += int(plan.Slots) - 1
			if plan.Slots != float64(int(plan.Slots)) {
				r.Count("missed_tick_jumps/fractional_slots", 1)
			}
			if sc.epochOf(slot) != sc.epochOf(uint64(float64(slot)+plan.Slots)) {
				r.Count("missed_tick_jumps/across_epoch_boundary", 1)
			}
		}
		if plan.Blocked {
			// scheduleSlot(slot) is still blocked (parked in its schedSlotFunc) while more than a slot passes
			r.Count("missed_tick_jumps/while_scheduleSlot_is_blocked", 1)
			clock.Advance(adv)
			close(ev.release)
		} else {
			close(ev.release)
			clock.Advance(adv)
		}
	}

	// --- end of run: release everything, wait (generously) for the demanded triggers ---
	heldReleased += h.releaseHeld(true)
	flush := func() {
		// move past every offset of the last slots; a duty goroutine that arms its timer late finds its
		// deadline already passed and is released at once
		h.settle()
		clock.Advance(2 * sc.SlotDur)
		h.settle()
	}
	flushes := 0
	if sc.Early && inconclusive == "" {
		flush()
		flushes++
		for i, t := range h.snap().ticks {
			if chance(0.3, "after", i) {
				head("after-duty-triggered", t.Slot)
			}
		}
		h.settle()
	}
	var an *analysis
	lossJudgeable := false
	if inconclusive == "" {
		lastEvents, idleSince, hardStop := h.eventCount(), time.Now(), time.Now().Add(2*time.Minute)
		for {
			heldReleased += h.releaseHeld(true) // a late trigger goroutine may register its delay only now
			an = analyze(sc, h.snap(), reorgFeature)
			if len(an.missing) == 0 {
				break
			}
			if ec := h.eventCount(); ec != lastEvents {
				lastEvents, idleSince = ec, time.Now()
			}
			if sc.Early && flushes < 4 && time.Since(idleSince) > 200*time.Millisecond {
				// a duty goroutine may have armed its timer only after the previous advance
				flush()
				flushes++
				lastEvents, idleSince = h.eventCount(), time.Now()

				continue
			}
			// A duty whose validators were only reported as pending to the scheduler's active-validator filter
			// cannot be pending inside it; the long silence is only required before blaming the trigger path.
			need := idleForLoss
			onlyStale := true
			for _, d := range an.missing {
				if plain, _ := an.classifyMissing(d); len(plain) > 0 {
					onlyStale = false
				}
			}
			if onlyStale {
				need = 300 * time.Millisecond
			}
			if time.Since(idleSince) > need {
				lossJudgeable = true
				break
			}
			if time.Now().After(hardStop) {
				break
			}
			time.Sleep(2 * time.Millisecond)
		}
		// let straggling deliveries (second subscriber, duplicates) land: pacing only
		stable, last := 0, h.eventCount()
		kit.WaitUntil(2*time.Second, func() bool {
			h.releaseHeld(true)
			if ec := h.eventCount(); ec != last {
				last, stable = ec, 0
			} else {
				stable++
			}

			return stable > 40
		})
	}
	h.mu.Lock()
	h.closed = true
	h.mu.Unlock()
	final := h.snap()
	an = analyze(sc, final, reorgFeature)

	// shut the scheduler down
	close(h.done)
	sched.Stop()
	cancel()
	select {
	case <-runDone:
	case <-time.After(gateWatchdog):
		r.Inconclusive("case %d: scheduler.Run did not return after Stop", c.Idx)
	}
	probeWG.Wait()

	// --- verdicts ---
	witness := func(extra map[string]any) map[string]any {
		w := map[string]any{"phase": phase, "scenario": sc.describe(), "trace": traceOf(sc, final, an)}
		for k, v := range extra {
			w[k] = v
		}

		return w
	}
	seenSig := map[string]bool{}
	for _, f := range an.findings {
		if seenSig[f.Sig] {
			continue // one witness per signature and case
		}
		seenSig[f.Sig] = true
		c.Violation(f.Sig, f.What, witness(f.Data))
	}
	if inconclusive != "" {
		r.Inconclusive("case %d (%s): %s", c.Idx, phase, inconclusive)
	} else if len(an.missing) > 0 {
		if !lossJudgeable {
			r.Inconclusive("case %d (%s): %d demanded duties missing but the harness never became idle", c.Idx, phase, len(an.missing))
		}
		for _, d := range an.missing {
			if !lossJudgeable {
				break
			}
			plain, pendingPast := an.classifyMissing(d)
			laterSame, delayed := false, false
			for _, tr := range final.trigs {
				if tr.Duty.Type == d.Duty.Type && tr.Duty.Slot > d.Duty.Slot {
					laterSame = true
				}
			}
			for _, dl := range final.delays {
				if dl.Duty == d.Duty {
					delayed = true
				}
			}
			ev := fmt.Sprintf("slot ticked in frame %d of %d (scheduleSlot returned: the next tick was observed), epoch resolved earlier, delay function called for it: %v, later %s duties delivered: %v, all held delays released, scheduler parked and harness silent for %v",
				d.Frame, len(final.ticks), delayed, d.Duty.Type, laterSame, idleForLoss)
			data := map[string]any{"duty": d.Duty.String(), "frame": d.Frame, "evidence": ev}
			if len(plain) > 0 {
				sig := "scheduler/loss/resolved-duty-never-triggered/" + d.Duty.Type.String()
				if !seenSig[sig] {
					seenSig[sig] = true
					c.Violation(sig, fmt.Sprintf("duty %v (validators %v active, assigned, offered to the scheduler) was never delivered to both subscribers: %s", d.Duty, plain, ev), witness(data))
				}
			} else if !seenSig[pendingPastSig] {
				seenSig[pendingPastSig] = true
				c.Violation(pendingPastSig, fmt.Sprintf("duty %v never delivered: validators %v are active and assigned; the validators answers the scheduler used listed them as pending with an activation epoch before the epoch being resolved (not exited), yet the scheduler left them out: %s", d.Duty, pendingPast, ev), witness(data))
			}
		}
	}

	// --- evidence ---
	good, failed, recovered := 0, 0, 0
	failedEpoch := map[uint64]bool{}
	for _, a := range an.attempts {
		if a.AllGood {
			good++
			if failedEpoch[a.Epoch] {
				recovered++
				failedEpoch[a.Epoch] = false
			}
		} else {
			failed++
			if a.HasEp {
				failedEpoch[a.Epoch] = true
			}
			switch {
			case !a.ValsOK:
				r.Count("resolution_attempts_failed/validators", 1)
			case !a.HasEp:
				r.Count("resolution_attempts_without_active_validators", 1)
				failed--
			default:
				r.Count("resolution_attempts_failed/partial:"+joinKinds(a.K), 1)
			}
		}
	}
	r.Count("scenarios/"+phase, 1)
	if sc.Early {
		r.Count("early_fetch_cases", 1)
		for _, tr := range final.trigs {
			if tr.Sub == 1 && tr.Duty.Type == core.DutyAttester {
				r.Count("early_fetch_attester_triggers", 1)
				if into := tr.Now.Sub(sc.slotStart(tr.Duty.Slot)); into < sc.SlotDur {
					r.Count("early_fetch_attester_triggers_inside_their_slot", 1)
				}
			}
		}
	}
	r.Count("ticks", int64(len(final.ticks)))
	r.Count("triggers", int64(len(final.trigs)/2))
	r.Count("no_loss_demands_checked", int64(an.demands))
	r.Count("resolution_attempts_ok", int64(good))
	r.Count("resolution_attempts_failed", int64(failed))
	r.Count("epochs_resolved_after_failed_attempt", int64(recovered))
	r.Count("advances_with_missed_ticks", int64(missedAdv))
	r.Count("missed_slots", int64(missedSlots))
	r.Count("reorg_events", int64(len(final.reorgs)))
	r.Count("held_delays_released_later", int64(heldReleased))
	for k, v := range an.info {
		r.Count(k, int64(v))
	}
	h.mu.Lock()
	for k, v := range h.bnCalls {
		r.Count("bn_calls/"+k, int64(v))
	}
	for k, v := range h.headEvents {
		r.Count("head_events/"+k, int64(v))
		r.Count("head_events_injected", int64(v))
	}
	r.Count("early_fetch_only_calls", int64(h.fetchOnly))
	r.Count("early_fetch_fallback_timers_armed", sclock.fallbackArms.Load())
	for k, v := range h.served {
		r.Count("bn_served/"+k, int64(v))
	}
	r.Count("concurrent_get_duty_definition_calls", int64(h.probeCalls))
	h.mu.Unlock()
	if h.refresh != nil { // never while holding h.mu: a refresher goroutine takes refresh.mu, then h.mu (beacon stub)
		h.refresh.mu.RLock()
		r.Count("validator_cache_refreshes", int64(h.refresh.refreshes))
		h.refresh.mu.RUnlock()
	}
	r.Seen("validator_cache_modes", sc.ValMode)
	r.Seen("duties_cache_modes", sc.DutyMode)
	r.Seen("classes", sc.Class)
	for _, m := range sc.Fail {
		r.Seen("bn_failure_modes", m.Name)
	}
	if an.demands > 0 && (recovered > 0 || missedAdv > 0 || an.info["reorg_unresolved_epoch"] > 0) {
		c.NonTrivial(kit.JSONHash(sc.describe()))
	}
	if (c.Idx < 2 || r.Replaying()) && !reorgFeature {
		r.Sample(witness(nil))
	}
}

// traceOf renders the observed run compactly for witnesses and samples.
func traceOf(sc *scenario, sn snapshot, an *analysis) map[string]any {
	var frames []string
	for f, t := range sn.ticks {
		var parts []string
		for _, r := range sn.reorgs {
			if r.Gate == f {
				parts = append(parts, fmt.Sprintf("reorg(epoch=%d)", r.Epoch))
			}
		}
		for _, a := range an.attempts {
			if a.Frame != f {
				continue
			}
			switch {
			case !a.ValsOK:
				parts = append(parts, "resolve[validators:error]")
			case !a.HasEp:
				parts = append(parts, "resolve[validators:ok no-duty-calls]")
			default:
				var act []string
				for _, v := range sc.Cluster {
					switch {
					case a.codeRule(v):
						act = append(act, fmt.Sprint(v.Idx))
					case a.implied(v):
						act = append(act, fmt.Sprintf("(%d:pending,activation<epoch)", v.Idx))
					}
				}
				parts = append(parts, fmt.Sprintf("resolve[epoch=%d active=%v %s]", a.Epoch, act, joinKinds(a.K)))
			}
		}
		frames = append(frames, fmt.Sprintf("#%d slot=%d epoch=%d clock=+%v %s", f, t.Slot, sc.epochOf(t.Slot), t.Now.Sub(sc.slotStart(t.Slot)), strings.Join(parts, " ")))
	}
	var trigs []string
	for _, tr := range sn.trigs {
		if tr.Sub != 1 {
			continue
		}
		var vs []string
		for pk := range tr.Set {
			if v := sc.byCore[pk]; v != nil {
				vs = append(vs, fmt.Sprint(v.Idx))
			} else {
				vs = append(vs, short(pk))
			}
		}
		trigs = append(trigs, fmt.Sprintf("%v validators=%v", tr.Duty, vs))
	}
	if len(trigs) > 150 {
		trigs = append(trigs[:150], fmt.Sprintf("… %d more", len(trigs)-150))
	}

	return map[string]any{"frames": frames, "triggers_sub1": trigs}
}
