package c15

import (
	"crypto/sha256"
	"encoding/binary"
	"fmt"
	"math"
	"math/rand"
	"sort"
	"time"

	eth2v1 "github.com/attestantio/go-eth2-client/api/v1"
	eth2p0 "github.com/attestantio/go-eth2-client/spec/phase0"

	"github.com/obolnetwork/charon/core"
)

// ---------------------------------------------------------------------------------------------
// Reference model ("world"): the beacon chain the scripted beacon node serves. It is generated
// from the case PRNG and is immutable afterwards; the oracle reads it as ground truth.
// ---------------------------------------------------------------------------------------------

const farEpoch = uint64(math.MaxUint64) // FAR_FUTURE_EPOCH

// activationLookahead is how many epochs ahead the beacon node already reports a pending
// validator's activation epoch (MAX_SEED_LOOKAHEAD-like); before that it reports FAR_FUTURE.
const activationLookahead = 4

var genesis = time.Date(2030, 1, 1, 0, 0, 0, 0, time.UTC)

type kind string

const (
	kVals kind = "validators"
	kAtt  kind = "attester"
	kPro  kind = "proposer"
	kSync kind = "sync"
)

var dutyKinds = []kind{kAtt, kPro, kSync}

// mval is one validator of the model.
type mval struct {
	Idx     eth2p0.ValidatorIndex
	Pub     eth2p0.BLSPubKey
	Core    core.PubKey
	Cluster bool
	Act     uint64 // activation epoch (farEpoch: never)
	Exit    uint64 // exit epoch (farEpoch: never)
	Slashed bool
}

func (v *mval) activeAt(e uint64) bool { return v.Act <= e && e < v.Exit }

// statusAt is the validator status the beacon node reports for state epoch q.
func (v *mval) statusAt(q uint64) eth2v1.ValidatorState {
	switch {
	case q < v.Act:
		if v.Act == farEpoch || q+activationLookahead < v.Act {
			return eth2v1.ValidatorStatePendingInitialized
		}

		return eth2v1.ValidatorStatePendingQueued
	case q < v.Exit:
		if v.Slashed {
			return eth2v1.ValidatorStateActiveSlashed
		}
		if v.Exit != farEpoch {
			return eth2v1.ValidatorStateActiveExiting
		}

		return eth2v1.ValidatorStateActiveOngoing
	default:
		if v.Slashed {
			return eth2v1.ValidatorStateExitedSlashed
		}
		if q >= v.Exit+2 {
			return eth2v1.ValidatorStateWithdrawalPossible
		}

		return eth2v1.ValidatorStateExitedUnslashed
	}
}

// reportedActivation is the activation epoch the beacon node reports at state epoch q.
func (v *mval) reportedActivation(q uint64) uint64 {
	if v.Act == farEpoch || (q < v.Act && q+activationLookahead < v.Act) {
		return farEpoch
	}

	return v.Act
}

type attEntry struct {
	D     eth2v1.AttesterDuty
	V     *mval
	Extra bool // hostile: the validator is not active in that epoch (a correct BN would not list it)
}

type proEntry struct {
	D     eth2v1.ProposerDuty
	V     *mval
	Extra bool
}

type syncEntry struct {
	D     eth2v1.SyncCommitteeDuty
	V     *mval
	Extra bool
}

type epochTable struct {
	Att  []attEntry
	Pro  []proEntry
	Sync []syncEntry
}

// failMode says how the beacon node misbehaves while the scheduler processes one slot.
type failMode struct {
	Name      string
	All       bool
	Kinds     map[kind]bool
	FirstOnly bool    // only the first call of each (failing) kind in this slot fails, retries succeed
	P         float64 // independent failure probability per call
	Corrupt   kind    // answers of this kind carry a wrong pubkey for one cluster validator
}

// stepPlan is one clock advance: Slots slot durations (1.5, 2.5, ... leave the clock mid-slot). Blocked
// means the clock moves while the scheduler is still inside scheduleSlot (parked in its schedSlotFunc), i.e.
// scheduleSlot blocks Run for more than a slot.
type stepPlan struct {
	Slots   float64
	Blocked bool
}

func (p stepPlan) String() string {
	if p.Blocked {
		return fmt.Sprintf("%v(while scheduleSlot is blocked)", p.Slots)
	}

	return fmt.Sprint(p.Slots)
}

type scenario struct {
	Seed     int64
	SPE      uint64
	SlotDur  time.Duration
	Vals     []*mval
	Cluster  []*mval
	byIdx    map[eth2p0.ValidatorIndex]*mval
	byCore   map[core.PubKey]*mval
	E0       uint64
	S0       uint64 // first slot
	EndSlot  uint64 // last slot that is part of the judged run
	MaxEpoch uint64 // tables exist for epochs 0..MaxEpoch
	Tables   map[uint64]*epochTable
	Fail     map[uint64]failMode // by slot
	Steps    []stepPlan          // clock advances (1 slot = next tick; more = missed ticks)
	Foreign  bool                // a foreign user of the duties cache pre-fetches epochs with narrower index lists
	StartOff time.Duration       // offset of the start instant inside slot S0
	Reorgs   map[int]uint64      // gate index -> epoch argument of a chain reorg event delivered at that gate
	Loose    map[kind]bool       // BN ignores the index filter for this duty kind (returns all validators' duties)
	ValMode  string              // prod-async | prod-sync | direct
	DutyMode string              // cache | direct
	HoldP    float64             // probability that a delay is held until a later gate
	Probe    bool                // concurrent GetDutyDefinition prober
	Early    bool                // early-fetch case: head events injected, clock advanced in sub-slot steps
	WithDly  bool                // early-fetch case run with fetch_att_on_block_with_delay (fallback at 1/3 + 300ms)
	Class    string
}

func (s *scenario) epochOf(slot uint64) uint64 { return slot / s.SPE }
func (s *scenario) slotStart(slot uint64) time.Time {
	return genesis.Add(time.Duration(slot) * s.SlotDur)
}

// offsetOf is the documented trigger offset of a duty type into its slot (core/scheduler/offset.go).
func (s *scenario) offsetOf(t core.DutyType) time.Duration {
	switch t {
	case core.DutyAttester:
		return s.SlotDur / 3
	case core.DutyAggregator, core.DutySyncContribution:
		return s.SlotDur * 2 / 3
	default:
		return 0
	}
}

func hash64(parts ...any) uint64 {
	h := sha256.New()
	for _, p := range parts {
		fmt.Fprintf(h, "%v|", p)
	}
	sum := h.Sum(nil)

	return binary.BigEndian.Uint64(sum[:8])
}

func hashFloat(parts ...any) float64 { return float64(hash64(parts...)>>11) / float64(1<<53) }

var slotSecsChoices = []int{2, 3, 4, 12}

// pubPool is the fixed pool validator pubkeys are drawn from. charon's scheduler metrics keep one
// label set per pubkey in process-global gauges (and statusGauge.Reset walks all of them under a
// global mutex), so fresh random pubkeys in every case would make a long run quadratic and serial.
var pubPool = func() [64]eth2p0.BLSPubKey {
	var pool [64]eth2p0.BLSPubKey
	for i := range pool {
		a := sha256.Sum256([]byte(fmt.Sprintf("c15-pubkey-%d-a", i)))
		b := sha256.Sum256([]byte(fmt.Sprintf("c15-pubkey-%d-b", i)))
		copy(pool[i][:32], a[:])
		copy(pool[i][32:], b[:16])
	}

	return pool
}()

func genScenario(rng *rand.Rand) *scenario {
	s := &scenario{
		Seed:    rng.Int63(),
		SPE:     uint64(4 + rng.Intn(5)),
		SlotDur: time.Duration(slotSecsChoices[rng.Intn(len(slotSecsChoices))]) * time.Second,
		byIdx:   map[eth2p0.ValidatorIndex]*mval{},
		byCore:  map[core.PubKey]*mval{},
		Tables:  map[uint64]*epochTable{},
		Fail:    map[uint64]failMode{},
		Reorgs:  map[int]uint64{},
		Loose:   map[kind]bool{},
	}
	nEpochs := uint64(3 + rng.Intn(4))
	s.E0 = uint64(rng.Intn(5))
	s.S0 = s.E0*s.SPE + uint64(rng.Intn(int(s.SPE)))
	lastEpoch := s.E0 + nEpochs - 1
	s.EndSlot = (lastEpoch+1)*s.SPE - 1
	s.MaxEpoch = lastEpoch + 4

	// validators
	nCluster := 2 + rng.Intn(5)
	nForeign := 1 + rng.Intn(4)
	s.Class = "mixed-lifecycles"
	allPending := rng.Intn(10) == 0
	if allPending {
		s.Class = "all-pending-at-start"
	}
	used := map[eth2p0.ValidatorIndex]bool{}
	usedPub := map[int]bool{}
	for i := 0; i < nCluster+nForeign; i++ {
		v := &mval{Cluster: i < nCluster, Act: 0, Exit: farEpoch}
		for {
			v.Idx = eth2p0.ValidatorIndex(1 + rng.Intn(300))
			if !used[v.Idx] {
				used[v.Idx] = true
				break
			}
		}
		for {
			k := rng.Intn(len(pubPool))
			if !usedPub[k] {
				usedPub[k] = true
				v.Pub = pubPool[k]
				break
			}
		}
		v.Core = core.PubKeyFrom48Bytes(v.Pub)
		inRange := func() uint64 { return s.E0 + uint64(rng.Intn(int(nEpochs)+1)) }
		switch k := rng.Intn(20); {
		case allPending && v.Cluster:
			v.Act = s.E0 + 1 + uint64(rng.Intn(2))
		case k < 9: // always active
		case k < 13: // activates during the run
			v.Act = inRange()
		case k < 16: // exits during the run
			v.Exit = inRange()
			v.Slashed = rng.Intn(4) == 0
		case k < 18: // activates, then exits
			v.Act = inRange()
			v.Exit = v.Act + 1 + uint64(rng.Intn(3))
		case k < 19: // never activated
			v.Act = farEpoch
		default: // exited long ago
			v.Exit = 0
		}
		s.Vals = append(s.Vals, v)
		if v.Cluster {
			s.Cluster = append(s.Cluster, v)
		}
		s.byIdx[v.Idx] = v
		s.byCore[v.Core] = v
	}

	// duty tables
	var syncMembers map[*mval]bool
	for e := uint64(0); e <= s.MaxEpoch; e++ {
		t := &epochTable{}
		first := e * s.SPE
		if e%2 == 0 || syncMembers == nil { // sync committee period = 2 epochs
			syncMembers = map[*mval]bool{}
			for _, v := range s.Vals {
				if rng.Intn(100) < 35 {
					syncMembers[v] = true
				}
			}
		}
		proposerAt := map[uint64]bool{}
		var active []*mval
		for _, v := range s.Vals {
			if v.activeAt(e) {
				active = append(active, v)
			}
		}
		// attester: one duty per active validator per epoch (rarely none)
		for _, v := range active {
			if rng.Intn(25) == 0 {
				continue
			}
			t.Att = append(t.Att, attEntry{D: s.mkAtt(rng, v, first+uint64(rng.Intn(int(s.SPE)))), V: v})
		}
		// proposer: at most one per slot; cluster validators are favoured so that one validator gets several
		if len(active) > 0 {
			for sl := first; sl < first+s.SPE; sl++ {
				if rng.Intn(10) >= 6 {
					continue
				}
				v := active[rng.Intn(len(active))]
				if !v.Cluster && rng.Intn(2) == 0 {
					v = active[rng.Intn(len(active))]
				}
				proposerAt[sl] = true
				t.Pro = append(t.Pro, proEntry{D: eth2v1.ProposerDuty{PubKey: v.Pub, Slot: eth2p0.Slot(sl), ValidatorIndex: v.Idx}, V: v})
			}
		}
		// sync committee
		for _, v := range active {
			if syncMembers[v] {
				t.Sync = append(t.Sync, syncEntry{D: s.mkSync(rng, v), V: v})
			}
		}
		// hostile extras: duties listed for cluster validators that are NOT active in this epoch
		for _, v := range s.Cluster {
			if v.activeAt(e) {
				continue
			}
			if rng.Intn(2) == 0 {
				t.Att = append(t.Att, attEntry{D: s.mkAtt(rng, v, first+uint64(rng.Intn(int(s.SPE)))), V: v, Extra: true})
			}
			if rng.Intn(3) == 0 {
				sl := first + uint64(rng.Intn(int(s.SPE)))
				if !proposerAt[sl] {
					proposerAt[sl] = true
					t.Pro = append(t.Pro, proEntry{D: eth2v1.ProposerDuty{PubKey: v.Pub, Slot: eth2p0.Slot(sl), ValidatorIndex: v.Idx}, V: v, Extra: true})
				}
			}
			if rng.Intn(3) == 0 {
				t.Sync = append(t.Sync, syncEntry{D: s.mkSync(rng, v), V: v, Extra: true})
			}
		}
		s.Tables[e] = t
	}

	// failure pattern per slot; epoch boundaries (where resolution happens) fail more often
	pBoundary, pOther := []float64{0.2, 0.45, 0.7}[rng.Intn(3)], []float64{0.0, 0.15, 0.3}[rng.Intn(3)]
	if rng.Intn(12) == 0 {
		pBoundary, pOther = 0, 0 // healthy beacon node
	}
	allowCorrupt := rng.Intn(3) == 0
	for sl := s.S0; sl <= s.EndSlot+2*s.SPE+2; sl++ {
		pos := sl % s.SPE
		p := pOther
		if pos == 0 || pos == 1 || pos == s.SPE-1 || sl == s.S0 {
			p = pBoundary
		}
		if rng.Float64() >= p {
			continue
		}
		var m failMode
		switch k := rng.Intn(20); {
		case k < 4:
			m = failMode{Name: "all-calls-fail", All: true}
		case k < 10:
			kd := []kind{kVals, kAtt, kPro, kSync}[rng.Intn(4)]
			m = failMode{Name: "only-" + string(kd) + "-fails", Kinds: map[kind]bool{kd: true}}
		case k < 13:
			m = failMode{Name: "first-call-of-each-kind-fails", All: true, FirstOnly: true}
		case k < 15:
			kd := []kind{kVals, kAtt, kPro, kSync}[rng.Intn(4)]
			m = failMode{Name: "first-" + string(kd) + "-call-fails", Kinds: map[kind]bool{kd: true}, FirstOnly: true}
		case k < 17 || !allowCorrupt:
			m = failMode{Name: "each-call-fails-with-p", P: 0.25 + rng.Float64()/2}
		default:
			m = failMode{Name: "corrupt-pubkey", Corrupt: dutyKinds[rng.Intn(3)]}
		}
		s.Fail[sl] = m
	}

	// tick plan
	skipP := []int{0, 6, 15, 30}[rng.Intn(4)]
	for pos := float64(s.S0); pos <= float64(s.EndSlot+1); {
		p := stepPlan{Slots: 1}
		if rng.Intn(100) < skipP {
			switch rng.Intn(8) {
			case 0:
				p.Slots = 1.5
			case 1:
				p.Slots = 2
			case 2:
				p.Slots = 2.5
			case 3:
				p.Slots = 3.5
			case 4: // past the next epoch boundary
				p.Slots = float64(s.SPE) + 0.5
			default:
				p.Slots = float64(2 + rng.Intn(int(s.SPE)+2))
			}
			p.Blocked = rng.Intn(3) == 0
		}
		s.Steps = append(s.Steps, p)
		pos += p.Slots
	}
	s.Steps = append(s.Steps, stepPlan{Slots: 1}, stepPlan{Slots: 1}, stepPlan{Slots: 1})
	switch rng.Intn(3) {
	case 0:
		s.StartOff = 0 // every advance lands exactly on a slot boundary
	case 1:
		s.StartOff = s.SlotDur / 4
	default:
		s.StartOff = time.Duration(1 + rng.Int63n(int64(s.SlotDur)-1))
	}

	// reorg events (delivered at gates, i.e. between two slots)
	if rng.Intn(5) < 2 {
		for g := 1; g < len(s.Steps); g++ {
			if rng.Intn(100) < 8 {
				s.Reorgs[g] = uint64(rng.Intn(3)) // relative: current epoch - value (resolved at the gate)
			}
		}
	}

	for _, k := range dutyKinds {
		s.Loose[k] = rng.Intn(2) == 0
	}
	s.ValMode = []string{"prod-async", "prod-async", "prod-sync", "prod-sync", "direct"}[rng.Intn(5)]
	s.DutyMode = []string{"cache", "cache", "cache", "cache", "direct"}[rng.Intn(5)]
	s.HoldP = []float64{0, 0.25, 0.6}[rng.Intn(3)]
	s.Probe = rng.Intn(3) == 0
	s.Foreign = s.DutyMode == "cache" && rng.Intn(2) == 0

	return s
}

// makeEarly turns the scenario into an early-fetch case: every slot is ticked (the clock moves in
// sub-slot steps), the start instant is at or shortly after a slot start, offset waits use timers of
// the fake clock instead of the harness channel.
func (s *scenario) makeEarly(rng *rand.Rand, withDelay bool) {
	s.Early, s.WithDly = true, withDelay
	s.Steps = nil
	for sl := s.S0; sl <= s.EndSlot+1; sl++ {
		s.Steps = append(s.Steps, stepPlan{Slots: 1})
	}
	s.Steps = append(s.Steps, stepPlan{Slots: 1}, stepPlan{Slots: 1})
	s.StartOff = 0
	if rng.Intn(2) == 0 {
		s.StartOff = s.SlotDur / 10
	}
	s.HoldP = 0
	for g := range s.Reorgs {
		if g >= len(s.Steps) {
			delete(s.Reorgs, g)
		}
	}
}

func (s *scenario) mkAtt(rng *rand.Rand, v *mval, slot uint64) eth2v1.AttesterDuty {
	commLen := uint64(1 + rng.Intn(64))

	return eth2v1.AttesterDuty{
		PubKey: v.Pub, Slot: eth2p0.Slot(slot), ValidatorIndex: v.Idx,
		CommitteeIndex: eth2p0.CommitteeIndex(rng.Intn(8)), CommitteeLength: commLen,
		CommitteesAtSlot: uint64(1 + rng.Intn(8)), ValidatorCommitteeIndex: uint64(rng.Intn(int(commLen))),
	}
}

func (s *scenario) mkSync(rng *rand.Rand, v *mval) eth2v1.SyncCommitteeDuty {
	n := 1 + rng.Intn(3)
	idxs := make([]eth2p0.CommitteeIndex, 0, n)
	for i := 0; i < n; i++ {
		idxs = append(idxs, eth2p0.CommitteeIndex(rng.Intn(512)))
	}

	return eth2v1.SyncCommitteeDuty{PubKey: v.Pub, ValidatorIndex: v.Idx, ValidatorSyncCommitteeIndices: idxs}
}

// describe is the JSON-able summary that goes into witnesses, samples and the distinctness hash.
func (s *scenario) describe() map[string]any {
	var vals []string
	for _, v := range s.Vals {
		role := "foreign"
		if v.Cluster {
			role = "cluster"
		}
		vals = append(vals, fmt.Sprintf("%s idx=%d act=%s exit=%s", role, v.Idx, epochStr(v.Act), epochStr(v.Exit)))
	}
	fails := map[string]string{}
	for sl, m := range s.Fail {
		if sl <= s.EndSlot+1 {
			fails[fmt.Sprint(sl)] = m.Name + map[bool]string{true: "(" + string(m.Corrupt) + ")", false: ""}[m.Corrupt != ""]
		}
	}
	var loose []string
	for _, k := range dutyKinds {
		if s.Loose[k] {
			loose = append(loose, string(k))
		}
	}
	sort.Strings(loose)

	return map[string]any{
		"slots_per_epoch": s.SPE, "slot_duration": s.SlotDur.String(), "start_slot": s.S0, "end_slot": s.EndSlot,
		"start_offset_in_slot": s.StartOff.String(), "validators": vals, "bn_failures_by_slot": fails,
		"advance_steps": fmt.Sprint(s.Steps), "foreign_duties_cache_user": s.Foreign, "reorg_gates": s.Reorgs, "bn_ignores_index_filter": loose,
		"validator_cache": s.ValMode, "duties_cache": s.DutyMode, "hold_probability": s.HoldP, "class": s.Class,
		"early_fetch_case": s.Early, "fetch_att_on_block_with_delay": s.WithDly,
	}
}

func epochStr(e uint64) string {
	if e == farEpoch {
		return "never"
	}

	return fmt.Sprint(e)
}
