// Package c16 monitors core.Deadliner (property C16) against a pending-set reference model on a
// fake clock that only the harness advances.
package c16

import (
	"context"
	"fmt"
	"sort"
	"sync"
	"sync/atomic"
	"testing"
	"time"

	"github.com/jonboulle/clockwork"

	"github.com/obolnetwork/charon/core"

	"verifharness/kit"
)

var t0 = time.Date(2030, 1, 1, 0, 0, 0, 0, time.UTC)

// lossesSeen counts lost-report violations of this run (only shortens later watchdog waits).
var lossesSeen atomic.Int32

type report struct {
	Duty  core.Duty
	Clock time.Time // fake-clock time read by the consumer on receipt
}

type opRec struct {
	Op     string `json:"op"`
	Duty   string `json:"duty,omitempty"`
	DL     int    `json:"deadline_step,omitempty"`
	Status string `json:"status,omitempty"`
	Adv    string `json:"advance,omitempty"`
	Now    string `json:"now"`
}

var expiringTypes = []core.DutyType{
	core.DutyAttester, core.DutyProposer, core.DutyAggregator, core.DutyRandao, core.DutySyncMessage,
	core.DutySyncContribution, core.DutyPrepareAggregator, core.DutyPrepareSyncContribution,
}

var exemptTypes = []core.DutyType{core.DutyExit, core.DutyBuilderRegistration}

func statusName(s core.DeadlineStatus) string {
	switch s {
	case core.DeadlineExpired:
		return "expired"
	case core.DeadlineScheduled:
		return "scheduled"
	case core.DeadlineExempt:
		return "exempt"
	default:
		return fmt.Sprintf("status(%d)", int(s))
	}
}

// timerlessSettles counts quiescence probes of this run that found the deadliner without any timer.
var timerlessSettles atomic.Int64

func TestCheck(t *testing.T) {
	r := kit.Start(t, "C16")
	defer r.Finish()
	r.Rule("case = PRNG sequence of Add (incl. repeats, exempt types, deadlines equal/earlier/already passed, concurrent adders) " +
		"and clock advances on a coarse grid against the real core.Deadliner on a fake clock with a reading consumer that in burst mode is paused across half of the advances (receiver behind: output buffer full, backlog behind it) and then resumed; modes sustained (<=10 due per advance) and burst (>10 due at once); " +
		"non-trivial = at least one duty reported and (two duties shared a deadline or a pending duty was re-added or an add arrived exactly at / after its deadline); distinct = hash of the op sequence")
	r.Assume("clockwork.FakeClock semantics (timers with non-positive duration fire immediately)")
	r.Assume("re-registering an already reported duty at exactly its deadline instant is not generated (fake-clock-only coincidence, unspecified by the statement)")
	r.RacePkgs(false, "core")
	r.Require("reports", 100)
	r.Require("adds_scheduled", 100)
	r.Require("adds_expired", 20)
	r.Require("output_buffer_full_while_consumer_paused", 20)
	r.Require("late_readds_of_pending_duties_racing_their_report", 50)

	n := r.N(3000, 200000)
	r.Cases(n, 0, func(c *kit.Case) { runCase(c) })
}

type model struct {
	deadline map[core.Duty]time.Time // all duties of the pool that can expire
	pending  map[core.Duty]bool
	everSch  map[core.Duty]bool
	reported map[core.Duty]int
}

func runCase(c *kit.Case) {
	rng := c.Rng
	r := c.R
	ctx, cancel := context.WithCancel(context.Background())
	defer cancel()

	clock := clockwork.NewFakeClockAt(t0)
	mode := []string{"sustained", "sustained", "burst", "concurrent"}[rng.Intn(4)]
	// time scale of the case: deadlines seconds apart (production-like), minutes apart, or hours apart
	// (far deadlines with long quiet stretches in between)
	grid := []time.Duration{time.Second, time.Second, 90 * time.Second, 50 * time.Minute, 7 * time.Hour}[rng.Intn(5)]
	r.Count("cases_time_scale/"+grid.String(), 1)

	// Pool of duties and their deadlines (steps on the grid; half steps allowed so that "now" can
	// fall between deadlines and exactly on them).
	m := &model{deadline: map[core.Duty]time.Time{}, pending: map[core.Duty]bool{}, everSch: map[core.Duty]bool{}, reported: map[core.Duty]int{}}
	steps := map[core.Duty]int{}
	var pool []core.Duty
	poolSize := 6 + rng.Intn(14)
	maxStep := 4 + rng.Intn(12)
	if mode == "burst" {
		poolSize = 24 + rng.Intn(40)
		maxStep = 2 + rng.Intn(3)
	}
	perStep := map[int]int{}
	for len(pool) < poolSize {
		d := core.Duty{Slot: uint64(rng.Intn(64)), Type: kit.Pick(rng, expiringTypes)}
		if _, ok := m.deadline[d]; ok {
			continue
		}
		st := rng.Intn(maxStep*2 + 1) // half-grid units
		if mode != "burst" && perStep[st] >= 3 {
			continue
		}
		perStep[st]++
		steps[d] = st
		m.deadline[d] = t0.Add(time.Duration(st) * grid / 2)
		pool = append(pool, d)
	}
	var exempt []core.Duty
	for i := 0; i < 3; i++ {
		exempt = append(exempt, core.Duty{Slot: uint64(rng.Intn(64)), Type: kit.Pick(rng, exemptTypes)})
	}
	probe := core.Duty{Slot: 1 << 40, Type: core.DutyExit}

	var dfMu sync.Mutex
	dfCalls := 0
	deadlineFunc := func(d core.Duty) (time.Time, bool) {
		dfMu.Lock()
		dfCalls++
		dfMu.Unlock()
		if d.Type == core.DutyExit || d.Type == core.DutyBuilderRegistration {
			return time.Time{}, false
		}
		dl, ok := m.deadline[d]
		if !ok {
			return time.Time{}, false
		}

		return dl, true
	}

	dl := core.NewDeadlinerForT(ctx, r.T(), deadlineFunc, clock)

	// Consumer that keeps reading.
	var (
		mu      sync.Mutex
		reports []report
	)
	// The consumer can be paused (a receiver that falls behind): while paused it does not read, so
	// deadlined duties pile up in the output buffer and behind it; after resume everything pending
	// must still arrive exactly once and in order.
	var (
		pmu    sync.Mutex
		resume chan struct{} // non-nil while paused
	)
	pause := func() {
		pmu.Lock()
		if resume == nil {
			resume = make(chan struct{})
		}
		pmu.Unlock()
	}
	unpause := func() {
		pmu.Lock()
		if resume != nil {
			close(resume)
			resume = nil
		}
		pmu.Unlock()
	}
	consumerDone := make(chan struct{})
	go func() {
		defer close(consumerDone)
		for {
			pmu.Lock()
			rc := resume
			pmu.Unlock()
			if rc != nil {
				select {
				case <-rc:
				case <-ctx.Done():
					return
				}

				continue
			}
			select {
			case <-ctx.Done():
				return
			case d := <-dl.C():
				now := clock.Now()
				mu.Lock()
				reports = append(reports, report{Duty: d, Clock: now})
				mu.Unlock()
			}
		}
	}()
	received := func() int { mu.Lock(); defer mu.Unlock(); return len(reports) }

	var trace []opRec
	fail := func(sig, what string) {
		mu.Lock()
		reps := make([]string, 0, len(reports))
		for _, rp := range reports {
			reps = append(reps, fmt.Sprintf("%v@+%v", rp.Duty, rp.Clock.Sub(t0)))
		}
		tr := append([]opRec(nil), trace...) // trace is shared by concurrent adders
		mu.Unlock()
		c.Violation(sig, what, map[string]any{"mode": mode, "trace": tr, "reports": reps})
	}

	inconclusive := false
	lost := false // a loss was reported: the case ends there (the model no longer matches)
	settle := func() bool {
		for i := 0; i < 2; i++ {
			if st := dl.Add(probe); st != core.DeadlineExempt {
				fail("deadliner/exempt-status", fmt.Sprintf("Add of never-expiring duty returned %s", statusName(st)))
			}
			// (waits shrink once the run has met a deadliner that idles without a timer several times)
			w1, w2 := 250*time.Millisecond, 2*time.Second
			if timerlessSettles.Load() > 8 {
				w1, w2 = 20*time.Millisecond, 60*time.Millisecond
			}
			bctx, bcancel := context.WithTimeout(ctx, w1)
			err := clock.BlockUntilContext(bctx, 1)
			bcancel()
			if err != nil {
				// No timer armed. Every registration the deadliner takes is one turn of its loop, and a
				// turn that finds both a fired timer and a registration picks one at random: after 24
				// more registrations a fired timer has been handled (and its successor armed) with
				// probability 1 - 2^-24. If there still is no timer then, the deadliner simply holds
				// none at the moment (nothing the statement forbids); the case goes on and is judged
				// by what is reported.
				for j := 0; j < 24; j++ {
					dl.Add(probe)
				}
				bctx, bcancel = context.WithTimeout(ctx, w2)
				err = clock.BlockUntilContext(bctx, 1)
				bcancel()
				if err != nil {
					r.Count("settled_without_an_armed_timer", 1)
					timerlessSettles.Add(1)
				}
			}
		}

		return true
	}

	// settlePaused is settle() while the consumer is paused. The statement does not promise that Add
	// returns while the receiver is behind, so a registration that does not come back within the
	// watchdog is not judged: the consumer is resumed and the probe is awaited.
	settlePaused := func() bool {
		done := make(chan bool, 1)
		go func() { done <- settle() }()
		select {
		case ok := <-done:
			return ok
		case <-time.After(3 * time.Second):
			r.Count("registrations_that_waited_for_the_paused_consumer", 1)
			unpause()

			return <-done
		}
	}

	// expected number of reports so far according to the model
	expected := 0
	checked := 0 // reports[:checked] already validated
	sharedDeadline, readdPending, edgeAdd := false, false, false

	validate := func() {
		// called after settle(): every pending duty with deadline <= now must have been reported.
		now := clock.Now()
		var due []core.Duty
		for d := range m.pending {
			if !m.deadline[d].After(now) {
				due = append(due, d)
			}
		}
		expected += len(due)
		// (the wait is a watchdog for the consumer goroutine, not the verdict: the verdict is taken after
		// settle() showed the deadliner idle; once a run has demonstrated losses it no longer pays 10 s each)
		wait := 5 * time.Second
		if lossesSeen.Load() >= 3 {
			wait = 300 * time.Millisecond
		}
		ok := kit.WaitUntil(wait, func() bool { return received() >= expected && len(dl.C()) == 0 })
		if !ok {
			// causal re-check: loop idle (timer re-armed), channel empty, consumer idle
			if !settle() {
				return
			}
			ok = kit.WaitUntil(wait, func() bool { return received() >= expected && len(dl.C()) == 0 })
		}
		mu.Lock()
		reps := append([]report(nil), reports...)
		mu.Unlock()
		for i := checked; i < len(reps); i++ {
			rp := reps[i]
			dd, known := m.deadline[rp.Duty]
			switch {
			case !known:
				fail("deadliner/report-exempt-or-unknown", fmt.Sprintf("duty %v reported but it never expires / was never registered", rp.Duty))
			case !m.pending[rp.Duty] && m.reported[rp.Duty] > 0:
				fail("deadliner/reported-twice", fmt.Sprintf("duty %v reported %d times", rp.Duty, m.reported[rp.Duty]+1))
			case !m.pending[rp.Duty]:
				fail("deadliner/report-not-scheduled", fmt.Sprintf("duty %v reported although no Add returned scheduled (late add must be refused)", rp.Duty))
			}
			if known && rp.Clock.Before(dd) {
				fail("deadliner/early", fmt.Sprintf("duty %v reported at +%v before its deadline +%v", rp.Duty, rp.Clock.Sub(t0), dd.Sub(t0)))
			}
			if known && dd.After(now) {
				fail("deadliner/early", fmt.Sprintf("duty %v reported while clock +%v is before its deadline +%v", rp.Duty, now.Sub(t0), dd.Sub(t0)))
			}
			if i > 0 {
				if pd, ok2 := m.deadline[reps[i-1].Duty]; ok2 && known && dd.Before(pd) {
					fail("deadliner/order", fmt.Sprintf("duty %v (deadline +%v) reported after %v (deadline +%v)", rp.Duty, dd.Sub(t0), reps[i-1].Duty, pd.Sub(t0)))
				}
			}
			m.reported[rp.Duty]++
			delete(m.pending, rp.Duty)
			r.Count("reports", 1)
		}
		checked = len(reps)
		if !ok {
			var missing []string
			for _, d := range due {
				if m.pending[d] {
					missing = append(missing, fmt.Sprint(d))
				}
			}
			sort.Strings(missing)
			if len(missing) > 0 {
				sig := "deadliner/lost-report"
				if len(due) > 10 {
					sig = "deadliner/lost-report/more-than-buffer-due-at-once"
				}
				fail(sig, fmt.Sprintf("%d of %d due duties never reported to a reading consumer (deadliner idle, channel empty): %v", len(missing), len(due), missing))
				lossesSeen.Add(1)
				lost = true
				for _, d := range due {
					delete(m.pending, d)
				}
				expected = received()
			}
		}
		if len(due) > 10 {
			r.Count("advances_with_more_than_10_due", 1)
		}
	}

	doAdd := func(d core.Duty, nowLo, nowHi time.Time, racing bool) {
		st := dl.Add(d)
		dd, canExpire := m.deadline[d]
		rec := opRec{Op: "add", Duty: fmt.Sprint(d), DL: steps[d], Status: statusName(st), Now: nowHi.Sub(t0).String()}
		if racing {
			rec.Op = "add-racing-advance"
		}
		mu.Lock() // trace is shared by concurrent adders
		trace = append(trace, rec)
		mu.Unlock()
		if !canExpire {
			if st != core.DeadlineExempt {
				fail("deadliner/exempt-status", fmt.Sprintf("Add(%v) of never-expiring type returned %s", d, statusName(st)))
			}
			r.Count("adds_exempt", 1)
			return
		}
		allowSch := !dd.Before(nowLo)                   // deadline >= earliest possible now
		allowExp := dd.Before(nowHi) || dd.Equal(nowHi) // deadline <= latest possible now (== : either, see DESIGN)
		switch st {
		case core.DeadlineScheduled:
			if !allowSch {
				fail("deadliner/scheduled-after-deadline", fmt.Sprintf("Add(%v) at +%v after deadline +%v returned scheduled", d, nowLo.Sub(t0), dd.Sub(t0)))
			}
			mu.Lock()
			if m.pending[d] {
				readdPending = true
			}
			m.pending[d] = true
			m.everSch[d] = true
			mu.Unlock()
			r.Count("adds_scheduled", 1)
		case core.DeadlineExpired:
			if !allowExp {
				fail("deadliner/expired-before-deadline", fmt.Sprintf("Add(%v) at +%v before deadline +%v returned expired", d, nowHi.Sub(t0), dd.Sub(t0)))
			}
			r.Count("adds_expired", 1)
		default:
			fail("deadliner/exempt-status", fmt.Sprintf("Add(%v) of expiring type returned %s", d, statusName(st)))
		}
		if dd.Equal(nowLo) || dd.Equal(nowHi) {
			mu.Lock()
			edgeAdd = true
			mu.Unlock()
			r.Count("adds_exactly_at_deadline", 1)
		}
	}

	// eligible: the generator never re-registers an already scheduled duty at exactly its deadline
	eligible := func(d core.Duty, nowLo, nowHi time.Time) bool {
		dd, ok := m.deadline[d]
		if !ok {
			return true
		}
		mu.Lock()
		ever := m.everSch[d]
		mu.Unlock()
		if ever && (dd.Equal(nowLo) || dd.Equal(nowHi)) {
			r.Count("skipped_unspecified_readd_at_deadline", 1)
			return false
		}

		return true
	}

	nOps := 10 + rng.Intn(40)
	var opHash []any
	if mode == "burst" {
		// a bulk registration up front, so that big advances really make more than the output buffer due
		k := 12 + rng.Intn(20)
		now := clock.Now()
		for _, i := range rng.Perm(len(pool)) {
			if k == 0 {
				break
			}
			if d := pool[i]; eligible(d, now, now) {
				opHash = append(opHash, "a", d)
				doAdd(d, now, now, false)
				k--
			}
		}
	}
	for i := 0; i < nOps && !inconclusive && !lost; i++ {
		now := clock.Now()
		switch k := rng.Intn(10); {
		case k < 5: // single add
			d := kit.Pick(rng, pool)
			if rng.Intn(8) == 0 {
				d = kit.Pick(rng, exempt)
			}
			if !eligible(d, now, now) {
				continue
			}
			opHash = append(opHash, "a", d)
			doAdd(d, now, now, false)
		case k < 6 || (mode == "concurrent" && k < 8): // concurrent adders, clock fixed
			g := 2 + rng.Intn(7)
			var ds []core.Duty
			for j := 0; j < g; j++ {
				d := kit.Pick(rng, pool)
				dup := false
				for _, o := range ds {
					dup = dup || o == d
				}
				if dup && m.deadline[d].Equal(now) {
					continue // two adds of one duty at exactly its deadline: unspecified coincidence
				}
				if eligible(d, now, now) {
					ds = append(ds, d)
				}
			}
			var wg sync.WaitGroup
			for _, d := range ds {
				wg.Add(1)
				go func(d core.Duty) { defer wg.Done(); doAdd(d, now, now, false) }(d)
			}
			wg.Wait()
			opHash = append(opHash, "c", ds)
			r.Count("concurrent_add_batches", 1)
		default: // advance
			var adv time.Duration
			switch rng.Intn(6) {
			case 0:
				adv = 0
			case 1:
				adv = grid / 2
			case 2, 3:
				adv = grid
			case 4:
				adv = time.Duration(1+rng.Intn(3)) * grid
			default:
				adv = grid / 4 // lands between deadlines
			}
			if mode == "burst" && rng.Intn(3) == 0 {
				adv = time.Duration(maxStep+1) * grid
			}
			if !settle() {
				break
			}
			// sustained: never let more than the output buffer become due at one advance
			if mode != "burst" {
				for adv > 0 {
					cnt := 0
					for d := range m.pending {
						if !m.deadline[d].After(now.Add(adv)) {
							cnt++
						}
					}
					if cnt <= 10 {
						break
					}
					adv -= grid / 4
				}
			}
			opHash = append(opHash, "v", adv)
			// NB: no Add ever overlaps an Advance. The deadliner computes `deadline - clock.Now()` and
			// then arms a relative timer; on a FakeClock an Advance between those two steps arms the
			// timer late by the advance (a real monotonic clock cannot jump between them), so such
			// overlap would manufacture late reports the real system cannot have.
			slow := mode == "burst" && rng.Intn(2) == 0
			if slow {
				pause()
				r.Count("advances_with_paused_consumer", 1)
			}
			clock.Advance(adv)
			trace = append(trace, opRec{Op: "advance", Adv: adv.String(), Now: clock.Now().Sub(t0).String(), Status: map[bool]string{true: "consumer-paused"}[slow]})
			if !slow && rng.Intn(3) == 0 {
				// Late re-registration racing the report: duties that were registered in time and became due
				// at this advance are registered AGAIN right away, before the deadliner has been given time to
				// report them (its timer has fired, the loop may handle the registration first). The late
				// registration is refused as expired; "registering a pending duty again has no further effect",
				// so each of them must still be reported exactly once (seeded change C16-r8: the refused
				// registration cancelled the pending expiry). Strictly after the deadline only: at the very
				// instant either answer is allowed (see DESIGN).
				nowA := clock.Now()
				var due []core.Duty
				mu.Lock()
				for d := range m.pending {
					if m.deadline[d].Before(nowA) {
						due = append(due, d)
					}
				}
				mu.Unlock()
				sort.Slice(due, func(i, j int) bool { return fmt.Sprint(due[i]) < fmt.Sprint(due[j]) })
				rng.Shuffle(len(due), func(i, j int) { due[i], due[j] = due[j], due[i] })
				for i, d := range due {
					if i >= 3 {
						break
					}
					opHash = append(opHash, "late-readd", d)
					doAdd(d, nowA, nowA, true)
					readdPending = true
					r.Count("late_readds_of_pending_duties_racing_their_report", 1)
				}
			}
			if slow {
				// let the deadliner work through everything that became due while nobody reads, then resume
				ok := settlePaused()
				if len(dl.C()) == cap(dl.C()) {
					r.Count("output_buffer_full_while_consumer_paused", 1)
				}
				unpause()
				if !ok {
					break
				}
			}
			// "Quiet period": when the model says nothing became due, the deadliner has nothing to do and
			// is NOT probed — the next registration then meets it exactly as time left it (a deadliner
			// that remembers an older "now" from its last event would accept a late registration).
			dueNow := 0
			for d := range m.pending {
				if !m.deadline[d].After(clock.Now()) {
					dueNow++
				}
			}
			if dueNow == 0 && rng.Intn(4) != 0 {
				r.Count("advances_without_probe(quiet period)", 1)
				continue
			}
			if !settle() {
				break
			}
			validate()
		}
	}
	if !inconclusive && !lost {
		// final: move past every deadline; everything pending must be reported exactly once
		if settle() {
			if mode == "burst" {
				slow := rng.Intn(2) == 0
				if slow {
					pause()
					r.Count("advances_with_paused_consumer", 1)
				}
				clock.Advance(time.Duration(maxStep+2) * grid)
				trace = append(trace, opRec{Op: "advance", Adv: "to-end", Now: clock.Now().Sub(t0).String(), Status: map[bool]string{true: "consumer-paused"}[slow]})
				if slow {
					settlePaused()
					if len(dl.C()) == cap(dl.C()) {
						r.Count("output_buffer_full_while_consumer_paused", 1)
					}
					unpause()
				}
				if settle() {
					validate()
				}
			} else {
				for step := 0; step <= 2*(maxStep+1); step++ { // quarter by quarter keeps <=10 due per advance
					clock.Advance(grid / 2)
					if !settle() {
						break
					}
					validate()
					if lost {
						break
					}
				}
			}
		}
		if !inconclusive && !lost && len(m.pending) != 0 {
			fail("deadliner/lost-report", fmt.Sprintf("%d duties still pending after the clock passed every deadline", len(m.pending)))
		}
	}
	// shared deadline among scheduled duties?
	seenDL := map[time.Time]int{}
	for d := range m.everSch {
		seenDL[m.deadline[d]]++
	}
	for _, k := range seenDL {
		if k > 1 {
			sharedDeadline = true
		}
	}
	total := 0
	for _, k := range m.reported {
		total += k
	}
	if total > 0 && (sharedDeadline || readdPending || edgeAdd) {
		c.NonTrivial(kit.Hash(mode, opHash))
	}
	r.Seen("modes", mode)
	if c.Idx < 2 {
		r.Sample(map[string]any{"mode": mode, "pool": len(pool), "trace": trace})
	}
	cancel()
	<-consumerDone
}
