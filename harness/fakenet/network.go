package fakenet

import (
	"sort"
	"sync"

	"github.com/libp2p/go-libp2p/core/network"
	"github.com/libp2p/go-libp2p/core/peer"
)

// This file adds a minimal host.Network(): connection bookkeeping between hosts and notifees.
//
// Model: connections are counted per unordered pair of peer ids. A pair gets its first connection
// either explicitly (Net.Connect) or implicitly when one side opens a stream / injects a message
// while there is none (libp2p's NewStream dials, too). Net.Disconnect / DisconnectOne close
// connections. Every opened or closed connection is announced to the notifees registered on both
// hosts' Network() — Connected after the connection is visible in ConnsToPeer, Disconnected after
// it has been removed (as the libp2p swarm does) — synchronously, in the goroutine that caused it,
// without any fakenet lock held. Streams are not tied to connections: closing a connection does not
// abort envelopes in flight.

type pairKey struct{ a, b peer.ID }

func pairOf(a, b peer.ID) pairKey {
	if b < a {
		a, b = b, a
	}

	return pairKey{a, b}
}

// Connect opens one more connection between a and b (hosts need not exist yet).
func (n *Net) Connect(a, b peer.ID) {
	if a == b {
		return
	}
	n.mu.Lock()
	if n.conns == nil {
		n.conns = map[pairKey]int{}
	}
	n.conns[pairOf(a, b)]++
	ha, hb := n.hosts[a], n.hosts[b]
	n.mu.Unlock()
	ha.notifyConn(b, true)
	hb.notifyConn(a, true)
}

// ensureConn dials implicitly: opens a connection if the pair has none.
func (n *Net) ensureConn(a, b peer.ID) {
	if a == b {
		return
	}
	n.mu.Lock()
	has := n.conns[pairOf(a, b)] > 0
	n.mu.Unlock()
	if !has {
		n.Connect(a, b)
	}
}

// DisconnectOne closes one connection between a and b; false if there was none.
func (n *Net) DisconnectOne(a, b peer.ID) bool {
	n.mu.Lock()
	k := pairOf(a, b)
	if n.conns[k] == 0 {
		n.mu.Unlock()
		return false
	}
	n.conns[k]--
	if n.conns[k] == 0 {
		delete(n.conns, k)
	}
	ha, hb := n.hosts[a], n.hosts[b]
	n.mu.Unlock()
	ha.notifyConn(b, false)
	hb.notifyConn(a, false)

	return true
}

// Disconnect closes every connection between a and b and returns how many were closed. The next
// stream between them dials again.
func (n *Net) Disconnect(a, b peer.ID) int {
	closed := 0
	for n.DisconnectOne(a, b) {
		closed++
	}

	return closed
}

// Connections returns the number of open connections between a and b.
func (n *Net) Connections(a, b peer.ID) int {
	n.mu.Lock()
	defer n.mu.Unlock()

	return n.conns[pairOf(a, b)]
}

func (h *Host) notifyConn(remote peer.ID, connected bool) {
	if h == nil {
		return
	}
	nw := h.nw
	nw.mu.Lock()
	fs := append([]network.Notifiee(nil), nw.notifees...)
	nw.mu.Unlock()
	c := conn{local: h.id, remote: remote, net: h.net}
	for _, f := range fs {
		if connected {
			f.Connected(nw, c)
		} else {
			f.Disconnected(nw, c)
		}
	}
}

// Network implements host.Host: Notify, StopNotify, ConnsToPeer, Connectedness, Peers, Conns,
// LocalPeer and ClosePeer work; every other method of network.Network is unimplemented (nil
// embedded interface: calling it panics, which is what we want to notice).
func (h *Host) Network() network.Network { return h.nw }

type fakeNetwork struct {
	network.Network

	h        *Host
	mu       sync.Mutex
	notifees []network.Notifiee
}

func (f *fakeNetwork) Notify(nf network.Notifiee) {
	f.mu.Lock()
	f.notifees = append(f.notifees, nf)
	f.mu.Unlock()
}

func (f *fakeNetwork) StopNotify(nf network.Notifiee) {
	f.mu.Lock()
	defer f.mu.Unlock()
	for i, x := range f.notifees {
		if x == nf {
			f.notifees = append(f.notifees[:i:i], f.notifees[i+1:]...)
			return
		}
	}
}

func (f *fakeNetwork) LocalPeer() peer.ID { return f.h.id }

func (f *fakeNetwork) ConnsToPeer(p peer.ID) []network.Conn {
	k := f.h.net.Connections(f.h.id, p)
	out := make([]network.Conn, 0, k)
	for i := 0; i < k; i++ {
		out = append(out, conn{local: f.h.id, remote: p, net: f.h.net})
	}

	return out
}

func (f *fakeNetwork) Connectedness(p peer.ID) network.Connectedness {
	if f.h.net.Connections(f.h.id, p) > 0 {
		return network.Connected
	}

	return network.NotConnected
}

func (f *fakeNetwork) Peers() []peer.ID {
	n := f.h.net
	n.mu.Lock()
	var out []peer.ID
	for k, c := range n.conns {
		if c == 0 {
			continue
		}
		switch f.h.id {
		case k.a:
			out = append(out, k.b)
		case k.b:
			out = append(out, k.a)
		}
	}
	n.mu.Unlock()
	sort.Slice(out, func(i, j int) bool { return out[i] < out[j] })

	return out
}

func (f *fakeNetwork) Conns() []network.Conn {
	var out []network.Conn
	for _, p := range f.Peers() {
		out = append(out, f.ConnsToPeer(p)...)
	}

	return out
}

// ClosePeer closes all connections to p.
func (f *fakeNetwork) ClosePeer(p peer.ID) error {
	f.h.net.Disconnect(f.h.id, p)
	return nil
}
