// Package fakenet is an in-memory libp2p replacement: hosts implement just enough of host.Host
// for charon's p2p.Send / p2p.SendReceive / p2p.RegisterHandler, and every message travels as an
// Envelope that a harness-owned policy may deliver (sync or async), hold, duplicate, drop or
// fabricate. Delivery calls the target's registered stream handler with an inbound stream whose
// Conn().RemotePeer() is the envelope's sender — the code path a real stream takes.
package fakenet

import (
	"bytes"
	"context"
	"errors"
	"io"
	"os"
	"sync"
	"sync/atomic"
	"time"

	"github.com/libp2p/go-libp2p/core/host"
	"github.com/libp2p/go-libp2p/core/network"
	"github.com/libp2p/go-libp2p/core/peer"
	"github.com/libp2p/go-libp2p/core/protocol"
	"github.com/libp2p/go-msgio/pbio"
	"google.golang.org/protobuf/proto"
)

// Verdict is what a policy decides for a freshly sent envelope.
type Verdict int

const (
	// DeliverAsync runs the target handler in a new goroutine (default; like a real network).
	DeliverAsync Verdict = iota
	// DeliverSync runs the target handler in the sender's goroutine before Close/CloseWrite returns.
	DeliverSync
	// Hold keeps the envelope in the pending pool until the harness calls Deliver/Drop.
	Hold
	// Drop discards the envelope (a duplex sender sees EOF).
	Drop
)

// Envelope is one message on the wire.
type Envelope struct {
	Seq    int64
	From   peer.ID
	To     peer.ID
	Proto  protocol.ID
	Data   []byte // bytes written by the sender (varint-delimited proto frame for charon protocols)
	Duplex bool   // sender half-closed and waits for a response
	// Trickle > 0: a sender that takes as long as the receiver lets it: the receiver's first Read
	// returns only Trickle before the read deadline the handler set on the stream (at once if it set
	// none). Real waiting; it only places the delivery, verdicts never depend on it.
	Trickle time.Duration

	resp     chan []byte // duplex: response bytes (closed without value = EOF)
	respOnce sync.Once
}

func (e *Envelope) respond(b []byte) {
	e.respOnce.Do(func() {
		if e.resp != nil {
			if b != nil {
				e.resp <- b
			}
			close(e.resp)
		}
	})
}

// Net connects hosts.
type Net struct {
	mu      sync.Mutex
	hosts   map[peer.ID]*Host
	pending []*Envelope
	conns   map[pairKey]int // open connections per pair of peers (network.go)
	seq     atomic.Int64
	// Policy decides the fate of each new envelope; nil = DeliverAsync. Called without locks held.
	policy atomic.Pointer[func(*Envelope) Verdict]
	// Tap observes every envelope at send time (before the policy), e.g. to record wire traffic.
	tap atomic.Pointer[func(*Envelope)]

	inflight sync.WaitGroup
	sent     atomic.Int64
	handled  atomic.Int64
}

// New returns an empty network.
func New() *Net { return &Net{hosts: map[peer.ID]*Host{}} }

// SetPolicy installs the envelope policy (nil restores DeliverAsync).
func (n *Net) SetPolicy(f func(*Envelope) Verdict) {
	if f == nil {
		n.policy.Store(nil)
		return
	}
	n.policy.Store(&f)
}

// SetTap installs an observer for all sent envelopes.
func (n *Net) SetTap(f func(*Envelope)) {
	if f == nil {
		n.tap.Store(nil)
		return
	}
	n.tap.Store(&f)
}

// Host creates (or returns) the host with the given id.
func (n *Net) Host(id peer.ID) *Host {
	n.mu.Lock()
	defer n.mu.Unlock()
	if h, ok := n.hosts[id]; ok {
		return h
	}
	h := &Host{net: n, id: id}
	h.nw = &fakeNetwork{h: h}
	n.hosts[id] = h

	return h
}

// Pending returns a snapshot of held envelopes.
func (n *Net) Pending() []*Envelope {
	n.mu.Lock()
	defer n.mu.Unlock()

	return append([]*Envelope(nil), n.pending...)
}

// Take removes a held envelope from the pool (false if it is not there any more).
func (n *Net) Take(e *Envelope) bool {
	n.mu.Lock()
	defer n.mu.Unlock()
	for i, p := range n.pending {
		if p == e {
			n.pending = append(n.pending[:i], n.pending[i+1:]...)
			return true
		}
	}

	return false
}

// Sent and Handled count envelopes sent and handler invocations completed.
func (n *Net) Sent() int64    { return n.sent.Load() }
func (n *Net) Handled() int64 { return n.handled.Load() }

// WaitIdle waits until no asynchronous delivery is running (does not consider held envelopes).
func (n *Net) WaitIdle() { n.inflight.Wait() }

func (n *Net) submit(e *Envelope) {
	n.sent.Add(1)
	if t := n.tap.Load(); t != nil {
		(*t)(e)
	}
	v := DeliverAsync
	if p := n.policy.Load(); p != nil {
		v = (*p)(e)
	}
	switch v {
	case DeliverSync:
		n.Deliver(e)
	case Hold:
		n.mu.Lock()
		n.pending = append(n.pending, e)
		n.mu.Unlock()
	case Drop:
		e.respond(nil)
	default:
		n.inflight.Add(1)
		go func() {
			defer n.inflight.Done()
			n.Deliver(e)
		}()
	}
}

// Deliver runs the target's handler for e synchronously. Returns false if the target has no
// matching handler (the envelope is then answered with EOF). Delivering a copy is allowed (dup).
func (n *Net) Deliver(e *Envelope) bool {
	n.mu.Lock()
	h := n.hosts[e.To]
	n.mu.Unlock()
	if h == nil {
		e.respond(nil)
		return false
	}
	fn := h.handlerFor(e.Proto)
	if fn == nil {
		e.respond(nil)
		return false
	}
	s := &inStream{env: e, local: e.To, rd: bytes.NewReader(e.Data)}
	fn(s)
	s.finish()
	n.handled.Add(1)

	return true
}

// DropEnvelope discards e (duplex senders see EOF).
func (n *Net) DropEnvelope(e *Envelope) { e.respond(nil) }

// Clone returns a copy of e suitable for duplicate delivery (its response is discarded).
func (e *Envelope) Clone() *Envelope {
	return &Envelope{Seq: e.Seq, From: e.From, To: e.To, Proto: e.Proto, Data: append([]byte(nil), e.Data...)}
}

// Frame encodes msg as the varint-delimited frame charon's default writer produces.
func Frame(msg proto.Message) ([]byte, error) {
	var buf bytes.Buffer
	if err := pbio.NewDelimitedWriter(&buf).WriteMsg(msg); err != nil {
		return nil, err
	}

	return buf.Bytes(), nil
}

// Unframe decodes a varint-delimited frame into msg.
func Unframe(data []byte, msg proto.Message) error {
	return pbio.NewDelimitedReader(bytes.NewReader(data), 128<<20).ReadMsg(msg)
}

// Inject delivers a fabricated message from `from` to `to` synchronously and returns the raw
// response bytes the handler wrote (nil if none) and whether a handler existed.
func (n *Net) Inject(from, to peer.ID, pid protocol.ID, msg proto.Message) ([]byte, bool) {
	data, err := Frame(msg)
	if err != nil {
		return nil, false
	}

	return n.InjectRaw(from, to, pid, data)
}

// InjectTrickle is Inject for a sender that delivers its message at the very edge of the receiver's
// read deadline (eps before it).
func (n *Net) InjectTrickle(from, to peer.ID, pid protocol.ID, msg proto.Message, eps time.Duration) ([]byte, bool) {
	data, err := Frame(msg)
	if err != nil {
		return nil, false
	}
	n.ensureConn(from, to)
	e := &Envelope{Seq: n.seq.Add(1), From: from, To: to, Proto: pid, Data: data, Duplex: true, Trickle: eps, resp: make(chan []byte, 1)}
	ok := n.Deliver(e)
	b := <-e.resp

	return b, ok
}

// InjectRaw is Inject with arbitrary bytes.
func (n *Net) InjectRaw(from, to peer.ID, pid protocol.ID, data []byte) ([]byte, bool) {
	n.ensureConn(from, to) // a stream needs a connection: dial if there is none
	e := &Envelope{Seq: n.seq.Add(1), From: from, To: to, Proto: pid, Data: data, Duplex: true, resp: make(chan []byte, 1)}
	ok := n.Deliver(e)
	b := <-e.resp

	return b, ok
}

// Host is the in-memory host.Host.
type Host struct {
	host.Host // nil: any method not implemented below panics, which is what we want to notice.

	net *Net
	id  peer.ID
	nw  *fakeNetwork

	mu       sync.RWMutex
	handlers []handlerEntry
	closed   atomic.Bool
}

type handlerEntry struct {
	prefix protocol.ID
	match  func(protocol.ID) bool
	fn     network.StreamHandler
}

// ID implements host.Host.
func (h *Host) ID() peer.ID { return h.id }

// Close implements host.Host.
func (h *Host) Close() error { h.closed.Store(true); return nil }

// SetStreamHandler implements host.Host.
func (h *Host) SetStreamHandler(pid protocol.ID, fn network.StreamHandler) {
	h.SetStreamHandlerMatch(pid, func(p protocol.ID) bool { return p == pid }, fn)
}

// SetStreamHandlerMatch implements host.Host.
func (h *Host) SetStreamHandlerMatch(pid protocol.ID, m func(protocol.ID) bool, fn network.StreamHandler) {
	h.mu.Lock()
	defer h.mu.Unlock()
	for i := range h.handlers {
		if h.handlers[i].prefix == pid {
			h.handlers[i] = handlerEntry{prefix: pid, match: m, fn: fn}
			return
		}
	}
	h.handlers = append(h.handlers, handlerEntry{prefix: pid, match: m, fn: fn})
}

// RemoveStreamHandler implements host.Host.
func (h *Host) RemoveStreamHandler(pid protocol.ID) {
	h.mu.Lock()
	defer h.mu.Unlock()
	for i := range h.handlers {
		if h.handlers[i].prefix == pid {
			h.handlers = append(h.handlers[:i], h.handlers[i+1:]...)
			return
		}
	}
}

// Protocols lists the protocol ids (prefixes) this host has stream handlers for - what a remote
// peer learns through libp2p's identify protocol.
func (h *Host) Protocols() []protocol.ID {
	h.mu.RLock()
	defer h.mu.RUnlock()
	out := make([]protocol.ID, 0, len(h.handlers))
	for _, e := range h.handlers {
		out = append(out, e.prefix)
	}

	return out
}

func (h *Host) handlerFor(pid protocol.ID) network.StreamHandler {
	if h.closed.Load() {
		return nil
	}
	h.mu.RLock()
	defer h.mu.RUnlock()
	for _, e := range h.handlers {
		if e.match(pid) {
			return e.fn
		}
	}

	return nil
}

// ErrNoProtocol mirrors multistream's failure when the peer supports none of the protocols.
var ErrNoProtocol = errors.New("fakenet: protocols not supported")

// NewStream implements host.Host. The first protocol the target has a handler for is negotiated.
func (h *Host) NewStream(ctx context.Context, p peer.ID, pids ...protocol.ID) (network.Stream, error) {
	if err := ctx.Err(); err != nil {
		return nil, err
	}
	if h.closed.Load() {
		return nil, errors.New("fakenet: host closed")
	}
	h.net.mu.Lock()
	target := h.net.hosts[p]
	h.net.mu.Unlock()
	if target == nil {
		return nil, errors.New("fakenet: unknown peer (dial failed)")
	}
	var chosen protocol.ID
	for _, pid := range pids {
		if target.handlerFor(pid) != nil {
			chosen = pid
			break
		}
	}
	if chosen == "" {
		return nil, ErrNoProtocol
	}
	h.net.ensureConn(h.id, p) // a stream needs a connection: dial if there is none

	return &outStream{net: h.net, from: h.id, to: p, proto: chosen, ctx: ctx}, nil
}

// ---- streams ----

type conn struct {
	network.Conn
	local, remote peer.ID
	net           *Net // nil for stream-only conns created before Network() existed
}

// Close closes all connections between the two peers (if the conn knows its network).
func (c conn) Close() error {
	if c.net != nil {
		c.net.Disconnect(c.local, c.remote)
	}

	return nil
}

func (c conn) RemotePeer() peer.ID { return c.remote }
func (c conn) LocalPeer() peer.ID  { return c.local }
func (c conn) IsClosed() bool      { return false }

type outStream struct {
	network.Stream

	net   *Net
	from  peer.ID
	to    peer.ID
	proto protocol.ID
	ctx   context.Context

	mu       sync.Mutex
	buf      bytes.Buffer
	env      *Envelope
	rd       *bytes.Reader
	deadline time.Time
}

func (s *outStream) Protocol() protocol.ID            { return s.proto }
func (s *outStream) SetProtocol(id protocol.ID) error { s.proto = id; return nil }
func (s *outStream) Conn() network.Conn               { return conn{local: s.from, remote: s.to} }
func (s *outStream) ID() string                       { return "fakenet-out" }
func (s *outStream) SetDeadline(t time.Time) error {
	s.mu.Lock()
	s.deadline = t
	s.mu.Unlock()
	return nil
}
func (s *outStream) SetReadDeadline(t time.Time) error            { return s.SetDeadline(t) }
func (s *outStream) SetWriteDeadline(time.Time) error             { return nil }
func (s *outStream) Reset() error                                 { return s.Close() }
func (s *outStream) ResetWithError(network.StreamErrorCode) error { return s.Close() }
func (s *outStream) CloseRead() error                             { return nil }

func (s *outStream) Write(p []byte) (int, error) {
	s.mu.Lock()
	defer s.mu.Unlock()
	if s.env != nil {
		return 0, errors.New("fakenet: write after close")
	}

	return s.buf.Write(p)
}

func (s *outStream) emit(duplex bool) {
	s.mu.Lock()
	if s.env != nil {
		s.mu.Unlock()
		return
	}
	e := &Envelope{Seq: s.net.seq.Add(1), From: s.from, To: s.to, Proto: s.proto, Data: append([]byte(nil), s.buf.Bytes()...), Duplex: duplex}
	if duplex {
		e.resp = make(chan []byte, 1)
	}
	s.env = e
	s.mu.Unlock()
	s.net.submit(e)
}

// CloseWrite half-closes: the request is complete, the sender will read a response.
func (s *outStream) CloseWrite() error { s.emit(true); return nil }

// Close sends what was written (one-way) unless already sent.
func (s *outStream) Close() error { s.emit(false); return nil }

func (s *outStream) Read(p []byte) (int, error) {
	s.mu.Lock()
	e, rd, dl := s.env, s.rd, s.deadline
	s.mu.Unlock()
	if rd != nil {
		return rd.Read(p)
	}
	if e == nil || e.resp == nil {
		return 0, io.EOF
	}
	var timer <-chan time.Time
	if !dl.IsZero() {
		t := time.NewTimer(time.Until(dl))
		defer t.Stop()
		timer = t.C
	}
	select {
	case b, ok := <-e.resp:
		if !ok || b == nil {
			return 0, io.EOF
		}
		s.mu.Lock()
		s.rd = bytes.NewReader(b)
		rd = s.rd
		s.mu.Unlock()

		return rd.Read(p)
	case <-s.ctx.Done():
		return 0, s.ctx.Err()
	case <-timer:
		return 0, os.ErrDeadlineExceeded
	}
}

type inStream struct {
	network.Stream

	env   *Envelope
	local peer.ID
	rd    *bytes.Reader

	mu   sync.Mutex
	out  bytes.Buffer
	done bool

	readDeadline time.Time
	trickled     bool
}

func (s *inStream) setReadDeadline(t time.Time) error {
	s.mu.Lock()
	s.readDeadline = t
	s.mu.Unlock()

	return nil
}

// Read hands out the envelope's bytes; a trickling sender's first byte arrives just before the
// read deadline.
func (s *inStream) Read(p []byte) (int, error) {
	if s.env.Trickle > 0 {
		s.mu.Lock()
		first, dl := !s.trickled, s.readDeadline
		s.trickled = true
		s.mu.Unlock()
		if first && !dl.IsZero() {
			if d := time.Until(dl.Add(-s.env.Trickle)); d > 0 {
				time.Sleep(d)
			}
			if !time.Now().Before(dl) { // too late after all: what a real stream does
				return 0, os.ErrDeadlineExceeded
			}
		}
	}

	return s.rd.Read(p)
}

func (s *inStream) Protocol() protocol.ID                        { return s.env.Proto }
func (s *inStream) SetProtocol(protocol.ID) error                { return nil }
func (s *inStream) Conn() network.Conn                           { return conn{local: s.local, remote: s.env.From} }
func (s *inStream) ID() string                                   { return "fakenet-in" }
func (s *inStream) SetDeadline(t time.Time) error                { return s.setReadDeadline(t) }
func (s *inStream) SetReadDeadline(t time.Time) error            { return s.setReadDeadline(t) }
func (s *inStream) SetWriteDeadline(time.Time) error             { return nil }
func (s *inStream) Reset() error                                 { return s.Close() }
func (s *inStream) ResetWithError(network.StreamErrorCode) error { return s.Close() }
func (s *inStream) CloseRead() error                             { return nil }
func (s *inStream) CloseWrite() error                            { return s.Close() }

func (s *inStream) Write(p []byte) (int, error) {
	s.mu.Lock()
	defer s.mu.Unlock()
	if s.done {
		return 0, errors.New("fakenet: write after close")
	}

	return s.out.Write(p)
}

func (s *inStream) Close() error { s.finish(); return nil }

func (s *inStream) finish() {
	s.mu.Lock()
	if s.done {
		s.mu.Unlock()
		return
	}
	s.done = true
	var b []byte
	if s.out.Len() > 0 {
		b = append([]byte(nil), s.out.Bytes()...)
	}
	s.mu.Unlock()
	s.env.respond(b)
}
