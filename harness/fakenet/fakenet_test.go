package fakenet_test

import (
	"context"
	"fmt"
	"testing"

	"github.com/libp2p/go-libp2p/core/network"
	"github.com/libp2p/go-libp2p/core/peer"
	"github.com/stretchr/testify/require"
	"google.golang.org/protobuf/proto"
	"google.golang.org/protobuf/types/known/timestamppb"

	"github.com/obolnetwork/charon/p2p"
	"github.com/obolnetwork/charon/testutil"

	"verifharness/fakenet"
)

func TestSendAndSendReceive(t *testing.T) {
	lc := fakenet.CaptureLogs(t)
	n := fakenet.New()
	a := n.Host(peerID(t, 1))
	b := n.Host(peerID(t, 2))

	got := make(chan int64, 4)
	p2p.RegisterHandler("test", b, "/test/1.0.0", func() proto.Message { return new(timestamppb.Timestamp) },
		func(_ context.Context, pid peer.ID, req proto.Message) (proto.Message, bool, error) {
			require.Equal(t, a.ID(), pid)
			ts := req.(*timestamppb.Timestamp)
			got <- ts.GetSeconds()
			if ts.GetSeconds() == 99 {
				return nil, false, context.Canceled
			}

			return &timestamppb.Timestamp{Seconds: ts.GetSeconds() + 1}, true, nil
		})

	require.NoError(t, p2p.Send(context.Background(), a, "/test/1.0.0", b.ID(), &timestamppb.Timestamp{Seconds: 7}))
	require.Equal(t, int64(7), <-got)

	resp := new(timestamppb.Timestamp)
	require.NoError(t, p2p.SendReceive(context.Background(), a, b.ID(), &timestamppb.Timestamp{Seconds: 41}, resp, "/test/1.0.0"))
	require.Equal(t, int64(41), <-got)
	require.Equal(t, int64(42), resp.GetSeconds())

	// handler error is logged and observable
	raw, ok := n.Inject(a.ID(), b.ID(), "/test/1.0.0", &timestamppb.Timestamp{Seconds: 99})
	require.True(t, ok)
	require.Nil(t, raw)
	<-got
	n.WaitIdle()
	require.Len(t, lc.HandlerErrors(0), 1, "%v", lc.Since(0))

	// hold + duplicate
	n.SetPolicy(func(*fakenet.Envelope) fakenet.Verdict { return fakenet.Hold })
	require.NoError(t, p2p.Send(context.Background(), a, "/test/1.0.0", b.ID(), &timestamppb.Timestamp{Seconds: 5}))
	pend := n.Pending()
	require.Len(t, pend, 1)
	require.True(t, n.Take(pend[0]))
	n.Deliver(pend[0].Clone())
	n.Deliver(pend[0])
	require.Equal(t, int64(5), <-got)
	require.Equal(t, int64(5), <-got)
}

func peerID(t *testing.T, seed int) peer.ID {
	t.Helper()
	k := testutil.GenerateInsecureK1Key(t, seed)
	id, err := p2p.PeerIDFromKey(k.PubKey())
	require.NoError(t, err)

	return id
}

func TestNetworkNotifeesAndConns(t *testing.T) {
	n := fakenet.New()
	a := n.Host(peerID(t, 1))
	b := n.Host(peerID(t, 2))

	var events []string
	b.Network().Notify(&network.NotifyBundle{
		ConnectedF: func(nw network.Network, c network.Conn) {
			events = append(events, fmt.Sprintf("connected %d", len(nw.ConnsToPeer(c.RemotePeer()))))
			require.Equal(t, a.ID(), c.RemotePeer())
			require.Equal(t, b.ID(), c.LocalPeer())
		},
		DisconnectedF: func(nw network.Network, c network.Conn) {
			events = append(events, fmt.Sprintf("disconnected %d", len(nw.ConnsToPeer(c.RemotePeer()))))
		},
	})
	p2p.RegisterHandler("test", b, "/test/1.0.0", func() proto.Message { return new(timestamppb.Timestamp) },
		func(context.Context, peer.ID, proto.Message) (proto.Message, bool, error) { return nil, false, nil })

	require.Equal(t, network.NotConnected, a.Network().Connectedness(b.ID()))
	// a stream dials implicitly, once
	_, ok := n.Inject(a.ID(), b.ID(), "/test/1.0.0", &timestamppb.Timestamp{Seconds: 1})
	require.True(t, ok)
	require.NoError(t, p2p.Send(context.Background(), a, "/test/1.0.0", b.ID(), &timestamppb.Timestamp{Seconds: 2}))
	n.WaitIdle()
	require.Equal(t, []string{"connected 1"}, events)
	require.Equal(t, network.Connected, b.Network().Connectedness(a.ID()))
	require.Equal(t, []peer.ID{a.ID()}, b.Network().Peers())
	require.Len(t, a.Network().Conns(), 1)

	// a second connection, closing one keeps the peer connected
	n.Connect(b.ID(), a.ID())
	require.True(t, n.DisconnectOne(a.ID(), b.ID()))
	require.Equal(t, []string{"connected 1", "connected 2", "disconnected 1"}, events)
	require.Equal(t, 1, n.Disconnect(a.ID(), b.ID()))
	require.Equal(t, 0, n.Disconnect(a.ID(), b.ID()))
	require.Equal(t, "disconnected 0", events[len(events)-1])
	require.Empty(t, b.Network().ConnsToPeer(a.ID()))
	require.Empty(t, b.Network().Peers())

	// re-dial on the next stream
	_, _ = n.Inject(a.ID(), b.ID(), "/test/1.0.0", &timestamppb.Timestamp{Seconds: 3})
	require.Equal(t, "connected 1", events[len(events)-1])
	require.NoError(t, b.Network().ClosePeer(a.ID()))
	require.Equal(t, "disconnected 0", events[len(events)-1])
}
