package fakenet_test

import (
	"context"
	"testing"

	"github.com/libp2p/go-libp2p/core/peer"
	"github.com/stretchr/testify/require"
	"google.golang.org/protobuf/proto"
	"google.golang.org/protobuf/types/known/timestamppb"

	"github.com/obolnetwork/charon/p2p"
	"github.com/obolnetwork/charon/testutil"

	"verifharness/fakenet"
)

func TestSendAndSendReceive(t *testing.T) {
	lc := fakenet.CaptureLogs(t)
	n := fakenet.New()
	a := n.Host(peerID(t, 1))
	b := n.Host(peerID(t, 2))

	got := make(chan int64, 4)
	p2p.RegisterHandler("test", b, "/test/1.0.0", func() proto.Message { return new(timestamppb.Timestamp) },
		func(_ context.Context, pid peer.ID, req proto.Message) (proto.Message, bool, error) {
			require.Equal(t, a.ID(), pid)
			ts := req.(*timestamppb.Timestamp)
			got <- ts.GetSeconds()
			if ts.GetSeconds() == 99 {
				return nil, false, context.Canceled
			}

			return &timestamppb.Timestamp{Seconds: ts.GetSeconds() + 1}, true, nil
		})

	require.NoError(t, p2p.Send(context.Background(), a, "/test/1.0.0", b.ID(), &timestamppb.Timestamp{Seconds: 7}))
	require.Equal(t, int64(7), <-got)

	resp := new(timestamppb.Timestamp)
	require.NoError(t, p2p.SendReceive(context.Background(), a, b.ID(), &timestamppb.Timestamp{Seconds: 41}, resp, "/test/1.0.0"))
	require.Equal(t, int64(41), <-got)
	require.Equal(t, int64(42), resp.GetSeconds())

	// handler error is logged and observable
	raw, ok := n.Inject(a.ID(), b.ID(), "/test/1.0.0", &timestamppb.Timestamp{Seconds: 99})
	require.True(t, ok)
	require.Nil(t, raw)
	<-got
	n.WaitIdle()
	require.Len(t, lc.HandlerErrors(0), 1, "%v", lc.Since(0))

	// hold + duplicate
	n.SetPolicy(func(*fakenet.Envelope) fakenet.Verdict { return fakenet.Hold })
	require.NoError(t, p2p.Send(context.Background(), a, "/test/1.0.0", b.ID(), &timestamppb.Timestamp{Seconds: 5}))
	pend := n.Pending()
	require.Len(t, pend, 1)
	require.True(t, n.Take(pend[0]))
	n.Deliver(pend[0].Clone())
	n.Deliver(pend[0])
	require.Equal(t, int64(5), <-got)
	require.Equal(t, int64(5), <-got)
}

func peerID(t *testing.T, seed int) peer.ID {
	t.Helper()
	k := testutil.GenerateInsecureK1Key(t, seed)
	id, err := p2p.PeerIDFromKey(k.PubKey())
	require.NoError(t, err)

	return id
}
