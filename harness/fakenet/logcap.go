package fakenet

import (
	"encoding/json"
	"strings"
	"sync"
	"testing"

	"github.com/obolnetwork/charon/app/log"
)

// LogEntry is one captured warn/error log line of charon (JSON logger).
type LogEntry struct {
	Level string
	Msg   string
	Err   string
	Peer  string
	Topic string
	Raw   string
}

// LogCapture collects warn/error level log lines (debug/info lines are only counted), so that
// errors returned by p2p stream handlers — which charon only logs — become observable.
type LogCapture struct {
	mu      sync.Mutex
	entries []LogEntry
	lines   int64
}

// Write implements zapcore.WriteSyncer.
func (c *LogCapture) Write(p []byte) (int, error) {
	s := string(p)
	c.mu.Lock()
	defer c.mu.Unlock()
	for _, line := range strings.Split(s, "\n") {
		if line == "" {
			continue
		}
		c.lines++
		if !strings.Contains(line, `"level":"warn"`) && !strings.Contains(line, `"level":"error"`) {
			continue
		}
		var m map[string]any
		e := LogEntry{Raw: line}
		if err := json.Unmarshal([]byte(line), &m); err == nil {
			e.Level, _ = m["level"].(string)
			e.Msg, _ = m["msg"].(string)
			e.Err, _ = m["error"].(string)
			if e.Err == "" {
				e.Err, _ = m["err"].(string)
			}
			e.Peer, _ = m["peer"].(string)
			e.Topic, _ = m["topic"].(string)
		}
		c.entries = append(c.entries, e)
	}

	return len(p), nil
}

// Sync implements zapcore.WriteSyncer.
func (*LogCapture) Sync() error { return nil }

// Len returns the number of captured warn/error entries.
func (c *LogCapture) Len() int { c.mu.Lock(); defer c.mu.Unlock(); return len(c.entries) }

// Since returns the entries captured from index i on.
func (c *LogCapture) Since(i int) []LogEntry {
	c.mu.Lock()
	defer c.mu.Unlock()
	if i > len(c.entries) {
		i = len(c.entries)
	}

	return append([]LogEntry(nil), c.entries[i:]...)
}

// Lines returns the total number of log lines seen.
func (c *LogCapture) Lines() int64 { c.mu.Lock(); defer c.mu.Unlock(); return c.lines }

// CaptureLogs installs a process-wide JSON logger writing into the returned capture.
func CaptureLogs(t *testing.T) *LogCapture {
	t.Helper()
	c := &LogCapture{}
	log.InitJSONForT(t, c)

	return c
}

// HandlerErrors returns the captured "P2P stream handler encountered an error" entries from index
// i on (charon's p2p.RegisterHandler only logs the error a protocol handler returns). The error
// text is the suffix of Msg after ": ".
func (c *LogCapture) HandlerErrors(i int) []LogEntry {
	var out []LogEntry
	for _, e := range c.Since(i) {
		if strings.Contains(e.Msg, "P2P stream handler encountered an error") {
			out = append(out, e)
		}
	}

	return out
}
