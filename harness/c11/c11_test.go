// Package c11 monitors property C11: a successful key generation ceremony yields one consistent
// threshold key per validator. The REAL ceremony code (FROST rounds + frostP2P transport + bcast;
// pedersen board + RunDKG; optionally a full dkg.Run) runs on n nodes connected by the in-memory
// fakenet whose scheduler chooses the order in which every envelope is delivered; the oracle
// checks the algebraic relations between all nodes' outputs with the production tbls package.
package c11

import (
	"context"
	"errors"
	"encoding/hex"
	"fmt"
	"math/rand"
	"os"
	"regexp"
	"sort"
	"strconv"
	"strings"
	"testing"
	"time"

	k1 "github.com/decred/dcrd/dcrec/secp256k1/v4"
	"github.com/libp2p/go-libp2p/core/host"
	"github.com/libp2p/go-libp2p/core/network"
	"github.com/libp2p/go-libp2p/core/peer"

	"github.com/obolnetwork/charon/app/log"
	"github.com/obolnetwork/charon/app/z"
	"github.com/obolnetwork/charon/cluster"
	"github.com/obolnetwork/charon/dkg"
	"github.com/obolnetwork/charon/dkg/bcast"
	"github.com/obolnetwork/charon/dkg/pedersen"
	"github.com/obolnetwork/charon/dkg/share"
	"github.com/obolnetwork/charon/p2p"
	"github.com/obolnetwork/charon/tbls"

	"verifharness/fakenet"
	"verifharness/kit"
)

const (
	engFrost    = "frost"
	engPedersen = "pedersen"
	engFullRun  = "fullrun"

	// Watchdog per ceremony. Its firing is never a violation by itself.
	ceremonyWatchdog = 4 * time.Minute
	// Phase timer handed to the pedersen engine: kyber's FastSync advances on complete message
	// sets; the timers are only its fallback for missing peers and must not fire in this workload
	// (every message is delivered), so they are set far beyond the watchdog.
	pedersenPhase = 20 * time.Minute
	// A ceremony is declared stuck only when every envelope was delivered, nothing was sent for
	// this long AND a handler demonstrably rejected an honest message (otherwise: watchdog).
	stuckSettle = 15 * time.Second
	// Watchdog of a transport-fault ceremony: a ceremony that hangs after the injected fault is
	// "no verdict", so there is no point in waiting long.
	faultWatchdog = 60 * time.Second
)

// grid returns the ceremony list of the tier.
func grid(thorough bool) []ceremony {
	var out []ceremony
	add := func(engine string, ns, vs []int, reps int) {
		for _, n := range ns {
			for t := 2; t <= n; t++ {
				for _, v := range vs {
					for rep := 0; rep < reps; rep++ {
						out = append(out, ceremony{Engine: engine, N: n, T: t, V: v, Rep: rep})
					}
				}
			}
		}
	}
	if thorough {
		add(engFrost, []int{3, 4, 5, 6, 7, 8}, []int{1, 2, 3, 4}, 3)
		add(engPedersen, []int{3, 4, 5, 6, 7, 8}, []int{1, 2, 3, 4}, 3)
		base := len(out)
		add(engFrost, []int{3, 4, 5, 6, 7, 8}, []int{1, 2}, 2)
		add(engPedersen, []int{3, 4, 5, 6}, []int{1, 2}, 1)
		for i := base; i < len(out); i++ {
			out[i].Rep += 3
			out[i].Focus = "fault"
		}
		base = len(out)
		add(engPedersen, []int{3, 4, 5, 6}, []int{2, 3, 4}, 1)
		for i := base; i < len(out); i++ {
			out[i].Rep += 4
			out[i].Focus = "slowlink"
		}
		base = len(out)
		add(engPedersen, []int{3, 4, 5}, []int{1, 2}, 1)
		for i := base; i < len(out); i++ {
			out[i].Rep += 5
			out[i].Focus = "latedeal"
		}
		base = len(out)
		add(engPedersen, []int{3, 4}, []int{1, 2}, 1)
		for i := base; i < len(out); i++ {
			out[i].Rep += 6
			out[i].Focus = "lateann"
		}
		base = len(out)
		add(engPedersen, []int{3, 4, 5}, []int{2, 3}, 2)
		for i := base; i < len(out); i++ {
			out[i].Rep += 7
			out[i].Focus = "staledeal"
		}
		for _, n := range []int{3, 4} {
			for _, algo := range []string{"frost", "pedersen"} {
				out = append(out, ceremony{Engine: engFullRun + "-" + algo, N: n, T: n - 1, V: 2, Rep: 0})
			}
		}
	} else {
		add(engFrost, []int{3, 4, 5}, []int{1, 2}, 2)
		add(engPedersen, []int{3, 4, 5}, []int{1, 2}, 1)
		// Overlapping duplicate handling is a window of a few instructions: it only shows up
		// regularly with volume, so the quick tier runs every FROST configuration once more in
		// the targeted concurrent-duplicate mode.
		base := len(out)
		add(engFrost, []int{3, 4, 5}, []int{1, 2}, 1)
		for i := base; i < len(out); i++ {
			out[i].Rep += 2
			out[i].Focus = "concurrent"
		}
		// Transport-fault dimension: one transient relay-type stream failure per ceremony.
		base = len(out)
		add(engFrost, []int{3, 4, 5}, []int{1, 2}, 1)
		add(engPedersen, []int{3, 4}, []int{1, 2}, 1)
		for i := base; i < len(out); i++ {
			out[i].Rep += 3
			out[i].Focus = "fault"
		}
		// Slow-link dimension: pedersen with a short real phase timer, see slowlink_test.go.
		base = len(out)
		add(engPedersen, []int{3, 4}, []int{2, 3}, 1)
		for i := base; i < len(out); i++ {
			out[i].Rep += 4
			out[i].Focus = "slowlink"
		}
		// Late-announcement class: one val_pubkey_share reaches one node after that node's collect timeout.
		out = append(out,
			ceremony{Engine: engPedersen, N: 3, T: 2, V: 1, Rep: 6, Focus: "lateann"},
			ceremony{Engine: engPedersen, N: 4, T: 3, V: 2, Rep: 6, Focus: "lateann"})
		// Stale-retransmission class (short real phases): while a node collects the deals of validator
		// k+1, a byte-identical copy of another dealer's deal of validator k reaches it again.
		for _, nt := range [][2]int{{3, 2}, {3, 3}, {4, 2}, {4, 3}, {4, 4}} {
			for _, vv := range []int{2, 3} {
				out = append(out, ceremony{Engine: engPedersen, N: nt[0], T: nt[1], V: vv, Rep: 7, Focus: "staledeal"})
			}
		}
		// Late-bundle class: one dealer's deal reaches one node just after that node's own deal deadline.
		out = append(out,
			ceremony{Engine: engPedersen, N: 3, T: 2, V: 2, Rep: 5, Focus: "latedeal"},
			ceremony{Engine: engPedersen, N: 4, T: 3, V: 2, Rep: 5, Focus: "latedeal"},
			ceremony{Engine: engPedersen, N: 4, T: 2, V: 1, Rep: 5, Focus: "latedeal"})
	}

	return out
}

func TestCheck(t *testing.T) {
	r := kit.Start(t, "C11")
	defer r.Finish()
	r.Rule("case = one independent key generation ceremony (engine frost|pedersen|fullrun, n, t, v, repeat) run by the REAL charon code on n nodes with fresh PRNG secp256k1 identities over fakenet; " +
		"every envelope is held and released by a PRNG scheduler in one of 11 orders (eager random/LIFO, settled batches shuffled/reversed, laggard sender/receiver, strict class/receiver/sender priority, targeted re-delivery, targeted concurrent duplicates), nothing dropped; " +
		"3/4 of the ceremonies additionally see byte-identical RE-DELIVERIES of one-way reliable-broadcast messages (immediately / after a later-round message of the same sender / late / mixed / concurrently: original and 1-3 copies handled by the receiver in overlapping handler goroutines); every fourth case sees every message exactly once; ceremonies marked focus=fault instead get exactly one transient relay-type stream failure (network.ErrReset / ErrResourceScopeClosed) at one stream of one node B (K-th message or signature-request stream of its round-R reliable broadcast, a FROST share stream, a pedersen bundle stream) while another peer C's round-R broadcast is kept from B until B's retried broadcast was seen on the wire and B moved on; the targeted mode keeps laggard C's round-1 broadcast from receiver B until a faster sender A had a later-round message handled by B and A's round-1 broadcast was delivered to B again; " +
		"non-trivial = the ceremony succeeded on all n nodes and at least one envelope was delivered before an envelope sent earlier; distinct = hash of (engine,n,t,v, sequence of (from,to,message class) deliveries)")
	r.Assume("herumi (tbls) group arithmetic is correct: the oracle evaluates RecoverPubkey/RecoverSecret/ThresholdAggregate/Verify of the production tbls package on the ceremony outputs (C08 checks tbls itself)")
	r.Assume("kryptology FROST and drand/kyber pedersen draw their polynomial coefficients from crypto/rand: key material is not replayable from the seed, the schedule mode, identities and configuration are")
	r.Assume("a ceremony that does not finish before the generous watchdog is inconclusive unless a delivered honest message was demonstrably rejected by the receiving node's handler (logical event, captured from charon's log)")
	r.Assume("C11 speaks about successful ceremonies: a ceremony that fails or hangs while re-deliveries were injected into it (e.g. the pedersen board's node-pubkey queue filled by a repeated broadcast) is recorded as information only (ceremonies_failed_under_redelivery/...), never as a violation; ceremony-failed is a violation only when every message was delivered exactly once")
	r.Assume("a ceremony that aborts or hangs after an injected transient stream failure gives no verdict (counted in ceremonies_no_verdict_under_fault/...), it is never a violation and leaves the success-ratio denominator; the output oracle applies whenever all nodes report success")
	r.RacePkgs(false, "dkg")
	r.Require("t_subsets_checked", 100)
	r.Require("reordered_ceremonies", 10)

	logs := fakenet.CaptureLogs(t)
	// herumi initialises its CSPRNG state lazily and unsynchronised: first use single-threaded.
	if _, err := tbls.GenerateSecretKey(); err != nil {
		t.Fatalf("herumi init: %v", err)
	}

	list := grid(r.Thorough())
	// Development aid: C11_ENGINES=frost,fullrun restricts the grid to engines with these prefixes
	// (the minimum-observation thresholds still apply, so such a run may end inconclusive).
	if f := os.Getenv("C11_ENGINES"); f != "" {
		var keep []ceremony
		for _, cer := range list {
			for _, p := range strings.Split(f, ",") {
				if strings.HasPrefix(cer.Engine, p) {
					keep = append(keep, cer)

					break
				}
			}
		}
		list = keep
	}
	shuf := r.Rand(-1, 7)
	shuf.Shuffle(len(list), func(i, j int) { list[i], list[j] = list[j], list[i] })
	// The list is shuffled so that a scaled-down run (VERIF_SCALE) still mixes engines and sizes.
	n := r.N(len(list), len(list))
	if n > len(list) {
		n = len(list)
	}
	r.Require("redeliveries", int64(n))
	r.Require("targeted_redelivery_patterns", int64(n/20))
	r.Require("concurrent_duplicate_pairs", int64(2*n))
	r.Require("transport_faults_fired", int64(n/10))
	reg := &keyRegistry{seen: map[tbls.PublicKey]string{}}
	par := 6
	r.Set("grid_size", len(list))
	r.Cases(n, par, func(c *kit.Case) {
		cer := list[c.Idx%len(list)]
		switch {
		case strings.HasPrefix(cer.Engine, engFullRun):
			runFullCeremony(c, cer, reg)
		default:
			runFakenetCeremony(c, cer, reg, logs)
		}
	})
	// At least 3/4 of the ceremonies that count must complete and reach the oracle. Ceremonies that
	// failed or hung while duplicates were injected are information only and leave the denominator;
	// what may be missing otherwise are ceremonies discarded for wall-clock timeouts of the real code.
	if !r.Replaying() {
		denom := r.Counter("ceremonies_started") - r.Counter("ceremonies_failed_under_redelivery") - r.Counter("ceremonies_no_verdict_under_fault") - r.Counter("ceremonies_no_verdict_slow_link") - r.Counter("ceremonies_no_verdict_late_deal") - r.Counter("ceremonies_no_verdict_late_announcement") - r.Counter("ceremonies_no_verdict_stale_deal")
		if ok := r.Counter("ceremonies_succeeded"); ok*4 < denom*3 {
			r.Inconclusive("only %d of %d counted ceremonies succeeded (%d more failed under re-delivery and are not counted), need 3/4", ok, denom, r.Counter("ceremonies_failed_under_redelivery"))
		}
	}
}

// members is the set of ceremony participants on one fakenet.
type members struct {
	net     *fakenet.Net
	keys    []*k1.PrivateKey
	ids     []peer.ID
	hosts   []*fakenet.Host
	peerMap map[peer.ID]cluster.NodeIdx
	names   map[string]int // p2p.PeerName -> node index (log attribution)

	hasNamesakes bool
	namesakes    [2]int
}

// newMembers draws n operator identities. With namesakes set, two PRNG-chosen operators get peer ids
// that map to the same p2p.PeerName: the display name is a lossy hash with a few thousand values,
// so such clusters exist (birthday collision) and anything keyed by the name instead of the peer id
// confuses the two (seeded change C11-r7).
func newMembers(rng *rand.Rand, n int, namesakes bool) (*members, error) {
	m := &members{net: fakenet.New(), peerMap: map[peer.ID]cluster.NodeIdx{}, names: map[string]int{}}
	twinA, twinB := -1, -1
	if namesakes && n >= 2 {
		pm := rng.Perm(n)
		twinA, twinB = pm[0], pm[1]
		if twinA > twinB {
			twinA, twinB = twinB, twinA
		}
	}
	draw := func() (*k1.PrivateKey, peer.ID, error) {
		for {
			b := make([]byte, 32)
			rng.Read(b)
			var sc k1.ModNScalar
			if overflow := sc.SetByteSlice(b); overflow || sc.IsZero() {
				continue
			}
			key := k1.NewPrivateKey(&sc)
			id, err := p2p.PeerIDFromKey(key.PubKey())

			return key, id, err
		}
	}
	for i := 0; i < n; i++ {
		key, id, err := draw()
		if err != nil {
			return nil, err
		}
		if i == twinB {
			want := p2p.PeerName(m.ids[twinA])
			for tries := 0; p2p.PeerName(id) != want || id == m.ids[twinA]; tries++ {
				if tries > 400000 {
					return nil, errors.New("no namesake peer id found")
				}
				if key, id, err = draw(); err != nil {
					return nil, err
				}
			}
			m.namesakes = [2]int{twinA, twinB}
			m.hasNamesakes = true
		}
		m.keys = append(m.keys, key)
		m.ids = append(m.ids, id)
		m.hosts = append(m.hosts, m.net.Host(id))
		m.peerMap[id] = cluster.NodeIdx{PeerIdx: i, ShareIdx: i + 1}
		m.names[p2p.PeerName(id)] = i
	}

	return m, nil
}

var digits = regexp.MustCompile(`[0-9a-fA-F]{8,}|\b[0-9]+\b`)

// errClass reduces an error text to a stable class for signatures.
func errClass(err error) string {
	s := err.Error()
	if i := strings.Index(s, "{"); i > 0 {
		s = s[:i]
	}
	s = digits.ReplaceAllString(s, "N")
	s = strings.Join(strings.Fields(s), "-")
	if len(s) > 70 {
		s = s[:70]
	}

	return s
}

// runFakenetCeremony runs engine A (FROST) or B (pedersen) for one configuration.
func runFakenetCeremony(c *kit.Case, cer ceremony, reg *keyRegistry, logs *fakenet.LogCapture) {
	r := c.R
	rng := c.Rng
	n, t, v := cer.N, cer.T, cer.V
	r.Count("ceremonies_started", 1)
	r.Count("ceremonies_started_"+cer.Engine, 1)

	// half of the plain ceremonies run with two operators whose peer ids share a display name
	m, err := newMembers(rng, n, cer.Focus == "" && c.Idx%2 == 0)
	if err != nil {
		r.Inconclusive("case %d: identities: %v", c.Idx, err)
		return
	}
	if m.hasNamesakes {
		r.Count("ceremonies_with_namesake_operators", 1)
		r.Count("ceremonies_with_namesake_operators_"+cer.Engine, 1)
	}
	session := make([]byte, 32)
	rng.Read(session)
	// Schedule mode: the targeted re-delivery pattern gets a fixed share (it needs a specific
	// three-party order that the generic modes only hit by chance), the rest is uniform.
	// Every fourth case (by index; the list is shuffled) sees every message exactly once in one of
	// the 9 pure reordering modes: the only ceremonies for which a failure to complete is a violation.
	// The others: the two targeted duplicate patterns get fixed shares (they need a specific
	// three-party situation the generic modes only hit by chance), the rest is uniform, plus one of
	// the re-delivery profiles (immediate / after-later-round / late / mixed / concurrent).
	mode := rng.Intn(numModes - 2)
	dupProfile := dupNone
	if c.Idx%4 != 0 {
		seq := map[string]int{engFrost: 20, engPedersen: 10}[cer.Engine]
		conc := map[string]int{engFrost: 35, engPedersen: 10}[cer.Engine]
		switch x := rng.Intn(100); {
		case x < seq:
			mode = modeRedeliverTargeted
		case x < seq+conc:
			mode = modeConcurrentTargeted
		}
		dupProfile = 1 + rng.Intn(numDupProfiles-1)
	}
	// Per-receiver budget: the pedersen board queues node pubkeys in a channel of capacity n that
	// nobody drains after the collection, so fewer than n repeats per receiver keep its handler
	// from blocking; FROST filters repeats before queueing.
	dupBudget := 6 * n
	if cer.Engine == engPedersen {
		dupBudget = n - 1
	}
	dupAll := os.Getenv("C11_DUP_ALL") != "" // development aid, see report
	if cer.Focus == "concurrent" {
		mode = modeConcurrentTargeted
		dupProfile = rng.Intn(numDupProfiles)
	}
	var plan *faultPlan
	if cer.Focus == "fault" {
		mode, dupProfile = modeFaultHold, dupNone
		pm := rng.Perm(n)
		plan = &faultPlan{B: pm[0], C: pm[1], n: n, calls: map[string]int{}, K: 1 + rng.Intn(n-1), Round: 1 + rng.Intn(2)}
		plan.err, plan.ErrName = network.ErrReset, "network.ErrReset"
		if rng.Intn(10) < 3 {
			plan.err, plan.ErrName = network.ErrResourceScopeClosed, "network.ErrResourceScopeClosed"
		}
		x := rng.Intn(100)
		switch {
		case cer.Engine == engFrost && x < 45:
			plan.Kind = "msg"
		case cer.Engine == engFrost && x < 80:
			plan.Kind = "sig"
		case cer.Engine == engFrost:
			plan.Kind, plan.Round = "p2p", 0 // node aborts on both trees: nothing to hold
		case x < 60:
			plan.Kind, plan.Round = "bundle", 0 // retried by the real p2p.Sender: the ceremony should still complete
			plan.K = 1 + rng.Intn(3*(n-1))
		case x < 80:
			plan.Kind, plan.Round = "msg", 1 // pedersen has one reliable broadcast (node pubkeys)
		default:
			plan.Kind, plan.Round = "sig", 1
		}
	}
	var slow *slowPlan
	phase := pedersenPhase
	if cer.Focus == "slowlink" {
		mode, dupProfile = modeSlowLink, dupNone
		pm := rng.Perm(n)
		a := 0.33 + 0.1*rng.Float64()
		slow = &slowPlan{X: pm[0], Y: pm[1], Z: pm[2], J: rng.Intn(v - 1), P: slowPhase, A: a, B: a + 0.25 + 0.1*rng.Float64()}
		phase = slowPhase
	}
	var late *latePlan
	if cer.Focus == "latedeal" {
		mode, dupProfile = modeLateDeal, dupNone
		pm := rng.Perm(n)
		late = &latePlan{D: pm[0], V: pm[1], K: rng.Intn(v), P: slowPhase}
		phase = slowPhase
	}
	var ann *annPlan
	if cer.Focus == "lateann" {
		mode, dupProfile = modeLateAnnounce, dupNone
		pm := rng.Perm(n)
		ann = &annPlan{C: pm[0], B: pm[1], K: v - 1, P: annPhase} // the last validator: the ceremony ends right after
		phase = annPhase
	}
	stale := cer.Focus == "staledeal"
	if stale {
		// every message exactly once and in a PRNG order, plus the stale copies; short real phases so that
		// a node that (wrongly) lets a stale bundle through runs into its timers and finishes
		mode, dupProfile = rng.Intn(numModes-2), dupNone
		phase = slowPhase
	}
	patience := 30 * time.Second
	if cer.Engine == engPedersen {
		// board handlers block until the protocol goroutine takes the bundle
		patience = time.Duration(1+rng.Intn(8)) * time.Millisecond
	}
	sc := newSched(m.net, m.ids, r.Rand(c.Idx, 1), mode, patience, dupProfile, dupBudget, dupAll)
	sc.staleDeals = cer.Engine == engPedersen && v >= 2 && (stale || (dupProfile != dupNone && cer.Focus == ""))
	if cer.Engine == engFrost {
		sc.burst = 2
		if v, err := strconv.Atoi(os.Getenv("C11_BURST")); err == nil && v > 0 { // development aid
			sc.burst = v
		}
	}
	sc.slow, sc.late, sc.ann = slow, late, ann
	if slow != nil || late != nil || ann != nil || stale {
		sc.phaseP = phase
	}
	hostOf := func(i int) host.Host { return m.hosts[i] }
	if plan != nil {
		sc.flt = plan
		plan.onFire = sc.noteFault
		hostOf = func(i int) host.Host {
			if i == plan.B {
				return faultHost{Host: m.hosts[i], plan: plan}
			}

			return m.hosts[i]
		}
	}
	logStart := logs.Len()

	ctx, cancel := context.WithCancel(context.Background())
	defer cancel()

	// Build every node first (all handlers registered before anyone sends — in production the sync
	// protocol guarantees that), then start the real ceremony code of every node in its own goroutine.
	nodeFns := make([]func() ([]share.Share, error), n)
	for i := 0; i < n; i++ {
		i := i
		bc := bcast.New(hostOf(i), m.ids, m.keys[i], session)
		switch cer.Engine {
		case engFrost:
			tp, err := dkg.VerifNewFrostP2P(hostOf(i), m.peerMap, bc, t, v)
			if err != nil {
				r.Inconclusive("case %d: newFrostP2P: %v", c.Idx, err)
				sc.shutdown()

				return
			}
			dkgCtx := fmt.Sprintf("%#x", session)
			nodeFns[i] = func() ([]share.Share, error) {
				return dkg.VerifRunFrostParallel(ctx, tp, uint32(v), uint32(n), uint32(t), uint32(i+1), dkgCtx)
			}
		case engPedersen:
			cfg := pedersen.NewConfig(m.ids[i], m.peerMap, t, session, phase, nil)
			board := pedersen.NewBoard(ctx, hostOf(i), cfg, bc)
			// tag the node's log lines (kyber logs "Public polynomial missing - evicting dealer<idx>")
			nodeCtx := log.WithCtx(ctx, z.Str("c11node", fmt.Sprintf("c%d-n%d;", c.Idx, i)))
			nodeFns[i] = func() ([]share.Share, error) {
				return pedersen.RunDKG(nodeCtx, cfg, board, v)
			}
		}
	}
	go sc.run()

	results := make([][]share.Share, n)
	errs := make([]error, n)
	type nodeDone struct {
		i   int
		err error
	}
	doneCh := make(chan nodeDone, n)
	for _, i := range rng.Perm(n) {
		go func() {
			res, err := nodeFns[i]()
			results[i] = res // published by the channel send below
			sc.returned[i].Store(true)
			doneCh <- nodeDone{i, err}
		}()
	}

	// Wait for the ceremony. Outcomes: every node returned without error (-> oracle); a node
	// returned an error; nothing can move any more (all envelopes delivered, nothing sent) after a
	// receiving handler rejected an honest message; the generous watchdog fired (inconclusive).
	const (
		outOK = iota
		outNodeError
		outStuckRejected
		outTimeoutDrop
		outDupDeadlock
		outWatchdog
	)
	outcome := outOK
	remaining := n
	firstFailed := -1
	watchdog := ceremonyWatchdog
	if plan != nil || slow != nil || late != nil || ann != nil || stale {
		watchdog = faultWatchdog
	}
	wd := time.NewTimer(watchdog)
	tick := time.NewTicker(100 * time.Millisecond)
	lastSent, quietSince := int64(-1), time.Now()
wait:
	for remaining > 0 {
		select {
		case d := <-doneCh:
			remaining--
			errs[d.i] = d.err
			if d.err != nil {
				firstFailed, outcome = d.i, outNodeError

				break wait
			}
		case <-tick.C:
			if cer.Engine == engPedersen {
				// Recognised on the logical order of events alone, so no settling is needed: give up
				// on the ceremony at once (it is information only, see below).
				if _, _, _, ok := sc.pubkeyQueueOverfilled(n); ok {
					outcome = outDupDeadlock

					break wait
				}
			}
			if sent := sc.sent.Load(); sent != lastSent || !sc.allDelivered() {
				lastSent, quietSince = sent, time.Now()

				continue
			}
			if time.Since(quietSince) >= stuckSettle && len(handlerErrorsOf(logs, logStart, m)) > 0 {
				outcome = outStuckRejected

				break wait
			}
			if time.Since(quietSince) >= stuckSettle && droppedByTimeout(logs, logStart, m) > 0 {
				outcome = outTimeoutDrop

				break wait
			}
		case <-wd.C:
			outcome = outWatchdog

			break wait
		}
	}
	wd.Stop()
	tick.Stop()

	// abort cancels the ceremony and collects the remaining node goroutines (all but `leak` of them:
	// a node blocked in the pubkey self-send ignores its context and is left behind).
	abort := func(leak int, patience time.Duration) {
		cancel()
		to := time.NewTimer(patience)
		defer to.Stop()
		for remaining > leak {
			select {
			case d := <-doneCh:
				remaining--
				if errs[d.i] == nil {
					errs[d.i] = d.err
				}
			case <-to.C:
				leak = remaining
			}
		}
		if remaining > 0 {
			r.Count("node_goroutines_left_blocked", int64(remaining))
		}
		sc.shutdown()
	}

	if outcome != outOK {
		// Was any duplicate injected into this ceremony before it failed / stopped moving?
		underDup := sc.stats().RedelivTotal > 0
		faulted := plan != nil && plan.hasFired()
		if faulted {
			r.Count("transport_faults_fired", 1)
			r.Seen("fault_kinds", fmt.Sprintf("%s/%s/round%d/%s", cer.Engine, plan.Kind, plan.Round, plan.ErrName))
		}
		// Observe the state BEFORE cancelling anything: let the other nodes run until nothing moves
		// (only as long as the outcome can matter for a verdict).
		delivered := false
		switch {
		case outcome == outDupDeadlock:
		case underDup, faulted:
			delivered = quiesce(sc, 2*time.Second)
		default:
			delivered = quiesce(sc, 15*time.Second)
		}
		st := sc.stats()
		rejected := handlerErrorsOf(logs, logStart, m)
		dropped := droppedByTimeout(logs, logStart, m)
		var firstErr error
		if firstFailed >= 0 {
			firstErr = errs[firstFailed]
		}
		if os.Getenv("C11_DEBUG") != "" { // development aid: show what the real code logged
			for _, e := range logs.Since(logStart) {
				fmt.Fprintf(os.Stderr, "C11_DEBUG case %d: %s\n", c.Idx, kit.Short(e.Raw, 400))
			}
			for _, d := range sc.orderCopy(2000) {
				fmt.Fprintf(os.Stderr, "C11_DEBUG case %d deliver %d>%d %s\n", c.Idx, d.From, d.To, d.Class)
			}
		}
		dlNode, dlBefore, dlRepeats, dupDeadlock := sc.pubkeyQueueOverfilled(n)
		if cer.Engine != engPedersen || outcome == outNodeError {
			dupDeadlock = false
		}
		if dupDeadlock {
			abort(1, 2*time.Second)
		} else {
			abort(0, 10*time.Second)
		}
		w := map[string]any{"ceremony": cer, "case": c.Idx, "schedule": st, "all_delivered": delivered, "handler_errors": rejected,
			"first_failed_node": firstFailed, "node_errors_after_cancel": errStrings(errs), "deliveries": sc.orderCopy(300),
			"redelivery_deadlock": map[string]any{"detected": dupDeadlock, "node": dlNode, "round1_broadcasts_handled_before_own_broadcast_completed": dlBefore, "of_which_repeats_total": dlRepeats}}
		if plan != nil {
			w["fault"] = plan
			w["fault_fired"] = faulted
		}
		if slow != nil {
			w["slow_link"] = slow
			w["slow_link_report"] = sc.slowGuard(v)
		}
		switch {
		case stale:
			// Real phase timers were running: an aborted or hung ceremony gives no verdict.
			r.Count("ceremonies_no_verdict_stale_deal", 1)
			r.Seen("no_verdict_stale_deal_cases", fmt.Sprintf("case %d/%s outcome=%v", c.Idx, cer, outcome))
		case ann != nil:
			// An announcement missed its receiver's collect timeout: the receiver fails loudly on the
			// unchanged tree. A ceremony with a failing node gives no verdict.
			reason := "did-not-complete"
			switch {
			case outcome == outNodeError:
				reason = errClass(firstErr)
			case outcome == outWatchdog:
				reason = "watchdog"
			}
			r.Count("ceremonies_no_verdict_late_announcement", 1)
			r.Count(fmt.Sprintf("late_announcement_outcome/abort/node%v/%s", map[bool]string{true: "-B", false: "-other"}[firstFailed == ann.B], reason), 1)
			r.Set(fmt.Sprintf("late_announcement_report/case%d", c.Idx), map[string]any{"ceremony": cer.String(), "plan": ann, "outcome": "abort: " + reason,
				"first_failed_node": firstFailed, "node_errors": errStrings(errs)})
		case late != nil:
			// Real phase timers were running: an aborted or hung ceremony gives no verdict.
			reason := "did-not-complete"
			switch {
			case outcome == outNodeError:
				reason = errClass(firstErr)
			case outcome == outWatchdog:
				reason = "watchdog"
			}
			g := sc.lateGuard(v)
			r.Count("ceremonies_no_verdict_late_deal", 1)
			r.Count("late_deal_outcome/abort/"+reason, 1)
			r.Set(fmt.Sprintf("late_deal_report/case%d", c.Idx), map[string]any{"ceremony": cer.String(), "plan": late, "timing": g, "outcome": "abort: " + reason,
				"node_errors": errStrings(errs), "evictions": evictionsOf(logs, logStart, c.Idx)})
		case slow != nil:
			// Real phase timers were running: an aborted or hung slow-link ceremony gives no verdict.
			reason := "did-not-complete"
			switch {
			case outcome == outNodeError:
				reason = errClass(firstErr)
			case outcome == outWatchdog:
				reason = "watchdog"
			case dropped > 0:
				reason = "board-handler-dropped-bundle-after-receive-timeout"
			}
			g := sc.slowGuard(v)
			r.Count("ceremonies_no_verdict_slow_link", 1)
			r.Count(fmt.Sprintf("ceremonies_no_verdict_slow_link/failed/guard_ok=%v/%s", g.GuardOK, reason), 1)
			r.Seen("no_verdict_slow_link_cases", fmt.Sprintf("case %d/%s/J=%d/%s/guard_ok=%v", c.Idx, cer, slow.J, reason, g.GuardOK))
			r.Set("no_verdict_slow_link_example/failed", w)
		case faulted:
			// A transient stream failure was injected. The property allows the ceremony to abort
			// (on the unchanged tree a relay error on a reliable broadcast or share send makes the
			// node return an error and the others wait for it): no verdict, counted, never a violation.
			reason := "did-not-complete"
			switch {
			case outcome == outNodeError:
				reason = errClass(firstErr)
			case outcome == outWatchdog:
				reason = "watchdog"
			case outcome == outStuckRejected && len(rejected) > 0:
				reason = "stuck-after-handler-rejected-" + rejected[0].Class
			case dropped > 0:
				reason = "board-handler-dropped-bundle-after-receive-timeout"
			}
			r.Count("ceremonies_no_verdict_under_fault", 1)
			r.Count("ceremonies_no_verdict_under_fault/"+cer.Engine+"/"+plan.Kind+"/"+reason, 1)
			r.Seen("no_verdict_under_fault_cases", fmt.Sprintf("case %d/%s/%s-r%d-k%d/%s/%s", c.Idx, cer, plan.Kind, plan.Round, plan.K, plan.ErrName, reason))
			r.Set("no_verdict_under_fault_example/"+cer.Engine+"/"+plan.Kind, w)
		case underDup:
			// The property speaks about SUCCESSFUL ceremonies. A ceremony that fails or hangs while
			// duplicates were injected produces no keys: information only, never a violation, and not
			// part of the success-ratio denominator. (ceremony-failed stays a violation only when every
			// message was delivered exactly once.)
			reason := "did-not-complete"
			switch {
			case dupDeadlock:
				// pedersen board: n node_pubkeys broadcasts (n-1 peers + repeats) were handled before the
				// node's own broadcast completed; its unconditional self-send into the full queue blocks.
				reason = "node-pubkeys-queue-full-own-send-blocks"
			case outcome == outNodeError:
				reason = errClass(firstErr)
			case outcome == outStuckRejected && len(rejected) > 0:
				reason = "stuck-after-handler-rejected-" + rejected[0].Class
			case dropped > 0:
				reason = "board-handler-dropped-bundle-after-receive-timeout"
			case outcome == outWatchdog:
				reason = "watchdog"
			}
			r.Count("ceremonies_failed_under_redelivery", 1)
			r.Count("ceremonies_failed_under_redelivery/"+cer.Engine+"/"+reason, 1)
			r.Seen("failed_under_redelivery_cases", fmt.Sprintf("case %d/%s/%s/dup=%s/redeliveries=%d/%s", c.Idx, cer, st.Mode, st.DupProfile, st.RedelivTotal, reason))
			r.Set("failed_under_redelivery_example/"+cer.Engine+"/"+reason, w)
		case outcome == outNodeError && isRealTimeout(firstErr) && len(rejected) == 0:
			// The real code bounds its stream reads by wall-clock timeouts (p2p.SendReceive: 5 s).
			// On a loaded machine the harness-held envelope or the peer's answer can exceed them; a
			// forkjoin sibling then reports "context canceled". No handler rejected anything: this is
			// a ceremony that timed out, not a completed one - outside the property, discarded.
			r.Count("ceremonies_discarded_real_timeout", 1)
			r.Seen("discarded_timeout_errors", errClass(firstErr))
			r.Seen("discarded_ceremonies", fmt.Sprintf("case %d/%s/%s/dup=%s/held-cap-releases=%d/redeliveries=%d", c.Idx, cer, st.Mode, st.DupProfile, st.AgedOut, st.RedelivTotal))
		case (outcome == outTimeoutDrop || outcome == outWatchdog) && len(rejected) == 0 && dropped > 0:
			// A pedersen board handler gave up handing a bundle to the protocol goroutine after its
			// 5 s receive timeout ("Dropping ... context done"): wall-clock loss, not a reordering.
			r.Count("ceremonies_discarded_real_timeout", 1)
			r.Seen("discarded_timeout_errors", "board-handler-dropped-bundle-after-receive-timeout")
			r.Seen("discarded_ceremonies", fmt.Sprintf("case %d/%s/%s/dup=%s/held-cap-releases=%d/redeliveries=%d", c.Idx, cer, st.Mode, st.DupProfile, st.AgedOut, st.RedelivTotal))
		case outcome == outNodeError && delivered:
			r.Count("ceremonies_failed", 1)
			c.Violation("dkg/"+cer.Engine+"/ceremony-failed/"+errClass(firstErr),
				fmt.Sprintf("%s: node %d returned an error although all %d envelopes sent were delivered exactly once (only reordered): %v", cer, firstFailed, st.Sent, strings.TrimSpace(fmt.Sprint(firstErr))), w)
		case outcome == outStuckRejected && delivered:
			r.Count("ceremonies_stuck", 1)
			c.Violation("dkg/"+cer.Engine+"/ceremony-failed/stuck-after-honest-message-rejected/"+rejected[0].Class,
				fmt.Sprintf("%s: all %d envelopes were delivered exactly once, a receiving handler rejected an honest message (%s), nothing is in flight and no node can complete", cer, st.Sent, rejected[0].Err), w)
		default:
			r.Count("ceremonies_stuck", 1)
			r.Inconclusive("case %d (%s, %s): ceremony did not complete (outcome %d, first error %v, all delivered=%v, sent=%d delivered=%d, handler rejections=%d)",
				c.Idx, cer, st.Mode, outcome, firstErr, delivered, st.Sent, st.Delivered, len(rejected))
		}

		return
	}

	// All nodes returned without error. Let outstanding deliveries drain for the bookkeeping, then stop.
	delivered := kit.WaitUntil(10*time.Second, sc.allDelivered)
	st := sc.stats()
	hash := sc.orderHash()
	cancel()
	sc.shutdown()

	r.Count("ceremonies_succeeded", 1)
	r.Count("ceremonies_succeeded_"+cer.Engine, 1)
	if sc.staleDeals {
		sc.mu.Lock()
		r.Count("pedersen_stale_previous_validator_deals_redelivered", int64(sc.staleDealsSent))
		sc.mu.Unlock()
	}
	if plan != nil {
		if plan.hasFired() {
			r.Count("transport_faults_fired", 1)
			r.Count("ceremonies_succeeded_after_fault", 1)
			r.Count("ceremonies_succeeded_after_fault/"+cer.Engine+"/"+plan.Kind, 1)
			r.Seen("fault_hold_released_because", cer.Engine+"/"+plan.Kind+"/"+st.FaultHeld)
		} else {
			r.Count("fault_planned_but_not_reached", 1)
		}
		r.Seen("fault_kinds", fmt.Sprintf("%s/%s/round%d/%s", cer.Engine, plan.Kind, plan.Round, plan.ErrName))
	}
	r.Count("envelopes_delivered", st.Delivered)
	r.Count("delivery_inversions", int64(st.Inversions))
	r.Count("envelopes_released_by_hold_time_cap", int64(st.AgedOut))
	r.Count("redeliveries", int64(st.RedelivTotal))
	for k, v := range st.Redeliveries {
		r.Count("redeliveries_"+k, int64(v))
	}
	if st.RedelivTotal > 0 {
		r.Count("ceremonies_with_redelivery", 1)
	}
	r.Count("concurrent_duplicate_groups", int64(st.ConcGroups))
	r.Count("concurrent_duplicate_pairs", int64(st.ConcPairs))
	r.Count("concurrent_groups_lined_up_at_callback", int64(st.Barriers))
	r.Count("concurrent_duplicate_pairs_"+cer.Engine, int64(st.ConcPairs))
	if st.ConcPairs > 0 {
		r.Count("ceremonies_with_concurrent_duplicates", 1)
	}
	if st.Mode == modeNames[modeConcurrentTargeted] {
		r.Count("ceremonies_succeeded_targeted-concurrent", 1)
	}
	r.Count("targeted_redelivery_patterns", int64(st.TgtCompleted))
	if st.TgtCompleted > 0 {
		r.Count("targeted_patterns_"+st.Mode, int64(st.TgtCompleted))
	}
	r.Count("targeted_redelivery_patterns_"+cer.Engine, int64(st.TgtCompleted))
	r.Count("targeted_redelivery_abandoned", int64(st.TgtAbandoned))
	if st.TgtAbandoned > 0 {
		r.Seen("targeted_abandoned_cases", fmt.Sprintf("case %d/%s/dup=%s/redeliveries=%d/%s", c.Idx, cer, st.DupProfile, st.RedelivTotal, st.TgtWhy))
	}
	r.Seen("redelivery_profiles", cer.Engine+"/"+st.DupProfile)
	r.Count("round_overlap_deliveries", int64(st.RoundOverlap))
	if !delivered {
		r.Count("ceremonies_succeeded_with_undelivered_envelopes", 1)
	}
	r.Seen("configs", fmt.Sprintf("%s/n%d/t%d/v%d", cer.Engine, n, t, v))
	r.Seen("modes", cer.Engine+"/"+st.Mode)
	for cl := range st.Classes {
		r.Seen("message_classes", cer.Engine+"/"+cl)
	}

	// Slow-link / late-deal ceremonies: the measured guard only LABELS. The statement has no synchrony
	// assumption, so whenever every node reported success the output oracle applies; if some bundle
	// was handled by a node after that node's own phase deadline, every violation of the ceremony
	// carries the suffix below (a separate, known behaviour of the pedersen code), otherwise the
	// plain signature.
	const lateSuffix = "/a-bundle-reached-a-node-after-its-own-phase-deadline"
	sigSuffix := ""
	var timing any
	switch {
	case slow != nil:
		g := sc.slowGuard(v)
		timing = g
		r.Count("slow_link_ceremonies_completed", 1)
		if g.Placed {
			r.Count("slow_link_deal_placed_after_one_phase", 1)
		}
		if g.GuardOK {
			r.Count("slow_link_ceremonies_inside_model", 1)
		} else {
			sigSuffix = lateSuffix
			r.Count("slow_link_ceremonies_outside_model", 1)
			r.Seen("slow_link_outside_model_cases", fmt.Sprintf("case %d/%s/J=%d: %s", c.Idx, cer, slow.J, g.Why))
		}
		r.Set(fmt.Sprintf("slow_link_report/case%d", c.Idx), map[string]any{"ceremony": cer.String(), "plan": slow, "report": g})
		r.Sample(map[string]any{"ceremony": cer, "slow_link": slow, "report": g})
	case late != nil:
		g := sc.lateGuard(v)
		timing = g
		if !g.InsideModel {
			sigSuffix = lateSuffix
		}
	case stale:
		sc.mu.Lock()
		inside, why := sc.deadlineCheck(v, time.Time{})
		sent := sc.staleDealsSent
		sc.mu.Unlock()
		if !inside {
			sigSuffix = lateSuffix
		}
		timing = map[string]any{"stale_previous_validator_deals_redelivered": sent, "every_bundle_inside_receivers_own_deadline": inside, "guard_detail": why}
		r.Count("stale_deal_ceremonies_completed", 1)
		if sent > 0 {
			r.Count("stale_deal_ceremonies_completed_with_a_stale_copy_delivered", 1)
		}
	case ann != nil:
		// short real phase timers ran here too: label a deal/response that missed a phase deadline
		sc.mu.Lock()
		inside, why := sc.deadlineCheck(v, time.Time{})
		lateBy := sc.annLateBy
		sc.mu.Unlock()
		if !inside {
			sigSuffix = lateSuffix
		}
		timing = map[string]any{"announcement_handed_to_B_ms_after_B_collect_timeout": lateBy.Milliseconds(), "every_bundle_inside_receivers_own_deadline": inside, "guard_detail": why}
		r.Count("late_announcement_ceremonies_completed", 1)
	}
	ost := checkShares(c, cer, results, st, reg, sigSuffix)
	if ann != nil {
		out := "success with equal outputs"
		if ost.rejected {
			out = "success with DIVERGING outputs"
			r.Count("late_announcement_outcome/success-diverging", 1)
		} else {
			r.Count("late_announcement_outcome/success-equal", 1)
		}
		r.Set(fmt.Sprintf("late_announcement_report/case%d", c.Idx), map[string]any{"ceremony": cer.String(), "plan": ann, "timing": timing, "outcome": out})
	}
	if slow != nil || late != nil {
		ev := evictionsOf(logs, logStart, c.Idx)
		outcomeTxt := "success with equal outputs"
		if ost.rejected {
			var rules []string
			for k := range ost.rules {
				rules = append(rules, "dkg/"+cer.Engine+"/"+k)
			}
			sort.Strings(rules)
			outcomeTxt = "success with DIVERGING outputs: " + strings.Join(rules, ", ")
			for _, k := range rules {
				r.Seen("slow_or_late_violation_signatures", k)
			}
		}
		if late != nil {
			r.Count("late_deal_ceremonies_completed", 1)
			if ost.rejected {
				r.Count("late_deal_outcome/success-diverging", 1)
			} else {
				r.Count("late_deal_outcome/success-equal", 1)
			}
			r.Set(fmt.Sprintf("late_deal_report/case%d", c.Idx), map[string]any{"ceremony": cer.String(), "plan": late, "timing": timing, "outcome": outcomeTxt, "evictions": ev,
				"group_keys_per_node": groupKeys(results)})
		} else if ost.rejected || len(ev) > 0 {
			r.Set(fmt.Sprintf("slow_link_divergence/case%d", c.Idx), map[string]any{"ceremony": cer.String(), "plan": slow, "timing": timing, "outcome": outcomeTxt, "evictions": ev,
				"group_keys_per_node": groupKeys(results)})
		}
	}
	if st.Inversions > 0 {
		r.Count("reordered_ceremonies", 1)
		c.NonTrivial(kit.Hash(cer.Engine, n, t, v, hash))
	}
	if st.RoundOverlap > 0 {
		r.Count("ceremonies_with_round_overlap", 1)
	}
	r.Sample(map[string]any{"ceremony": cer, "schedule": st, "t_subsets_checked": ost.subsetsChecked, "subsets_exhaustive": ost.exhaustive,
		"group_key_v0": hex.EncodeToString(results[0][0].PubKey[:8]), "first_deliveries": sc.orderCopy(12)})
}

// evictionsOf returns the "evicting dealer" lines kyber logged in this ceremony as "node i: <msg>"
// (pedersen node contexts carry a c11node tag).
func evictionsOf(logs *fakenet.LogCapture, from, caseIdx int) []string {
	var out []string
	tag := fmt.Sprintf("c%d-n", caseIdx)
	for _, e := range logs.Since(from) {
		if !strings.Contains(e.Msg, "evicting dealer") && !strings.Contains(e.Msg, "Public polynomial missing") {
			continue
		}
		k := strings.Index(e.Raw, tag)
		if k < 0 {
			continue
		}
		node := e.Raw[k+len(tag):]
		if j := strings.Index(node, ";"); j >= 0 {
			node = node[:j]
		}
		out = append(out, fmt.Sprintf("node %s: %s", node, e.Msg))
	}

	return out
}

// groupKeys lists, per node, the first bytes of the group key of every validator.
func groupKeys(results [][]share.Share) []string {
	var out []string
	for i, res := range results {
		s := fmt.Sprintf("node %d:", i)
		for _, sh := range res {
			s += " " + hex.EncodeToString(sh.PubKey[:6])
		}
		out = append(out, s)
	}

	return out
}

// droppedByTimeout counts "Dropping <bundle>, context done" error lines of this ceremony's members
// (the board handlers log the sender's peer id in the "from" field).
func droppedByTimeout(logs *fakenet.LogCapture, from int, m *members) int {
	n := 0
	for _, e := range logs.Since(from) {
		if !strings.Contains(e.Msg, "Dropping") || !strings.Contains(e.Msg, "context done") {
			continue
		}
		for _, id := range m.ids {
			if strings.Contains(e.Raw, id.String()) {
				n++

				break
			}
		}
	}

	return n
}

// isRealTimeout recognises errors produced by the wall-clock stream timeouts of the real code (and
// the sibling cancellation forkjoin performs after one of them).
func isRealTimeout(err error) bool {
	if err == nil {
		return false
	}
	s := err.Error()

	return strings.Contains(s, "i/o timeout") || strings.Contains(s, "deadline exceeded") || strings.Contains(s, "context canceled")
}

// quiesce waits (at most d) until every sent envelope was delivered and nothing new was sent
// between two samples; pacing only.
func quiesce(sc *sched, d time.Duration) bool {
	deadline := time.Now().Add(d)
	for {
		a := sc.sent.Load()
		ok := sc.allDelivered()
		time.Sleep(200 * time.Millisecond)
		if ok && sc.allDelivered() && sc.sent.Load() == a {
			return true
		}
		if time.Now().After(deadline) {
			return false
		}
	}
}

func errStrings(errs []error) []string {
	out := make([]string, len(errs))
	for i, e := range errs {
		if e != nil {
			out[i] = kit.Short(e.Error(), 300)
		}
	}

	return out
}

type rejected struct {
	FromNode int    `json:"from_node"`
	Msg      string `json:"msg"`
	Err      string `json:"err"`
	Class    string `json:"class"`
}

// handlerErrorsOf returns the "P2P stream handler encountered an error" log entries whose remote
// peer is a member of this ceremony (peer names derive from the per-case identities).
func handlerErrorsOf(logs *fakenet.LogCapture, from int, m *members) []rejected {
	var out []rejected
	for _, e := range logs.HandlerErrors(from) {
		i, ok := m.names[e.Peer]
		if !ok {
			continue
		}
		txt := e.Err
		if txt == "" {
			txt = e.Msg
			if k := strings.Index(txt, ": "); k >= 0 {
				txt = txt[k+2:] // charon appends the handler's error after the fixed sentence
			}
		}
		out = append(out, rejected{FromNode: i, Msg: kit.Short(e.Msg, 200), Err: kit.Short(txt, 200), Class: errClass(fmt.Errorf("%s", txt))})
	}
	sort.Slice(out, func(i, j int) bool { return out[i].Class < out[j].Class })
	if len(out) > 20 {
		out = out[:20]
	}

	return out
}
