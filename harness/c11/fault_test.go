package c11

import (
	"context"
	"strings"
	"sync"

	"github.com/libp2p/go-libp2p/core/network"
	"github.com/libp2p/go-libp2p/core/peer"
	"github.com/libp2p/go-libp2p/core/protocol"

	"verifharness/fakenet"
)

// Transport-fault dimension: exactly one transient stream failure per ceremony, at one chosen
// stream of one node B, with a libp2p relay-type error (network.ErrReset or
// network.ErrResourceScopeClosed: what a recycled relay circuit looks like to the dialer;
// p2p.IsRelayError is true for both). Every later stream works. The property allows the ceremony to
// fail; what it forbids is nodes reporting success with disagreeing or incomplete outputs, so the
// oracle stays the output oracle on ceremonies in which every node returned without error.
//
// Fault kinds (stream = the NewStream call of node B for that protocol):
//
//	msg     the K-th message-delivery stream of B's round-R reliable broadcast (/bcast/.../msg)
//	sig     the K-th signature-request stream of B's round-R reliable broadcast (/bcast/.../sig)
//	p2p     the K-th FROST round-1 shamir-share stream of B
//	bundle  the K-th pedersen bundle stream of B (deal/response/justification/val_pubkey_share; the
//	        real p2p.Sender retries these once on relay errors)
type faultPlan struct {
	Kind    string `json:"kind"`
	B       int    `json:"faulted_node_B"`
	C       int    `json:"held_back_peer_C"`
	Round   int    `json:"round"`
	K       int    `json:"stream_ordinal"`
	ErrName string `json:"error"`

	n      int
	err    error
	mu     sync.Mutex
	calls  map[string]int
	fired  bool
	onFire func()
}

func streamKind(pid protocol.ID) string {
	p := string(pid)
	switch {
	case strings.HasSuffix(p, "/bcast/2.0.0/msg"):
		return "msg"
	case strings.HasSuffix(p, "/bcast/2.0.0/sig"):
		return "sig"
	case strings.Contains(p, "/frost/") && strings.HasSuffix(p, "round1/p2p"):
		return "p2p"
	case strings.Contains(p, "/pedersen/"):
		return "bundle"
	}

	return ""
}

// check is called for every stream node B opens; it returns the injected error exactly once.
func (p *faultPlan) check(pid protocol.ID) error {
	kind := streamKind(pid)
	if kind == "" {
		return nil
	}
	p.mu.Lock()
	p.calls[kind]++
	target := p.K
	if p.Kind == "msg" || p.Kind == "sig" {
		target = (p.Round-1)*(p.n-1) + p.K
	}
	fire := !p.fired && kind == p.Kind && p.calls[kind] == target
	if fire {
		p.fired = true
	}
	cb := p.onFire
	p.mu.Unlock()
	if !fire {
		return nil
	}
	if cb != nil {
		cb()
	}

	return p.err
}

func (p *faultPlan) hasFired() bool {
	p.mu.Lock()
	defer p.mu.Unlock()

	return p.fired
}

// faultHost is node B's host: the in-memory host with the one planned stream failure.
type faultHost struct {
	*fakenet.Host

	plan *faultPlan
}

// NewStream implements host.Host.
func (h faultHost) NewStream(ctx context.Context, p peer.ID, pids ...protocol.ID) (network.Stream, error) {
	if len(pids) > 0 {
		if err := h.plan.check(pids[0]); err != nil {
			return nil, err
		}
	}

	return h.Host.NewStream(ctx, p, pids...)
}
