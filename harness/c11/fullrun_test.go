package c11

import (
	"context"
	"encoding/json"
	"fmt"
	"math/rand"
	"os"
	"path"
	"strings"
	"sync"
	"time"

	"github.com/obolnetwork/charon/app/eth1wrap"
	"github.com/obolnetwork/charon/app/k1util"
	"github.com/obolnetwork/charon/app/log"
	"github.com/obolnetwork/charon/cluster"
	"github.com/obolnetwork/charon/dkg"
	"github.com/obolnetwork/charon/dkg/share"
	dkgsync "github.com/obolnetwork/charon/dkg/sync"
	"github.com/obolnetwork/charon/p2p"
	"github.com/obolnetwork/charon/tbls"
	"github.com/obolnetwork/charon/testutil"
	"github.com/obolnetwork/charon/testutil/relay"

	"verifharness/kit"
)

// fullRunMu serialises engine C ceremonies: each one starts a relay and n libp2p TCP hosts.
var fullRunMu sync.Mutex

// runFullCeremony is engine C: a complete dkg.Run per node (real libp2p over TCP loopback with an
// in-process relay, sync protocol, exchanger, lock signing) the way the repo's own dkg test drives
// it. The secret shares are read through TestConfig.StoreKeysFunc, group key and public shares
// from the cluster lock every node wrote. Delivery order is whatever the real network produces.
func runFullCeremony(c *kit.Case, cer ceremony, reg *keyRegistry) {
	fullRunMu.Lock()
	defer fullRunMu.Unlock()
	r := c.R
	t := r.T()
	n, th, v := cer.N, cer.T, cer.V
	algo := strings.TrimPrefix(cer.Engine, engFullRun+"-")
	r.Count("ceremonies_started", 1)
	r.Count("ceremonies_started_"+cer.Engine, 1)

	seed := 1 + c.Rng.Intn(1<<30)
	lock, keys, _ := cluster.NewForT(t, v, th, n, seed, rand.New(rand.NewSource(int64(seed))), //nolint:gosec // reproducible
		func(d *cluster.Definition) { d.DKGAlgorithm = algo; d.TargetGasLimit = 30000000 })
	def := lock.Definition
	if err := def.VerifySignatures(nil); err != nil {
		r.Inconclusive("case %d: generated definition does not verify: %v", c.Idx, err)
		return
	}

	ctx, cancel := context.WithCancel(context.Background())
	defer cancel()
	relayAddr := relay.StartRelay(ctx, t)
	dir := t.TempDir()

	var mu sync.Mutex
	stored := make([][]tbls.PrivateKey, n)
	errs := make([]error, n)
	var wg sync.WaitGroup
	for i := 0; i < n; i++ {
		b, _ := json.Marshal(def)
		var defClone cluster.Definition
		if err := json.Unmarshal(b, &defClone); err != nil {
			r.Inconclusive("case %d: clone definition: %v", c.Idx, err)
			return
		}
		conf := dkg.Config{
			DataDir: path.Join(dir, fmt.Sprintf("node%d", i)),
			P2P:     p2p.Config{Relays: []string{relayAddr}, TCPAddrs: []string{testutil.AvailableAddr(t).String()}},
			Log:     log.DefaultConfig(),
			TestConfig: dkg.TestConfig{
				Def: &defClone,
				StoreKeysFunc: func(secrets []tbls.PrivateKey, _ string) error {
					mu.Lock()
					stored[i] = append([]tbls.PrivateKey(nil), secrets...)
					mu.Unlock()

					return nil
				},
				SyncOpts: []func(*dkgsync.Client){dkgsync.WithPeriod(50 * time.Millisecond)},
			},
			ShutdownDelay:  time.Second,
			PublishTimeout: 30 * time.Second,
			Timeout:        time.Minute,
		}
		if err := os.MkdirAll(conf.DataDir, 0o755); err != nil {
			r.Inconclusive("case %d: mkdir: %v", c.Idx, err)
			return
		}
		if err := k1util.Save(keys[i], p2p.KeyPath(conf.DataDir)); err != nil {
			r.Inconclusive("case %d: save key: %v", c.Idx, err)
			return
		}
		wg.Add(1)
		go func() {
			defer wg.Done()
			errs[i] = dkg.Run(ctx, conf)
			if errs[i] != nil {
				cancel()
			}
		}()
		if i == 0 {
			time.Sleep(100 * time.Millisecond) // as in the repo's test: mitigates startup backoffs, not required
		}
	}
	finished := make(chan struct{})
	go func() { wg.Wait(); close(finished) }()
	wd := time.NewTimer(ceremonyWatchdog)
	defer wd.Stop()
	select {
	case <-finished:
	case <-wd.C:
		cancel()
		<-finished
		r.Inconclusive("case %d (%s): full dkg.Run did not finish within %s: %v", c.Idx, cer, ceremonyWatchdog, errStrings(errs))

		return
	}
	for i, e := range errs {
		if e != nil {
			// Real TCP + relay + real timers: a failure here is an environment observation, the
			// fakenet engines own the ceremony-failed rule.
			r.Count("fullrun_failed", 1)
			r.Inconclusive("case %d (%s): dkg.Run of node %d failed: %v", c.Idx, cer, i, kit.Short(e.Error(), 300))

			return
		}
	}

	// Build the per-node share.Share view from what each node persisted.
	results := make([][]share.Share, n)
	var locks []cluster.Lock
	for i := 0; i < n; i++ {
		b, err := os.ReadFile(path.Join(dir, fmt.Sprintf("node%d", i), "cluster-lock.json"))
		if err != nil {
			c.Violation("dkg/"+cer.Engine+"/lock-missing", fmt.Sprintf("%s: node %d finished without error but wrote no lock: %v", cer, i, err), map[string]any{"ceremony": cer, "node": i})
			return
		}
		var lk cluster.Lock
		if err := json.Unmarshal(b, &lk); err != nil {
			c.Violation("dkg/"+cer.Engine+"/lock-unreadable", fmt.Sprintf("%s: lock of node %d does not decode: %v", cer, i, err), map[string]any{"ceremony": cer, "node": i})
			return
		}
		if err := lk.VerifyHashes(); err != nil {
			c.Violation("dkg/"+cer.Engine+"/lock-hashes-invalid", fmt.Sprintf("%s: lock of node %d: %v", cer, i, err), map[string]any{"ceremony": cer, "node": i, "lock": string(b)})
		}
		if err := lk.VerifySignatures(eth1wrap.NewDefaultEthClientRunner("")); err != nil {
			c.Violation("dkg/"+cer.Engine+"/lock-signatures-invalid", fmt.Sprintf("%s: lock of node %d: %v", cer, i, err), map[string]any{"ceremony": cer, "node": i, "lock": string(b)})
		}
		locks = append(locks, lk)
		mu.Lock()
		secrets := stored[i]
		mu.Unlock()
		if len(secrets) != v || len(lk.Validators) != v {
			c.Violation("dkg/"+cer.Engine+"/share-count", fmt.Sprintf("%s: node %d stored %d secret shares, lock has %d validators, want %d", cer, i, len(secrets), len(lk.Validators), v), map[string]any{"ceremony": cer, "node": i})
			return
		}
		for val := 0; val < v; val++ {
			dv := lk.Validators[val]
			pk, err := dv.PublicKey()
			if err != nil {
				c.Violation("dkg/"+cer.Engine+"/lock-pubkey-invalid", fmt.Sprintf("%s: node %d validator %d: %v", cer, i, val, err), map[string]any{"ceremony": cer, "node": i})
				return
			}
			sh := share.Share{PubKey: pk, SecretShare: secrets[val], PublicShares: map[int]tbls.PublicKey{}}
			for pi := range dv.PubShares {
				ps, err := dv.PublicShare(pi)
				if err != nil {
					c.Violation("dkg/"+cer.Engine+"/lock-pubshare-invalid", fmt.Sprintf("%s: node %d validator %d share %d: %v", cer, i, val, pi, err), map[string]any{"ceremony": cer, "node": i})
					return
				}
				sh.PublicShares[pi+1] = ps
			}
			results[i] = append(results[i], sh)
		}
	}
	for i := 1; i < n; i++ {
		if string(locks[i].LockHash) != string(locks[0].LockHash) {
			c.Violation("dkg/"+cer.Engine+"/lock-hash-differs-across-nodes", fmt.Sprintf("%s: node %d wrote another lock hash than node 0", cer, i), map[string]any{"ceremony": cer, "node": i})
		}
	}
	r.Count("ceremonies_succeeded", 1)
	r.Count("ceremonies_succeeded_"+cer.Engine, 1)
	r.Seen("configs", fmt.Sprintf("%s/n%d/t%d/v%d", cer.Engine, n, th, v))
	checkShares(c, cer, results, "real libp2p/TCP order", reg, "")
}
