package c11

import "verifharness/kit"

func runFullCeremony(c *kit.Case, cer ceremony, reg *keyRegistry) {
	c.R.Count("fullrun_skipped", 1)
}
