package c11

import (
	"fmt"
	"math/rand"
	"path"
	"sort"
	"strings"
	"sync"
	"sync/atomic"
	"time"

	"github.com/libp2p/go-libp2p/core/peer"

	pb "github.com/obolnetwork/charon/dkg/dkgpb/v1"

	"verifharness/fakenet"
)

// Delivery schedules. Every envelope any node sends is held by the fakenet policy and released by
// one scheduler goroutine that owns all ordering decisions (PRNG of the case). Nothing is ever
// dropped or duplicated: this check is about the result of ceremonies whose messages all arrive,
// in whatever order.
const (
	modeEagerRandom   = iota // whenever something is pending, deliver a uniformly chosen envelope
	modeEagerLIFO            // always the most recently sent envelope first
	modeBatchShuffle         // let the pool settle, then deliver the whole batch in random order
	modeBatchReverse         // let the pool settle, then deliver the batch newest-first
	modeLaggardSender        // one node's outgoing envelopes are released only when nothing else moves
	modeLaggardRecv          // one node's incoming envelopes are released only when nothing else moves
	modeClassPriority        // random strict priority between message classes (sig/msg of each id, p2p)
	modeRecvPriority         // random strict priority between receivers: one node races ahead
	modeSendPriority         // random strict priority between senders
	numModes
)

// maxHold caps how long the scheduler keeps one envelope back (real time, pacing only).
const maxHold = 800 * time.Millisecond

var modeNames = [...]string{"eager-random", "eager-lifo", "batch-shuffle", "batch-reverse", "laggard-sender",
	"laggard-receiver", "class-priority", "receiver-priority", "sender-priority"}

type delivery struct {
	Seq   int64  `json:"seq"`
	From  int    `json:"from"`
	To    int    `json:"to"`
	Class string `json:"class"`
}

type sched struct {
	net      *fakenet.Net
	idx      map[peer.ID]int
	rng      *rand.Rand // scheduler goroutine only
	mode     int
	victim   int
	settle   time.Duration
	patience time.Duration
	prio     map[string]int // class / node priority (scheduler goroutine only)
	nodePrio []int

	sent atomic.Int64
	done atomic.Int64
	born sync.Map // *fakenet.Envelope -> time.Time of the send (hold-time cap)
	wake chan struct{}
	stop chan struct{}
	fin  chan struct{}

	mu           sync.Mutex
	order        []delivery
	started      int64
	inversions   int
	roundOverlap int // a later-round envelope delivered while an earlier-round envelope was pending
	leftInFlight int
	agedOut      int
	maxSeq       int64
	maxPool      int
	classes      map[string]int
}

func newSched(net *fakenet.Net, ids []peer.ID, rng *rand.Rand, mode int, patience time.Duration) *sched {
	s := &sched{
		net: net, idx: map[peer.ID]int{}, rng: rng, mode: mode, patience: patience,
		prio: map[string]int{}, wake: make(chan struct{}, 1), stop: make(chan struct{}), fin: make(chan struct{}),
		classes: map[string]int{},
	}
	for i, id := range ids {
		s.idx[id] = i
	}
	s.victim = rng.Intn(len(ids))
	s.nodePrio = rng.Perm(len(ids))
	s.settle = []time.Duration{200 * time.Microsecond, time.Millisecond, 4 * time.Millisecond}[rng.Intn(3)]
	net.SetPolicy(func(e *fakenet.Envelope) fakenet.Verdict {
		s.born.Store(e, time.Now())
		s.sent.Add(1)
		s.poke()

		return fakenet.Hold
	})

	return s
}

func (s *sched) poke() {
	select {
	case s.wake <- struct{}{}:
	default:
	}
}

// classOf names the kind of message an envelope carries: protocol plus, for reliable-broadcast
// envelopes, the broadcast message id (round1/cast, round2/cast, node_pubkeys, …).
func classOf(e *fakenet.Envelope) string {
	p := string(e.Proto)
	switch {
	case strings.HasSuffix(p, "/bcast/2.0.0/sig"):
		var m pb.BCastSigRequest
		if fakenet.Unframe(e.Data, &m) == nil {
			return "sig:" + shortID(m.GetId())
		}

		return "sig:?"
	case strings.HasSuffix(p, "/bcast/2.0.0/msg"):
		var m pb.BCastMessage
		if fakenet.Unframe(e.Data, &m) == nil {
			return "msg:" + shortID(m.GetId())
		}

		return "msg:?"
	case strings.Contains(p, "/frost/"):
		return "p2p:" + shortID(p)
	default:
		return "p2p:" + path.Base(p)
	}
}

func shortID(id string) string {
	parts := strings.Split(strings.Trim(id, "/"), "/")
	if len(parts) >= 2 && strings.HasPrefix(parts[len(parts)-2], "round") {
		return parts[len(parts)-2] + "/" + parts[len(parts)-1]
	}

	return parts[len(parts)-1]
}

// roundOf orders message classes by protocol round (0 = unknown).
func roundOf(class string) int {
	switch {
	case strings.Contains(class, "round1"), strings.Contains(class, "node_pubkeys"):
		return 1
	case strings.Contains(class, "round2"), strings.Contains(class, "deal_bundle"):
		return 2
	case strings.Contains(class, "resp_bundle"):
		return 3
	case strings.Contains(class, "just_bundle"):
		return 4
	case strings.Contains(class, "val_pubkey_share"):
		return 5
	}

	return 0
}

func (s *sched) heldBack(e *fakenet.Envelope) bool {
	switch s.mode {
	case modeLaggardSender:
		return s.idx[e.From] == s.victim
	case modeLaggardRecv:
		return s.idx[e.To] == s.victim
	}

	return false
}

func (s *sched) classPrio(class string) int {
	p, ok := s.prio[class]
	if !ok {
		p = s.rng.Intn(1 << 20)
		s.prio[class] = p
	}

	return p
}

// run is the scheduler goroutine.
func (s *sched) run() {
	defer close(s.fin)
	// "settled" = no envelope was sent and no handler returned for a while. Deliveries that are
	// still blocked inside a handler (pedersen board) do not count as movement: waiting for them
	// would turn the 5 s receive timeout of the real handlers into part of the schedule.
	lastSent, lastDone, lastChange := int64(-1), int64(-1), time.Now()
	var batch []*fakenet.Envelope // remaining envelopes of the batch being delivered (batch modes)
	for {
		select {
		case <-s.stop:
			return
		default:
		}
		if v, d := s.sent.Load(), s.done.Load(); v != lastSent || d != lastDone {
			lastSent, lastDone, lastChange = v, d, time.Now()
		}
		settled := func(d time.Duration) bool { return time.Since(lastChange) >= d }

		if len(batch) > 0 {
			e := batch[0]
			batch = batch[1:]
			s.deliver(e)

			continue
		}

		pend := s.net.Pending()
		s.mu.Lock()
		if len(pend) > s.maxPool {
			s.maxPool = len(pend)
		}
		s.mu.Unlock()
		// Hold-time cap (pacing only): the real code has real-time timeouts on its streams (5 s for a
		// bcast signature response, 5 s for a board handler to hand over a bundle). An envelope that
		// has waited maxHold is delivered next whatever the mode says, so that the schedule reorders
		// messages without turning into a multi-second network outage on a loaded machine.
		var oldest *fakenet.Envelope
		var oldestAge time.Duration
		for _, e := range pend {
			if b, ok := s.born.Load(e); ok {
				if age := time.Since(b.(time.Time)); age > oldestAge {
					oldest, oldestAge = e, age
				}
			}
		}
		if oldest != nil && oldestAge > maxHold {
			s.mu.Lock()
			s.agedOut++
			s.mu.Unlock()
			s.deliver(oldest)

			continue
		}
		var elig, held []*fakenet.Envelope
		for _, e := range pend {
			if s.heldBack(e) {
				held = append(held, e)
			} else {
				elig = append(elig, e)
			}
		}
		if len(elig) == 0 {
			if len(held) > 0 && settled(5*s.settle+2*time.Millisecond) {
				// nothing else moves: the laggard's envelopes are released (random order)
				s.rng.Shuffle(len(held), func(i, j int) { held[i], held[j] = held[j], held[i] })
				batch = held

				continue
			}
			s.idle()

			continue
		}

		switch s.mode {
		case modeEagerRandom, modeLaggardSender, modeLaggardRecv:
			s.deliver(elig[s.rng.Intn(len(elig))])
		case modeEagerLIFO:
			s.deliver(elig[len(elig)-1])
		case modeBatchShuffle, modeBatchReverse:
			if !settled(s.settle) {
				s.idle()

				continue
			}
			if s.mode == modeBatchShuffle {
				s.rng.Shuffle(len(elig), func(i, j int) { elig[i], elig[j] = elig[j], elig[i] })
			} else {
				sort.Slice(elig, func(i, j int) bool { return elig[i].Seq > elig[j].Seq })
			}
			batch = elig
		case modeClassPriority, modeRecvPriority, modeSendPriority:
			if !settled(s.settle) {
				s.idle()

				continue
			}
			best, bestP := -1, -1
			for _, i := range s.rng.Perm(len(elig)) {
				var p int
				switch s.mode {
				case modeClassPriority:
					p = s.classPrio(classOf(elig[i]))
				case modeRecvPriority:
					p = s.nodePrio[s.idx[elig[i].To]]
				default:
					p = s.nodePrio[s.idx[elig[i].From]]
				}
				if p > bestP {
					best, bestP = i, p
				}
			}
			s.deliver(elig[best])
		}
	}
}

func (s *sched) idle() {
	t := time.NewTimer(150 * time.Microsecond)
	select {
	case <-s.wake:
	case <-t.C:
	case <-s.stop:
	}
	t.Stop()
}

// deliver hands e to its recipient's registered handler (the path a real stream takes) and waits
// for the handler to return, at most `patience` (handlers of the pedersen board may block until
// the protocol goroutine consumes the bundle; the scheduler must then go on delivering).
func (s *sched) deliver(e *fakenet.Envelope) {
	if !s.net.Take(e) {
		return
	}
	s.born.Delete(e)
	class := classOf(e)
	rd := roundOf(class)
	overlap := false
	if rd > 0 {
		for _, p := range s.net.Pending() {
			if r := roundOf(classOf(p)); r > 0 && r < rd {
				overlap = true

				break
			}
		}
	}
	s.mu.Lock()
	s.started++
	s.order = append(s.order, delivery{Seq: e.Seq, From: s.idx[e.From], To: s.idx[e.To], Class: class})
	if e.Seq < s.maxSeq {
		s.inversions++
	} else {
		s.maxSeq = e.Seq
	}
	if overlap {
		s.roundOverlap++
	}
	s.classes[class]++
	s.mu.Unlock()

	ch := make(chan struct{})
	go func() {
		s.net.Deliver(e)
		s.done.Add(1)
		close(ch)
		s.poke()
	}()
	t := time.NewTimer(s.patience)
	select {
	case <-ch:
	case <-t.C:
		s.mu.Lock()
		s.leftInFlight++
		s.mu.Unlock()
	case <-s.stop:
	}
	t.Stop()
}

// allDelivered reports whether every envelope sent so far was handed to its recipient and the
// recipient's handler has returned.
func (s *sched) allDelivered() bool {
	return len(s.net.Pending()) == 0 && s.sent.Load() == s.done.Load()
}

// shutdown stops the scheduler and releases anything still held (duplex senders see EOF).
func (s *sched) shutdown() {
	close(s.stop)
	<-s.fin
	s.net.SetPolicy(func(*fakenet.Envelope) fakenet.Verdict { return fakenet.Drop })
	for _, e := range s.net.Pending() {
		if s.net.Take(e) {
			s.net.DropEnvelope(e)
		}
	}
}

type schedStats struct {
	Mode         string         `json:"mode"`
	Victim       int            `json:"victim"`
	Sent         int64          `json:"sent"`
	Delivered    int64          `json:"delivered"`
	Inversions   int            `json:"inversions"`
	RoundOverlap int            `json:"round_overlap"`
	LeftInFlight int            `json:"left_in_flight"`
	AgedOut      int            `json:"released_by_hold_time_cap"`
	MaxPool      int            `json:"max_pool"`
	Classes      map[string]int `json:"classes"`
}

func (s *sched) stats() schedStats {
	s.mu.Lock()
	defer s.mu.Unlock()
	cl := map[string]int{}
	for k, v := range s.classes {
		cl[k] = v
	}

	return schedStats{Mode: modeNames[s.mode], Victim: s.victim, Sent: s.sent.Load(), Delivered: s.done.Load(),
		Inversions: s.inversions, RoundOverlap: s.roundOverlap, LeftInFlight: s.leftInFlight, AgedOut: s.agedOut, MaxPool: s.maxPool, Classes: cl}
}

// orderHash identifies the schedule: the sequence of (from, to, class) deliveries.
func (s *sched) orderHash() string {
	s.mu.Lock()
	defer s.mu.Unlock()
	var b strings.Builder
	for _, d := range s.order {
		fmt.Fprintf(&b, "%d>%d:%s;", d.From, d.To, d.Class)
	}

	return b.String()
}

func (s *sched) orderCopy(max int) []delivery {
	s.mu.Lock()
	defer s.mu.Unlock()
	o := s.order
	if len(o) > max {
		o = o[:max]
	}

	return append([]delivery(nil), o...)
}
