package c11

import (
	"fmt"
	"math/rand"
	"path"
	"sort"
	"strings"
	"sync"
	"sync/atomic"
	"time"

	"github.com/libp2p/go-libp2p/core/peer"

	pb "github.com/obolnetwork/charon/dkg/dkgpb/v1"

	"verifharness/fakenet"
)

// Delivery schedules. Every envelope any node sends is held by the fakenet policy and released by
// one scheduler goroutine that owns all ordering decisions (PRNG of the case). Nothing is ever
// dropped: this check is about the result of ceremonies whose messages all arrive, in whatever
// order. One-way reliable-broadcast messages (/bcast/.../msg) may additionally be RE-DELIVERED
// (byte-identical clones, see the dup* profiles): the real code carries explicit duplicate filters
// for them, so retransmission is part of its network model.
const (
	modeEagerRandom   = iota // whenever something is pending, deliver a uniformly chosen envelope
	modeEagerLIFO            // always the most recently sent envelope first
	modeBatchShuffle         // let the pool settle, then deliver the whole batch in random order
	modeBatchReverse         // let the pool settle, then deliver the batch newest-first
	modeLaggardSender        // one node's outgoing envelopes are released only when nothing else moves
	modeLaggardRecv          // one node's incoming envelopes are released only when nothing else moves
	modeClassPriority        // random strict priority between message classes (sig/msg of each id, p2p)
	modeRecvPriority         // random strict priority between receivers: one node races ahead
	modeSendPriority         // random strict priority between senders
	// modeRedeliverTargeted: at one receiver B the round-1 broadcast of a laggard sender C is kept
	// back; as soon as a later-round one-way message of some faster sender A was handled by B
	// (B is still in round 1), A's round-1 broadcast is delivered to B a second time; then C's
	// broadcast is released. Everything else is delivered in eager random order.
	modeRedeliverTargeted
	// modeConcurrentTargeted: at every receiver B != C, the round-R broadcast of a laggard sender C is
	// kept back until the round-R broadcasts of all other senders were handled by B, each of them delivered
	// as a CONCURRENT group (original + 1..3 byte-identical copies released together from separate
	// goroutines, so that B's handlers for the same broadcast overlap, as libp2p streams do). A
	// duplicate that slipped through a non-atomic filter would be counted in place of C. Both rounds.
	modeConcurrentTargeted
	numModes // the modes above are picked by the PRNG

	// modeFaultHold (transport-fault ceremonies, see fault_test.go): eager random order, except that
	// peer C's round-R broadcast is kept from the faulted node B until B's retried broadcast was seen
	// on the wire and all other peers' round-R broadcasts were handled by B, and then until B is seen
	// to move on (round-2 signature request on the wire / B returned) or a short bounded delay passed.
	modeFaultHold = numModes
	// modeSlowLink (pedersen, short real phase timer): eager random order, except for three messages
	// on two links that are delayed by less than a phase each, see slowlink_test.go.
	modeSlowLink = numModes + 1
	// modeLateDeal (pedersen, short real phase timer): eager random order, except that one dealer's
	// deal bundle reaches one node just after that node's own deal deadline, see latePlan.
	modeLateDeal = numModes + 2
	// modeLateAnnounce (pedersen, short real phase timer): eager random order, except that one
	// val_pubkey_share announcement is delivered after its receiver's collect timeout, see annPlan.
	modeLateAnnounce = numModes + 3
)

// Re-delivery profiles (overlay on every mode): when clones of already delivered one-way
// broadcast messages are delivered again.
const (
	dupNone       = iota
	dupImmediate  // right after the original
	dupAfterLater // after a later-round message of the same sender was delivered to the same receiver
	dupLate       // at random later points and while the network is idle
	dupMixed      // all of the above
	dupConcurrent // every broadcast message is delivered as a concurrent group (see deliver)
	numDupProfiles
)

var dupNames = [...]string{"none", "immediate", "after-later-round", "late", "mixed", "concurrent"}

// targetedHoldCap bounds how long the targeted mode keeps C's broadcast back (pacing only; a
// one-way message held back trips no real-time timeout of the code under test).
const targetedHoldCap = 30 * time.Second

// dupRec is a delivered one-way envelope that may be delivered again.
type dupRec struct {
	env      *fakenet.Envelope
	class    string
	round    int
	from, to int
	times    int
}

type redoItem struct {
	rec  *dupRec
	kind string
}

// maxHold caps how long the scheduler keeps one envelope back (real time, pacing only).
const maxHold = 800 * time.Millisecond

var modeNames = [...]string{"eager-random", "eager-lifo", "batch-shuffle", "batch-reverse", "laggard-sender",
	"laggard-receiver", "class-priority", "receiver-priority", "sender-priority", "targeted-redelivery", "targeted-concurrent", "fault-hold", "slow-link", "late-deal", "late-announcement"}

type delivery struct {
	Seq   int64  `json:"seq"`
	From  int    `json:"from"`
	To    int    `json:"to"`
	Class string `json:"class"`
}

type sched struct {
	net      *fakenet.Net
	idx      map[peer.ID]int
	rng      *rand.Rand // scheduler goroutine only
	mode     int
	victim   int
	settle   time.Duration
	patience time.Duration
	prio     map[string]int // class / node priority (scheduler goroutine only)
	nodePrio []int

	// re-delivery state (scheduler goroutine only)
	dupProfile int
	dupAll     bool // development aid: also re-deliver one-way p2p envelopes, not only /bcast/msg
	// staleDeals (pedersen, >= 2 validators, re-delivery allowed): while a node collects the deal
	// bundles of validator k+1, a byte-identical copy of another dealer's deal bundle of validator k
	// reaches it again (a late retransmission: p2p.Sender re-sends after stream errors). A copy of an
	// earlier run must stay filtered out whatever run the receiver is in (seeded change C11-r8).
	staleDeals     bool
	staleDealsSent int
	dealCount      map[[2]int]int     // (to, from) -> deal bundles delivered so far
	lastDeal       map[[2]int]*dupRec // (to, from) -> the last delivered deal bundle
	dupBudget      int                // max re-deliveries per receiver
	dupUsed        map[int]int
	recs           []*dupRec
	redo           []redoItem
	classCache     map[*fakenet.Envelope]string
	tgtB, tgtC     int
	tgtA           int
	tgtPhase       int // 0 = C's broadcast to B is kept back, 1 = released
	tgtSince       time.Time
	dupDone        atomic.Int64
	ctick          atomic.Int64    // logical clock of handler entry/exit (overlap measurement)
	msgDone        map[[3]int]bool // {to, round, from}: that broadcast message was handled (scheduler goroutine only)
	p2pDone        map[[2]int]bool // {to, from}: the FROST round-1 p2p share was handled
	burst          int             // copies per concurrent group at the targeted receiver (0: 1..3 as everywhere)
	msgDur         time.Duration   // running estimate of one broadcast handler execution (scheduler goroutine only)
	slow           *slowPlan       // slow-link mode
	late           *latePlan       // late-deal mode
	ann            *annPlan        // late-announcement mode
	phaseP         time.Duration   // real phase duration of the ceremony (slow-link / late-deal bookkeeping when > 0)
	// transport-fault mode
	flt      *faultPlan
	fltSince time.Time     // C's broadcast first seen held
	fltCond  time.Time     // release conditions first seen true
	returned []atomic.Bool // node i's ceremony function returned (set by the driver)
	nNodes   int

	sent atomic.Int64
	done atomic.Int64
	born sync.Map // *fakenet.Envelope -> time.Time of the send (hold-time cap)
	wake chan struct{}
	stop chan struct{}
	fin  chan struct{}

	mu           sync.Mutex
	order        []delivery
	started      int64
	inversions   int
	roundOverlap int // a later-round envelope delivered while an earlier-round envelope was pending
	leftInFlight int
	agedOut      int
	dupStarted   int64
	redeliv      map[string]int // kind -> count
	tgtCompleted int
	tgtAbandoned int
	tgtWhy       string
	concGroups   int         // concurrent groups delivered
	concPairs    int         // pairs of copies of one message whose handler executions overlapped
	barriers     int         // concurrent groups lined up by protoBarrier
	fltMsgSends  map[int]int // round -> broadcast messages node B put on the wire
	fltNeed      int         // B's round-R message count that proves the retried broadcast is out
	fltSigR2     bool        // B's round-2 signature request was seen on the wire
	fltReleased  string      // why C's broadcast was released
	// slow-link bookkeeping
	slowCount      map[[3]int]int
	slowOrd        map[*fakenet.Envelope]int
	slowStart      map[[2]int]time.Time // {node, validator} -> first deal bundle of that validator on the wire
	slowEv         map[[3]int]*slowEvt
	slowPubkeySent map[int]time.Time // node -> its last node_pubkeys broadcast message left
	slowDealSent   time.Time
	slowDealDone   time.Time
	slowShareLate  bool
	lateOthersDone time.Time
	shareSent      map[[2]int]time.Time // {node, validator} -> its first val_pubkey_share of that validator on the wire
	annLateBy      time.Duration        // how long after B's collect timeout the announcement was handed to B
	slowDelayed    int

	// logical clock over sends and completed deliveries (pedersen pubkey-channel analysis)
	tick        int64
	r1LastSend  map[int]int64   // node -> tick of its last round-1 broadcast message send
	r1Sends     map[int]int     // node -> number of round-1 broadcast messages it sent
	r2Sends     map[int]int     // node -> number of later-round one-way envelopes it sent
	r1Delivered map[int][]int64 // node -> ticks at which a round-1 broadcast (original or repeat) had been handled by it
	r1DupsTo    map[int]int
	maxSeq      int64
	maxPool     int
	classes     map[string]int
}

func newSched(net *fakenet.Net, ids []peer.ID, rng *rand.Rand, mode int, patience time.Duration, dupProfile, dupBudget int, dupAll bool) *sched {
	s := &sched{
		net: net, idx: map[peer.ID]int{}, rng: rng, mode: mode, patience: patience,
		prio: map[string]int{}, wake: make(chan struct{}, 1), stop: make(chan struct{}), fin: make(chan struct{}),
		classes: map[string]int{}, dupProfile: dupProfile, dupBudget: dupBudget, dupAll: dupAll, dupUsed: map[int]int{},
		classCache: map[*fakenet.Envelope]string{}, redeliv: map[string]int{}, tgtA: -1, msgDone: map[[3]int]bool{}, p2pDone: map[[2]int]bool{}, nNodes: len(ids),
		fltMsgSends: map[int]int{}, returned: make([]atomic.Bool, len(ids)),
		slowCount: map[[3]int]int{}, slowOrd: map[*fakenet.Envelope]int{}, slowStart: map[[2]int]time.Time{}, shareSent: map[[2]int]time.Time{}, slowEv: map[[3]int]*slowEvt{}, slowPubkeySent: map[int]time.Time{},
		r1LastSend: map[int]int64{}, r1Sends: map[int]int{}, r2Sends: map[int]int{}, r1Delivered: map[int][]int64{}, r1DupsTo: map[int]int{},
	}
	// targeted mode: receiver B and laggard sender C (distinct); A is whoever is fast
	pm := rng.Perm(len(ids))
	s.tgtB, s.tgtC = pm[0], pm[1]
	for i, id := range ids {
		s.idx[id] = i
	}
	s.victim = rng.Intn(len(ids))
	s.nodePrio = rng.Perm(len(ids))
	s.settle = []time.Duration{200 * time.Microsecond, time.Millisecond, 4 * time.Millisecond}[rng.Intn(3)]
	net.SetPolicy(func(e *fakenet.Envelope) fakenet.Verdict {
		now := time.Now()
		s.born.Store(e, now)
		if s.phaseP > 0 {
			s.slowNote(e, now)
			if classOf(e) == "msg:node_pubkeys" {
				s.mu.Lock()
				s.slowPubkeySent[s.idx[e.From]] = now
				s.mu.Unlock()
			}
		}
		if f := s.flt; f != nil && s.idx[e.From] == f.B {
			cl := classOf(e)
			s.mu.Lock()
			if strings.HasPrefix(cl, "msg:") {
				s.fltMsgSends[roundOf(cl)]++
			} else if cl == "sig:round2/cast" {
				s.fltSigR2 = true
			}
			s.mu.Unlock()
		}
		if !e.Duplex {
			cl := classOf(e)
			s.mu.Lock()
			s.tick++
			if isRound1Msg(cl) {
				s.r1LastSend[s.idx[e.From]] = s.tick
				s.r1Sends[s.idx[e.From]]++
			} else if roundOf(cl) > 1 {
				s.r2Sends[s.idx[e.From]]++
			}
			s.mu.Unlock()
		}
		s.sent.Add(1)
		s.poke()

		return fakenet.Hold
	})

	return s
}

func (s *sched) poke() {
	select {
	case s.wake <- struct{}{}:
	default:
	}
}

// classOf names the kind of message an envelope carries: protocol plus, for reliable-broadcast
// envelopes, the broadcast message id (round1/cast, round2/cast, node_pubkeys, …).
func classOf(e *fakenet.Envelope) string {
	p := string(e.Proto)
	switch {
	case strings.HasSuffix(p, "/bcast/2.0.0/sig"):
		var m pb.BCastSigRequest
		if fakenet.Unframe(e.Data, &m) == nil {
			return "sig:" + shortID(m.GetId())
		}

		return "sig:?"
	case strings.HasSuffix(p, "/bcast/2.0.0/msg"):
		var m pb.BCastMessage
		if fakenet.Unframe(e.Data, &m) == nil {
			return "msg:" + shortID(m.GetId())
		}

		return "msg:?"
	case strings.Contains(p, "/frost/"):
		return "p2p:" + shortID(p)
	default:
		return "p2p:" + path.Base(p)
	}
}

func shortID(id string) string {
	parts := strings.Split(strings.Trim(id, "/"), "/")
	if len(parts) >= 2 && strings.HasPrefix(parts[len(parts)-2], "round") {
		return parts[len(parts)-2] + "/" + parts[len(parts)-1]
	}

	return parts[len(parts)-1]
}

// roundOf orders message classes by protocol round (0 = unknown).
func roundOf(class string) int {
	switch {
	case strings.Contains(class, "round1"), strings.Contains(class, "node_pubkeys"):
		return 1
	case strings.Contains(class, "round2"), strings.Contains(class, "deal_bundle"):
		return 2
	case strings.Contains(class, "resp_bundle"):
		return 3
	case strings.Contains(class, "just_bundle"):
		return 4
	case strings.Contains(class, "val_pubkey_share"):
		return 5
	}

	return 0
}

// class is classOf with a per-envelope cache (scheduler goroutine only).
func (s *sched) class(e *fakenet.Envelope) string {
	c, ok := s.classCache[e]
	if !ok {
		c = classOf(e)
		s.classCache[e] = c
	}

	return c
}

// isRound1Msg: a first-round reliable-broadcast message (FROST round1/cast, pedersen node_pubkeys).
func isRound1Msg(class string) bool { return strings.HasPrefix(class, "msg:") && roundOf(class) == 1 }

// noteFault is the fault plan's callback: it fixes how many round-R messages of B on the wire
// prove that B's retried broadcast went out (those of the failed attempt plus n-1).
func (s *sched) noteFault() {
	s.mu.Lock()
	s.fltNeed = s.fltMsgSends[s.flt.Round] + s.nNodes - 1
	s.mu.Unlock()
}

func (s *sched) setReleased(why string) {
	s.mu.Lock()
	s.fltReleased = why
	s.mu.Unlock()
}

// faultRelease decides whether C's held broadcast may reach B (scheduler goroutine only).
func (s *sched) faultRelease() bool {
	f := s.flt
	if !f.hasFired() {
		return false
	}
	s.mu.Lock()
	out := s.fltNeed > 0 && s.fltMsgSends[f.Round] >= s.fltNeed
	sigR2 := s.fltSigR2
	s.mu.Unlock()
	if !out {
		return false
	}
	for x := 0; x < s.nNodes; x++ {
		if x != f.B && x != f.C && !s.msgDone[[3]int{f.B, f.Round, x}] {
			return false
		}
	}
	if s.fltCond.IsZero() {
		s.fltCond = time.Now()
	}
	switch {
	case f.Round == 1 && sigR2:
		s.setReleased("B-started-round-2")
	case f.Round == 2 && s.returned[f.B].Load():
		s.setReleased("B-returned")
	case time.Since(s.fltCond) > 500*time.Millisecond:
		s.setReleased("bounded-delay")
	default:
		return false
	}

	return true
}

func (s *sched) heldBack(e *fakenet.Envelope) bool {
	switch s.mode {
	case modeSlowLink:
		at, _, ok := s.slowRelease(e)

		return ok && time.Now().Before(at)
	case modeLateDeal:
		at, ok := s.lateRelease(e)

		return ok && time.Now().Before(at)
	case modeLateAnnounce:
		at, ok := s.annRelease(e)

		return ok && time.Now().Before(at)
	case modeFaultHold:
		f := s.flt
		if s.tgtPhase != 0 || f.Round == 0 || s.idx[e.From] != f.C || s.idx[e.To] != f.B {
			return false
		}
		cl := s.class(e)
		if !strings.HasPrefix(cl, "msg:") || roundOf(cl) != f.Round {
			return false
		}
		if s.fltSince.IsZero() {
			s.fltSince = time.Now()
		}
		if s.faultRelease() {
			s.tgtPhase = 1

			return false
		}
		if time.Since(s.fltSince) > 8*time.Second {
			s.tgtPhase = 1
			s.setReleased("hold-cap")

			return false
		}

		return true
	case modeRedeliverTargeted:
		return s.tgtPhase == 0 && s.idx[e.From] == s.tgtC && s.idx[e.To] == s.tgtB && isRound1Msg(s.class(e))
	case modeConcurrentTargeted:
		to := s.idx[e.To]
		if s.tgtPhase == 0 && to != s.tgtC && s.class(e) == "msg:round1/cast" && (!s.p2pDone[[2]int{to, s.idx[e.From]}] || !s.p2pDone[[2]int{to, s.tgtC}]) {
			// FROST: at B the round-1 shamir shares of the sender and of C go before the sender's
			// round-1 cast, so that B's round-1 loop ends the moment it has counted n casts (every
			// sender emits its casts and shares back to back; C's shares are never held)
			return true
		}
		if s.tgtPhase != 0 || s.idx[e.From] != s.tgtC {
			return false
		}
		cl := s.class(e)
		if !strings.HasPrefix(cl, "msg:") || roundOf(cl) == 0 {
			return false
		}
		// held until every other sender's broadcast of that round was handled by B
		for x := 0; x < s.nNodes; x++ {
			if x != to && x != s.tgtC && !s.msgDone[[3]int{to, roundOf(cl), x}] {
				return true
			}
		}

		return false
	case modeLaggardSender:
		return s.idx[e.From] == s.victim
	case modeLaggardRecv:
		return s.idx[e.To] == s.victim
	}

	return false
}

func (s *sched) classPrio(class string) int {
	p, ok := s.prio[class]
	if !ok {
		p = s.rng.Intn(1 << 20)
		s.prio[class] = p
	}

	return p
}

// run is the scheduler goroutine.
func (s *sched) run() {
	defer close(s.fin)
	// "settled" = no envelope was sent and no handler returned for a while. Deliveries that are
	// still blocked inside a handler (pedersen board) do not count as movement: waiting for them
	// would turn the 5 s receive timeout of the real handlers into part of the schedule.
	lastSent, lastDone, lastChange := int64(-1), int64(-1), time.Now()
	var batch []*fakenet.Envelope // remaining envelopes of the batch being delivered (batch modes)
	for {
		select {
		case <-s.stop:
			return
		default:
		}
		if v, d := s.sent.Load(), s.done.Load(); v != lastSent || d != lastDone {
			lastSent, lastDone, lastChange = v, d, time.Now()
		}
		settled := func(d time.Duration) bool { return time.Since(lastChange) >= d }

		if len(s.redo) > 0 {
			it := s.redo[0]
			s.redo = s.redo[1:]
			s.deliverClone(it.rec, it.kind)

			continue
		}
		if len(batch) > 0 {
			e := batch[0]
			batch = batch[1:]
			s.deliver(e)

			continue
		}
		pend := s.net.Pending()
		s.mu.Lock()
		if len(pend) > s.maxPool {
			s.maxPool = len(pend)
		}
		s.mu.Unlock()
		// Hold-time cap (pacing only): the real code has real-time timeouts on its streams (5 s for a
		// bcast signature response, 5 s for a board handler to hand over a bundle). An envelope that
		// has waited maxHold is delivered next whatever the mode says, so that the schedule reorders
		// messages without turning into a multi-second network outage on a loaded machine.
		var oldest *fakenet.Envelope
		var oldestAge time.Duration
		heldSeen := false
		for _, e := range pend {
			if s.mode == modeSlowLink {
				if _, _, ok := s.slowRelease(e); ok {
					continue // a delayed one-way bundle trips no stream timeout; its release time is fixed
				}
			}
			if s.mode == modeLateDeal {
				if _, ok := s.lateRelease(e); ok {
					continue
				}
			}
			if s.mode == modeLateAnnounce {
				if _, ok := s.annRelease(e); ok {
					continue
				}
			}
			if s.mode == modeFaultHold && s.heldBack(e) {
				continue // no real-time timeout is tripped by holding a one-way message; own cap inside heldBack
			}
			if (s.mode == modeRedeliverTargeted || s.mode == modeConcurrentTargeted) && s.heldBack(e) {
				heldSeen = true
				// C's one-way broadcast to B: holding it trips no timeout; own, longer cap
				if s.tgtSince.IsZero() {
					s.tgtSince = time.Now()
				} else if time.Since(s.tgtSince) > targetedHoldCap {
					s.abandonTarget("hold-cap")
				}

				continue
			}
			if b, ok := s.born.Load(e); ok {
				if age := time.Since(b.(time.Time)); age > oldestAge {
					oldest, oldestAge = e, age
				}
			}
		}
		if !heldSeen {
			s.tgtSince = time.Time{} // the hold cap runs per held broadcast (one per round)
		}
		if oldest != nil && oldestAge > maxHold {
			s.mu.Lock()
			s.agedOut++
			s.mu.Unlock()
			s.deliver(oldest)

			continue
		}
		var elig, held []*fakenet.Envelope
		for _, e := range pend {
			if s.heldBack(e) {
				held = append(held, e)
			} else {
				elig = append(elig, e)
			}
		}
		if len(elig) == 0 && (s.mode == modeFaultHold || s.mode == modeSlowLink || s.mode == modeLateDeal || s.mode == modeLateAnnounce) {
			s.idle() // the hold is ended by faultRelease or its cap (heldBack)

			continue
		}
		if len(elig) == 0 && (s.mode == modeRedeliverTargeted || s.mode == modeConcurrentTargeted) {
			if len(held) > 0 && settled(10*time.Second) {
				s.abandonTarget("nothing-moved") // nothing else moves and no faster sender showed up
			} else {
				s.idleDup()
			}

			continue
		}
		if len(elig) == 0 {
			if len(held) > 0 && settled(5*s.settle+2*time.Millisecond) {
				// nothing else moves: the laggard's envelopes are released (random order)
				s.rng.Shuffle(len(held), func(i, j int) { held[i], held[j] = held[j], held[i] })
				batch = held

				continue
			}
			s.idleDup()

			continue
		}

		if (s.dupProfile == dupLate || s.dupProfile == dupMixed) && len(s.recs) > 0 && s.rng.Intn(10) == 0 {
			s.redo = append(s.redo, redoItem{s.recs[s.rng.Intn(len(s.recs))], "late"})

			continue
		}

		switch s.mode {
		case modeEagerRandom, modeLaggardSender, modeLaggardRecv, modeConcurrentTargeted, modeFaultHold, modeSlowLink, modeLateDeal, modeLateAnnounce:
			s.deliver(elig[s.rng.Intn(len(elig))])
		case modeRedeliverTargeted:
			e := elig[s.rng.Intn(len(elig))]
			if s.tgtPhase == 0 && s.idx[e.To] == s.tgtB && roundOf(s.class(e)) > 1 {
				// at B a sender's round-1 broadcast goes before its later-round messages, so that the
				// later re-delivery of the round-1 broadcast is a genuine repeat
				for _, p := range elig {
					if p.From == e.From && p.To == e.To && isRound1Msg(s.class(p)) {
						e = p

						break
					}
				}
			}
			s.deliver(e)
		case modeEagerLIFO:
			s.deliver(elig[len(elig)-1])
		case modeBatchShuffle, modeBatchReverse:
			if !settled(s.settle) {
				s.idle()

				continue
			}
			if s.mode == modeBatchShuffle {
				s.rng.Shuffle(len(elig), func(i, j int) { elig[i], elig[j] = elig[j], elig[i] })
			} else {
				sort.Slice(elig, func(i, j int) bool { return elig[i].Seq > elig[j].Seq })
			}
			batch = elig
		case modeClassPriority, modeRecvPriority, modeSendPriority:
			if !settled(s.settle) {
				s.idle()

				continue
			}
			best, bestP := -1, -1
			for _, i := range s.rng.Perm(len(elig)) {
				var p int
				switch s.mode {
				case modeClassPriority:
					p = s.classPrio(classOf(elig[i]))
				case modeRecvPriority:
					p = s.nodePrio[s.idx[elig[i].To]]
				default:
					p = s.nodePrio[s.idx[elig[i].From]]
				}
				if p > bestP {
					best, bestP = i, p
				}
			}
			s.deliver(elig[best])
		}
	}
}

// idleDup is idle() plus, for the late re-delivery profiles, an occasional repeat while the
// network is quiet.
func (s *sched) idleDup() {
	if (s.dupProfile == dupLate || s.dupProfile == dupMixed) && len(s.recs) > 0 && s.rng.Intn(400) == 0 {
		s.redo = append(s.redo, redoItem{s.recs[s.rng.Intn(len(s.recs))], "late-idle"})

		return
	}
	s.idle()
}

func (s *sched) abandonTarget(why string) {
	if s.tgtPhase != 0 {
		return
	}
	s.tgtPhase = 1
	s.mu.Lock()
	s.tgtAbandoned++
	s.tgtWhy = why
	s.mu.Unlock()
}

func (s *sched) idle() {
	t := time.NewTimer(150 * time.Microsecond)
	select {
	case <-s.wake:
	case <-t.C:
	case <-s.stop:
	}
	t.Stop()
}

// deliver hands e to its recipient's registered handler (the path a real stream takes) and waits
// for the handler to return, at most `patience` (handlers of the pedersen board may block until
// the protocol goroutine consumes the bundle; the scheduler must then go on delivering).
func (s *sched) deliver(e *fakenet.Envelope) {
	if !s.net.Take(e) {
		return
	}
	if s.staleDeals && !e.Duplex && s.class(e) == "p2p:deal_bundle" {
		to, from := s.idx[e.To], s.idx[e.From]
		if s.dealCount == nil {
			s.dealCount, s.lastDeal = map[[2]int]int{}, map[[2]int]*dupRec{}
		}
		n := s.dealCount[[2]int{to, from}] // e is `from`'s deal bundle of validator n
		if n >= 1 && (s.phaseP > 0 || s.rng.Intn(2) == 0) {
			var cands []int
			for k := range s.lastDeal {
				if k[0] == to && k[1] != from && s.dealCount[k] == n {
					cands = append(cands, k[1]) // its validator-n deal has not reached `to` yet: its last one is of validator n-1
				}
			}
			sort.Ints(cands)
			if len(cands) > 0 {
				a := cands[s.rng.Intn(len(cands))]
				if s.deliverClone(s.lastDeal[[2]int{to, a}], "targeted") {
					s.mu.Lock()
					s.staleDealsSent++
					s.mu.Unlock()
				}
			}
		}
		s.dealCount[[2]int{to, from}] = n + 1
		s.lastDeal[[2]int{to, from}] = &dupRec{env: e, class: "p2p:deal_bundle", from: from, to: to}
	}
	var slowWhich string
	var slowSent time.Time
	if s.slow != nil {
		if _, w, ok := s.slowRelease(e); ok {
			slowWhich = w
			if b, ok := s.born.Load(e); ok {
				slowSent, _ = b.(time.Time)
			}
		}
	}
	if s.ann != nil {
		if at, ok := s.annRelease(e); ok {
			s.mu.Lock()
			s.annLateBy = time.Since(at) + 500*time.Millisecond
			s.mu.Unlock()
		}
	}
	lateOther := false
	if s.late != nil {
		if _, ok := s.lateRelease(e); ok {
			slowWhich = "deal-XY" // same bookkeeping: sent / handled time of the one special deal
			if b, ok := s.born.Load(e); ok {
				slowSent, _ = b.(time.Time)
			}
		} else if slowKind(s.class(e)) == "deal" && s.idx[e.From] == s.late.D {
			s.mu.Lock()
			lateOther = s.slowOrd[e] == s.late.K
			s.mu.Unlock()
		}
	}
	s.born.Delete(e)
	class := s.class(e)
	delete(s.classCache, e)
	rd := roundOf(class)
	overlap := false
	pendAfter := s.net.Pending()
	if rd > 0 {
		for _, p := range pendAfter {
			if r := roundOf(s.class(p)); r > 0 && r < rd {
				overlap = true

				break
			}
		}
	}
	s.mu.Lock()
	s.started++
	s.order = append(s.order, delivery{Seq: e.Seq, From: s.idx[e.From], To: s.idx[e.To], Class: class})
	if e.Seq < s.maxSeq {
		s.inversions++
	} else {
		s.maxSeq = e.Seq
	}
	if overlap {
		s.roundOverlap++
	}
	s.classes[class]++
	s.mu.Unlock()

	ch := make(chan struct{})
	r1 := isRound1Msg(class)
	toIdx := s.idx[e.To]
	fromIdx := s.idx[e.From]
	isMsg := !e.Duplex && strings.HasPrefix(class, "msg:")
	if s.mode == modeConcurrentTargeted && s.tgtPhase == 0 && isMsg && fromIdx == s.tgtC && rd > 0 {
		s.mu.Lock()
		s.tgtCompleted++ // C's broadcast of this round goes only now: all others were handled at B as concurrent groups
		s.mu.Unlock()
	}
	// Concurrent group: the original and 1..3 copies are handed to the receiver's handler from
	// separate goroutines released together, so the handler executions for one broadcast overlap.
	t0 := time.Now()
	copies := 0
	if isMsg && (s.dupProfile == dupConcurrent || (s.mode == modeConcurrentTargeted && toIdx != s.tgtC && fromIdx != s.tgtC)) {
		copies = 1 + s.rng.Intn(3)
		room := s.dupBudget - 1 - s.dupUsed[toIdx]
		if s.mode == modeConcurrentTargeted && toIdx != s.tgtC && fromIdx != s.tgtC && s.burst > 0 {
			// The window of a non-atomic "seen?" check is a few instructions wide while the copies
			// reach it spread over the jitter of the signature verification that precedes it: at the
			// targeted receiver a whole burst of copies is released so that some pair gets close.
			copies = s.burst + s.rng.Intn(s.burst)
			room = copies // FROST filters repeats before queueing: no budget needed (burst is 0 for pedersen)
		}
		if copies > room {
			copies = room
		}
		if copies < 0 {
			copies = 0
		}
	}
	if copies > 0 {
		s.dupUsed[toIdx] += copies
		envs := []*fakenet.Envelope{e}
		s.mu.Lock()
		for i := 0; i < copies; i++ {
			envs = append(envs, e.Clone())
			s.dupStarted++
			s.order = append(s.order, delivery{Seq: e.Seq, From: fromIdx, To: toIdx, Class: class + "+dup(concurrent)"})
			s.redeliv["concurrent"]++
		}
		s.mu.Unlock()
		start := make(chan struct{})
		type interval struct{ in, out int64 }
		ivs := make([]interval, len(envs))
		var wg sync.WaitGroup
		for i, cp := range envs {
			wg.Add(1)
			go func() {
				defer wg.Done()
				<-start
				in := s.ctick.Add(1)
				s.net.Deliver(cp)
				ivs[i] = interval{in, s.ctick.Add(1)}
				if r1 {
					s.mu.Lock()
					s.tick++
					s.r1Delivered[toIdx] = append(s.r1Delivered[toIdx], s.tick)
					if i > 0 {
						s.r1DupsTo[toIdx]++
					}
					s.mu.Unlock()
				}
				if i == 0 {
					s.done.Add(1)
				} else {
					s.dupDone.Add(1)
				}
				s.poke()
			}()
		}
		go func() {
			wg.Wait()
			pairs := 0
			for i := range ivs {
				for j := i + 1; j < len(ivs); j++ {
					if ivs[i].in < ivs[j].out && ivs[j].in < ivs[i].out {
						pairs++
					}
				}
			}
			s.mu.Lock()
			s.concGroups++
			s.concPairs += pairs
			s.mu.Unlock()
			close(ch)
		}()
		// In the targeted mode (and for half of the groups of the concurrent profile) the copies are
		// additionally lined up right before the receiver's callback, see protoBarrier.
		if s.mode == modeConcurrentTargeted || s.rng.Intn(2) == 0 {
			hold := 3 * s.msgDur
			if hold < 4*time.Millisecond {
				hold = 4 * time.Millisecond
			}
			if hold > 80*time.Millisecond {
				hold = 80 * time.Millisecond
			}
			if protoBarrier(hold, func() { close(start) }) {
				s.mu.Lock()
				s.barriers++
				s.mu.Unlock()
			}
		} else {
			close(start)
		}
	} else {
		var slowDone func()
		if s.phaseP > 0 {
			slowDone = s.slowDelivery(e, class)
		}
		go func() {
			s.net.Deliver(e)
			if slowDone != nil {
				slowDone()
			}
			if r1 {
				s.mu.Lock()
				s.tick++
				s.r1Delivered[toIdx] = append(s.r1Delivered[toIdx], s.tick)
				s.mu.Unlock()
			}
			s.done.Add(1)
			close(ch)
			s.poke()
		}()
	}
	patience := s.patience
	if slowWhich == "deal-XY" {
		patience = 3 * time.Second // its handling time is part of the slow-link guard
	}
	t := time.NewTimer(patience)
	handled := false
	select {
	case <-ch:
		handled = true
	case <-t.C:
		s.mu.Lock()
		s.leftInFlight++
		s.mu.Unlock()
	case <-s.stop:
	}
	t.Stop()
	if slowWhich != "" {
		s.mu.Lock()
		s.slowDelayed++
		switch {
		case slowWhich == "deal-XY":
			s.slowDealSent = slowSent
			if handled {
				s.slowDealDone = time.Now()
			}
		case s.slow != nil && time.Since(slowSent) >= s.slow.P:
			s.slowShareLate = true
		}
		s.mu.Unlock()
	}
	if lateOther && handled {
		s.mu.Lock()
		s.lateOthersDone = time.Now()
		s.mu.Unlock()
	}
	if isMsg && copies == 0 {
		select {
		case <-ch: // handler returned: running estimate of one broadcast handler execution (pacing of the barrier)
			if d := time.Since(t0); s.msgDur == 0 {
				s.msgDur = d
			} else {
				s.msgDur = (3*s.msgDur + d) / 4
			}
		default:
		}
	}

	// ---- re-delivery bookkeeping and triggers ----
	from, to := fromIdx, toIdx
	if isMsg && rd > 0 {
		s.msgDone[[3]int{to, rd, from}] = true
	}
	if class == "p2p:round1/p2p" {
		s.p2pDone[[2]int{to, from}] = true
	}
	mixed := s.dupProfile == dupMixed
	if (s.dupProfile == dupAfterLater || mixed) && rd > 1 {
		for _, r := range s.recs {
			if r.from == from && r.to == to && r.round > 0 && r.round < rd && r.times == 0 && s.rng.Intn(2) == 0 {
				s.redo = append(s.redo, redoItem{r, "after-later-round"})
			}
		}
	}
	if s.mode == modeRedeliverTargeted && s.tgtPhase == 0 && to == s.tgtB && from != s.tgtC && rd > 1 && !e.Duplex {
		// Is C's round-1 broadcast to B really still outstanding (B is in round 1)?
		cHeld := false
		for _, p := range pendAfter {
			if s.heldBack(p) {
				cHeld = true

				break
			}
		}
		if cHeld {
			for _, r := range s.recs {
				if r.from == from && r.to == to && isRound1Msg(r.class) {
					if s.deliverClone(r, "targeted") {
						s.tgtA = from
						s.tgtPhase = 1 // C's broadcast may go now
						s.mu.Lock()
						s.tgtCompleted++
						s.mu.Unlock()
					}

					break
				}
			}
		}
	}
	if !e.Duplex && (strings.HasPrefix(class, "msg:") || s.dupAll) {
		r := &dupRec{env: e, class: class, round: rd, from: from, to: to}
		s.recs = append(s.recs, r)
		if (s.dupProfile == dupImmediate || mixed) && s.rng.Intn(3) == 0 {
			s.redo = append(s.redo, redoItem{r, "immediate"})
		}
	}
}

// deliverClone delivers a byte-identical copy of an already delivered one-way envelope again
// (retransmission). Returns false when the receiver's re-delivery budget is used up.
func (s *sched) deliverClone(r *dupRec, kind string) bool {
	// one slot of every receiver's budget is reserved for the targeted pattern
	limit := s.dupBudget
	if kind != "targeted" {
		limit--
	}
	if s.dupUsed[r.to] >= limit {
		return false
	}
	s.dupUsed[r.to]++
	r.times++
	e := r.env.Clone()
	s.mu.Lock()
	s.dupStarted++
	s.order = append(s.order, delivery{Seq: e.Seq, From: r.from, To: r.to, Class: r.class + "+dup(" + kind + ")"})
	s.redeliv[kind]++
	s.mu.Unlock()
	ch := make(chan struct{})
	r1 := isRound1Msg(r.class)
	go func() {
		s.net.Deliver(e)
		if r1 {
			s.mu.Lock()
			s.tick++
			s.r1Delivered[r.to] = append(s.r1Delivered[r.to], s.tick)
			s.r1DupsTo[r.to]++
			s.mu.Unlock()
		}
		s.dupDone.Add(1)
		close(ch)
		s.poke()
	}()
	t := time.NewTimer(s.patience)
	select {
	case <-ch:
	case <-t.C:
	case <-s.stop:
	}
	t.Stop()

	return true
}

// allDelivered reports whether every envelope sent so far was handed to its recipient and the
// recipient's handler has returned.
func (s *sched) allDelivered() bool {
	s.mu.Lock()
	dups := s.dupStarted
	s.mu.Unlock()

	return len(s.net.Pending()) == 0 && s.sent.Load() == s.done.Load() && dups == s.dupDone.Load()
}

// shutdown stops the scheduler and releases anything still held (duplex senders see EOF).
func (s *sched) shutdown() {
	close(s.stop)
	<-s.fin
	s.net.SetPolicy(func(*fakenet.Envelope) fakenet.Verdict { return fakenet.Drop })
	for _, e := range s.net.Pending() {
		if s.net.Take(e) {
			s.net.DropEnvelope(e)
		}
	}
}

// pubkeyQueueOverfilled looks for a node whose round-1 broadcast queue was filled up before its own
// broadcast completed. The pedersen board queues received node pubkeys in a channel of capacity n
// that is only drained after the node's own BroadcastNodePubKey returned, and that call ends with
// an unconditional send of the node's own key into the same channel. If n round-1 broadcasts
// (n-1 peers + at least one re-delivered copy) were handled by the node before it sent its last
// own broadcast message, that send can never complete: the node never starts the DKG (sends no
// deal). Decided on the logical order of sends and completed deliveries, not on time.
func (s *sched) pubkeyQueueOverfilled(n int) (node, handledBefore, repeats int, ok bool) {
	s.mu.Lock()
	defer s.mu.Unlock()
	for k := 0; k < n; k++ {
		if s.r1Sends[k] != n-1 || s.r2Sends[k] != 0 || s.r1DupsTo[k] == 0 {
			continue
		}
		before := 0
		for _, t := range s.r1Delivered[k] {
			if t < s.r1LastSend[k] {
				before++
			}
		}
		if before >= n {
			return k, before, s.r1DupsTo[k], true
		}
	}

	return 0, 0, 0, false
}

type schedStats struct {
	Mode         string         `json:"mode"`
	Victim       int            `json:"victim"`
	Sent         int64          `json:"sent"`
	Delivered    int64          `json:"delivered"`
	Inversions   int            `json:"inversions"`
	RoundOverlap int            `json:"round_overlap"`
	LeftInFlight int            `json:"left_in_flight"`
	AgedOut      int            `json:"released_by_hold_time_cap"`
	MaxPool      int            `json:"max_pool"`
	Classes      map[string]int `json:"classes"`
	DupProfile   string         `json:"redelivery_profile"`
	Redeliveries map[string]int `json:"redeliveries"`
	RedelivTotal int            `json:"redeliveries_total"`
	TargetB      int            `json:"targeted_receiver_B"`
	TargetC      int            `json:"targeted_laggard_C"`
	TgtCompleted int            `json:"targeted_pattern_completed"`
	TgtAbandoned int            `json:"targeted_pattern_abandoned"`
	TgtWhy       string         `json:"targeted_pattern_abandoned_why,omitempty"`
	ConcGroups   int            `json:"concurrent_duplicate_groups"`
	ConcPairs    int            `json:"concurrent_duplicate_pairs"`
	Barriers     int            `json:"concurrent_groups_lined_up_at_callback"`
	FaultHeld    string         `json:"fault_hold_released_because,omitempty"`
	SlowDelayed  int            `json:"slow_link_messages_delayed,omitempty"`
}

func (s *sched) stats() schedStats {
	s.mu.Lock()
	defer s.mu.Unlock()
	cl := map[string]int{}
	for k, v := range s.classes {
		cl[k] = v
	}

	rd := map[string]int{}
	total := 0
	for k, v := range s.redeliv {
		rd[k] = v
		total += v
	}

	return schedStats{Mode: modeNames[s.mode], Victim: s.victim, Sent: s.sent.Load(), Delivered: s.done.Load(),
		Inversions: s.inversions, RoundOverlap: s.roundOverlap, LeftInFlight: s.leftInFlight, AgedOut: s.agedOut, MaxPool: s.maxPool, Classes: cl,
		DupProfile: dupNames[s.dupProfile], Redeliveries: rd, RedelivTotal: total, TargetB: s.tgtB, TargetC: s.tgtC,
		TgtCompleted: s.tgtCompleted, TgtAbandoned: s.tgtAbandoned, TgtWhy: s.tgtWhy, ConcGroups: s.concGroups, ConcPairs: s.concPairs, Barriers: s.barriers, FaultHeld: s.fltReleased, SlowDelayed: s.slowDelayed}
}

// orderHash identifies the schedule: the sequence of (from, to, class) deliveries.
func (s *sched) orderHash() string {
	s.mu.Lock()
	defer s.mu.Unlock()
	var b strings.Builder
	for _, d := range s.order {
		fmt.Fprintf(&b, "%d>%d:%s;", d.From, d.To, d.Class)
	}

	return b.String()
}

func (s *sched) orderCopy(max int) []delivery {
	s.mu.Lock()
	defer s.mu.Unlock()
	o := s.order
	if len(o) > max {
		o = o[:max]
	}

	return append([]delivery(nil), o...)
}
