package c11

import (
	"fmt"
	"time"

	"verifharness/fakenet"
)

// Slow-link dimension (pedersen, >= 2 validators, SHORT real phase timer P): nothing is lost,
// duplicated or failed; three messages on two links are delayed, each by less than one phase and
// each arriving inside the receiving node's own, correct deadline:
//
//	Z -> X  val_pubkey_share of validator J   delayed A*P   (X starts the DKG of validator J+1 late)
//	X -> Y  val_pubkey_share of validator J   delayed B*P   (Y starts the DKG of validator J+1 late, B > A)
//	X -> Y  deal_bundle      of validator J+1 delivered at  start_Y(J) + 1.25*P, i.e. AFTER one phase
//	        has passed since Y started the DKG of validator J, and well BEFORE Y's own deal deadline
//	        start_Y(J+1) + P; X only sent it at about start(J) + A*P, so its delay is below one phase.
//
// kyber's TimePhaser runs on the real clock, so real-time waits are unavoidable here. They only
// place the messages; the harness then MEASURES what it did (send times seen on the wire, the time
// Y's handler returned) and applies the output oracle only if the placement provably kept every
// delayed message inside the receiver's own deadline with a safety margin (slowGuard); a ceremony
// whose placement overran (loaded machine) or that aborted/hung gives no verdict.
type slowPlan struct {
	X int           `json:"slow_sender_X"`
	Y int           `json:"slow_receiver_Y"`
	Z int           `json:"third_node_Z"`
	J int           `json:"validator_J"`
	P time.Duration `json:"phase_ns"`
	A float64       `json:"delay_ZX_pubkeyshare_phases"`
	B float64       `json:"delay_XY_pubkeyshare_phases"`
}

const (
	slowPhase      = 3 * time.Second
	slowDealOffset = 1.25 // delivery of the delayed deal, in phases after Y started validator J
	slowSafety     = 0.2  // safety margin of the guard, in phases
)

type slowReport struct {
	Placed    bool   `json:"deal_delivered_after_one_phase_since_Y_started_validator_J"`
	GuardOK   bool   `json:"every_delayed_message_inside_receivers_own_deadline"`
	Why       string `json:"guard_detail,omitempty"`
	DealSent  int64  `json:"deal_sent_ms_after_Y_started_validator_J"`
	DealDone  int64  `json:"deal_handled_ms_after_Y_started_validator_J"`
	YNext     int64  `json:"Y_started_validator_J_plus_1_ms_after_it_started_J"`
	MinNext   int64  `json:"first_node_started_validator_J_plus_1_ms_after_Y_started_J"`
	PhaseMS   int64  `json:"phase_ms"`
	DealDelay int64  `json:"deal_delay_ms"`
}

// slowKind returns the pedersen message kind the slow-link plan cares about.
func slowKind(class string) string {
	switch class {
	case "p2p:val_pubkey_share":
		return "share"
	case "p2p:deal_bundle":
		return "deal"
	case "p2p:resp_bundle":
		return "resp"
	}

	return ""
}

var slowKindIdx = map[string]int{"share": 0, "deal": 1, "resp": 2}

// slowEvt aggregates the deliveries of one kind of bundle of one validator to one node.
type slowEvt struct {
	started, done       int
	lastStart, lastDone time.Time
}

// slowDelivery is called by deliver() before an envelope of a slow-link ceremony is handed to its
// receiver; the returned function is called (from the delivery goroutine) when the handler returned.
func (s *sched) slowDelivery(e *fakenet.Envelope, class string) func() {
	kind := slowKind(class)
	if kind == "" {
		return nil
	}
	s.mu.Lock()
	ord, ok := s.slowOrd[e]
	if !ok {
		s.mu.Unlock()
		return nil
	}
	key := [3]int{slowKindIdx[kind], s.idx[e.To], ord}
	ev := s.slowEv[key]
	if ev == nil {
		ev = &slowEvt{}
		s.slowEv[key] = ev
	}
	ev.started++
	ev.lastStart = time.Now()
	s.mu.Unlock()

	return func() {
		s.mu.Lock()
		ev.done++
		ev.lastDone = time.Now()
		s.mu.Unlock()
	}
}

// slowNote is called by the policy (sender goroutine) for every envelope of a slow-link ceremony:
// it numbers the envelopes per (from, to, kind) - the k-th deal bundle / pubkey share on a link
// belongs to validator k - and records when each node started each validator's DKG (its first deal
// bundle of that validator on the wire).
func (s *sched) slowNote(e *fakenet.Envelope, now time.Time) {
	kind := slowKind(classOf(e))
	if kind == "" {
		return
	}
	from, to := s.idx[e.From], s.idx[e.To]
	s.mu.Lock()
	key := [3]int{from, to, slowKindIdx[kind]}
	ord := s.slowCount[key]
	s.slowCount[key] = ord + 1
	s.slowOrd[e] = ord
	if kind == "deal" {
		k := [2]int{from, ord}
		if _, ok := s.slowStart[k]; !ok {
			s.slowStart[k] = now
		}
	}
	if kind == "share" {
		k := [2]int{from, ord}
		if _, ok := s.shareSent[k]; !ok {
			s.shareSent[k] = now // the node finished that validator's DKG and starts collecting announcements
		}
	}
	s.mu.Unlock()
}

// slowRelease returns whether e is one of the three delayed envelopes and, if so, when it may go.
func (s *sched) slowRelease(e *fakenet.Envelope) (time.Time, string, bool) {
	p := s.slow
	kind := slowKind(s.class(e))
	if kind == "" {
		return time.Time{}, "", false
	}
	from, to := s.idx[e.From], s.idx[e.To]
	s.mu.Lock()
	ord, ok := s.slowOrd[e]
	yStart, yOK := s.slowStart[[2]int{p.Y, p.J}]
	s.mu.Unlock()
	if !ok {
		return time.Time{}, "", false
	}
	b, _ := s.born.Load(e)
	sent, _ := b.(time.Time)
	switch {
	case kind == "share" && ord == p.J && from == p.Z && to == p.X:
		return sent.Add(time.Duration(p.A * float64(p.P))), "share-ZX", true
	case kind == "share" && ord == p.J && from == p.X && to == p.Y:
		return sent.Add(time.Duration(p.B * float64(p.P))), "share-XY", true
	case kind == "deal" && ord == p.J+1 && from == p.X && to == p.Y:
		if !yOK {
			return sent, "deal-XY", true // cannot place it: no delay
		}
		at := yStart.Add(time.Duration(slowDealOffset * float64(p.P)))
		if limit := sent.Add(time.Duration(0.95 * float64(p.P))); at.After(limit) {
			at = limit // never delay a message by a full phase
		}

		return at, "deal-XY", true
	}

	return time.Time{}, "", false
}

// deadlineCheck evaluates, from the measured times, whether every bundle reached every node inside
// that node's own phase deadlines: for every validator k and every node i, every deal bundle of k was
// handled by i before start_i(k) + P and every response bundle before start_i(k) + 2P (each minus a
// safety margin), where start_i(k) is a LOWER bound of the moment i started that DKG (k = 0: i's last
// node-pubkey broadcast message left; k > 0: the last pubkey share of validator k-1 was handed to i).
// A node that starts a validator late (delayed share) also deals late, and on a loaded machine that
// alone can push its (undelayed) deals past a faster node's deadline. Called with s.mu held.
func (s *sched) deadlineCheck(v int, ref time.Time) (bool, string) {
	p := s.phaseP
	safety := time.Duration(slowSafety * float64(p))
	others := s.nNodes - 1
	for k := 0; k < v; k++ {
		for i := 0; i < s.nNodes; i++ {
			var startLo time.Time
			if k == 0 {
				t, ok := s.slowPubkeySent[i]
				if !ok {
					return false, fmt.Sprintf("node %d: start of validator 0 not observed", i)
				}
				startLo = t
			} else {
				ev := s.slowEv[[3]int{slowKindIdx["share"], i, k - 1}]
				if ev == nil || ev.started != others {
					return false, fmt.Sprintf("node %d: start of validator %d not observed", i, k)
				}
				startLo = ev.lastStart
			}
			if ref.IsZero() {
				ref = startLo
			}
			for _, c := range []struct {
				kind   string
				phases time.Duration
			}{{"deal", 1}, {"resp", 2}} {
				ev := s.slowEv[[3]int{slowKindIdx[c.kind], i, k}]
				if ev == nil || ev.done != others {
					return false, fmt.Sprintf("node %d validator %d: not all %s bundles seen handled", i, k, c.kind)
				}
				if limit := startLo.Add(c.phases*p - safety); ev.lastDone.After(limit) {
					return false, fmt.Sprintf("node %d validator %d: last %s bundle handled %d ms after the safe limit (phase deadline minus %d ms; its DKG started at least %d ms after the reference start)",
						i, k, c.kind, ev.lastDone.Sub(limit).Milliseconds(), safety.Milliseconds(), startLo.Sub(ref).Milliseconds())
				}
			}
		}
	}

	return true, ""
}

// slowGuard labels a slow-link ceremony: did it stay inside the model (every delayed message inside
// its receiver's own deadline, no message delayed by a full phase)?
func (s *sched) slowGuard(v int) slowReport {
	p := s.slow
	s.mu.Lock()
	defer s.mu.Unlock()
	rep := slowReport{PhaseMS: p.P.Milliseconds()}
	yStart, ok1 := s.slowStart[[2]int{p.Y, p.J}]
	yNext, ok2 := s.slowStart[[2]int{p.Y, p.J + 1}]
	if !ok1 || !ok2 || s.slowDealDone.IsZero() || s.slowDealSent.IsZero() {
		rep.Why = "delayed deal or DKG starts not observed"
		return rep
	}
	minNext := yNext
	for i := 0; i < s.nNodes; i++ {
		if t, ok := s.slowStart[[2]int{i, p.J + 1}]; ok && t.Before(minNext) {
			minNext = t
		}
	}
	ms := func(t time.Time) int64 { return t.Sub(yStart).Milliseconds() }
	rep.DealSent, rep.DealDone, rep.YNext, rep.MinNext = ms(s.slowDealSent), ms(s.slowDealDone), ms(yNext), ms(minNext)
	rep.DealDelay = s.slowDealDone.Sub(s.slowDealSent).Milliseconds()
	rep.Placed = s.slowDealDone.After(yStart.Add(p.P))
	if s.slowDealDone.Sub(s.slowDealSent) >= p.P {
		rep.Why = "deal was delayed by a full phase"
		return rep
	}
	if s.slowShareLate {
		rep.Why = "a delayed pubkey share was delivered a full phase after it was sent"
		return rep
	}
	rep.GuardOK, rep.Why = s.deadlineCheck(v, yStart)

	return rep
}

// annPlan is the "late announcement" case class: after the kyber DKG of validator K completed on
// every node, exactly one val_pubkey_share announcement (peer C -> node B) is kept back beyond B's
// collect timeout (6 x PhaseDuration after B started collecting, i.e. after B's own announcement of
// validator K left) and delivered afterwards. Nothing else is delayed, lost or duplicated. On the
// unchanged tree B fails loudly ("timed out waiting for DKG messages from peers"): no verdict.
type annPlan struct {
	C int           `json:"announcing_peer_C"`
	B int           `json:"receiver_B"`
	K int           `json:"validator_K"`
	P time.Duration `json:"phase_ns"`
}

const annPhase = time.Second

func (s *sched) annRelease(e *fakenet.Envelope) (time.Time, bool) {
	p := s.ann
	if slowKind(s.class(e)) != "share" || s.idx[e.From] != p.C || s.idx[e.To] != p.B {
		return time.Time{}, false
	}
	s.mu.Lock()
	ord, ok := s.slowOrd[e]
	bStart, bOK := s.shareSent[[2]int{p.B, p.K}]
	s.mu.Unlock()
	if !ok || ord != p.K {
		return time.Time{}, false
	}
	if !bOK {
		return time.Now().Add(time.Hour), true // B has not finished that DKG yet
	}

	return bStart.Add(6*p.P + 500*time.Millisecond), true
}

// latePlan is the deliberate late-bundle case class: the deal bundle of dealer D for validator K is
// kept from node V until just after V's own deal deadline (V's first deal bundle of validator K on
// the wire + P + margin; V's phase timer started before that bundle left), while it reaches every
// other node at once. Nothing is lost, duplicated or failed; every other message is delivered eagerly.
type latePlan struct {
	D int           `json:"dealer_D"`
	V int           `json:"late_receiver_V"`
	K int           `json:"validator_K"`
	P time.Duration `json:"phase_ns"`
}

const lateMargin = 0.1 // phases after V's deal deadline

type lateReport struct {
	PhaseMS       int64  `json:"phase_ms"`
	DealSentMS    int64  `json:"deal_D_to_V_sent_ms_after_V_started_validator_K"`
	DealHandledMS int64  `json:"deal_D_to_V_handled_ms_after_V_started_validator_K"`
	AfterDeadline int64  `json:"handled_ms_after_V_deal_deadline"`
	OthersGotIt   int64  `json:"last_other_node_handled_D_deal_ms_after_V_started_validator_K"`
	InsideModel   bool   `json:"every_bundle_inside_receivers_own_deadline"`
	Why           string `json:"guard_detail,omitempty"`
}

func (s *sched) lateRelease(e *fakenet.Envelope) (time.Time, bool) {
	p := s.late
	if slowKind(s.class(e)) != "deal" || s.idx[e.From] != p.D || s.idx[e.To] != p.V {
		return time.Time{}, false
	}
	s.mu.Lock()
	ord, ok := s.slowOrd[e]
	vStart, vOK := s.slowStart[[2]int{p.V, p.K}]
	s.mu.Unlock()
	if !ok || ord != p.K {
		return time.Time{}, false
	}
	if !vOK {
		return time.Now().Add(time.Hour), true // V has not started that DKG yet: keep holding (capped by the watchdog)
	}

	return vStart.Add(p.P + time.Duration(lateMargin*float64(p.P))), true
}

func (s *sched) lateGuard(v int) lateReport {
	p := s.late
	s.mu.Lock()
	defer s.mu.Unlock()
	rep := lateReport{PhaseMS: p.P.Milliseconds()}
	vStart, ok := s.slowStart[[2]int{p.V, p.K}]
	if !ok || s.slowDealDone.IsZero() {
		rep.Why = "late deal not observed"
		return rep
	}
	rep.DealSentMS = s.slowDealSent.Sub(vStart).Milliseconds()
	rep.DealHandledMS = s.slowDealDone.Sub(vStart).Milliseconds()
	rep.AfterDeadline = s.slowDealDone.Sub(vStart.Add(p.P)).Milliseconds()
	if !s.lateOthersDone.IsZero() {
		rep.OthersGotIt = s.lateOthersDone.Sub(vStart).Milliseconds()
	}
	rep.InsideModel, rep.Why = s.deadlineCheck(v, vStart)

	return rep
}
