package c11

import (
	"time"

	"verifharness/fakenet"
)

// Slow-link dimension (pedersen, >= 2 validators, SHORT real phase timer P): nothing is lost,
// duplicated or failed; three messages on two links are delayed, each by less than one phase and
// each arriving inside the receiving node's own, correct deadline:
//
//	Z -> X  val_pubkey_share of validator J   delayed A*P   (X starts the DKG of validator J+1 late)
//	X -> Y  val_pubkey_share of validator J   delayed B*P   (Y starts the DKG of validator J+1 late, B > A)
//	X -> Y  deal_bundle      of validator J+1 delivered at  start_Y(J) + 1.25*P, i.e. AFTER one phase
//	        has passed since Y started the DKG of validator J, and well BEFORE Y's own deal deadline
//	        start_Y(J+1) + P; X only sent it at about start(J) + A*P, so its delay is below one phase.
//
// kyber's TimePhaser runs on the real clock, so real-time waits are unavoidable here. They only
// place the messages; the harness then MEASURES what it did (send times seen on the wire, the time
// Y's handler returned) and applies the output oracle only if the placement provably kept every
// delayed message inside the receiver's own deadline with a safety margin (slowGuard); a ceremony
// whose placement overran (loaded machine) or that aborted/hung gives no verdict.
type slowPlan struct {
	X int           `json:"slow_sender_X"`
	Y int           `json:"slow_receiver_Y"`
	Z int           `json:"third_node_Z"`
	J int           `json:"validator_J"`
	P time.Duration `json:"phase_ns"`
	A float64       `json:"delay_ZX_pubkeyshare_phases"`
	B float64       `json:"delay_XY_pubkeyshare_phases"`
}

const (
	slowPhase      = 3 * time.Second
	slowDealOffset = 1.25 // delivery of the delayed deal, in phases after Y started validator J
	slowSafety     = 0.2  // safety margin of the guard, in phases
)

type slowReport struct {
	Placed    bool   `json:"deal_delivered_after_one_phase_since_Y_started_validator_J"`
	GuardOK   bool   `json:"every_delayed_message_inside_receivers_own_deadline"`
	Why       string `json:"guard_detail,omitempty"`
	DealSent  int64  `json:"deal_sent_ms_after_Y_started_validator_J"`
	DealDone  int64  `json:"deal_handled_ms_after_Y_started_validator_J"`
	YNext     int64  `json:"Y_started_validator_J_plus_1_ms_after_it_started_J"`
	MinNext   int64  `json:"first_node_started_validator_J_plus_1_ms_after_Y_started_J"`
	PhaseMS   int64  `json:"phase_ms"`
	DealDelay int64  `json:"deal_delay_ms"`
}

// slowKind returns the pedersen message kind the slow-link plan cares about.
func slowKind(class string) string {
	switch class {
	case "p2p:val_pubkey_share":
		return "share"
	case "p2p:deal_bundle":
		return "deal"
	}

	return ""
}

// slowNote is called by the policy (sender goroutine) for every envelope of a slow-link ceremony:
// it numbers the envelopes per (from, to, kind) - the k-th deal bundle / pubkey share on a link
// belongs to validator k - and records when each node started each validator's DKG (its first deal
// bundle of that validator on the wire).
func (s *sched) slowNote(e *fakenet.Envelope, now time.Time) {
	kind := slowKind(classOf(e))
	if kind == "" {
		return
	}
	from, to := s.idx[e.From], s.idx[e.To]
	s.mu.Lock()
	key := [3]int{from, to, map[string]int{"share": 0, "deal": 1}[kind]}
	ord := s.slowCount[key]
	s.slowCount[key] = ord + 1
	s.slowOrd[e] = ord
	if kind == "deal" {
		k := [2]int{from, ord}
		if _, ok := s.slowStart[k]; !ok {
			s.slowStart[k] = now
		}
	}
	s.mu.Unlock()
}

// slowRelease returns whether e is one of the three delayed envelopes and, if so, when it may go.
func (s *sched) slowRelease(e *fakenet.Envelope) (time.Time, string, bool) {
	p := s.slow
	kind := slowKind(s.class(e))
	if kind == "" {
		return time.Time{}, "", false
	}
	from, to := s.idx[e.From], s.idx[e.To]
	s.mu.Lock()
	ord, ok := s.slowOrd[e]
	yStart, yOK := s.slowStart[[2]int{p.Y, p.J}]
	s.mu.Unlock()
	if !ok {
		return time.Time{}, "", false
	}
	b, _ := s.born.Load(e)
	sent, _ := b.(time.Time)
	switch {
	case kind == "share" && ord == p.J && from == p.Z && to == p.X:
		return sent.Add(time.Duration(p.A * float64(p.P))), "share-ZX", true
	case kind == "share" && ord == p.J && from == p.X && to == p.Y:
		return sent.Add(time.Duration(p.B * float64(p.P))), "share-XY", true
	case kind == "deal" && ord == p.J+1 && from == p.X && to == p.Y:
		if !yOK {
			return sent, "deal-XY", true // cannot place it: no delay
		}
		at := yStart.Add(time.Duration(slowDealOffset * float64(p.P)))
		if limit := sent.Add(time.Duration(0.95 * float64(p.P))); at.After(limit) {
			at = limit // never delay a message by a full phase
		}

		return at, "deal-XY", true
	}

	return time.Time{}, "", false
}

// slowGuard evaluates, from the measured times, whether the placement stayed inside the model.
func (s *sched) slowGuard() slowReport {
	p := s.slow
	s.mu.Lock()
	defer s.mu.Unlock()
	rep := slowReport{PhaseMS: p.P.Milliseconds()}
	yStart, ok1 := s.slowStart[[2]int{p.Y, p.J}]
	yNext, ok2 := s.slowStart[[2]int{p.Y, p.J + 1}]
	if !ok1 || !ok2 || s.slowDealDone.IsZero() || s.slowDealSent.IsZero() {
		rep.Why = "delayed deal or DKG starts not observed"
		return rep
	}
	minNext := yNext
	for i := 0; i < s.nNodes; i++ {
		if t, ok := s.slowStart[[2]int{i, p.J + 1}]; ok && t.Before(minNext) {
			minNext = t
		}
	}
	ms := func(t time.Time) int64 { return t.Sub(yStart).Milliseconds() }
	rep.DealSent, rep.DealDone, rep.YNext, rep.MinNext = ms(s.slowDealSent), ms(s.slowDealDone), ms(yNext), ms(minNext)
	rep.DealDelay = s.slowDealDone.Sub(s.slowDealSent).Milliseconds()
	safety := time.Duration(slowSafety * float64(p.P))
	rep.Placed = s.slowDealDone.After(yStart.Add(p.P))
	switch {
	case s.slowDealDone.After(yNext.Add(p.P - safety)):
		rep.Why = "delayed deal handled too close to (or after) Y's own deal deadline"
	case s.slowDealDone.After(minNext.Add(2*p.P - 2*safety)):
		rep.Why = "delayed deal handled too close to the first node's response deadline"
	case s.slowDealDone.Sub(s.slowDealSent) >= p.P:
		rep.Why = "deal was delayed by a full phase"
	case s.slowShareLate:
		rep.Why = "a delayed pubkey share was delivered a full phase after it was sent"
	default:
		rep.GuardOK = true
	}

	return rep
}
