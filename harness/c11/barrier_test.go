package c11

import (
	"fmt"
	"sync"
	"sync/atomic"
	"time"

	"google.golang.org/protobuf/reflect/protodesc"
	"google.golang.org/protobuf/reflect/protoreflect"
	"google.golang.org/protobuf/reflect/protoregistry"
	"google.golang.org/protobuf/types/descriptorpb"
	"google.golang.org/protobuf/types/dynamicpb"
)

// protoBarrier lines up concurrently delivered copies of one reliable-broadcast message right
// before the receiving node's message-id callback runs.
//
// The window of a non-atomic duplicate filter is a few instructions wide, but the copies reach the
// callback spread over the jitter of the n secp256k1 signature verifications that precede it
// (milliseconds on a loaded machine), so a plain start barrier almost never lines two of them up.
// The last thing bcast's handler does before it looks up and calls the callback is
// anypb.UnmarshalNew, which resolves the message type in protoregistry.GlobalTypes under a
// read lock of the registry's RWMutex. The harness uses only exported API to park every copy there:
// a harness goroutine sits inside GlobalTypes.RangeMessages (read lock held), a second one calls
// GlobalTypes.RegisterMessage for a fresh, uniquely named dynamic type (write lock pending); a Go
// RWMutex with a pending writer admits no new readers, so each copy blocks in UnmarshalNew when it
// gets there. When the holder leaves, the writer registers its (unused) type and unlocks, and all
// parked readers are released together, a few microseconds away from the callback.
//
// Nothing of the code under test is changed; the only side effects are registry entries named
// verifc11.Barrier<N> and a pause of at most `hold` for other bcast message handlers in the process.
// Time is used for pacing only (how long to wait for the copies to arrive).
var (
	barrierMu  sync.Mutex // one barrier at a time in the process
	barrierSeq atomic.Int64
)

func newBarrierType() (protoreflect.MessageType, error) {
	n := barrierSeq.Add(1)
	name := fmt.Sprintf("Barrier%d", n)
	file := fmt.Sprintf("verifc11/barrier%d.proto", n)
	pkg := "verifc11"
	syntax := "proto3"
	fd, err := protodesc.NewFile(&descriptorpb.FileDescriptorProto{
		Name: &file, Package: &pkg, Syntax: &syntax,
		MessageType: []*descriptorpb.DescriptorProto{{Name: &name}},
	}, nil)
	if err != nil {
		return nil, err
	}

	return dynamicpb.NewMessageType(fd.Messages().Get(0)), nil
}

// protoBarrier runs launch() (which releases the copies) while registry readers are being parked,
// keeps them parked for `hold`, then releases them together. Returns false if the barrier could
// not be set up (launch is still called).
func protoBarrier(hold time.Duration, launch func()) bool {
	mt, err := newBarrierType()
	if err != nil {
		launch()

		return false
	}
	barrierMu.Lock()
	defer barrierMu.Unlock()

	release := make(chan struct{})
	entered := make(chan struct{})
	holderDone := make(chan struct{})
	go func() {
		defer close(holderDone)
		first := true
		protoregistry.GlobalTypes.RangeMessages(func(protoreflect.MessageType) bool {
			if first {
				first = false
				close(entered)
				<-release
			}

			return false
		})
	}()
	<-entered
	writerDone := make(chan struct{})
	go func() {
		defer close(writerDone)
		_ = protoregistry.GlobalTypes.RegisterMessage(mt) // blocks until the holder leaves
	}()
	time.Sleep(200 * time.Microsecond) // let the writer reach Lock(); the copies need far longer to get to the registry
	launch()
	time.Sleep(hold)
	close(release)
	<-holderDone
	<-writerDone

	return true
}
