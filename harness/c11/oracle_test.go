package c11

import (
	"encoding/hex"
	"fmt"
	"math/rand"
	"sort"
	"sync"

	"github.com/obolnetwork/charon/dkg/share"
	"github.com/obolnetwork/charon/tbls"

	"verifharness/kit"
)

// ceremony is one key generation ceremony configuration.
type ceremony struct {
	Engine string `json:"engine"`
	N      int    `json:"n"`
	T      int    `json:"t"`
	V      int    `json:"v"`
	Rep    int    `json:"repeat"`
	// Focus "concurrent": the ceremony always runs in the targeted concurrent-duplicate mode.
	Focus string `json:"focus,omitempty"`
}

func (c ceremony) String() string {
	s := fmt.Sprintf("%s n=%d t=%d v=%d rep=%d", c.Engine, c.N, c.T, c.V, c.Rep)
	if c.Focus != "" {
		s += " focus=" + c.Focus
	}

	return s
}

// shareDump is the JSON form of one node's result for one validator (test keys only).
type shareDump struct {
	Node         int               `json:"node"`
	PubKey       string            `json:"pubkey"`
	SecretShare  string            `json:"secret_share"`
	PublicShares map[string]string `json:"public_shares"`
}

func dumpShares(results [][]share.Share, val int) []shareDump {
	var out []shareDump
	for i, res := range results {
		if val >= len(res) {
			out = append(out, shareDump{Node: i, PubKey: "<missing>"})
			continue
		}
		sh := res[val]
		d := shareDump{Node: i, PubKey: hex.EncodeToString(sh.PubKey[:]), SecretShare: hex.EncodeToString(sh.SecretShare[:]), PublicShares: map[string]string{}}
		for k, p := range sh.PublicShares {
			d.PublicShares[fmt.Sprint(k)] = hex.EncodeToString(p[:])
		}
		out = append(out, d)
	}

	return out
}

// keyRegistry detects a group key that shows up twice (within one ceremony or across ceremonies).
type keyRegistry struct {
	mu   sync.Mutex
	seen map[tbls.PublicKey]string
}

func (k *keyRegistry) add(pk tbls.PublicKey, owner string) (string, bool) {
	k.mu.Lock()
	defer k.mu.Unlock()
	if prev, ok := k.seen[pk]; ok {
		return prev, false
	}
	k.seen[pk] = owner

	return "", true
}

type oracleStats struct {
	subsetsChecked int
	exhaustive     bool
	rejected       bool
	rules          map[string]bool
}

// subsetsFor returns the t-subsets of 0..n-1 the oracle evaluates: all of them for n <= 6, otherwise
// a PRNG sample that always contains the first and the last subset and covers every node.
func subsetsFor(rng *rand.Rand, n, k int) ([][]int, bool) {
	if k <= 0 || k > n {
		return nil, true
	}
	all := kit.Subsets(n, k)
	const maxSample = 24
	if n <= 6 || len(all) <= maxSample {
		return all, true
	}
	picked := map[int]bool{0: true, len(all) - 1: true}
	for len(picked) < maxSample {
		picked[rng.Intn(len(all))] = true
	}
	// every node appears in at least one sampled subset
	cover := make([]bool, n)
	var idxs []int
	for i := range picked {
		idxs = append(idxs, i)
	}
	sort.Ints(idxs)
	var out [][]int
	for _, i := range idxs {
		out = append(out, all[i])
		for _, m := range all[i] {
			cover[m] = true
		}
	}
	for node, ok := range cover {
		if ok {
			continue
		}
		for _, s := range all {
			has := false
			for _, m := range s {
				if m == node {
					has = true
				}
			}
			if has {
				out = append(out, s)
				break
			}
		}
	}

	return out, false
}

// checkShares is the oracle of C11 on the per-node results of one successful ceremony.
// results[i] is what node i (share index i+1) got back from the real ceremony code.
func checkShares(c *kit.Case, cer ceremony, results [][]share.Share, sched any, reg *keyRegistry, sigSuffix string) (st oracleStats) {
	r := c.R
	n, t, v := cer.N, cer.T, cer.V
	prefix := "dkg/" + cer.Engine + "/"
	st.rules = map[string]bool{}

	violated := false
	viol := func(rule, what string, val int, extra map[string]any) {
		if !violated {
			violated = true
			r.Count("ceremonies_rejected_by_oracle", 1)
			r.Count("ceremonies_rejected_by_oracle/"+cer.Engine+"/"+cer.Focus, 1)
		}
		w := map[string]any{"ceremony": cer, "validator": val, "schedule": sched}
		if val >= 0 {
			w["shares_per_node"] = dumpShares(results, val)
		}
		for k, x := range extra {
			w[k] = x
		}
		st.rejected = true
		st.rules[rule+sigSuffix] = true
		c.Violation(prefix+rule+sigSuffix, fmt.Sprintf("%s (%s, validator %d)", what, cer, val), w)
	}

	// every node returns one share per validator
	for i, res := range results {
		if len(res) != v {
			viol("share-count", fmt.Sprintf("node %d returned %d shares for %d validators", i, len(res), v), -1, map[string]any{"node": i, "got": len(res)})
			return st
		}
	}

	for val := 0; val < v; val++ {
		ok := true
		group := results[0][val].PubKey
		ref := results[0][val].PublicShares

		// (1) same group key and same public share map on every node; n entries keyed 1..n
		for i := 0; i < n; i++ {
			sh := results[i][val]
			if sh.PubKey != group {
				viol("group-key-differs-across-nodes", fmt.Sprintf("node %d holds another group public key than node 0", i), val, map[string]any{"node": i})
				ok = false
			}
			if len(sh.PublicShares) != n {
				viol("public-shares-wrong-index-set", fmt.Sprintf("node %d holds %d public shares, want %d", i, len(sh.PublicShares), n), val, map[string]any{"node": i})
				ok = false

				continue
			}
			for idx := 1; idx <= n; idx++ {
				p, has := sh.PublicShares[idx]
				if !has {
					viol("public-shares-wrong-index-set", fmt.Sprintf("node %d has no public share for share index %d", i, idx), val, map[string]any{"node": i, "share_idx": idx})
					ok = false

					continue
				}
				if q, has := ref[idx]; has && p != q {
					viol("public-shares-differ-across-nodes", fmt.Sprintf("node %d and node 0 hold different public shares for share index %d", i, idx), val, map[string]any{"node": i, "share_idx": idx})
					ok = false
				}
			}
		}
		r.Count("validators_checked", 1)
		if !ok {
			continue // the algebra below is only meaningful on one agreed set of values
		}

		// (2) each node's secret share matches the public share published for share index node+1
		secrets := map[int]tbls.PrivateKey{}
		for i := 0; i < n; i++ {
			sh := results[i][val]
			secrets[i+1] = sh.SecretShare
			pub, err := tbls.SecretToPublicKey(sh.SecretShare)
			if err != nil {
				viol("secret-share-unusable", fmt.Sprintf("node %d: SecretToPublicKey failed: %v", i, err), val, map[string]any{"node": i})
				ok = false

				continue
			}
			if pub != ref[i+1] {
				// say whether it matches some other index (index mapping defect) or none
				other := 0
				for idx, p := range ref {
					if p == pub {
						other = idx
					}
				}
				rule := "secret-share-does-not-match-public-share"
				if other != 0 {
					rule = "secret-share-matches-public-share-of-other-index"
				}
				viol(rule, fmt.Sprintf("node %d: public key of its secret share is not PublicShares[%d] (matches index %d)", i, i+1, other), val, map[string]any{"node": i, "matches_index": other})
				ok = false
			}
			r.Count("secret_vs_public_share", 1)
		}
		if !ok {
			continue
		}

		// partial signatures of every node over a PRNG message, each valid under its public share
		msg := make([]byte, 1+c.Rng.Intn(96))
		c.Rng.Read(msg)
		partials := map[int]tbls.Signature{}
		for i := 0; i < n; i++ {
			sig, err := tbls.Sign(secrets[i+1], msg)
			if err != nil {
				viol("secret-share-unusable", fmt.Sprintf("node %d: Sign failed: %v", i, err), val, map[string]any{"node": i})
				ok = false

				continue
			}
			partials[i+1] = sig
			if err := tbls.Verify(ref[i+1], msg, sig); err != nil {
				viol("partial-sig-invalid-under-public-share", fmt.Sprintf("node %d: partial signature does not verify under PublicShares[%d]: %v", i, i+1, err), val, map[string]any{"node": i})
				ok = false
			}
			r.Count("partial_sigs_verified", 1)
		}
		if !ok {
			continue
		}

		// (3)-(5) every (sampled above n=6) t-subset: public shares recover the group key, partial
		// signatures aggregate to a signature valid under the group key, secret shares recover a
		// secret whose public key is the group key.
		subsets, exhaustive := subsetsFor(c.Rng, n, t)
		st.exhaustive = exhaustive
		for _, sub := range subsets {
			pubs := map[int]tbls.PublicKey{}
			sigs := map[int]tbls.Signature{}
			secs := map[int]tbls.PrivateKey{}
			for _, m := range sub {
				pubs[m+1] = ref[m+1]
				sigs[m+1] = partials[m+1]
				secs[m+1] = secrets[m+1]
			}
			ids := fmt.Sprint(sub)
			if rec, err := tbls.RecoverPubkey(pubs); err != nil {
				viol("t-public-shares-do-not-recover-group-key", fmt.Sprintf("RecoverPubkey of nodes %s failed: %v", ids, err), val, map[string]any{"subset": sub})
			} else if rec != group {
				viol("t-public-shares-do-not-recover-group-key", fmt.Sprintf("public shares of nodes %s recover %x, group key is %x", ids, rec[:6], group[:6]), val, map[string]any{"subset": sub, "recovered": hex.EncodeToString(rec[:])})
			}
			if agg, err := tbls.ThresholdAggregate(sigs); err != nil {
				viol("t-partials-aggregate-invalid", fmt.Sprintf("ThresholdAggregate of nodes %s failed: %v", ids, err), val, map[string]any{"subset": sub})
			} else if err := tbls.Verify(group, msg, agg); err != nil {
				viol("t-partials-aggregate-invalid", fmt.Sprintf("aggregate of partial signatures of nodes %s does not verify under the group key: %v", ids, err), val, map[string]any{"subset": sub, "msg": hex.EncodeToString(msg)})
			}
			if sec, err := tbls.RecoverSecret(secs, uint(n), uint(t)); err != nil {
				viol("t-secret-shares-recover-wrong-key", fmt.Sprintf("RecoverSecret of nodes %s failed: %v", ids, err), val, map[string]any{"subset": sub})
			} else if pk, err := tbls.SecretToPublicKey(sec); err != nil || pk != group {
				viol("t-secret-shares-recover-wrong-key", fmt.Sprintf("secret recovered from nodes %s has public key %x, group key is %x (err %v)", ids, pk[:6], group[:6], err), val, map[string]any{"subset": sub})
			}
			st.subsetsChecked++
			r.Count("t_subsets_checked", 1)
		}

		// negative sanity: the threshold is really t — t-1 shares must not reconstruct the key
		if t-1 >= 1 {
			small, _ := subsetsFor(c.Rng, n, t-1)
			if len(small) > 8 {
				c.Rng.Shuffle(len(small), func(i, j int) { small[i], small[j] = small[j], small[i] })
				small = small[:8]
			}
			for _, sub := range small {
				pubs := map[int]tbls.PublicKey{}
				secs := map[int]tbls.PrivateKey{}
				for _, m := range sub {
					pubs[m+1] = ref[m+1]
					secs[m+1] = secrets[m+1]
				}
				if rec, err := tbls.RecoverPubkey(pubs); err == nil && rec == group {
					viol("fewer-than-t-shares-reconstruct-group-key", fmt.Sprintf("%d public shares (nodes %v) already recover the group key, threshold is %d", t-1, sub, t), val, map[string]any{"subset": sub})
				}
				if sec, err := tbls.RecoverSecret(secs, uint(n), uint(t)); err == nil {
					if pk, err := tbls.SecretToPublicKey(sec); err == nil && pk == group {
						viol("fewer-than-t-shares-reconstruct-group-key", fmt.Sprintf("%d secret shares (nodes %v) already recover the group secret, threshold is %d", t-1, sub, t), val, map[string]any{"subset": sub})
					}
				}
				r.Count("below_threshold_subsets_checked", 1)
			}
		}

		// one key per validator: no group key appears twice, neither within nor across ceremonies
		owner := fmt.Sprintf("case %d (%s) validator %d", c.Idx, cer, val)
		if prev, fresh := reg.add(group, owner); !fresh {
			viol("group-key-not-unique", fmt.Sprintf("group key %x was already produced by %s", group[:8], prev), val, map[string]any{"previous": prev})
		}
	}

	return st
}
