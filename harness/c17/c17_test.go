// Package c17 monitors the two in-memory aggregate-signature stores (aggsigdb.MemDB and
// aggsigdb.MemDBV2, property C17): hostile concurrent Store/Await/cancel/expiry workloads against
// the real code, histories recorded at the client boundary and checked per key against a
// write-once register (porcupine), plus a causal lost-wake-up oracle.
package c17

import (
	"context"
	"errors"
	"fmt"
	"math/rand"
	"runtime"
	"sort"
	"strings"
	"sync"
	"sync/atomic"
	"testing"
	"time"

	"github.com/anishathalye/porcupine"

	"github.com/obolnetwork/charon/core"
	"github.com/obolnetwork/charon/core/aggsigdb"

	"verifharness/kit"
)

const (
	implV1 = "MemDB"
	implV2 = "MemDBV2"

	// confirmAfter: once a lost-wake-up signature has been confirmed this often (full settle and
	// two re-checks each time) in one run, further occurrences of the same shape are only counted.
	confirmAfter = 20

	watchdog      = 30 * time.Second // generous; firing ⇒ inconclusive
	probeWatchdog = 8 * time.Second  // fresh Await of a key that must be present; firing ⇒ inconclusive

	// maxProbeTimeouts: after this many fresh probes of must-be-present keys timed out the run is
	// inconclusive anyway; remaining cases are skipped instead of waiting for the watchdog each time.
	maxProbeTimeouts = 8
)

type dbAPI interface {
	Store(ctx context.Context, duty core.Duty, set core.SignedDataSet) error
	Await(ctx context.Context, duty core.Duty, pubKey core.PubKey, subcommIdx core.SubcommitteeIndex) (core.SignedData, error)
	Run(ctx context.Context)
}

var (
	_ dbAPI = (*aggsigdb.MemDB)(nil)
	_ dbAPI = (*aggsigdb.MemDBV2)(nil)
)

func TestCheck(t *testing.T) {
	r := kit.Start(t, "C17")
	defer r.Finish()
	r.Rule("case = PRNG script for one implementation (even index MemDB, odd MemDBV2): 1-4 keys (duty,pubkey[,sync subcommittee]), 1-16 reader goroutines, " +
		"2-6 phases of concurrent actions (start Await, single/multi-key Store of first/equal/conflicting data, cancel reader, expire duty through the harness Deadliner); " +
		"30% of the readers scribble over the value they received (signature bytes, memory behind pointers) right after its fingerprint was taken at return " +
		"with a barrier after each phase; values are harness SignedData with yield points in Clone/MarshalJSON or real eth2 types; " +
		"non-trivial = at least one Await that was pending before its key's store was issued returned that value and at least one Store was issued while >=2 Awaits were pending; " +
		"distinct = hash of the generated script")
	r.Assume("the harness Deadliner honours the core.Deadliner contract (only duties it answered Scheduled for are emitted on C(), each at most once)")
	r.Assume("a goroutine that stays inside Await across three settle rounds (sleep + scheduler barrier of 4*GOMAXPROCS fresh goroutines + a fresh Await of the same key that returns) is asleep, not merely slow")
	r.Assume("expiry is modelled as a reset of the key (reads block again, a different value may then be stored); the statement does not say more about it")
	r.RacePkgs(false, "core/aggsigdb")
	n := r.N(10000, 200000)
	// minimum observations, proportional to the case count (measured rates are 4-10x higher)
	for key, perCase := range map[string]float64{
		"awaits_returned_value": 1.0, "awaits_woken_by_later_store": 0.3, "awaits_cancelled": 0.3,
		"stores_accepted": 0.5, "stores_rejected_conflict": 0.15, "multi_key_stores": 0.05, "expiries": 0.04,
		"wakeup_checks": 1.5, "histories_checked/" + implV1: 0.4, "histories_checked/" + implV2: 0.4,
		"results_scribbled_by_reader": 0.2, "unmodified_results_rechecked_at_end": 1.0,
	} {
		r.Require(key, int64(float64(n)*perCase))
	}
	r.Cases(n, 0, func(c *kit.Case) { runCase(c) })
}

// ---------------------------------------------------------------------------------------------
// script

type keyDef struct {
	Duty    core.Duty              `json:"-"`
	DutyStr string                 `json:"duty"`
	DutyIdx int                    `json:"duty_idx"`
	PK      core.PubKey            `json:"pubkey"`
	PKIdx   int                    `json:"-"`
	Sub     core.SubcommitteeIndex `json:"subcomm_idx"`
}

type valueDef struct {
	id  int
	key int
	mk  func() core.SignedData
	fp  string
}

type action struct {
	Kind    string `json:"kind"` // read | store | cancel | expire
	Reader  int    `json:"reader"`
	Key     int    `json:"key"`
	Keys    []int  `json:"keys,omitempty"`
	Vals    []int  `json:"vals,omitempty"`
	Duty    int    `json:"duty"`
	Delay   int    `json:"delay"` // 0 none, 1 gosched, 2 sleep DelayUS
	DelayUS int    `json:"delay_us,omitempty"`
}

type script struct {
	Impl      string `json:"impl"`
	Family    string `json:"family"`
	ValueKind string `json:"value_kind"`
	// SameSigConflicts: the third content of every key has the signature bytes of the first
	SameSigConflicts bool       `json:"third_content_reuses_first_signature,omitempty"`
	Keys             []keyDef   `json:"keys"`
	DutyStatus       []string   `json:"duty_deadline_status"`
	Readers          int        `json:"readers"`
	ReaderKeys       []int      `json:"reader_keys"`
	Mutators         []bool     `json:"reader_scribbles_its_result"`
	Phases           [][]action `json:"phases"`
	ValueYield       int        `json:"value_yield_mode"`
	DLYield          int        `json:"deadliner_yield_mode"`
}

var plainTypes = []core.DutyType{
	core.DutyAttester, core.DutyProposer, core.DutyAggregator, core.DutyRandao, core.DutySyncMessage,
	core.DutyPrepareAggregator, core.DutyExit, core.DutyBuilderRegistration,
}

func pubkey(i int) core.PubKey {
	return core.PubKey(fmt.Sprintf("0x%096x", 0xabc000+i))
}

type generated struct {
	sc       *script
	duties   []core.Duty
	statuses []core.DeadlineStatus
	vals     map[int]*valueDef
	valY     *yielder
	dlY      *yielder
}

func genYielder(rng *rand.Rand, acted *atomic.Int64) *yielder {
	y := &yielder{acted: acted}
	switch k := rng.Intn(10); {
	case k < 3:
		y.mode = 0
	case k < 7:
		y.mode = 1
		y.every = int64(1 + rng.Intn(3))
	default:
		y.mode = 2
		y.every = int64(1 + rng.Intn(4))
		y.us = int64(20 + rng.Intn(300))
	}

	return y
}

func generate(rng *rand.Rand, impl string, acted *atomic.Int64) *generated {
	g := &generated{sc: &script{Impl: impl}, vals: map[int]*valueDef{}}
	sc := g.sc
	nKeys := 1 + rng.Intn(4)
	sync_ := rng.Intn(10) < 3
	g.valY = genYielder(rng, acted)
	g.dlY = genYielder(rng, acted)
	sc.ValueYield, sc.DLYield = g.valY.mode, g.dlY.mode

	nDuties := 1
	if rng.Intn(3) == 0 {
		nDuties = 2
	}
	var syncType core.DutyType
	if sync_ {
		sc.Family = "sync-subcommittee"
		syncType = core.DutyPrepareSyncContribution
		sc.ValueKind = "core.SyncCommitteeSelection"
		if rng.Intn(2) == 0 {
			syncType = core.DutySyncContribution
			sc.ValueKind = "core.SignedSyncContributionAndProof"
		}
	} else {
		sc.Family = "plain"
		sc.ValueKind = "harness-probe"
		switch k := rng.Intn(20); {
		case k < 4:
			sc.ValueKind = "core.SignedRandao"
		case k < 8:
			sc.ValueKind = "core.SignedVoluntaryExit"
		}
	}
	sc.SameSigConflicts = rng.Intn(2) == 0
	for len(g.duties) < nDuties {
		d := core.Duty{Slot: uint64(1 + rng.Intn(8)), Type: syncType}
		if !sync_ {
			d.Type = kit.Pick(rng, plainTypes)
		}
		dup := false
		for _, o := range g.duties {
			dup = dup || o == d
		}
		if dup {
			continue
		}
		g.duties = append(g.duties, d)
		st := core.DeadlineScheduled
		switch k := rng.Intn(10); {
		case k < 2:
			st = core.DeadlineExpired
		case k < 4:
			st = core.DeadlineExempt
		}
		g.statuses = append(g.statuses, st)
		sc.DutyStatus = append(sc.DutyStatus, fmt.Sprintf("%v:%s", d, statusName(st)))
	}
	nPK := 1 + rng.Intn(3)
	nSub := 1
	if sync_ {
		nPK = 1 + rng.Intn(2)
		nSub = 2 + rng.Intn(3)
	}
	type combo struct{ d, p, s int }
	var grid []combo
	for d := 0; d < nDuties; d++ {
		for p := 0; p < nPK; p++ {
			for s := 0; s < nSub; s++ {
				grid = append(grid, combo{d, p, s})
			}
		}
	}
	rng.Shuffle(len(grid), func(i, j int) { grid[i], grid[j] = grid[j], grid[i] })
	if nKeys > len(grid) {
		nKeys = len(grid)
	}
	for _, cb := range grid[:nKeys] {
		sc.Keys = append(sc.Keys, keyDef{
			Duty: g.duties[cb.d], DutyStr: g.duties[cb.d].String(), DutyIdx: cb.d,
			PK: pubkey(cb.p), PKIdx: cb.p, Sub: core.SubcommitteeIndex(cb.s),
		})
	}
	// three distinct contents per key
	for ki, k := range sc.Keys {
		for j := 0; j < 3; j++ {
			id := ki*3 + j + 1
			ki, k := ki, k
			// in every second scenario the third content of a key carries the signature bytes of the
			// first: different data under one signature
			sigID := id
			if j == 2 && sc.SameSigConflicts {
				sigID = ki*3 + 1
			}
			var mk func() core.SignedData
			switch sc.ValueKind {
			case "harness-probe":
				y := g.valY
				mk = func() core.SignedData { return newProbeDataSig(id, sigID, ki, y) }
			case "core.SignedRandao":
				mk = func() core.SignedData { return newRandao(id, sigID) }
			case "core.SignedVoluntaryExit":
				mk = func() core.SignedData { return newExit(id, sigID) }
			case "core.SyncCommitteeSelection":
				mk = func() core.SignedData { return newSelection(id, sigID, k.Duty.Slot, k.Sub) }
			default:
				mk = func() core.SignedData { return newContribution(id, sigID, k.Duty.Slot, k.Sub) }
			}
			fp, err := fingerprint(mk())
			if err != nil {
				panic(fmt.Sprintf("harness value does not marshal: %v", err))
			}
			g.vals[id] = &valueDef{id: id, key: ki, mk: mk, fp: fp}
		}
	}

	nPhases := 2 + rng.Intn(5)
	sc.Phases = make([][]action, nPhases)
	add := func(p int, a action) {
		switch k := rng.Intn(6); {
		case k < 3:
		case k < 5:
			a.Delay = 1
		default:
			a.Delay = 2
			a.DelayUS = 20 + rng.Intn(800)
		}
		sc.Phases[p] = append(sc.Phases[p], a)
	}
	pickVal := func(ki int) int {
		switch k := rng.Intn(20); {
		case k < 11:
			return ki*3 + 1
		case k < 16:
			return ki*3 + 2
		default:
			return ki*3 + 3
		}
	}

	// readers
	sc.Readers = 1 + rng.Intn(16)
	hot := rng.Intn(nKeys)
	for i := 0; i < sc.Readers; i++ {
		key := hot
		if rng.Intn(2) == 0 {
			key = rng.Intn(nKeys)
		}
		sc.ReaderKeys = append(sc.ReaderKeys, key)
		sc.Mutators = append(sc.Mutators, rng.Intn(10) < 3)
		start := rng.Intn(nPhases)
		if s2 := rng.Intn(nPhases); s2 < start {
			start = s2
		}
		add(start, action{Kind: "read", Reader: i, Key: key})
		if rng.Intn(5) == 0 {
			add(start+rng.Intn(nPhases-start), action{Kind: "cancel", Reader: i, Key: key})
		}
	}
	// single-key stores
	for ki := range sc.Keys {
		n := []int{0, 1, 1, 1, 2, 2, 2, 3, 3, 4}[rng.Intn(10)]
		for j := 0; j < n; j++ {
			add(rng.Intn(nPhases), action{Kind: "store", Keys: []int{ki}, Vals: []int{pickVal(ki)}})
		}
	}
	// multi-key stores: same duty, distinct pubkeys
	if rng.Intn(10) < 5 {
		for rep := 0; rep < 1+rng.Intn(2); rep++ {
			d := rng.Intn(nDuties)
			seenPK := map[int]bool{}
			var ks, vs []int
			for _, ki := range rng.Perm(nKeys) {
				k := sc.Keys[ki]
				if k.DutyIdx != d || seenPK[k.PKIdx] || len(ks) == 3 {
					continue
				}
				seenPK[k.PKIdx] = true
				ks = append(ks, ki)
				vs = append(vs, pickVal(ki))
			}
			if len(ks) >= 2 {
				add(rng.Intn(nPhases), action{Kind: "store", Keys: ks, Vals: vs})
			}
		}
	}
	// expiry: at most once per duty, only duties answered Scheduled
	for d := range g.duties {
		if g.statuses[d] == core.DeadlineScheduled && nPhases > 1 && rng.Intn(10) < 3 {
			add(1+rng.Intn(nPhases-1), action{Kind: "expire", Duty: d})
		}
	}
	for p := range sc.Phases {
		ph := sc.Phases[p]
		rng.Shuffle(len(ph), func(i, j int) { ph[i], ph[j] = ph[j], ph[i] })
	}

	return g
}

func statusName(s core.DeadlineStatus) string {
	switch s {
	case core.DeadlineExpired:
		return "expired"
	case core.DeadlineScheduled:
		return "scheduled"
	case core.DeadlineExempt:
		return "exempt"
	default:
		return fmt.Sprintf("status(%d)", int(s))
	}
}

// ---------------------------------------------------------------------------------------------
// harness Deadliner

var barrierDuty = core.Duty{Slot: 1 << 40, Type: core.DutyExit}

type deadliner struct {
	ch chan core.Duty
	y  *yielder

	mu     sync.Mutex
	status map[core.Duty]core.DeadlineStatus
	adds   int
}

func (d *deadliner) Add(duty core.Duty) core.DeadlineStatus {
	d.y.at()
	d.mu.Lock()
	defer d.mu.Unlock()
	d.adds++
	st, ok := d.status[duty]
	if !ok {
		return core.DeadlineExempt
	}

	return st
}

func (d *deadliner) C() <-chan core.Duty { return d.ch }

// ---------------------------------------------------------------------------------------------
// history

type opRec struct {
	ID     int    `json:"id"`
	Kind   string `json:"kind"`
	Client int    `json:"client"`
	Who    string `json:"who"`
	Key    int    `json:"key"`
	Keys   []int  `json:"keys,omitempty"`
	Vals   []int  `json:"vals,omitempty"`
	Call   int64  `json:"call"`
	Ret    int64  `json:"ret"`
	Res    string `json:"res"`
	OutVal int    `json:"out_val,omitempty"`
	Err    string `json:"err,omitempty"`
	Note   string `json:"note,omitempty"`
}

type reader struct {
	id    int
	key   int
	probe bool

	ctx       context.Context
	cancel    context.CancelFunc
	cancelReq atomic.Bool
	started   chan struct{}
	done      chan struct{}

	call     int64           // valid once started is closed
	rec      *opRec          // valid once done is closed
	mutate   bool            // scribbles over its result right after Await returned it
	result   core.SignedData // valid once done is closed
	fpAtRet  string          // deep fingerprint taken the moment Await returned
	launched bool            // coordinator only
	released atomic.Bool
}

func isClosed(ch chan struct{}) bool {
	select {
	case <-ch:
		return true
	default:
		return false
	}
}

type env struct {
	c    *kit.Case
	r    *kit.Run
	impl string
	g    *generated
	db   dbAPI
	dl   *deadliner
	byFP map[string]int

	opCtx context.Context
	seq   atomic.Int64

	mu      sync.Mutex
	ops     []*opRec
	direct  map[int]bool // keys that already have a directly diagnosed violation
	clients int

	readers []*reader
	probes  []*reader
	broken  atomic.Bool // watchdog fired: case is inconclusive
	acted   atomic.Int64
}

func (e *env) addOp(o *opRec) {
	e.mu.Lock()
	o.ID = len(e.ops)
	e.ops = append(e.ops, o)
	e.mu.Unlock()
}

func (e *env) snapshot() []*opRec {
	e.mu.Lock()
	defer e.mu.Unlock()
	out := make([]*opRec, len(e.ops))
	copy(out, e.ops)

	return out
}

func (e *env) sig(parts ...string) string {
	return "aggsigdb." + e.impl + "/" + strings.Join(parts, "/")
}

func (e *env) violation(keys []int, sig, what string, extra map[string]any) {
	w := map[string]any{"script": e.g.sc, "history": e.snapshot()}
	for k, v := range extra {
		w[k] = v
	}
	e.mu.Lock()
	for _, k := range keys {
		e.direct[k] = true
	}
	e.mu.Unlock()
	e.c.Violation(sig, what, w)
}

func (e *env) inconclusive(format string, a ...any) {
	e.broken.Store(true)
	e.r.Inconclusive("case %d (%s): %s", e.c.Idx, e.impl, fmt.Sprintf(format, a...))
}

func (e *env) newReader(id, key int, probe bool, timeout time.Duration) *reader {
	rd := &reader{id: id, key: key, probe: probe, started: make(chan struct{}), done: make(chan struct{})}
	if timeout > 0 {
		rd.ctx, rd.cancel = context.WithTimeout(e.opCtx, timeout)
	} else {
		rd.ctx, rd.cancel = context.WithCancel(e.opCtx)
	}

	return rd
}

// runAwait performs one Await at the client boundary and records it.
func (e *env) runAwait(rd *reader) {
	defer close(rd.done)
	k := e.g.sc.Keys[rd.key]
	rd.call = e.seq.Add(1)
	close(rd.started)
	v, err := e.db.Await(rd.ctx, k.Duty, k.PK, k.Sub)
	ret := e.seq.Add(1)
	rec := &opRec{Kind: kAwait, Client: rd.id, Who: fmt.Sprintf("reader-%d", rd.id), Key: rd.key, Call: rd.call, Ret: ret}
	if rd.probe {
		rec.Who = "fresh-probe"
	}
	if err == nil {
		rec.Res = resOK
		// Deep fingerprint at the moment of return: no harness lock is held, nothing was touched yet.
		fp, ferr := fingerprint(v)
		rd.result, rd.fpAtRet = v, fp
		if rd.mutate {
			// This caller owns what it received and modifies it in place.
			if scribble(v) {
				rec.Note = "scribbled over its result after return"
				e.r.Count("results_scribbled_by_reader", 1)
			} else {
				rd.mutate = false // plain value struct: nothing reachable to modify
				e.r.Count("results_without_shared_memory_not_scribbled", 1)
			}
		}
		id, known := e.byFP[fp]
		switch {
		case ferr != nil || !known:
			rec.OutVal = -1
			rec.Note = "value differs from everything ever passed to Store: " + kit.Short(fp, 200)
			e.addOp(rec)
			e.violation([]int{rd.key}, e.sig("await", "returned-value-never-stored"),
				fmt.Sprintf("%s.Await returned a value whose content equals no value ever passed to Store", e.impl),
				map[string]any{"await": rec})
		case e.g.vals[id].key != rd.key:
			rec.OutVal = id
			rec.Note = fmt.Sprintf("value belongs to key %d", e.g.vals[id].key)
			e.addOp(rec)
			shape := "other-duty-or-pubkey"
			ok, rk := e.g.sc.Keys[e.g.vals[id].key], e.g.sc.Keys[rd.key]
			if ok.Duty == rk.Duty && ok.PK == rk.PK {
				shape = "other-sync-subcommittee"
			}
			e.violation([]int{rd.key}, e.sig("await", "returned-other-keys-value", shape),
				fmt.Sprintf("%s.Await(key %d) returned the value stored under key %d", e.impl, rd.key, e.g.vals[id].key),
				map[string]any{"await": rec})
		default:
			rec.OutVal = id
			e.addOp(rec)
		}
	} else {
		rec.Res = resNone
		rec.Err = err.Error()
		if rd.released.Load() {
			rec.Note = "released by the harness after a confirmed lost wake-up"
		}
		e.addOp(rec)
		ctxErr := errors.Is(err, context.Canceled) || errors.Is(err, context.DeadlineExceeded)
		if !ctxErr || !(rd.cancelReq.Load() || rd.probe) {
			e.violation([]int{rd.key}, e.sig("await", "unexpected-error"),
				fmt.Sprintf("%s.Await returned error %q although its context was not cancelled and the store was running", e.impl, err),
				map[string]any{"await": rec})
		}
	}
	rd.rec = rec
}

func (e *env) runStore(a action) {
	sc := e.g.sc
	set := core.SignedDataSet{}
	for i, ki := range a.Keys {
		set[sc.Keys[ki].PK] = e.g.vals[a.Vals[i]].mk()
	}
	duty := sc.Keys[a.Keys[0]].Duty
	e.mu.Lock()
	e.clients++
	client := 1000 + e.clients
	e.mu.Unlock()
	call := e.seq.Add(1)
	err := e.db.Store(e.opCtx, duty, set)
	ret := e.seq.Add(1)
	rec := &opRec{Kind: kStore, Client: client, Who: "store", Keys: a.Keys, Vals: a.Vals, Call: call, Ret: ret}
	switch {
	case err == nil:
		rec.Res = resOK
	case strings.Contains(err.Error(), "mismatching data"):
		rec.Res = resMismatch
		rec.Err = err.Error()
	default:
		rec.Res = "error"
		rec.Err = err.Error()
	}
	e.addOp(rec)
	if rec.Res == "error" {
		e.violation(a.Keys, e.sig("store", "unexpected-error"),
			fmt.Sprintf("%s.Store returned error %q for well-formed data", e.impl, err), map[string]any{"store": rec})
	}
}

func (e *env) runExpire(d int) {
	sc := e.g.sc
	var keys []int
	for ki, k := range sc.Keys {
		if k.DutyIdx == d {
			keys = append(keys, ki)
		}
	}
	call := e.seq.Add(1)
	for _, duty := range []core.Duty{e.g.duties[d], barrierDuty} {
		// The second send is a barrier: the single Run goroutine receives it only after it has
		// finished handling the expired duty.
		select {
		case e.dl.ch <- duty:
		case <-time.After(watchdog):
			e.inconclusive("Run loop did not read the Deadliner channel within the watchdog")
			return
		}
	}
	e.dl.mu.Lock()
	e.dl.status[e.g.duties[d]] = core.DeadlineExpired
	e.dl.mu.Unlock()
	ret := e.seq.Add(1)
	e.addOp(&opRec{Kind: kExpire, Client: 2000 + d, Who: "deadliner", Keys: keys, Key: -1, Call: call, Ret: ret, Res: resOK,
		Note: "duty " + e.g.duties[d].String()})
}

// ---------------------------------------------------------------------------------------------
// lost wake-ups

// presence computes, at a barrier (no Store/expiry in flight), which keys must be present
// (true: an accepted Store was issued after the last expiry of its duty had completed) or may be
// present (false: only a multi-key Store that returned an error, or an accepted Store that
// overlapped an expiry, can account for it). Keys that cannot be present are absent from the map.
func (e *env) presence() map[int]bool {
	ops := e.snapshot()
	out := map[int]bool{}
	for ki := range e.g.sc.Keys {
		exp := lastExpiry(ops, ki)
		for _, o := range ops {
			in, po, ok := o.forKey(ki)
			if !ok || in.kind != kStore || po.res == resMismatch {
				continue
			}
			after := exp == nil || o.Call > exp.Ret
			overlap := exp != nil && !after && o.Ret >= exp.Call
			switch {
			case after && po.res == resOK:
				out[ki] = true
			case after || overlap:
				out[ki] = out[ki] || false
			}
		}
	}

	return out
}

func lastExpiry(ops []*opRec, key int) *opRec {
	var exp *opRec
	for _, o := range ops {
		if o.Kind != kExpire {
			continue
		}
		for _, k := range o.Keys {
			if k == key && (exp == nil || o.Ret > exp.Ret) {
				exp = o
			}
		}
	}

	return exp
}

// definer names the Store that accounts for key holding value val (the value a fresh Await just
// returned): an accepted Store issued after the last expiry if there is one, else a multi-key
// Store that returned an error after storing part of its set, else an accepted Store that
// overlapped the expiry. from is the earliest call seq among all candidates.
func (e *env) definer(key, val int) (st *opRec, from int64, failedMulti bool) {
	ops := e.snapshot()
	exp := lastExpiry(ops, key)
	var class [3]*opRec
	from = int64(1) << 62
	for _, o := range ops {
		in, po, ok := o.forKey(key)
		if !ok || in.kind != kStore || po.res == resMismatch || in.val != val {
			continue
		}
		after := exp == nil || o.Call > exp.Ret
		overlap := exp != nil && !after && o.Ret >= exp.Call
		if !after && !overlap {
			continue
		}
		c := 2
		switch {
		case after && po.res == resOK:
			c = 0
		case po.res != resOK:
			c = 1
		}
		if class[c] == nil || o.Call < class[c].Call {
			class[c] = o
		}
		if o.Call < from {
			from = o.Call
		}
	}
	for c, o := range class {
		if o != nil {
			return o, from, c == 1
		}
	}

	return nil, 0, false
}

func schedBarrier() {
	n := 4 * runtime.GOMAXPROCS(0)
	var wg sync.WaitGroup
	for i := 0; i < n; i++ {
		wg.Add(1)
		go func() {
			defer wg.Done()
			for j := 0; j < 8; j++ {
				runtime.Gosched()
			}
		}()
	}
	wg.Wait()
}

// probe issues a fresh Await for key and reports whether it returned a value.
func (e *env) probe(key int, timeout time.Duration) (bool, *reader) {
	e.mu.Lock()
	e.clients++
	id := 3000 + e.clients
	e.mu.Unlock()
	rd := e.newReader(id, key, true, timeout)
	e.probes = append(e.probes, rd)
	go e.runAwait(rd)
	select {
	case <-rd.done:
	case <-time.After(timeout + watchdog):
		rd.cancel()
		return false, rd
	}
	rd.cancel()
	e.r.Count("fresh_probes", 1)

	return rd.rec != nil && rd.rec.Res == resOK, rd
}

type blockedInfo struct {
	Reader       int    `json:"reader"`
	Key          int    `json:"key"`
	AwaitCall    int64  `json:"await_call_seq"`
	ProbedValue  int    `json:"value_returned_by_fresh_awaits"`
	StoreCall    int64  `json:"store_call_seq"`
	StoreRet     int64  `json:"store_ret_seq"`
	StoreRes     string `json:"store_result"`
	SameKey      []int  `json:"other_waiters_same_key"`
	OtherKey     []int  `json:"waiters_other_keys"`
	Shape        string `json:"shape"`
	FreshProbes  []int  `json:"fresh_probe_op_ids"`
	SettleRounds int    `json:"settle_rounds"`
}

// shapeOf classifies a blocked reader by the Store that made its key present and by who else
// could have consumed its wake-up.
func (e *env) shapeOf(rd *reader, val int) blockedInfo {
	bi := blockedInfo{Reader: rd.id, Key: rd.key, AwaitCall: rd.call, ProbedValue: val}
	st, from, failedMulti := e.definer(rd.key, val)
	if st == nil {
		bi.Shape = "value-present-without-store"
		return bi
	}
	bi.StoreCall, bi.StoreRet, bi.StoreRes = st.Call, st.Ret, st.Res
	for _, o := range e.readers {
		if o == rd || !o.launched || !isClosed(o.started) {
			continue
		}
		if isClosed(o.done) && o.rec.Ret <= from {
			continue // finished before any Store that can account for the value was issued
		}
		if o.key == rd.key {
			if o.call < st.Ret {
				bi.SameKey = append(bi.SameKey, o.id)
			}
		} else {
			bi.OtherKey = append(bi.OtherKey, o.id)
		}
	}
	switch {
	case failedMulti:
		bi.Shape = "key-stored-by-failed-multi-key-store"
	case len(bi.SameKey) > 0:
		bi.Shape = "same-key-second-waiter"
	case len(bi.OtherKey) > 0:
		bi.Shape = "other-key-waiter"
	default:
		bi.Shape = "sole-waiter"
	}

	return bi
}

// checkWakeups is the causal lost-wake-up oracle, run at a barrier: every Store/expiry issued so
// far has returned. A non-cancelled reader of a present key must return; it is reported only if
// it is still inside Await after three settle rounds while four fresh Awaits of its key (one
// before and one after each round) returned the value.
func (e *env) checkWakeups(phase int) {
	pres := e.presence()
	blocked := func() []*reader {
		var out []*reader
		for _, rd := range e.readers {
			if !rd.launched || rd.cancelReq.Load() || isClosed(rd.done) {
				continue
			}
			if _, ok := pres[rd.key]; ok {
				out = append(out, rd)
			}
		}

		return out
	}
	for _, rd := range e.readers {
		if rd.launched && !rd.cancelReq.Load() && pres[rd.key] {
			e.r.Count("wakeup_checks", 1)
		}
	}
	if len(blocked()) == 0 {
		return
	}
	if kit.WaitUntil(30*time.Millisecond, func() bool { return len(blocked()) == 0 }) {
		return
	}
	probeIDs := map[int][]int{}
	probed := map[int]int{} // key -> value id returned by the fresh Awaits
	// probeAll issues one fresh Await per key that still has blocked readers. A key that must be
	// present gets the long watchdog (no answer ⇒ inconclusive); a key that only may be present
	// gets a short one (no answer ⇒ the key is not considered, nothing is concluded).
	probeAll := func() bool {
		keys := map[int]bool{}
		for _, rd := range blocked() {
			keys[rd.key] = true
		}
		for ki := range keys {
			_, known := probed[ki]
			timeout := probeWatchdog
			if !pres[ki] && !known {
				timeout = 150 * time.Millisecond
			}
			ok, prd := e.probe(ki, timeout)
			switch {
			case ok:
				probed[ki] = prd.rec.OutVal
				probeIDs[ki] = append(probeIDs[ki], prd.rec.ID)
			case timeout == probeWatchdog:
				e.r.Count("probe_timeouts", 1)
				e.inconclusive("fresh Await of key %d (present according to the history) did not return a value within the watchdog", ki)
				e.release(blocked())

				return false
			default:
				delete(pres, ki)
				e.r.Count("presence_unknown_skipped", 1)
			}
		}

		return true
	}
	if !probeAll() {
		return
	}
	bl := blocked()
	if len(bl) == 0 {
		return
	}
	// Fast path: every blocked reader has a shape already confirmed confirmAfter times in this run.
	allConfirmed := true
	for _, rd := range bl {
		bi := e.shapeOf(rd, probed[rd.key])
		if e.r.Counter("lost_wakeup_confirmed/"+e.impl+"/"+bi.Shape) < confirmAfter {
			allConfirmed = false
		}
	}
	rounds := 3
	if allConfirmed {
		rounds = 1
	}
	for round := 1; round <= rounds; round++ {
		time.Sleep(time.Duration(round) * 150 * time.Millisecond)
		schedBarrier()
		if len(blocked()) == 0 {
			e.r.Count("slow_wakeups_seen_during_settle/"+e.impl, 1)
			return
		}
		if !probeAll() {
			return
		}
		schedBarrier()
	}
	bl = blocked()
	if len(bl) == 0 {
		e.r.Count("slow_wakeups_seen_during_settle/"+e.impl, 1)
		return
	}
	byShape := map[string][]blockedInfo{}
	for _, rd := range bl {
		bi := e.shapeOf(rd, probed[rd.key])
		bi.FreshProbes = probeIDs[rd.key]
		bi.SettleRounds = rounds
		byShape[bi.Shape] = append(byShape[bi.Shape], bi)
	}
	for shape, bis := range byShape {
		if allConfirmed {
			e.r.Count("lost_wakeup_suspected_not_rechecked/"+e.impl+"/"+shape, 1)
			continue
		}
		e.r.Count("lost_wakeup_confirmed/"+e.impl+"/"+shape, 1)
		bi := bis[0]
		what := fmt.Sprintf("%s: %d reader(s) still blocked in Await(key %d) after the Store that put the value there returned (store seq %d-%d, result %s), "+
			"all Stores had returned, %d settle rounds passed and %d fresh Awaits of the same key returned the value at once; "+
			"other waiters on the same key: %d, waiters on other keys: %d (phase %d)",
			e.impl, len(bis), bi.Key, bi.StoreCall, bi.StoreRet, bi.StoreRes, rounds, len(bi.FreshProbes), len(bi.SameKey), len(bi.OtherKey), phase)
		e.c.Violation(e.sig("lost-wakeup", shape), what, map[string]any{"blocked": bis, "phase": phase, "script": e.g.sc, "history": e.snapshot()})
	}
	e.release(bl)
}

// release cancels blocked readers so that the case terminates.
func (e *env) release(bl []*reader) {
	for _, rd := range bl {
		rd.released.Store(true)
		rd.cancelReq.Store(true)
		rd.cancel()
	}
	for _, rd := range bl {
		select {
		case <-rd.done:
		case <-time.After(watchdog):
			e.inconclusive("reader %d did not return after its context was cancelled", rd.id)
		}
	}
}

// ---------------------------------------------------------------------------------------------
// case

func waitWG(wg *sync.WaitGroup, d time.Duration) bool {
	ch := make(chan struct{})
	go func() { wg.Wait(); close(ch) }()
	select {
	case <-ch:
		return true
	case <-time.After(d):
		return false
	}
}

func pause(a action) {
	switch a.Delay {
	case 1:
		runtime.Gosched()
	case 2:
		time.Sleep(time.Duration(a.DelayUS) * time.Microsecond)
	}
}

func runCase(c *kit.Case) {
	r := c.R
	if r.Counter("probe_timeouts") >= maxProbeTimeouts {
		r.Count("cases_skipped_after_probe_timeouts", 1)
		return
	}
	impl := implV1
	if c.Idx%2 == 1 {
		impl = implV2
	}
	e := &env{c: c, r: r, impl: impl, direct: map[int]bool{}, byFP: map[string]int{}}
	g := generate(c.Rng, impl, &e.acted)
	e.g = g
	sc := g.sc
	for id, v := range g.vals {
		e.byFP[v.fp] = id
	}

	rootCtx, rootCancel := context.WithCancel(context.Background())
	defer rootCancel()
	e.opCtx = rootCtx

	e.dl = &deadliner{ch: make(chan core.Duty), y: g.dlY, status: map[core.Duty]core.DeadlineStatus{}}
	for i, d := range g.duties {
		e.dl.status[d] = g.statuses[i]
	}
	if impl == implV1 {
		e.db = aggsigdb.NewMemDB(e.dl)
	} else {
		e.db = aggsigdb.NewMemDBV2(e.dl)
	}
	runCtx, runCancel := context.WithCancel(context.Background())
	runDone := make(chan struct{})
	go func() { defer close(runDone); e.db.Run(runCtx) }()

	for i := 0; i < sc.Readers; i++ {
		rd := e.newReader(i, sc.ReaderKeys[i], false, 0)
		rd.mutate = sc.Mutators[i]
		e.readers = append(e.readers, rd)
	}

	for pi, ph := range sc.Phases {
		if e.broken.Load() {
			break
		}
		var wg sync.WaitGroup
		gate := make(chan struct{})
		for _, a := range ph {
			a := a
			switch a.Kind {
			case "read":
				rd := e.readers[a.Reader]
				rd.launched = true
				go func() { <-gate; pause(a); e.runAwait(rd) }()
			case "store":
				wg.Add(1)
				go func() { defer wg.Done(); <-gate; pause(a); e.runStore(a) }()
			case "cancel":
				rd := e.readers[a.Reader]
				wg.Add(1)
				go func() { defer wg.Done(); <-gate; pause(a); rd.cancelReq.Store(true); rd.cancel() }()
			case "expire":
				wg.Add(1)
				go func() { defer wg.Done(); <-gate; pause(a); e.runExpire(a.Duty) }()
			}
		}
		close(gate)
		if !waitWG(&wg, 2*watchdog) {
			e.inconclusive("a Store / expiry of phase %d did not return within the watchdog", pi)
			break
		}
		ok := kit.WaitUntil(watchdog, func() bool {
			for _, rd := range e.readers {
				if rd.launched && !isClosed(rd.started) {
					return false
				}
			}

			return true
		})
		if !ok {
			e.inconclusive("reader goroutines did not start within the watchdog")
			break
		}
		if e.broken.Load() {
			break
		}
		e.checkWakeups(pi)
	}

	// shut down: release every reader, then stop the store
	for _, rd := range e.readers {
		rd.cancelReq.Store(true)
		rd.cancel()
	}
	for _, rd := range e.readers {
		if !rd.launched {
			continue
		}
		select {
		case <-rd.done:
		case <-time.After(watchdog):
			e.inconclusive("reader %d did not return after its context was cancelled", rd.id)
		}
	}
	for _, rd := range e.probes {
		select {
		case <-rd.done:
		case <-time.After(watchdog):
			e.inconclusive("probe did not return after its context was cancelled")
		}
	}
	runCancel()
	select {
	case <-runDone:
	case <-time.After(watchdog):
		e.inconclusive("Run did not return after its context was cancelled")
	}
	if e.broken.Load() {
		return
	}
	e.recheckResults()
	e.analyse()
}

// recheckResults: every goroutine of the case has finished. A result that its own reader did not
// touch must still be what it was when Await returned it; otherwise it shares memory with the
// store or with another caller's result and was changed by that caller.
func (e *env) recheckResults() {
	for _, rd := range append(append([]*reader(nil), e.readers...), e.probes...) {
		if !isClosed(rd.done) || rd.result == nil || rd.mutate {
			continue
		}
		e.r.Count("unmodified_results_rechecked_at_end", 1)
		fp, err := fingerprint(rd.result)
		if err == nil && fp == rd.fpAtRet {
			continue
		}
		e.violation(nil, e.sig("await", "result-changed-after-return"),
			fmt.Sprintf("%s: a value returned by Await(key %d) changed after it was returned although its reader never touched it (another caller modified its own result / the stored object)", e.impl, rd.key),
			map[string]any{"await": rd.rec, "at_return": kit.Short(rd.fpAtRet, 300), "at_end": kit.Short(fp, 300)})
	}
}

// analyse applies the history oracles and records the evidence counters of one finished case.
func (e *env) analyse() {
	r, sc := e.r, e.g.sc
	ops := e.snapshot()
	sort.Slice(ops, func(i, j int) bool { return ops[i].Call < ops[j].Call })

	// a rejected Store needs a key for which a different value was submitted before it returned
	for _, o := range ops {
		if o.Kind != kStore || o.Res != resMismatch {
			continue
		}
		conflict := false
		for i, k := range o.Keys {
			for _, t := range ops {
				if t == o || t.Kind != kStore || t.Call > o.Ret {
					continue
				}
				for j, tk := range t.Keys {
					if tk == k && t.Vals[j] != o.Vals[i] {
						conflict = true
					}
				}
			}
		}
		if !conflict {
			shape := "single-key"
			if len(o.Keys) > 1 {
				shape = "multi-key"
			}
			e.violation(o.Keys, e.sig("store", "rejected-without-conflict", shape),
				fmt.Sprintf("%s.Store was rejected as mismatching although no different data was ever submitted for any of its keys", e.impl),
				map[string]any{"store": o})
		}
	}

	maxOps := 0
	for ki := range sc.Keys {
		n := 0
		for _, o := range ops {
			if _, _, ok := o.forKey(ki); ok {
				n++
			}
		}
		if n > maxOps {
			maxOps = n
		}
		if n == 0 {
			continue
		}
		res := checkKey(ops, ki)
		r.Count("key_histories_checked", 1)
		r.Count("key_history_ops", int64(n))
		switch res {
		case porcupine.Ok:
		case porcupine.Unknown:
			r.Inconclusive("case %d: porcupine timed out on key %d (%d ops)", e.c.Idx, ki, n)
		default:
			e.mu.Lock()
			already := e.direct[ki]
			e.mu.Unlock()
			if already {
				continue
			}
			diag := diagnose(ops, ki)
			var kh []*opRec
			for _, o := range ops {
				if _, _, ok := o.forKey(ki); ok {
					kh = append(kh, o)
				}
			}
			e.c.Violation(e.sig("history-not-linearizable", diag),
				fmt.Sprintf("%s: the recorded Store/Await/expiry history of key %d has no linearization against the write-once register (%s)", e.impl, ki, diag),
				map[string]any{"key": ki, "key_history": kh, "script": sc})
		}
	}
	r.Count("histories_checked/"+e.impl, 1)

	// evidence
	var wokenLater, twoPending int64
	for _, o := range ops {
		switch o.Kind {
		case kAwait:
			if o.Who == "fresh-probe" {
				continue
			}
			if o.Res == resOK {
				r.Count("awaits_returned_value", 1)
				for _, s := range ops {
					if s.Kind != kStore || s.Call < o.Call || s.Res == resMismatch {
						continue
					}
					hit := false
					for i, k := range s.Keys {
						hit = hit || (k == o.Key && s.Vals[i] == o.OutVal)
					}
					if !hit {
						continue
					}
					// only count when no earlier store could explain the value
					earlier := false
					for _, t := range ops {
						if t.Kind == kStore && t.Call < o.Call {
							for i, k := range t.Keys {
								earlier = earlier || (k == o.Key && t.Vals[i] == o.OutVal && t.Res != resMismatch)
							}
						}
					}
					if !earlier {
						wokenLater++
					}

					break
				}
			} else {
				r.Count("awaits_cancelled", 1)
			}
		case kStore:
			if len(o.Keys) > 1 {
				r.Count("multi_key_stores", 1)
				if o.Res != resOK {
					r.Count("multi_key_stores_failed", 1)
				}
			}
			switch o.Res {
			case resOK:
				r.Count("stores_accepted", 1)
			case resMismatch:
				r.Count("stores_rejected_conflict", 1)
			}
			pending := 0
			for _, a := range ops {
				if a.Kind == kAwait && a.Who != "fresh-probe" && a.Call < o.Call && a.Ret > o.Call {
					pending++
				}
			}
			if pending >= 2 {
				twoPending++
			}
			r.Count(fmt.Sprintf("stores_with_pending_awaits/%s", bucket(pending)), 1)
		case kExpire:
			r.Count("expiries", 1)
		}
	}
	r.Count("awaits_woken_by_later_store", wokenLater)
	r.Count("stores_issued_with_2plus_pending_awaits", twoPending)
	e.dl.mu.Lock()
	r.Count("deadliner_add_calls", int64(e.dl.adds))
	e.dl.mu.Unlock()
	r.Count("harness_yields_taken", e.acted.Load())
	r.Seen("families", sc.Family+"/"+sc.ValueKind)
	r.Seen("readers_per_case", fmt.Sprintf("%02d", sc.Readers))
	r.Seen("keys_per_case", fmt.Sprint(len(sc.Keys)))
	r.Seen("max_ops_per_key_bucket", bucket(maxOps))
	if wokenLater > 0 && twoPending > 0 {
		e.c.NonTrivial(kit.JSONHash(sc))
	}
	if e.c.Idx < 2 {
		r.Sample(map[string]any{"script": sc, "history": ops})
	}
}

func bucket(n int) string {
	switch {
	case n == 0:
		return "0"
	case n == 1:
		return "1"
	case n < 4:
		return "2-3"
	case n < 8:
		return "4-7"
	case n < 16:
		return "8-15"
	default:
		return "16+"
	}
}
