package c17

import (
	"encoding/binary"
	"encoding/json"
	"runtime"
	"sync/atomic"
	"time"

	"github.com/OffchainLabs/go-bitfield"
	eth2v1 "github.com/attestantio/go-eth2-client/api/v1"
	"github.com/attestantio/go-eth2-client/spec/altair"
	eth2p0 "github.com/attestantio/go-eth2-client/spec/phase0"

	"github.com/obolnetwork/charon/core"
)

// yielder is a PRNG-configured perturbation point shared by all copies of one logical value (and
// by the harness Deadliner). The configuration is immutable, the counters are atomic.
type yielder struct {
	mode  int   // 0 none, 1 runtime.Gosched, 2 short sleep
	every int64 // act on every n-th call
	us    int64 // sleep length in microseconds (mode 2)
	calls atomic.Int64
	acted *atomic.Int64 // case-wide count of yields that actually happened
}

func (y *yielder) at() {
	if y == nil || y.mode == 0 {
		return
	}
	n := y.calls.Add(1)
	if y.every > 1 && n%y.every != 0 {
		return
	}
	if y.acted != nil {
		y.acted.Add(1)
	}
	switch y.mode {
	case 1:
		runtime.Gosched()
	case 2:
		time.Sleep(time.Duration(y.us) * time.Microsecond)
	}
}

// probeData is the harness implementation of the plain core.SignedData contract. ID identifies
// the logical content: two objects with equal ID/Key/Payload/Sig are "the same data".
type probeData struct {
	ID      int
	Key     int
	Payload []byte
	Sig     []byte

	y *yielder
}

type probeJSON struct {
	ID      int    `json:"id"`
	Key     int    `json:"key"`
	Payload []byte `json:"payload"`
	Sig     []byte `json:"sig"`
}

func newProbeData(id, key int, y *yielder) *probeData { return newProbeDataSig(id, id, key, y) }

// The ...Sig constructors build content `id` carrying the signature bytes of content `sigID`: with
// sigID != id a DIFFERENT datum under the same signature (a field the signature does not cover
// differs, or a signature is reused) - still conflicting data for the key (seeded change C17-r8:
// equality judged on the signature alone).
func newProbeDataSig(id, sigID, key int, y *yielder) *probeData {
	p := &probeData{ID: id, Key: key, Payload: make([]byte, 24), Sig: make([]byte, 96), y: y}
	binary.BigEndian.PutUint64(p.Payload, uint64(id)*0x9e3779b97f4a7c15)
	binary.BigEndian.PutUint64(p.Payload[8:], uint64(key))
	binary.BigEndian.PutUint64(p.Sig, uint64(sigID))

	return p
}

func (p *probeData) plainJSON() ([]byte, error) {
	return json.Marshal(probeJSON{ID: p.ID, Key: p.Key, Payload: p.Payload, Sig: p.Sig})
}

func (p *probeData) Signature() core.Signature {
	return append(core.Signature(nil), p.Sig...)
}

func (p *probeData) SetSignature(sig core.Signature) (core.SignedData, error) {
	c := p.copy()
	c.Sig = append([]byte(nil), sig...)

	return c, nil
}

func (p *probeData) MessageRoot() ([32]byte, error) {
	var root [32]byte
	copy(root[:], p.Payload)

	return root, nil
}

func (p *probeData) copy() *probeData {
	return &probeData{
		ID: p.ID, Key: p.Key,
		Payload: append([]byte(nil), p.Payload...),
		Sig:     append([]byte(nil), p.Sig...),
		y:       p.y,
	}
}

func (p *probeData) Clone() (core.SignedData, error) {
	p.y.at()
	c := p.copy()
	p.y.at()

	return c, nil
}

func (p *probeData) MarshalJSON() ([]byte, error) {
	p.y.at()

	return p.plainJSON()
}

func sigOf(id int) eth2p0.BLSSignature {
	var s eth2p0.BLSSignature
	binary.BigEndian.PutUint64(s[:], uint64(id))
	binary.BigEndian.PutUint64(s[88:], uint64(id)*0x9e3779b97f4a7c15)

	return s
}

func newRandao(id, sigID int) core.SignedData {
	return core.NewSignedRandao(eth2p0.Epoch(1000+id), sigOf(sigID))
}

func newSelection(id, sigID int, slot uint64, sub core.SubcommitteeIndex) core.SignedData {
	return core.NewSyncCommitteeSelection(&eth2v1.SyncCommitteeSelection{
		ValidatorIndex:    eth2p0.ValidatorIndex(7 + 1000*(id-sigID)),
		Slot:              eth2p0.Slot(slot),
		SubcommitteeIndex: uint64(sub),
		SelectionProof:    sigOf(sigID),
	})
}

func newContribution(id, sigID int, slot uint64, sub core.SubcommitteeIndex) core.SignedData {
	sigOf := func(int) eth2p0.BLSSignature { return sigOf(sigID) }
	var root eth2p0.Root
	binary.BigEndian.PutUint64(root[:], uint64(id))

	return core.NewSignedSyncContributionAndProof(&altair.SignedContributionAndProof{
		Message: &altair.ContributionAndProof{
			AggregatorIndex: eth2p0.ValidatorIndex(7),
			Contribution: &altair.SyncCommitteeContribution{
				Slot:              eth2p0.Slot(slot),
				BeaconBlockRoot:   root,
				SubcommitteeIndex: uint64(sub),
				AggregationBits:   bitfield.NewBitvector128(),
				Signature:         sigOf(id),
			},
			SelectionProof: sigOf(id),
		},
		Signature: sigOf(id),
	})
}

// fingerprint returns the canonical content of a value (JSON), without harness yields.
func fingerprint(sd core.SignedData) (string, error) {
	if sd == nil {
		return "<nil>", nil
	}
	if p, ok := sd.(*probeData); ok {
		if p == nil {
			return "<nil>", nil
		}
		b, err := p.plainJSON()

		return string(b), err
	}
	b, err := sd.MarshalJSON()

	return string(b), err
}

func newExit(id, sigID int) core.SignedData {
	return core.NewSignedVoluntaryExit(&eth2p0.SignedVoluntaryExit{
		Message:   &eth2p0.VoluntaryExit{Epoch: eth2p0.Epoch(1000 + id), ValidatorIndex: eth2p0.ValidatorIndex(id)},
		Signature: sigOf(sigID),
	})
}

// scribble models a caller that owns what Await handed it and modifies it in place: signature
// bytes, and whatever is reachable through the pointers / slices inside the value. It reports
// whether the value kind has any such shared-able memory (plain value structs do not).
func scribble(sd core.SignedData) bool {
	switch v := sd.(type) {
	case *probeData:
		if v == nil {
			return false
		}
		for i := range v.Sig {
			v.Sig[i] = 0
		}
		for i := range v.Payload {
			v.Payload[i] ^= 0xa5
		}
		v.ID = -v.ID

		return true
	case core.SignedSyncContributionAndProof:
		if v.Message == nil {
			return false
		}
		v.Message.SelectionProof = eth2p0.BLSSignature{}
		v.Message.AggregatorIndex++
		if c := v.Message.Contribution; c != nil {
			c.Signature = eth2p0.BLSSignature{}
			for i := range c.AggregationBits {
				c.AggregationBits[i] ^= 0xff
			}
		}

		return true
	case core.SignedVoluntaryExit:
		if v.Message == nil {
			return false
		}
		v.Message.Epoch += 7
		v.Message.ValidatorIndex += 7

		return true
	default:
		return false
	}
}
