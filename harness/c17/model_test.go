package c17

import (
	"fmt"
	"sort"
	"time"

	"github.com/anishathalye/porcupine"
)

// Operation kinds and results of the per-key sequential specification.
const (
	kStore  = "store"
	kAwait  = "await"
	kExpire = "expire"

	resOK       = "ok"       // store accepted / await returned a value
	resMismatch = "mismatch" // single-key store rejected as conflicting
	resMaybe    = "maybe"    // key of a multi-key Store that returned an error: not attempted, applied or rejected
	resNone     = "none"     // await ended without a value (context cancelled): no effect
)

type pin struct {
	kind string
	val  int
}

type pout struct {
	res string
	val int
}

// keyModel is the write-once register (per key, reset by expiry). State = content id stored
// (0 = empty). It is nondeterministic only for keys of a failed multi-key Store.
func keyModel() porcupine.Model {
	nm := porcupine.NondeterministicModel{
		Init: func() []interface{} { return []interface{}{0} },
		Step: func(state, input, output interface{}) []interface{} {
			st := state.(int)
			in := input.(pin)
			out := output.(pout)
			switch in.kind {
			case kStore:
				switch out.res {
				case resOK:
					if st == 0 || st == in.val {
						return []interface{}{in.val}
					}

					return nil
				case resMismatch:
					if st != 0 && st != in.val {
						return []interface{}{st}
					}

					return nil
				default: // resMaybe
					if st == 0 {
						return []interface{}{0, in.val}
					}

					return []interface{}{st}
				}
			case kAwait:
				if out.res == resOK {
					if st == out.val && st != 0 {
						return []interface{}{st}
					}

					return nil
				}

				return []interface{}{st}
			case kExpire:
				return []interface{}{0}
			}

			return nil
		},
		DescribeOperation: func(input, output interface{}) string {
			return fmt.Sprintf("%v -> %v", input, output)
		},
	}

	return nm.ToModel()
}

// checkKey runs porcupine over the history of one key.
func checkKey(ops []*opRec, key int) porcupine.CheckResult {
	var hist []porcupine.Operation
	for _, o := range ops {
		in, out, ok := o.forKey(key)
		if !ok {
			continue
		}
		hist = append(hist, porcupine.Operation{ClientId: o.Client, Input: in, Call: o.Call, Output: out, Return: o.Ret})
	}
	if len(hist) == 0 {
		return porcupine.Ok
	}

	return porcupine.CheckOperationsTimeout(keyModel(), hist, 20*time.Second)
}

// forKey projects an operation onto one key.
func (o *opRec) forKey(key int) (pin, pout, bool) {
	switch o.Kind {
	case kAwait:
		if o.Key != key {
			return pin{}, pout{}, false
		}
		if o.Res == resOK {
			return pin{kind: kAwait}, pout{res: resOK, val: o.OutVal}, true
		}

		return pin{kind: kAwait}, pout{res: resNone}, true
	case kExpire:
		for _, k := range o.Keys {
			if k == key {
				return pin{kind: kExpire}, pout{res: resOK}, true
			}
		}
	case kStore:
		for i, k := range o.Keys {
			if k != key {
				continue
			}
			res := o.Res
			if res != resOK && (len(o.Keys) > 1 || res != resMismatch) {
				res = resMaybe
			}

			return pin{kind: kStore, val: o.Vals[i]}, pout{res: res}, true
		}
	}

	return pin{}, pout{}, false
}

// diagnose names the simplest reason why the history of one key is not linearizable (used only
// to give the violation a stable signature; the verdict itself is porcupine's).
func diagnose(ops []*opRec, key int) string {
	type st struct {
		o   *opRec
		val int
		res string
	}
	var (
		stores  []st
		awaits  []*opRec
		expires []*opRec
	)
	for _, o := range ops {
		in, out, ok := o.forKey(key)
		if !ok {
			continue
		}
		switch in.kind {
		case kStore:
			stores = append(stores, st{o: o, val: in.val, res: out.res})
		case kAwait:
			if out.res == resOK {
				awaits = append(awaits, o)
			}
		case kExpire:
			expires = append(expires, o)
		}
	}
	sort.Slice(stores, func(i, j int) bool { return stores[i].o.Call < stores[j].o.Call })

	for _, a := range awaits {
		accepted, any := false, false
		first := int64(1) << 62
		for _, s := range stores {
			if s.val != a.OutVal {
				continue
			}
			any = true
			if s.res != resMismatch {
				accepted = true
			}
			if s.o.Call < first {
				first = s.o.Call
			}
		}
		if any && !accepted {
			return "await-returned-rejected-value"
		}
		if !any || a.Ret < first {
			return "await-returned-before-store"
		}
	}
	for _, s := range stores {
		if s.res != resMismatch {
			continue
		}
		conflict := false
		for _, t := range stores {
			if t.val != s.val && t.o.Call < s.o.Ret {
				conflict = true
			}
		}
		if !conflict {
			return "store-rejected-without-conflict"
		}
	}
	if len(expires) == 0 {
		okVal := 0
		for _, s := range stores {
			if s.res != resOK {
				continue
			}
			if okVal != 0 && okVal != s.val {
				return "conflicting-store-accepted"
			}
			okVal = s.val
		}
		got := 0
		for _, a := range awaits {
			if got != 0 && got != a.OutVal {
				return "readers-disagree"
			}
			got = a.OutVal
		}
		if okVal != 0 && got != 0 && okVal != got {
			return "await-differs-from-accepted-store"
		}
		// a value was accepted, then a different one was read/accepted in real-time order
		return "order"
	}
	for _, a := range awaits {
		for _, e := range expires {
			if a.Call <= e.Ret {
				continue
			}
			stale := true
			for _, s := range stores {
				if s.val == a.OutVal && s.res != resMismatch && s.o.Ret >= e.Call {
					stale = false
				}
			}
			if stale {
				return "await-returned-expired-value"
			}
		}
	}

	return "order-with-expiry"
}
