// Package c20 monitors eth2wrap.DutiesCache (property C20): the real cache runs over a scripted
// beacon-node stub that answers from a versioned reference model, keeps a call log and can hold a
// call inside the beacon node (gates). Every answer is compared with the model's answers between
// call and return, answers are checked for shared mutable memory and scribbled by the callers, and
// the call log decides whether invalidated / trimmed epochs were fetched afresh.
package c20

import (
	"fmt"
	"io"
	"math/rand"
	"sync"
	"sync/atomic"
	"testing"
	"time"

	eth2p0 "github.com/attestantio/go-eth2-client/spec/phase0"
	"go.uber.org/zap/zapcore"

	"github.com/obolnetwork/charon/app/eth2wrap"
	"github.com/obolnetwork/charon/app/log"

	"verifharness/kit"
)

const watchdog = 60 * time.Second

func TestCheck(t *testing.T) {
	r := kit.Start(t, "C20")
	defer r.Finish()
	log.InitConsoleForT(t, zapcore.AddSync(io.Discard)) // the cache logs every amend at debug level

	r.Rule("case = PRNG scenario against the real eth2wrap.DutiesCache over a model-backed beacon stub (3-7 validators with 0..3 duties per epoch and kind, 6-epoch window, " +
		"3 duty kinds): mode sequential (20-60 ops: requests over single/pair/subset/superset/disjoint/repeated/all/empty(=active set) index sets, reorg = model change of epochs>e + InvalidateCache(e), " +
		"Trim, UpdateActiveValIndices, injected beacon errors), mode gated (a miss is held inside the beacon call across a reorg/trim, then released, then new requests), mode concurrent (2-8 callers, " +
		"beacon calls held until the chain goroutine's next reorg/trim/update), mode dupidx (duplicate index inside one request: observations only); every caller scribbles all returned duty objects and its index slice; " +
		"non-trivial = the case saw a full hit, a partial hit (amend) and a first request after an invalidation/trim, or held a fetch in flight across an invalidation; distinct = hash of the generated scenario")
	r.Assume("beacon-node semantics of the model: the answer to (epoch, indices) is every duty whose validator index is in the index set, in the node's own order, plus per-(kind,epoch,version) metadata; answers are compared as multisets")
	r.Assume("a reorg changes the node's assignments of exactly the epochs > e before InvalidateCache(e) is called; an old version stays admissible until that InvalidateCache call has returned (no cache can know earlier); Trim does not change the node")
	r.Assume("concurrent cases are judged per (kind,epoch,index): the duties served for an index must equal the model's assignment in a version that was admissible at some instant between call and return (versioned snapshots); porcupine is not used because a strict register model is unsound between the node's change and the return of InvalidateCache (new/old inversions there are counted as information)")
	r.Assume("a request served from a fetch that was in flight across Trim is an observation, not a violation (the node's answer did not change)")
	r.RacePkgs(false, "app/eth2wrap")
	r.Require("requests", 80000)
	r.Require("answers_full_hit", 20000)
	r.Require("answers_partial_hit_amend", 10000)
	r.Require("first_request_after_invalidate_checked", 20000)
	r.Require("first_request_after_trim_checked", 5000)
	r.Require("gated_fetch_in_flight_across_invalidate", 1000)
	r.Require("concurrent_requests", 30000)
	r.Require("index_answers_with_several_duties", 20000)
	r.Require("index_answers_with_no_duty", 20000)

	n := r.N(8000, 200000)
	r.Cases(n, 0, runCase)
}

type gen struct {
	rng  *rand.Rand
	pool []uint64
	prev map[string][]uint64
	spec []any

	// observation-only modes (outside the statement's "explicit set of validator indices")
	dup      bool // a request may carry the same index twice
	noActive bool // requests without indices while the cache knows no active validators
}

func (g *gen) subset(of []uint64, min int) []uint64 {
	if len(of) == 0 {
		return nil
	}
	n := min + g.rng.Intn(len(of)-min+1)
	if n == 0 {
		n = 1
	}
	p := g.rng.Perm(len(of))
	out := make([]uint64, 0, n)
	for _, i := range p[:n] {
		out = append(out, of[i])
	}

	return out
}

// idxSet picks the next explicit index set for key, related to the previous one on the same key.
func (g *gen) idxSet(key string) []uint64 {
	prev := g.prev[key]
	var out []uint64
	switch c := g.rng.Intn(10); {
	case c == 0 || (len(prev) == 0 && c >= 4 && c <= 7):
		out = []uint64{kit.Pick(g.rng, g.pool)}
	case c == 1:
		out = append([]uint64(nil), g.pool...)
		g.rng.Shuffle(len(out), func(i, j int) { out[i], out[j] = out[j], out[i] })
	case c == 2 || c == 3:
		out = g.subset(g.pool, 1)
	case c == 4: // repeated
		out = append([]uint64(nil), prev...)
	case c == 5: // subset of the previous
		out = g.subset(prev, 1)
	case c == 6: // superset of the previous
		out = append([]uint64(nil), prev...)
		in := setOf(prev)
		for _, v := range g.pool {
			if !in[v] && g.rng.Intn(2) == 0 {
				out = append(out, v)
			}
		}
		g.rng.Shuffle(len(out), func(i, j int) { out[i], out[j] = out[j], out[i] })
	case c == 7: // disjoint from the previous
		in := setOf(prev)
		var rest []uint64
		for _, v := range g.pool {
			if !in[v] {
				rest = append(rest, v)
			}
		}
		out = g.subset(rest, 1)
		if len(out) == 0 {
			out = []uint64{kit.Pick(g.rng, g.pool)}
		}
	default: // pair
		out = g.subset(g.pool, 1)
		if len(out) > 2 {
			out = out[:2]
		}
	}
	if g.dup && g.rng.Intn(3) == 0 {
		out = append(out, out[g.rng.Intn(len(out))])
		g.rng.Shuffle(len(out), func(i, j int) { out[i], out[j] = out[j], out[i] })
	}
	g.prev[key] = out

	return out
}

func runCase(c *kit.Case) {
	rng := c.Rng
	r := c.R
	mode := "sequential"
	switch x := rng.Intn(100); {
	case x < 45:
	case x < 70:
		mode = "gated"
	case x < 96:
		mode = "concurrent"
	case x < 98:
		mode = "dupidx"
	default:
		mode = "noindices-noactive"
	}

	// validator pool, epoch window
	poolSize := 3 + rng.Intn(5)
	seen := map[uint64]bool{}
	var pool []uint64
	for len(pool) < poolSize {
		v := uint64(rng.Intn(12))
		if rng.Intn(4) == 0 {
			v = uint64(rng.Intn(2_000_000))
		}
		if !seen[v] {
			seen[v] = true
			pool = append(pool, v)
		}
	}
	base := kit.Pick(rng, []uint64{0, 1, 2, 3, 4, 7, 50, 100000})
	win := make([]uint64, 6)
	for i := range win {
		win[i] = base + uint64(i)
	}

	h := &harness{
		c: c, mode: mode, salt: rng.Int63(), pool: pool, win: win,
		ver: map[uint64]int{}, hist: map[uint64][]*verRec{}, memo: map[genKey][]dval{},
		holdCh: make(chan struct{}), infoOnly: mode == "dupidx" || mode == "noindices-noactive",
	}
	for _, ep := range win {
		h.hist[ep] = []*verRec{{ver: 0, born: 0, dead: never}}
	}
	g := &gen{rng: rng, pool: pool, prev: map[string][]uint64{}, dup: mode == "dupidx", noActive: mode == "noindices-noactive"}
	initial := g.subset(pool, 0)
	if rng.Intn(3) == 0 {
		initial = nil
	}
	if g.noActive {
		initial = nil
	}
	if mode == "concurrent" && len(initial) == 0 {
		initial = g.subset(pool, 1) // requests without indices are only generated while the active set is non-empty
	}
	h.active = []*activeRec{{set: append([]uint64(nil), initial...), from: 0, to: never}}
	initIdx := make([]eth2p0.ValidatorIndex, len(initial))
	for i, v := range initial {
		initIdx[i] = eth2p0.ValidatorIndex(v)
	}
	h.cache = eth2wrap.NewDutiesCache(&stub{h: h}, initIdx)
	g.spec = append(g.spec, mode, pool, base, initial)

	inflight := false
	switch mode {
	case "sequential", "dupidx", "noindices-noactive":
		h.runSequential(g, 20+rng.Intn(41))
	case "gated":
		inflight = h.runGated(g)
	case "concurrent":
		h.runConcurrent(g)
	}
	if h.inconclusive {
		return
	}

	st := h.evaluate()
	r.Seen("modes", mode)
	r.Count("cases_"+mode, 1)
	if (st.hits > 0 && st.partial > 0 && st.refInv+st.refTrim > 0) || inflight {
		c.NonTrivial(kit.Hash(g.spec...))
	}
	if c.Idx < 3 {
		r.Sample(map[string]any{"mode": mode, "validator_pool": pool, "epoch_window": win, "trace": h.trace})
	}
}

type reqSpec struct {
	k     kind
	epoch uint64
	idxs  []uint64
	p     plan
}

// nextRequest generates one request; hot keys concentrate traffic so that hits and amends happen.
func (h *harness) nextRequest(g *gen, hot []uint64, errPct int) reqSpec {
	rng := g.rng
	s := reqSpec{k: kind(rng.Intn(3))}
	if rng.Intn(10) < 7 {
		s.epoch = kit.Pick(rng, hot)
	} else {
		s.epoch = kit.Pick(rng, h.win)
	}
	h.mu.Lock()
	activeNow := len(h.active[len(h.active)-1].set)
	h.mu.Unlock()
	if (rng.Intn(100) < 6 && activeNow > 0) || (g.noActive && rng.Intn(100) < 15) {
		s.idxs = nil // "all active validators" (with an empty active set only in the observation-only mode)
	} else {
		s.idxs = g.idxSet(fmt.Sprintf("%d/%d", s.k, s.epoch))
	}
	s.p.injectErr = rng.Intn(100) < errPct
	g.spec = append(g.spec, "r", int(s.k), s.epoch, s.idxs, s.p.injectErr)

	return s
}

func (h *harness) chainOp(g *gen) {
	rng := g.rng
	lo, hi := h.win[0], h.win[len(h.win)-1]
	switch x := rng.Intn(100); {
	case x < 55:
		e := lo + uint64(rng.Intn(int(hi-lo)+1))
		if lo > 0 && rng.Intn(6) == 0 {
			e = lo - 1
		}
		g.spec = append(g.spec, "reorg", e)
		h.reorg(e)
	case x < 80:
		e := lo + uint64(rng.Intn(int(hi-lo)+6))
		if rng.Intn(8) == 0 {
			e = uint64(rng.Intn(3)) // below the trim threshold: nothing may be dropped
		}
		g.spec = append(g.spec, "trim", e)
		h.trim(e)
	default:
		set := g.subset(h.pool, 0)
		if rng.Intn(4) == 0 || g.noActive {
			set = nil
		}
		g.spec = append(g.spec, "active", set)
		h.updateActive(set)
	}
}

func (h *harness) hotEpochs(g *gen) []uint64 {
	n := 1 + g.rng.Intn(3)
	out := make([]uint64, 0, n)
	for i := 0; i < n; i++ {
		out = append(out, kit.Pick(g.rng, h.win))
	}

	return out
}

func (h *harness) runSequential(g *gen, nOps int) {
	hot := h.hotEpochs(g)
	for i := 0; i < nOps; i++ {
		if g.rng.Intn(100) < 74 {
			s := h.nextRequest(g, hot, 4)
			h.request(s.k, s.epoch, s.idxs, s.p, 0)
		} else {
			h.chainOp(g)
		}
	}
}

// runGated: a request is held inside its beacon-node call while the chain reorgs (or trims);
// the call is released only after InvalidateCache/Trim returned; new requests follow.
func (h *harness) runGated(g *gen) (inflightAcrossInvalidate bool) {
	rng := g.rng
	r := h.c.R
	rounds := 1 + rng.Intn(2)
	for round := 0; round < rounds; round++ {
		k := kind(rng.Intn(3))
		e1 := h.win[1+rng.Intn(len(h.win)-1)]
		key := fmt.Sprintf("%d/%d", k, e1)
		hot := []uint64{e1}
		for w := rng.Intn(4); w > 0; w-- { // warm-up: may leave a partial entry, so the held miss is an amend
			s := h.nextRequest(g, hot, 0)
			if rng.Intn(2) == 0 {
				s.k = k
			}
			h.request(s.k, s.epoch, s.idxs, s.p, 0)
		}

		idxs1 := g.idxSet(key)
		gt := newGate()
		p := plan{gate: gt, late: rng.Intn(6) == 0}
		g.spec = append(g.spec, "gated", int(k), e1, idxs1, p.late)
		done := make(chan *reqRec, 1)
		go func() { done <- h.request(k, e1, idxs1, p, 1) }()
		entered := false
		select {
		case <-gt.entered:
			entered = true
		case <-done: // full hit: nothing to hold
		case <-time.After(watchdog):
			r.Inconclusive("case %d: gated request neither reached the beacon stub nor returned", h.c.Idx)
			h.inconclusive = true
			close(gt.release)

			return false
		}

		var d *dropRec
		if rng.Intn(5) == 0 {
			e := e1 + 4 + uint64(rng.Intn(3))
			g.spec = append(g.spec, "trim", e)
			d = h.trim(e)
		} else {
			lo := h.win[0]
			e := lo + uint64(rng.Intn(int(e1-lo)))
			if lo > 0 && rng.Intn(5) == 0 {
				e = lo - 1
			}
			g.spec = append(g.spec, "reorg", e)
			d = h.reorg(e)
		}
		if rng.Intn(10) < 4 { // somebody else refetches first: the late store then amends a fresh entry
			idxs2 := g.idxSet(key)
			g.spec = append(g.spec, "r2", idxs2)
			h.request(k, e1, idxs2, plan{}, 2)
		}
		if entered {
			close(gt.release)
			select {
			case <-done:
			case <-time.After(watchdog):
				r.Inconclusive("case %d: released request did not return", h.c.Idx)
				h.inconclusive = true

				return false
			}
			if d.epochs[e1] {
				if d.typ == "invalidate" && !p.late {
					r.Count("gated_fetch_in_flight_across_invalidate", 1)
					inflightAcrossInvalidate = true
				} else if d.typ == "trim" {
					r.Count("gated_fetch_in_flight_across_trim", 1)
				} else {
					r.Count("gated_late_fetch_across_invalidate", 1)
				}
			}
		}

		for n := 1 + rng.Intn(3); n > 0; n-- { // requests that start after everything above completed
			var idxs []uint64
			switch rng.Intn(4) {
			case 0:
				idxs = append([]uint64(nil), idxs1...)
			case 1:
				idxs = g.subset(idxs1, 1)
			default:
				idxs = g.idxSet(key)
			}
			g.spec = append(g.spec, "after", idxs)
			h.request(k, e1, idxs, plan{}, 3)
		}
		for n := rng.Intn(3); n > 0; n-- {
			s := h.nextRequest(g, hot, 0)
			h.request(s.k, s.epoch, s.idxs, s.p, 3)
		}
	}

	return inflightAcrossInvalidate
}

// runConcurrent: 2-8 callers with pre-generated scripts; some beacon calls are held until the
// chain goroutine has performed its next operation; a sequential tail follows.
func (h *harness) runConcurrent(g *gen) {
	rng := g.rng
	r := h.c.R
	hot := h.hotEpochs(g)[:1]
	nCallers := 2 + rng.Intn(7)
	scripts := make([][]reqSpec, nCallers)
	total := 0
	for ci := range scripts {
		for n := 3 + rng.Intn(8); n > 0; n-- {
			s := h.nextRequest(g, hot, 3)
			if rng.Intn(3) != 0 {
				s.k = kind(ci % 3) // keep pressure on few (kind, epoch) keys
			}
			s.p.hold = rng.Intn(100) < 30
			s.p.yield = rng.Intn(2) == 0
			scripts[ci] = append(scripts[ci], s)
			total++
		}
	}
	chainOps := 1 + rng.Intn(4)
	type cop struct {
		kind string
		e    uint64
		set  []uint64
	}
	ops := make([]cop, chainOps)
	lo, hi := h.win[0], h.win[len(h.win)-1]
	for i := range ops {
		switch x := rng.Intn(10); {
		case x < 6:
			ops[i] = cop{kind: "reorg", e: lo + uint64(rng.Intn(int(hi-lo)+1))}
			if hot[0] > lo && rng.Intn(2) == 0 {
				ops[i].e = lo + uint64(rng.Intn(int(hot[0]-lo))) // affects the hot epoch
			}
		case x < 8:
			ops[i] = cop{kind: "trim", e: lo + uint64(rng.Intn(int(hi-lo)+6))}
		default:
			ops[i] = cop{kind: "active", set: g.subset(h.pool, 1)}
		}
		g.spec = append(g.spec, ops[i].kind, ops[i].e, ops[i].set)
	}

	var callersLeft atomic.Int64
	callersLeft.Store(int64(nCallers))
	release := func(final bool) {
		h.mu.Lock()
		close(h.holdCh)
		h.holdCh = make(chan struct{})
		h.held = 0
		h.noHolds = h.noHolds || final
		h.mu.Unlock()
	}
	var wg, chainWG sync.WaitGroup
	chainWG.Add(1)
	go func() {
		defer chainWG.Done()
		defer release(true)
		for _, op := range ops {
			kit.WaitUntil(watchdog, func() bool { // pacing only
				h.mu.Lock()
				defer h.mu.Unlock()

				return h.held > 0 || callersLeft.Load() == 0
			})
			if callersLeft.Load() == 0 {
				return
			}
			switch op.kind {
			case "reorg":
				h.reorg(op.e)
			case "trim":
				h.trim(op.e)
			default:
				h.updateActive(op.set)
			}
			r.Count("concurrent_chain_ops", 1)
			release(false)
		}
	}()
	for ci := range scripts {
		wg.Add(1)
		go func(ci int) {
			defer wg.Done()
			defer callersLeft.Add(-1)
			for _, s := range scripts[ci] {
				h.request(s.k, s.epoch, s.idxs, s.p, ci)
			}
		}(ci)
	}
	wg.Wait()
	chainWG.Wait()
	r.Count("concurrent_requests", int64(total))
	r.Count(fmt.Sprintf("concurrent_cases_with_%d_callers", nCallers), 1)

	for n := 2 + rng.Intn(4); n > 0; n-- { // sequential tail: starts after every invalidation returned
		s := h.nextRequest(g, hot, 0)
		h.request(s.k, s.epoch, s.idxs, s.p, 100)
	}
}
