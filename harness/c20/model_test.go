package c20

import (
	"context"
	"crypto/sha256"
	"encoding/binary"
	"errors"
	"fmt"
	"math/rand"
	"runtime"
	"sync"

	eth2api "github.com/attestantio/go-eth2-client/api"
	eth2v1 "github.com/attestantio/go-eth2-client/api/v1"
	eth2p0 "github.com/attestantio/go-eth2-client/spec/phase0"

	"github.com/obolnetwork/charon/app/eth2wrap"

	"verifharness/kit"
)

// ---------------------------------------------------------------------------------------------
// Reference model of the beacon node: epoch -> version -> assignments per duty kind.
// ---------------------------------------------------------------------------------------------

type kind int

const (
	kAtt kind = iota
	kProp
	kSync
)

var kindNames = [...]string{"attester", "proposer", "sync"}

func (k kind) String() string { return kindNames[k] }

// dval is the normalised, comparable value of one duty object of any kind.
type dval struct {
	Val        uint64
	Slot       uint64
	PK         [48]byte
	A, B, C, D uint64 // attester: committee index / length / committees at slot / validator committee index
	Sync       string // sync: printed ValidatorSyncCommitteeIndices
}

func (d dval) String() string {
	return fmt.Sprintf("{val=%d slot=%d pk=%x.. att=%d/%d/%d/%d sync=%s}", d.Val, d.Slot, d.PK[:3], d.A, d.B, d.C, d.D, d.Sync)
}

// Scribble sentinels: what callers write into every object they received.
const (
	sentSlot = uint64(0xDEAD0000DEAD)
	sentVal  = uint64(0xBAD0BAD0)
	sentIdx  = uint64(0xEEEE0000)
)

var sentPK = func() (pk [48]byte) {
	for i := range pk {
		pk[i] = 0xEE
	}

	return pk
}()

func (d dval) scribbled() bool {
	if d.PK == sentPK || d.Slot == sentSlot || d.Val == sentVal {
		return true
	}
	for i := 0; i < 8; i++ {
		if d.Sync != "" && containsNum(d.Sync, sentIdx+uint64(i)) {
			return true
		}
	}

	return false
}

func containsNum(s string, n uint64) bool {
	needle := fmt.Sprint(n)
	for i := 0; i+len(needle) <= len(s); i++ {
		if s[i:i+len(needle)] == needle {
			return true
		}
	}

	return false
}

func pubkeyOf(val uint64) (pk [48]byte) {
	h := sha256.Sum256([]byte(fmt.Sprintf("pk/%d", val)))
	copy(pk[:], h[:])
	copy(pk[32:], h[:16])

	return pk
}

type genKey struct {
	k     kind
	epoch uint64
	ver   int
}

type verRec struct {
	ver  int
	born int64 // instant at which the beacon node switched to this version
	dead int64 // instant at which the InvalidateCache following the switch to ver+1 had returned
}

const never = int64(1) << 62

// genDuties is the beacon node's full duty list of (kind, epoch, version), in the node's own order.
// Every non-empty per-validator list identifies (epoch, version) through the slot / index encoding.
func (h *harness) genDuties(k kind, epoch uint64, ver int) []dval {
	key := genKey{k, epoch, ver}
	if d, ok := h.memo[key]; ok {
		return d
	}
	sum := sha256.Sum256([]byte(fmt.Sprintf("%d/%d/%d/%d", h.salt, k, epoch, ver)))
	rng := rand.New(rand.NewSource(int64(binary.LittleEndian.Uint64(sum[:8])))) //nolint:gosec // reproducible model
	var out []dval
	for _, v := range h.pool {
		n := 0
		x := rng.Intn(100)
		switch k {
		case kProp:
			n = 1
			if x < 35 {
				n = 0
			}
			if x >= 65 {
				n = 2
			}
			if x >= 88 {
				n = 3
			}
		case kAtt:
			n = 1
			if x < 15 {
				n = 0
			}
			if x >= 85 {
				n = 2
			}
		case kSync:
			n = 1
			if x < 40 {
				n = 0
			}
			if x >= 88 {
				n = 2
			}
		}
		for j := 0; j < n; j++ {
			d := dval{Val: v, PK: pubkeyOf(v)}
			uniq := uint64(ver)*1000 + uint64(rng.Intn(1000))
			switch k {
			case kProp:
				d.Slot = epoch*1_000_000 + uniq
			case kAtt:
				d.Slot = epoch*1_000_000 + uniq
				d.A, d.B, d.C, d.D = uint64(rng.Intn(64)), uint64(100+rng.Intn(400)), uint64(1+rng.Intn(64)), uint64(rng.Intn(100))
			case kSync:
				m := 1 + rng.Intn(3)
				idx := make([]uint64, m)
				for q := range idx {
					idx[q] = epoch*1_000_000 + uniq + uint64(q)*7
				}
				d.Sync = fmt.Sprint(idx)
				d.Slot = 0
			}
			out = append(out, d)
		}
	}
	rng.Shuffle(len(out), func(i, j int) { out[i], out[j] = out[j], out[i] })
	h.memo[key] = out

	return out
}

// syncIdxOf parses the printed index list of a sync duty value back into a fresh slice.
func syncIdxOf(d dval) []eth2p0.CommitteeIndex {
	var out []eth2p0.CommitteeIndex
	var cur uint64
	in := false
	for _, ch := range d.Sync {
		if ch >= '0' && ch <= '9' {
			cur = cur*10 + uint64(ch-'0')
			in = true

			continue
		}
		if in {
			out = append(out, eth2p0.CommitteeIndex(cur))
			cur, in = 0, false
		}
	}

	return out
}

func metaOf(k kind, epoch uint64, ver int) map[string]any {
	return map[string]any{
		"dependent_root":       fmt.Sprintf("0x%02x%08x%04x", int(k), epoch, ver),
		"execution_optimistic": false,
	}
}

// perIndex returns the model's duties of validator v in (kind, epoch, version).
func (h *harness) perIndex(k kind, epoch uint64, ver int, v uint64) []dval {
	var out []dval
	for _, d := range h.genDuties(k, epoch, ver) {
		if d.Val == v {
			out = append(out, d)
		}
	}

	return out
}

// ---------------------------------------------------------------------------------------------
// Harness state, logical clock, logs.
// ---------------------------------------------------------------------------------------------

type gate struct {
	entered chan struct{}
	release chan struct{}
	once    sync.Once
}

func newGate() *gate { return &gate{entered: make(chan struct{}), release: make(chan struct{})} }

type plan struct {
	gate      *gate // hold the (first) beacon-node call of this request until released
	late      bool  // the held call reads the model when released instead of when it entered
	injectErr bool  // the beacon node fails the call
	hold      bool  // concurrent mode: hold the call until the chain goroutine's next operation
	yield     bool
}

type callRec struct {
	req    *reqRec
	k      kind
	epoch  uint64
	idxs   []uint64
	entry  int64
	at     int64 // instant at which the model was read
	exit   int64
	ver    int
	failed bool
	all    bool // called without indices
}

type reqRec struct {
	id     int
	caller int
	k      kind
	epoch  uint64
	idxs   []uint64 // as requested; empty = "all active validators"
	plan   plan
	tc, tr int64

	err     error
	duties  []dval
	nilDuty bool
	meta    string
	metaID  uintptr
	ranges  []memRange
	keep    any
	calls   []*callRec
}

type dropRec struct {
	typ    string // invalidate | trim
	arg    uint64
	epochs map[uint64]bool
	start  int64
	ret    int64
}

type activeRec struct {
	set      []uint64
	from, to int64
}

type harness struct {
	c     *kit.Case
	mode  string
	cache *eth2wrap.DutiesCache
	salt  int64
	pool  []uint64
	win   []uint64 // epoch window

	mu      sync.Mutex
	clock   int64
	ver     map[uint64]int
	hist    map[uint64][]*verRec
	memo    map[genKey][]dval
	calls   []*callRec
	reqs    []*reqRec
	drops   []*dropRec
	active  []*activeRec
	trace   []string
	holdCh  chan struct{}
	held    int
	noHolds bool

	memMu sync.RWMutex // snapshot (R) versus scribble (W) of returned objects

	infoOnly     bool
	inconclusive bool
}

func (h *harness) tickLocked() int64 { h.clock++; return h.clock }

func (h *harness) tick() int64 {
	h.mu.Lock()
	defer h.mu.Unlock()

	return h.tickLocked()
}

func (h *harness) logf(format string, a ...any) {
	h.mu.Lock()
	h.trace = append(h.trace, fmt.Sprintf("t%d ", h.clock)+fmt.Sprintf(format, a...))
	h.mu.Unlock()
}

// ---------------------------------------------------------------------------------------------
// Chain-side operations (reorg, trim, active set).
// ---------------------------------------------------------------------------------------------

// reorg changes the beacon node's assignments of every epoch > e and then tells the cache.
func (h *harness) reorg(e uint64) *dropRec {
	h.mu.Lock()
	d := &dropRec{typ: "invalidate", arg: e, epochs: map[uint64]bool{}, ret: never}
	d.start = h.tickLocked()
	var old []*verRec
	for _, ep := range h.win {
		if ep > e {
			d.epochs[ep] = true
			hs := h.hist[ep]
			old = append(old, hs[len(hs)-1])
			h.ver[ep]++
			h.hist[ep] = append(hs, &verRec{ver: h.ver[ep], born: d.start, dead: never})
		}
	}
	h.drops = append(h.drops, d)
	h.trace = append(h.trace, fmt.Sprintf("t%d reorg: beacon node changes epochs >%d, InvalidateCache(%d) called", h.clock, e, e))
	h.mu.Unlock()

	h.cache.InvalidateCache(context.Background(), eth2p0.Epoch(e))

	h.mu.Lock()
	d.ret = h.tickLocked()
	for _, v := range old {
		v.dead = d.ret
	}
	h.trace = append(h.trace, fmt.Sprintf("t%d InvalidateCache(%d) returned", h.clock, e))
	h.mu.Unlock()
	h.c.R.Count("invalidate_calls", 1)
	if len(d.epochs) > 0 {
		h.c.R.Count("invalidate_calls_affecting_window", 1)
	}

	return d
}

// trim calls Trim(e): epochs < e-3 are dropped (nothing when e < 3). The beacon node does not change.
func (h *harness) trim(e uint64) *dropRec {
	h.mu.Lock()
	d := &dropRec{typ: "trim", arg: e, epochs: map[uint64]bool{}, ret: never}
	d.start = h.tickLocked()
	if e >= 3 {
		for _, ep := range h.win {
			if ep < e-3 {
				d.epochs[ep] = true
			}
		}
	}
	h.drops = append(h.drops, d)
	h.trace = append(h.trace, fmt.Sprintf("t%d Trim(%d) called", h.clock, e))
	h.mu.Unlock()

	h.cache.Trim(eth2p0.Epoch(e))

	h.mu.Lock()
	d.ret = h.tickLocked()
	h.trace = append(h.trace, fmt.Sprintf("t%d Trim(%d) returned", h.clock, e))
	h.mu.Unlock()
	h.c.R.Count("trim_calls", 1)
	if len(d.epochs) > 0 {
		h.c.R.Count("trim_calls_affecting_window", 1)
	}

	return d
}

func (h *harness) updateActive(set []uint64) {
	own := make([]eth2p0.ValidatorIndex, len(set)) // never touched again by the harness
	for i, v := range set {
		own[i] = eth2p0.ValidatorIndex(v)
	}
	h.mu.Lock()
	t := h.tickLocked()
	prev := h.active[len(h.active)-1] // stays admissible until the call below has returned
	rec := &activeRec{set: append([]uint64(nil), set...), from: t, to: never}
	h.active = append(h.active, rec)
	h.trace = append(h.trace, fmt.Sprintf("t%d UpdateActiveValIndices(%v)", h.clock, set))
	h.mu.Unlock()

	h.cache.UpdateActiveValIndices(own)

	h.mu.Lock()
	prev.to = h.tickLocked()
	h.mu.Unlock()
	h.c.R.Count("update_active_calls", 1)
}

// ---------------------------------------------------------------------------------------------
// Beacon-node stub (only the three duty endpoints are ever reached by DutiesCache).
// ---------------------------------------------------------------------------------------------

type ctxKey struct{}

var errInjected = errors.New("injected beacon node failure")

type stub struct {
	eth2wrap.Client // nil: any other method would panic, DutiesCache uses none
	h               *harness
}

func (s *stub) fetch(ctx context.Context, k kind, epoch uint64, indices []eth2p0.ValidatorIndex) ([]dval, map[string]any, error) {
	h := s.h
	rec, _ := ctx.Value(ctxKey{}).(*reqRec)
	if rec == nil {
		panic("c20: beacon stub called without request context")
	}
	want := map[uint64]bool{}
	idxs := make([]uint64, len(indices))
	for i, v := range indices {
		idxs[i] = uint64(v)
		want[uint64(v)] = true
	}
	if rec.plan.yield {
		runtime.Gosched()
	}

	h.mu.Lock()
	call := &callRec{req: rec, k: k, epoch: epoch, idxs: idxs, all: len(idxs) == 0}
	call.entry = h.tickLocked()
	first := len(rec.calls) == 0
	rec.calls = append(rec.calls, call)
	h.calls = append(h.calls, call)
	g := rec.plan.gate
	late := rec.plan.late && g != nil && first
	if !late {
		call.at, call.ver = call.entry, h.ver[epoch]
	}
	var holdCh chan struct{}
	if rec.plan.hold && first && !h.noHolds {
		holdCh = h.holdCh
		h.held++
	}
	h.mu.Unlock()

	if g != nil && first {
		g.once.Do(func() { close(g.entered) })
		<-g.release
	}
	if holdCh != nil {
		<-holdCh
	}
	if rec.plan.yield {
		runtime.Gosched()
	}

	h.mu.Lock()
	defer h.mu.Unlock()
	if late {
		call.at, call.ver = h.tickLocked(), h.ver[epoch]
	}
	call.exit = h.tickLocked()
	if rec.plan.injectErr {
		call.failed = true

		return nil, nil, errInjected
	}
	var out []dval
	for _, d := range h.genDuties(k, epoch, call.ver) {
		if call.all || want[d.Val] {
			out = append(out, d)
		}
	}

	return out, metaOf(k, epoch, call.ver), nil
}

func (s *stub) AttesterDuties(ctx context.Context, opts *eth2api.AttesterDutiesOpts) (*eth2api.Response[[]*eth2v1.AttesterDuty], error) {
	vals, meta, err := s.fetch(ctx, kAtt, uint64(opts.Epoch), opts.Indices)
	if err != nil {
		return nil, err
	}
	data := make([]*eth2v1.AttesterDuty, 0, len(vals))
	for _, d := range vals {
		data = append(data, &eth2v1.AttesterDuty{
			PubKey: eth2p0.BLSPubKey(d.PK), Slot: eth2p0.Slot(d.Slot), ValidatorIndex: eth2p0.ValidatorIndex(d.Val),
			CommitteeIndex: eth2p0.CommitteeIndex(d.A), CommitteeLength: d.B, CommitteesAtSlot: d.C, ValidatorCommitteeIndex: d.D,
		})
	}

	return &eth2api.Response[[]*eth2v1.AttesterDuty]{Data: data, Metadata: meta}, nil
}

func (s *stub) ProposerDuties(ctx context.Context, opts *eth2api.ProposerDutiesOpts) (*eth2api.Response[[]*eth2v1.ProposerDuty], error) {
	vals, meta, err := s.fetch(ctx, kProp, uint64(opts.Epoch), opts.Indices)
	if err != nil {
		return nil, err
	}
	data := make([]*eth2v1.ProposerDuty, 0, len(vals))
	for _, d := range vals {
		data = append(data, &eth2v1.ProposerDuty{PubKey: eth2p0.BLSPubKey(d.PK), Slot: eth2p0.Slot(d.Slot), ValidatorIndex: eth2p0.ValidatorIndex(d.Val)})
	}

	return &eth2api.Response[[]*eth2v1.ProposerDuty]{Data: data, Metadata: meta}, nil
}

func (s *stub) SyncCommitteeDuties(ctx context.Context, opts *eth2api.SyncCommitteeDutiesOpts) (*eth2api.Response[[]*eth2v1.SyncCommitteeDuty], error) {
	vals, meta, err := s.fetch(ctx, kSync, uint64(opts.Epoch), opts.Indices)
	if err != nil {
		return nil, err
	}
	data := make([]*eth2v1.SyncCommitteeDuty, 0, len(vals))
	for _, d := range vals {
		data = append(data, &eth2v1.SyncCommitteeDuty{
			PubKey: eth2p0.BLSPubKey(d.PK), ValidatorIndex: eth2p0.ValidatorIndex(d.Val),
			ValidatorSyncCommitteeIndices: syncIdxOf(d),
		})
	}

	return &eth2api.Response[[]*eth2v1.SyncCommitteeDuty]{Data: data, Metadata: meta}, nil
}
