package c20

import (
	"context"
	"encoding/json"
	"fmt"
	"reflect"
	"sort"

	eth2v1 "github.com/attestantio/go-eth2-client/api/v1"
	eth2p0 "github.com/attestantio/go-eth2-client/spec/phase0"
)

// ---------------------------------------------------------------------------------------------
// Reachable-memory walker (pointers, slice backing arrays, maps) for the isolation oracle.
// ---------------------------------------------------------------------------------------------

type memRange struct {
	lo, hi uintptr
	path   string
	req    int
}

func hasRefs(t reflect.Type) bool {
	switch t.Kind() {
	case reflect.Ptr, reflect.Slice, reflect.Map, reflect.Interface:
		return true
	case reflect.Struct:
		for i := 0; i < t.NumField(); i++ {
			if hasRefs(t.Field(i).Type) {
				return true
			}
		}

		return false
	case reflect.Array:
		return hasRefs(t.Elem())
	default:
		return false
	}
}

// reach appends every mutable memory region reachable from v (strings and funcs are immutable).
func reach(v reflect.Value, path string, req int, out *[]memRange) {
	switch v.Kind() {
	case reflect.Ptr:
		if v.IsNil() {
			return
		}
		if sz := v.Type().Elem().Size(); sz > 0 {
			*out = append(*out, memRange{lo: v.Pointer(), hi: v.Pointer() + sz, path: path + "*", req: req})
		}
		reach(v.Elem(), path+"*", req, out)
	case reflect.Slice:
		if v.IsNil() || v.Cap() == 0 {
			return
		}
		sz := v.Type().Elem().Size()
		if sz > 0 {
			*out = append(*out, memRange{lo: v.Pointer(), hi: v.Pointer() + uintptr(v.Cap())*sz, path: path + "[]", req: req})
		}
		if hasRefs(v.Type().Elem()) {
			for i := 0; i < v.Len(); i++ {
				reach(v.Index(i), path+"[]", req, out)
			}
		}
	case reflect.Struct:
		for i := 0; i < v.NumField(); i++ {
			if hasRefs(v.Type().Field(i).Type) {
				reach(v.Field(i), path+"."+v.Type().Field(i).Name, req, out)
			}
		}
	case reflect.Array:
		if hasRefs(v.Type().Elem()) {
			for i := 0; i < v.Len(); i++ {
				reach(v.Index(i), path+"[]", req, out)
			}
		}
	case reflect.Interface:
		if !v.IsNil() {
			reach(v.Elem(), path, req, out)
		}
	default:
	}
}

// ---------------------------------------------------------------------------------------------
// One request through the real cache: call, snapshot, scribble.
// ---------------------------------------------------------------------------------------------

func metaString(m map[string]any) (string, uintptr) {
	if m == nil {
		return "null", 0
	}
	b, err := json.Marshal(m) // keys are sorted by encoding/json
	if err != nil {
		return fmt.Sprintf("unmarshalable:%v", m), reflect.ValueOf(m).Pointer()
	}

	return string(b), reflect.ValueOf(m).Pointer()
}

// request issues one cache request as caller `caller`, records its answer as it was at return and
// then scribbles every returned duty object and the caller's own index slice.
func (h *harness) request(k kind, epoch uint64, idxs []uint64, p plan, caller int) *reqRec {
	rec := &reqRec{caller: caller, k: k, epoch: epoch, idxs: append([]uint64(nil), idxs...), plan: p}
	var own []eth2p0.ValidatorIndex // the caller's slice
	if len(idxs) > 0 || epoch%2 == 0 {
		own = make([]eth2p0.ValidatorIndex, len(idxs)) // empty-but-non-nil for half of the "all active" requests
	}
	for i, v := range idxs {
		own[i] = eth2p0.ValidatorIndex(v)
	}
	ctx := context.WithValue(context.Background(), ctxKey{}, rec)

	h.mu.Lock()
	rec.id = len(h.reqs)
	h.reqs = append(h.reqs, rec)
	rec.tc = h.tickLocked()
	h.mu.Unlock()

	switch k {
	case kAtt:
		res, err := h.cache.AttesterDutiesCache(ctx, eth2p0.Epoch(epoch), own)
		rec.tr = h.tick()
		rec.err = err
		h.memMu.RLock()
		for _, d := range res.Duties {
			if d == nil {
				rec.nilDuty = true

				continue
			}
			rec.duties = append(rec.duties, dval{Val: uint64(d.ValidatorIndex), Slot: uint64(d.Slot), PK: d.PubKey,
				A: uint64(d.CommitteeIndex), B: d.CommitteeLength, C: d.CommitteesAtSlot, D: d.ValidatorCommitteeIndex})
		}
		rec.meta, rec.metaID = metaString(res.Metadata)
		reach(reflect.ValueOf(res.Duties), "Duties", rec.id, &rec.ranges)
		h.memMu.RUnlock()
		rec.keep = []any{res, append(res.Duties[:0:0], res.Duties...)} // keeps every object alive: addresses stay unique for the case
		h.memMu.Lock()
		for i, d := range res.Duties {
			if d != nil {
				*d = eth2v1.AttesterDuty{PubKey: sentPK, Slot: eth2p0.Slot(sentSlot), ValidatorIndex: eth2p0.ValidatorIndex(sentVal),
					CommitteeIndex: 0xEE, CommitteeLength: 0xEE, CommitteesAtSlot: 0xEE, ValidatorCommitteeIndex: 0xEE}
			}
			if i%2 == 1 {
				res.Duties[i] = nil
			}
		}
		h.memMu.Unlock()
	case kProp:
		res, err := h.cache.ProposerDutiesCache(ctx, eth2p0.Epoch(epoch), own)
		rec.tr = h.tick()
		rec.err = err
		h.memMu.RLock()
		for _, d := range res.Duties {
			if d == nil {
				rec.nilDuty = true

				continue
			}
			rec.duties = append(rec.duties, dval{Val: uint64(d.ValidatorIndex), Slot: uint64(d.Slot), PK: d.PubKey})
		}
		rec.meta, rec.metaID = metaString(res.Metadata)
		reach(reflect.ValueOf(res.Duties), "Duties", rec.id, &rec.ranges)
		h.memMu.RUnlock()
		rec.keep = []any{res, append(res.Duties[:0:0], res.Duties...)} // keeps every object alive: addresses stay unique for the case
		h.memMu.Lock()
		for i, d := range res.Duties {
			if d != nil {
				*d = eth2v1.ProposerDuty{PubKey: sentPK, Slot: eth2p0.Slot(sentSlot), ValidatorIndex: eth2p0.ValidatorIndex(sentVal)}
			}
			if i%2 == 1 {
				res.Duties[i] = nil
			}
		}
		h.memMu.Unlock()
	case kSync:
		res, err := h.cache.SyncCommDutiesCache(ctx, eth2p0.Epoch(epoch), own)
		rec.tr = h.tick()
		rec.err = err
		h.memMu.RLock()
		for _, d := range res.Duties {
			if d == nil {
				rec.nilDuty = true

				continue
			}
			raw := make([]uint64, len(d.ValidatorSyncCommitteeIndices))
			for i, x := range d.ValidatorSyncCommitteeIndices {
				raw[i] = uint64(x)
			}
			rec.duties = append(rec.duties, dval{Val: uint64(d.ValidatorIndex), PK: d.PubKey, Sync: fmt.Sprint(raw)})
		}
		rec.meta, rec.metaID = metaString(res.Metadata)
		reach(reflect.ValueOf(res.Duties), "Duties", rec.id, &rec.ranges)
		h.memMu.RUnlock()
		rec.keep = []any{res, append(res.Duties[:0:0], res.Duties...)} // keeps every object alive: addresses stay unique for the case
		h.memMu.Lock()
		for i, d := range res.Duties {
			if d != nil {
				for j := range d.ValidatorSyncCommitteeIndices { // write through the slice the caller was given
					d.ValidatorSyncCommitteeIndices[j] = eth2p0.CommitteeIndex(sentIdx + uint64(j%8))
				}
				d.PubKey, d.ValidatorIndex = sentPK, eth2p0.ValidatorIndex(sentVal)
				// (the slice header is left in place: dropping it would free the backing array and let the
				// allocator reuse its address for a later answer, which the overlap check would misread)
			}
			if i%2 == 1 {
				res.Duties[i] = nil
			}
		}
		h.memMu.Unlock()
	}
	for i := range own { // the caller reuses its own index slice
		own[i] = eth2p0.ValidatorIndex(0xFFFF0000 + uint64(i))
	}

	h.mu.Lock()
	callIdx := make([]string, 0, len(rec.calls))
	for _, c := range rec.calls {
		callIdx = append(callIdx, fmt.Sprintf("%v@v%d", c.idxs, c.ver))
	}
	res := fmt.Sprintf("%d duties", len(rec.duties))
	if rec.err != nil {
		res = "error: " + rec.err.Error()
	}
	h.trace = append(h.trace, fmt.Sprintf("t%d..t%d req#%d caller%d %s epoch=%d idxs=%v -> %s; beacon calls %v", rec.tc, rec.tr, rec.id, caller, k, epoch, rec.idxs, res, callIdx))
	h.mu.Unlock()

	return rec
}

func setOf(xs []uint64) map[uint64]bool {
	m := make(map[uint64]bool, len(xs))
	for _, x := range xs {
		m[x] = true
	}

	return m
}

func sortedCopy(xs []uint64) []uint64 {
	out := append([]uint64(nil), xs...)
	sort.Slice(out, func(i, j int) bool { return out[i] < out[j] })

	return out
}

func multisetEqual(a, b []dval) bool {
	if len(a) != len(b) {
		return false
	}
	m := make(map[dval]int, len(a))
	for _, x := range a {
		m[x]++
	}
	for _, x := range b {
		m[x]--
		if m[x] < 0 {
			return false
		}
	}

	return true
}

func strs(ds []dval) []string {
	out := make([]string, 0, len(ds))
	for _, d := range ds {
		out = append(out, d.String())
	}
	sort.Strings(out)

	return out
}
