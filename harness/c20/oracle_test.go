package c20

import (
	"encoding/json"
	"fmt"
	"sort"
	"strings"
)

type idxRead struct {
	req      *reqRec
	min, max int // range of admissible versions whose assignment for the index equals what was read
}

type evalState struct {
	reported map[string]bool
	reads    map[string][]idxRead // (kind,epoch,idx) -> reads, for the new/old-inversion check
	hits     int
	partial  int
	misses   int
	refInv   int
	refTrim  int
}

func (h *harness) fail(st *evalState, sig, what string, R *reqRec, extra map[string]any) {
	if st.reported[sig] {
		return
	}
	st.reported[sig] = true
	if h.infoOnly {
		// Requests carrying the same index twice are outside the statement ("explicit set"): observations only.
		h.c.R.Count("info_"+h.mode+"_case_observations/"+sig, 1)
		if h.c.R.Counter("info_"+h.mode+"_samples") < 1 && len(h.trace) < 40 {
			h.c.R.Count("info_"+h.mode+"_samples", 1)
			h.c.R.Sample(map[string]any{"info": "observation-only mode " + h.mode + " (not a verdict)", "sig": sig, "what": what, "witness": h.witness(R, extra)})
		}

		return
	}
	h.c.Violation(sig, what, h.witness(R, extra))
}

func (h *harness) witness(R *reqRec, extra map[string]any) map[string]any {
	w := map[string]any{"mode": h.mode, "validator_pool": h.pool, "epoch_window": h.win, "trace": h.trace}
	if R != nil {
		w["request"] = map[string]any{
			"id": R.id, "kind": R.k.String(), "epoch": R.epoch, "indices": R.idxs, "call_instant": R.tc, "return_instant": R.tr,
			"answer": strs(R.duties), "metadata": R.meta, "beacon_calls_made": len(R.calls),
		}
		var vers []map[string]any
		for _, v := range h.hist[R.epoch] {
			dead := any(v.dead)
			if v.dead == never {
				dead = "current"
			}
			vers = append(vers, map[string]any{"version": v.ver, "born": v.born, "invalidation_returned": dead, "model_answer": strs(h.modelAnswer(R.k, R.epoch, v.ver, R.idxs))})
		}
		w["model_versions_of_epoch"] = vers
	}
	for k, v := range extra {
		w[k] = v
	}

	return w
}

func (h *harness) modelAnswer(k kind, epoch uint64, ver int, idxs []uint64) []dval {
	want := setOf(idxs)
	var out []dval
	for _, d := range h.genDuties(k, epoch, ver) {
		if want[d.Val] {
			out = append(out, d)
		}
	}

	return out
}

type problem struct {
	sig, what string
	extra     map[string]any
	info      string
}

// judge compares one successful answer with the model for the index set `set`.
func (h *harness) judge(R *reqRec, set []uint64) (probs []problem, reads map[uint64][2]int) {
	kn := R.k.String()
	reads = map[uint64][2]int{}
	if len(set) == 0 { // no indices and no active validators (observation-only mode): the node applies no filter
		set = h.pool
	}
	var adm []int
	for _, v := range h.hist[R.epoch] {
		if v.born <= R.tr && v.dead >= R.tc {
			adm = append(adm, v.ver)
		}
	}
	newest := adm[len(adm)-1]
	isAdm := map[int]bool{}
	for _, v := range adm {
		isAdm[v] = true
	}
	want := setOf(set)
	byVal := map[uint64][]dval{}
	for _, d := range R.duties {
		byVal[d.Val] = append(byVal[d.Val], d)
	}
	for _, v := range sortedKeys(byVal) {
		if want[v] {
			continue
		}
		if byVal[v][0].scribbled() {
			probs = append(probs, problem{sig: "dutiescache/scribble-visible-in-later-answer/" + kn,
				what: fmt.Sprintf("%s answer contains a duty object carrying values that an earlier caller wrote into ITS answer: %v", kn, byVal[v][0])})
		} else {
			probs = append(probs, problem{sig: "dutiescache/answer-mismatch/" + kn + "/duty-for-unrequested-index",
				what: fmt.Sprintf("%s answer for indices %v contains a duty of validator %d", kn, set, v)})
		}
	}

	var last *dropRec
	for _, d := range h.drops {
		if d.epochs[R.epoch] && d.ret < R.tc {
			last = d
		}
	}

	for _, i := range sortedCopy(set) {
		got := byVal[i]
		fresh, inflight := true, false
		var staleCall *callRec
		if last != nil {
			fresh = false
			for _, c := range h.calls {
				if c.k != R.k || c.epoch != R.epoch || c.failed || c.at == 0 || c.at > R.tr {
					continue
				}
				if !c.all && !setOf(c.idxs)[i] {
					continue
				}
				if c.at > last.start {
					fresh = true
				} else if c.req.tr > last.start {
					inflight = true
					staleCall = c
				}
			}
		}
		var matches []int
		for _, v := range adm {
			if multisetEqual(h.perIndex(R.k, R.epoch, v, i), got) {
				matches = append(matches, v)
			}
		}
		staleVer := -1
		var staleVers []int // older, no longer admissible versions whose assignment equals what was served
		if len(matches) == 0 {
			for _, v := range h.hist[R.epoch] {
				if v.dead < R.tc && multisetEqual(h.perIndex(R.k, R.epoch, v.ver, i), got) {
					staleVers = append(staleVers, v.ver)
					staleVer = v.ver
				}
			}
		}
		valueNote := ""
		if staleVer >= 0 {
			valueNote = fmt.Sprintf("; the duties served for validator %d are those of beacon-node version %v, admissible versions are %v", i, staleVers, adm)
			// Is the stale version explained by a fetch that was in flight across an invalidation?
			explained := false
			for _, sv := range staleVers {
				if c, d := h.inflightAcrossInvalidate(R, sv, i); c != nil {
					probs = append(probs, problem{sig: "dutiescache/stale-store-after-invalidate/" + kn,
						extra: map[string]any{"validator_index": i, "drop": dropJSON(d), "in_flight_fetch": callJSON(c)},
						what: fmt.Sprintf("%s duties of epoch %d validator %d: request started after InvalidateCache(%d) had returned, yet it was answered from the result of a fetch that was in flight across the invalidation and stored afterwards%s",
							kn, R.epoch, i, d.arg, valueNote)})
					explained = true

					break
				}
			}
			if explained {
				continue
			}
		}

		if !fresh {
			ex := map[string]any{"validator_index": i, "drop": dropJSON(last)}
			if staleCall != nil {
				ex["in_flight_fetch"] = callJSON(staleCall)
			}
			switch {
			case last.typ == "invalidate" && inflight:
				probs = append(probs, problem{sig: "dutiescache/stale-store-after-invalidate/" + kn, extra: ex,
					what: fmt.Sprintf("%s duties of epoch %d validator %d: request started after InvalidateCache(%d) had returned, yet it was answered without any beacon-node fetch newer than the invalidation — from the result of a fetch that was in flight across the invalidation and stored afterwards%s",
						kn, R.epoch, i, last.arg, valueNote)})
			case last.typ == "invalidate":
				probs = append(probs, problem{sig: "dutiescache/not-refetched-after-invalidate/" + kn, extra: ex,
					what: fmt.Sprintf("%s duties of epoch %d validator %d: first request after InvalidateCache(%d) returned was answered without reaching the beacon node%s", kn, R.epoch, i, last.arg, valueNote)})
			case inflight:
				probs = append(probs, problem{info: "info_served_from_fetch_in_flight_across_trim"})
			default:
				probs = append(probs, problem{sig: "dutiescache/not-refetched-after-trim/" + kn, extra: ex,
					what: fmt.Sprintf("%s duties of epoch %d validator %d: first request after Trim(%d) returned was answered without reaching the beacon node%s", kn, R.epoch, i, last.arg, valueNote)})
			}
			if staleVer >= 0 || len(matches) > 0 {
				if len(matches) > 0 {
					reads[i] = [2]int{matches[0], matches[len(matches)-1]}
				}

				continue
			}
		}
		if len(matches) > 0 {
			reads[i] = [2]int{matches[0], matches[len(matches)-1]}

			continue
		}

		exp := h.perIndex(R.k, R.epoch, newest, i)
		ex := map[string]any{"validator_index": i, "got": strs(got), "model_newest_admissible": strs(exp), "admissible_versions": adm}
		shape := "wrong-duty"
		scrib := false
		for _, d := range got {
			scrib = scrib || d.scribbled()
		}
		switch {
		case scrib:
			probs = append(probs, problem{sig: "dutiescache/scribble-visible-in-later-answer/" + kn, extra: ex,
				what: fmt.Sprintf("%s answer for validator %d carries values that an earlier caller wrote into ITS answer (no private copy)", kn, i)})

			continue
		case staleVer >= 0:
			shape = "stale-version"
		case len(got) == 0:
			shape = "validator-duties-missing"
		case subMultiset(got, exp):
			shape = "duty-missing"
		case subMultiset(exp, got) && sameDistinct(exp, got):
			shape = "duty-duplicated"
		}
		probs = append(probs, problem{sig: "dutiescache/answer-mismatch/" + kn + "/" + shape, extra: ex,
			what: fmt.Sprintf("%s answer for epoch %d validator %d differs from every beacon-node answer between call and return (%s): got %d duties, model has %d", kn, R.epoch, i, shape, len(got), len(exp))})
	}

	realProbs := 0
	for _, p := range probs {
		if p.info == "" {
			realProbs++
		}
	}
	if realProbs == 0 {
		ok := false
		for _, v := range adm {
			b, _ := json.Marshal(metaOf(R.k, R.epoch, v))
			ok = ok || string(b) == R.meta
		}
		if !ok {
			for _, v := range h.hist[R.epoch] {
				b, _ := json.Marshal(metaOf(R.k, R.epoch, v.ver))
				if string(b) != R.meta || v.dead >= R.tc {
					continue
				}
				if c, d := h.inflightAcrossInvalidate(R, v.ver, ^uint64(0)); c != nil {
					probs = append(probs, problem{sig: "dutiescache/stale-store-after-invalidate/" + kn,
						extra: map[string]any{"drop": dropJSON(d), "in_flight_fetch": callJSON(c)},
						what: fmt.Sprintf("%s metadata of epoch %d: request started after InvalidateCache(%d) had returned, yet its metadata %s is that of beacon-node version %d (admissible %v), stored by a fetch that was in flight across the invalidation",
							kn, R.epoch, d.arg, R.meta, v.ver, adm)})
					ok = true
				}
			}
		}
		if !ok {
			probs = append(probs, problem{sig: "dutiescache/answer-mismatch/" + kn + "/metadata",
				what: fmt.Sprintf("%s answer metadata %s is not the beacon node's metadata of any admissible version %v", kn, R.meta, adm)})
		}
	}

	return probs, reads
}

// inflightAcrossInvalidate finds a successful beacon call of (R.kind, R.epoch) that read model version
// ver (covering validator idx; any validator when idx is ^0) before an invalidation of that epoch
// started, while the request that made the call was still running when the invalidation started —
// the invalidation having returned before R was issued.
func (h *harness) inflightAcrossInvalidate(R *reqRec, ver int, idx uint64) (*callRec, *dropRec) {
	for _, d := range h.drops {
		if d.typ != "invalidate" || !d.epochs[R.epoch] || d.ret >= R.tc {
			continue
		}
		for _, c := range h.calls {
			if c.k != R.k || c.epoch != R.epoch || c.failed || c.ver != ver || c.at == 0 || c.at > d.start || c.req.tr <= d.start {
				continue
			}
			if idx != ^uint64(0) && !c.all && !setOf(c.idxs)[idx] {
				continue
			}

			return c, d
		}
	}

	return nil, nil
}

func dropJSON(d *dropRec) map[string]any {
	return map[string]any{"type": d.typ, "arg": d.arg, "started": d.start, "returned": d.ret}
}

func callJSON(c *callRec) map[string]any {
	return map[string]any{"by_request": c.req.id, "indices": c.idxs, "model_read_at": c.at, "version_served": c.ver,
		"request_called_at": c.req.tc, "request_returned_at": c.req.tr}
}

func sortedKeys(m map[uint64][]dval) []uint64 {
	out := make([]uint64, 0, len(m))
	for k := range m {
		out = append(out, k)
	}
	sort.Slice(out, func(i, j int) bool { return out[i] < out[j] })

	return out
}

func subMultiset(a, b []dval) bool { // a ⊆ b
	m := map[dval]int{}
	for _, x := range b {
		m[x]++
	}
	for _, x := range a {
		m[x]--
		if m[x] < 0 {
			return false
		}
	}

	return true
}

func sameDistinct(a, b []dval) bool {
	ma, mb := map[dval]bool{}, map[dval]bool{}
	for _, x := range a {
		ma[x] = true
	}
	for _, x := range b {
		mb[x] = true
	}
	if len(ma) != len(mb) {
		return false
	}
	for x := range ma {
		if !mb[x] {
			return false
		}
	}

	return true
}

// evaluate runs every oracle over the recorded case (all goroutines have been joined).
func (h *harness) evaluate() *evalState {
	r := h.c.R
	st := &evalState{reported: map[string]bool{}, reads: map[string][]idxRead{}}
	firstAfterDrop := map[string]bool{} // (drop, kind, epoch) already counted

	for _, R := range h.reqs {
		r.Count("requests", 1)
		r.Count("requests_"+R.k.String(), 1)
		kn := R.k.String()
		if R.err != nil {
			injected := false
			for _, c := range R.calls {
				injected = injected || c.failed
			}
			if !injected {
				h.fail(st, "dutiescache/unexpected-error/"+kn, fmt.Sprintf("%s request failed although the beacon node answered every call: %v", kn, R.err), R, nil)
			} else {
				r.Count("requests_failed_by_injected_beacon_error", 1)
			}

			continue
		}
		if R.nilDuty {
			h.fail(st, "dutiescache/answer-mismatch/"+kn+"/nil-duty", kn+" answer contains a nil duty pointer", R, nil)
		}

		var cands [][]uint64
		if len(R.idxs) > 0 {
			cands = [][]uint64{R.idxs}
		} else {
			for _, a := range h.active {
				if a.from <= R.tr && a.to >= R.tc {
					cands = append(cands, a.set)
				}
			}
			r.Count("requests_without_indices_(active_set)", 1)
		}
		var probs []problem
		var reads map[uint64][2]int
		var used []uint64
		// Requests without indices: the active set may have changed while the request ran, so every
		// active set of the interval is a candidate. The candidate with the lowest score is judged;
		// "duty of an unrequested validator" / "validator missing" are what a wrong candidate looks like.
		score := func(ps []problem) (n int) {
			for _, p := range ps {
				switch {
				case p.info != "": // observations are not problems
				case strings.HasSuffix(p.sig, "/duty-for-unrequested-index") || strings.HasSuffix(p.sig, "/validator-duties-missing"):
					n += 100
				default:
					n++
				}
			}

			return n
		}
		for ci, cand := range cands {
			p, rd := h.judge(R, cand)
			if ci == 0 || score(p) < score(probs) {
				probs, reads, used = p, rd, cand
			}
		}
		for _, p := range probs {
			if p.info != "" {
				r.Count(p.info, 1)

				continue
			}
			h.fail(st, p.sig, p.what, R, p.extra)
		}
		for idx, mm := range reads {
			key := fmt.Sprintf("%d/%d/%d", R.k, R.epoch, idx)
			st.reads[key] = append(st.reads[key], idxRead{req: R, min: mm[0], max: mm[1]})
		}
		r.Count("index_answers_checked", int64(len(used)))

		// classification of the request as seen at the beacon node
		covered := map[uint64]bool{}
		for _, c := range R.calls {
			for _, x := range c.idxs {
				covered[x] = true
			}
		}
		switch {
		case len(R.calls) == 0:
			st.hits++
			r.Count("answers_full_hit", 1)
		case len(covered) < len(setOf(used)):
			st.partial++
			r.Count("answers_partial_hit_amend", 1)
		default:
			st.misses++
			r.Count("answers_miss", 1)
		}
		if len(R.calls) > 1 {
			r.Count("requests_with_more_than_one_beacon_call", 1)
		}
		if n := len(R.duties); n == 0 {
			r.Count("answers_empty", 1)
		}
		multi := map[uint64]int{}
		for _, d := range R.duties {
			multi[d.Val]++
		}
		for _, n := range multi {
			if n > 1 {
				r.Count("index_answers_with_several_duties", 1)
			}
		}
		r.Count("index_answers_with_no_duty", int64(len(setOf(used))-len(multi)))

		// refetch-after-drop coverage: first request per (drop, kind, epoch) that started after the drop returned
		for di, d := range h.drops {
			if d.epochs[R.epoch] && d.ret < R.tc {
				key := fmt.Sprintf("%d/%d/%d", di, R.k, R.epoch)
				if !firstAfterDrop[key] {
					firstAfterDrop[key] = true
					if d.typ == "invalidate" {
						st.refInv++
						r.Count("first_request_after_invalidate_checked", 1)
					} else {
						st.refTrim++
						r.Count("first_request_after_trim_checked", 1)
					}
				}
			}
		}
	}

	// New/old inversion per (kind, epoch, index) register: a read that began after another read
	// returned observes an older version. Information only: while the beacon node has already
	// changed but InvalidateCache has not returned yet, a miss (new version, straight from the
	// node) followed by a hit (old version) is unavoidable for any cache, so a strict register
	// model is not sound there; staleness after the invalidation returned is decided in judge().
	for _, rs := range st.reads {
		for _, b := range rs {
			for _, a := range rs {
				if a.req.tr < b.req.tc && b.max < a.min {
					r.Count("info_new_old_inversion_inside_open_invalidation_window", 1)
				}
			}
		}
		r.Count("register_read_pairs_examined", int64(len(rs)*(len(rs)-1)/2))
	}

	h.checkAlias(st)

	return st
}

// checkAlias: no two answers of the case may share mutable memory reachable from their duties.
func (h *harness) checkAlias(st *evalState) {
	var all []memRange
	kinds := map[int]*reqRec{}
	metaOwners := map[uintptr]int{}
	for _, R := range h.reqs {
		all = append(all, R.ranges...)
		kinds[R.id] = R
		if R.metaID != 0 {
			metaOwners[R.metaID]++
		}
	}
	for _, n := range metaOwners {
		if n > 1 {
			h.c.R.Count("info_metadata_map_shared_between_answers", int64(n-1))
		}
	}
	sort.Slice(all, func(i, j int) bool { return all[i].lo < all[j].lo })
	h.c.R.Count("alias_regions_examined", int64(len(all)))
	for i := range all {
		for j := i + 1; j < len(all) && all[j].lo < all[i].hi; j++ {
			if all[i].req == all[j].req {
				continue
			}
			a, b := all[i], all[j]
			R := kinds[b.req]
			if a.req > b.req {
				R = kinds[a.req]
			}
			h.fail(st, "dutiescache/answers-share-memory/"+R.k.String()+"/"+a.path,
				fmt.Sprintf("answers of request #%d (%s) and request #%d (%s) share mutable memory: callers do not hold private copies", a.req, a.path, b.req, b.path),
				R, map[string]any{"other_request": map[string]any{"id": kinds[a.req].id, "indices": kinds[a.req].idxs, "epoch": kinds[a.req].epoch}})
		}
	}
}
