// Package c04 checks bounded-progress termination of consensus under timely delivery with at most
// f crash-type faults (property C04) in virtual time (engine: verifharness/qbftsim, real
// qbft.Run and real round timers).
package c04

import (
	"fmt"
	"os"
	"strings"
	"testing"

	"github.com/obolnetwork/charon/core/qbft"

	"verifharness/kit"
	"verifharness/qbftsim"
)

func TestCheck(t *testing.T) {
	r := kit.Start(t, "C04")
	defer r.Finish()
	qbftsim.QuietLogs(t)
	r.Rule("case = discrete-event simulation in virtual time of one instance of the real qbft.Run with a real production round timer (increasing / eager double linear / linear; attester, proposer, aggregator duties): n in 4..7, " +
		"the set of faulty members is ENUMERATED over all subsets of size <= f (case index), each faulty member crashes at a PRNG broadcast index after reaching a PRNG recipient subset, never starts, stays silent or starts late; " +
		"running members start within the shortest round timeout T1, have their proposals (some slightly late), every message latency is in [0, T1/3); half of the attester cases run the compare flow (each member compares the proposal with its own value, held from the start); " +
		"when the driver could arm them, gofail failpoints in a scratch copy of core/qbft delay the instance goroutine between starting the comparator and waiting for it (50 % of calls, 1 ms real time; virtual time is unaffected); " +
		"oracle: a running member must decide before leaving round (its round at the last fault + n), and no honest message may be reported unjust; " +
		"non-trivial = at least one fault took effect or a round change happened; distinct = (n, fault set, fault modes, decision rounds) hash")
	r.Assume("liveness is restated as bounded progress in virtual time; the fake clock feeds the real RoundTimer implementations")
	r.Assume("messages that reach a member before it starts are buffered until it starts (as the production receive buffer does)")
	r.RacePkgs(false, "core/qbft", "core/consensus/timer")
	r.Require("running_members_decided", 1000)
	r.Require("faults_effective", 100)
	r.Require("compare_calls", 500)
	r.Set("failpoints_armed", os.Getenv("VERIF_FAILPOINTS"))

	n := r.N(12000, 300000)
	r.Cases(n, 0, func(c *kit.Case) {
		res := qbftsim.RunTimelyCase(c.Rng, c.Idx)
		for _, f := range res.Findings {
			if strings.HasPrefix(f.Sig, "qbft/termination/not-decided-within-one-leader-rotation/") {
				r.Count("bound_exceeded/timer="+res.Meta.Timer, 1)
			}
			c.Violation(f.Sig, f.What, map[string]any{"meta": res.Meta, "finding": f.What, "last_fault": res.LastFault.String(),
				"round_at_last_fault": res.RoundAtFault, "decide_round": res.DecideRound, "trace": tail(res.Trace, 700)})
		}
		r.Seen("fault_subsets", res.SubsetKey)
		r.Count("events", int64(res.Events))
		r.Count("running_members_decided", int64(len(res.DecideRound)))
		eff := 0
		for _, f := range res.Meta.Faults {
			r.Count("fault_mode/"+string(f.Mode), 1)
			eff++
		}
		r.Count("faults_effective", int64(eff))
		maxAfter := int64(0)
		for _, d := range res.RoundsAfterFault {
			if d > maxAfter {
				maxAfter = d
			}
		}
		r.Count(fmt.Sprintf("max_rounds_after_last_fault/%d", maxAfter), 1)
		r.Count("timer/"+res.Meta.Timer, 1)
		if res.Meta.CompareFlow {
			r.Count("cases_with_compare_flow", 1)
			r.Count("compare_calls", int64(res.Sim.Compares))
			r.Count("compare_calls_that_waited_for_the_local_value", int64(res.Sim.CompareWaits))
		}
		if res.Sim.MaxRound > r.Counter("max_round") {
			r.Count("max_round", res.Sim.MaxRound-r.Counter("max_round"))
		}
		for rule, k := range res.Sim.RuleSeen {
			r.Count("rule/"+rule.String(), int64(k))
			// Every member of these cases follows the algorithm (faults are crashes): each ROUND-CHANGE
			// carries the PREPARE quorum it claims, so a quorum of them always contains a justified
			// quorum for the next leader to propose from. A member that classifies one as unjustified
			// (the leader then stays silent) has refused honest messages, like a LogUnjust report.
			if rule == qbft.UponUnjustQuorumRoundChanges && k > 0 {
				c.Violation("qbft/honest-round-change-quorum-judged-unjust",
					fmt.Sprintf("with only honest (crash-faulty at most) members a quorum of ROUND-CHANGE messages for one round was classified as unjustified %d times (timer %s, n=%d)", k, res.Meta.Timer, res.Meta.N),
					map[string]any{"meta": res.Meta, "decide_round": res.DecideRound, "trace_tail": tail(res.Trace, 60)})
			}
		}
		if eff > 0 || res.Sim.MaxRound > 1 {
			c.NonTrivial(kit.Hash(res.SubsetKey, fmt.Sprint(res.Meta.Faults), res.DecideRound, res.Meta.Timer, res.Meta.Instance))
		}
		if c.Idx == 5 || c.Idx == 21 {
			r.Sample(map[string]any{"meta": res.Meta, "decide_round": res.DecideRound, "events": res.Events, "trace_head": head(res.Trace, 30)})
		}
	})
	// Individual exceedances of the literal bound are known findings for all three production timers
	// (rare desynchronisation histories, see DESIGN C04 and known_findings.json). A change that breaks
	// termination systematically shows as a much higher rate: more than 1 % of the cases of a timer
	// (measured baseline: eager 0.02 %, inc/linear about 0.1 %) is reported under its own signature.
	for _, tm := range []string{"eager", "inc", "linear"} {
		cases, exc := r.Counter("timer/"+tm), r.Counter("bound_exceeded/timer="+tm)
		if cases >= 300 && exc*100 > cases {
			r.Violation(-1, "qbft/termination/bound-exceeded-in-more-than-1-percent-of-cases/timer="+tm,
				fmt.Sprintf("%d of %d %s-timer cases had a running member undecided one full leader rotation after the last fault (known baseline rate is below 0.2 %%)", exc, cases, tm),
				map[string]any{"timer": tm, "cases": cases, "exceeded": exc})
		}
	}
	// all fault subsets enumerated?
	want := 0
	for n := 4; n <= 7; n++ {
		want += len(qbftsim.FaultSubsets(n))
	}
	r.Set("fault_subsets_total", want)
	if r.SeenCount("fault_subsets") == want {
		r.Set("fault_subset_enumeration_complete", true)
	}
}

func tail(xs []string, n int) []string {
	if len(xs) > n {
		return xs[len(xs)-n:]
	}

	return xs
}

func head(xs []string, n int) []string {
	if len(xs) > n {
		return xs[:n]
	}

	return xs
}
