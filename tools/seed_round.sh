#!/bin/bash
# Usage: tools/seed_round.sh <round> <ID> [CHECK...]  - intake of /tmp/seed<round>-<ID> (unless already stored) and a
# quick run of the property's check (and any extra checks) against the stored change; the verdict lines go to
# seeded/<ID>-r<round>/first_run.txt (first time) or last_run.txt.
set -u
rnd=$1; id=$2; shift 2; checks=${*:-$id}
name=$id-r$rnd
if [ ! -f /verif/seeded/$name/patch.diff ]; then
  /verif/tools/seed_intake.sh $id /tmp/seed$rnd-$id $name > /verif/seeded/.intake-$name.log 2>&1 || { echo "INTAKE FAILED $name"; tail -5 /verif/seeded/.intake-$name.log; exit 2; }
  mkdir -p /verif/seeded/$name && mv /verif/seeded/.intake-$name.log /verif/seeded/$name/intake.log
fi
out=/verif/seeded/$name/last_run.txt
[ -f /verif/seeded/$name/first_run.txt ] || out=/verif/seeded/$name/first_run.txt
: > $out
for c in $checks; do
  echo "## $c quick" >> $out
  /verif/tools/seeded_run.sh $name $c quick 2>&1 | grep -E "^(VIOLATION|HELD|INCONCLUSIVE|KNOWN-FINDING|PATCH FAILED|BUILD FAILED)" | cut -c1-330 >> $out
done
echo "== $name: $(grep -c '^VIOLATION' $out) violation line(s)"; grep -E "^(HELD|INCONCLUSIVE|PATCH|BUILD)" $out; grep '^VIOLATION' $out | sed 's/.*sig=//' | cut -c1-150 | head -5
