#!/bin/bash
# Usage: tools/seed_intake.sh <PROP-ID>   (worktree /tmp/seed-<ID> produced by an independent sub-agent)
# Confirms the seeded change myself: builds, demo fails with the change and passes without it,
# touched packages' existing tests pass with the change. Then copies the deliverables to
# /verif/seeded/<ID>/. Does not remove the worktree.
set -u
id=$1; wt=${2:-/tmp/seed-$id}; dest=${3:-$id}
export GOFLAGS=-mod=mod GOPROXY=off GOSUMDB=off GOTOOLCHAIN=local; go() { go1.26.8 "$@"; }
cd $wt || exit 2
echo "== untracked/modified:"; git status --short | grep -v _seed_out | grep -v _TASK
demos=$(git status --short | grep '^??' | awk '{print $2}' | grep '_test.go$')
pkgs=$(for d in $demos; do dirname $d; done | sort -u)
changed=$(git diff --name-only | xargs -n1 dirname | sort -u)
echo "== demo files: $demos"; echo "== demo pkgs: $pkgs"; echo "== changed pkgs: $changed"
go build ./... || { echo "BUILD FAILED"; exit 2; }
names=$(for d in $demos; do grep -ho '^func Test[A-Za-z0-9_]*' $d | sed 's/func //'; done | paste -sd'|')
echo "== demo tests: $names"
for p in $pkgs; do echo "-- WITH change: demo in $p"; go test -count=1 -run "^($names)\$" ./$p/ 2>&1 | tail -4; done
git diff > /tmp/seed-$id.p && git apply -R /tmp/seed-$id.p
for p in $pkgs; do echo "-- WITHOUT change: demo in $p"; go test -count=1 -run "^($names)\$" ./$p/ 2>&1 | tail -3; done
git apply /tmp/seed-$id.p
mkdir -p /tmp/seed-$id-demos; for d in $demos; do mv $d /tmp/seed-$id-demos/$(echo $d | tr / _); done
for p in $changed; do echo "-- WITH change: existing tests of $p"; go test -count=1 ./$p/ 2>&1 | tail -2; done
i=0; for d in $demos; do mv /tmp/seed-$id-demos/$(echo $d | tr / _) $d; done
mkdir -p /verif/seeded/$dest && cp -r $wt/_seed_out/* /verif/seeded/$dest/ && git -C $wt rev-parse HEAD > /verif/seeded/$dest/BASE_COMMIT
echo "== copied to /verif/seeded/$dest"; ls /verif/seeded/$dest
