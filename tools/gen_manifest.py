#!/usr/bin/env python3
"""Regenerates /verif/MANIFEST.json from tools/checks.json (built flag decides claimed vs not_applicable)."""
import json, os, subprocess
V = os.path.dirname(os.path.dirname(os.path.abspath(__file__)))
checks = json.load(open(os.path.join(V, "tools", "checks.json")))
hooks_commits = []
hc = os.path.join(V, "tools", "hook_commits.txt")
if os.path.exists(hc):
    hooks_commits = [l.split()[0] for l in open(hc) if l.strip() and not l.startswith("#")]
man = {
    "version": 1,
    "setup_cmd": "cd /verif && ./check --setup",
    "hooks": {
        "guard": "verif",
        "enable": "go build tag: go1.26.8 test -c -race -tags verif (done by ./check for every harness package)",
        "baseline_off_cmd": "cd /repo && go test -mod=mod -json -vet=off -count=1 -timeout 25m ./...",
        "source_commits": hooks_commits,
        "add_only": True,
    },
    "engines": [
        {"name": "check", "path": "/verif/check", "serves_properties": sorted(k for k, v in checks.items() if v["built"]),
         "kind_free_text": "driver: builds /verif/harness/<id> against /repo's working tree with -race -tags verif, runs it as a child process, merges oracle verdicts with race-detector reports, applies known_findings.json, writes evidence"},
    ],
    "checks": [],
    "not_applicable": [],
    "notes": "Technique family: runtime monitoring and sanitizers. Exit 0 held / 1 VIOLATION / 2 inconclusive. Known findings and fixed defects: /verif/known_findings.json. Seeded breaking changes: /verif/seeded/.",
}
for pid in sorted(checks):
    c = checks[pid]
    if c["built"]:
        man["checks"].append({
            "property_id": pid,
            "quick_cmd": "./check %s quick" % pid,
            "thorough_cmd": "./check %s thorough" % pid,
            "evidence_file": "/verif/evidence/%s.json" % pid,
            "replay_cmd_template": "./check %s --replay {path}" % pid,
            "engine": "check",
            "level_claimed": {"category": "exploration", "text": c["text"], "design_ref": "DESIGN.md section " + c["design_ref"]},
            "level_note": c["note"],
            "technique": c["technique"],
        })
    else:
        man["not_applicable"].append({"property_id": pid, "reason": c.get("na_reason", "check under construction in this session: not claimed until its monitor is built and silent on the unchanged tree (runtime monitoring applies; see DESIGN.md " + c["design_ref"] + ")")})
json.dump(man, open(os.path.join(V, "MANIFEST.json"), "w"), indent=1)
print("claimed:", [c["property_id"] for c in man["checks"]])
