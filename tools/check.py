#!/usr/bin/env python3
"""Driver for the /verif runtime-monitoring checks.

  ./check <ID> quick|thorough      build harness/<id> against /repo's working tree (race detector on,
                                   build tag verif), run it as a child process, merge its verdicts
                                   with the race-detector log, apply known_findings.json, write
                                   evidence/<ID>.json, print KNOWN-FINDING / VIOLATION lines.
  ./check <ID> --replay <file>     re-run the single case recorded in a witness file.
  ./check --setup                  compile every harness package (warms the build cache).

Exit codes: 0 held (known findings allowed), 1 violation, 2 inconclusive (build failure, watchdog,
too few events) — never folded into each other.

Environment: VERIF_SEED (default 1), VERIF_TIER overrides the tier argument if the argument is
absent, VERIF_REPO (default /repo) points the build at another checkout (mutant self-tests only;
evidence then goes to evidence-alt/), VERIF_SCALE scales case counts.
"""
import fnmatch
import hashlib
import json
import os
import re
import shutil
import signal
import subprocess
import sys
import time

VERIF = os.path.dirname(os.path.dirname(os.path.abspath(__file__)))
HARNESS = os.path.join(VERIF, "harness")
CHARON = "github.com/obolnetwork/charon/"

# Generous wall-clock watchdogs (seconds) around the child; firing is inconclusive, never a verdict.
WATCHDOG = {"quick": 1800, "thorough": 4 * 3600}

LEVEL = "exploration"


def go_env():
    env = dict(os.environ)
    env.update({
        "GOFLAGS": "-mod=mod", "GOPROXY": "off", "GOSUMDB": "off", "GOTOOLCHAIN": "local",
        "CGO_ENABLED": "1",
    })
    return env


def props():
    out = []
    for d in sorted(os.listdir(HARNESS)):
        if re.fullmatch(r"c\d\d", d) and os.path.isdir(os.path.join(HARNESS, d)):
            out.append(d.upper())
    return out


def modfile_args(repo):
    """-modfile pointing the charon replace at another checkout (self-test only)."""
    if os.path.realpath(repo) == "/repo":
        return [], ""
    tag = hashlib.sha1(os.path.realpath(repo).encode()).hexdigest()[:10]
    alt = os.path.join(HARNESS, ".alt-%s.mod" % tag)
    src = open(os.path.join(HARNESS, "go.mod")).read()
    src = src.replace("github.com/obolnetwork/charon => /repo", "github.com/obolnetwork/charon => " + os.path.realpath(repo))
    with open(alt, "w") as f:
        f.write(src)
    shutil.copy(os.path.join(HARNESS, "go.sum"), alt[:-4] + ".sum")
    return ["-modfile=" + alt], "-" + tag


def build(pid, repo, race=True, extra_tags=""):
    margs, suffix = modfile_args(repo)
    os.makedirs(os.path.join(VERIF, "bin"), exist_ok=True)
    out = os.path.join(VERIF, "bin", "%s%s.test" % (pid.lower(), suffix))
    cmd = ["go1.26.8", "test", "-c"] + margs + ["-tags", "verif" + extra_tags, "-vet=off", "-o", out]
    if race:
        cmd.insert(3, "-race")
    cmd.append("./" + pid.lower())
    t0 = time.time()
    p = subprocess.run(cmd, cwd=HARNESS, env=go_env(), stdout=subprocess.PIPE, stderr=subprocess.STDOUT, text=True)
    return p.returncode, p.stdout, out, time.time() - t0


def arm_failpoints(pid, repo):
    """Scratch copy of `repo` with gofail failpoints enabled for this check (tools/failpoints.json).
    Returns (scratch_dir or None, armed names, terms, lock file handle or None)."""
    try:
        spec = json.load(open(os.path.join(VERIF, "tools", "failpoints.json"))).get(pid)
    except (OSError, ValueError):
        spec = None
    gofail = os.path.join(VERIF, "bin", "gofail")
    if not spec or os.environ.get("VERIF_NO_FAILPOINTS"):
        return None, [], "", None
    if not os.path.exists(gofail):
        p = subprocess.run(["go1.26.8", "build", "-o", gofail, "go.etcd.io/gofail"], cwd=HARNESS, env=go_env(),
                           stdout=subprocess.PIPE, stderr=subprocess.STDOUT, text=True)
        if p.returncode != 0:
            return None, [], "", None
    tag = hashlib.sha1(os.path.realpath(repo).encode()).hexdigest()[:10]
    scratch = "/var/tmp/verif-fp-%s-%s" % (pid, tag)   # fixed per source tree: keeps the Go build cache warm
    lock = open(scratch + ".lock", "w")
    import fcntl
    fcntl.flock(lock, fcntl.LOCK_EX)
    try:
        subprocess.run(["rsync", "-a", "--delete", "--exclude", ".git", os.path.realpath(repo) + "/", scratch + "/"], check=True)
        armed, dirs = [], set()
        for pt in spec.get("points", []):
            path = os.path.join(scratch, pt["file"])
            src = open(path).read()
            if src.count(pt["before"] + "\n") != 1:
                continue
            src = src.replace(pt["before"] + "\n", "\t// gofail: var %s struct{}\n\n%s\n" % (pt["name"], pt["before"]))
            open(path, "w").write(src)
            armed.append(pt["name"])
            dirs.add(os.path.dirname(path))
        # line points: one failpoint before EVERY source line of the listed files that matches a pattern
        # (e.g. every stand-alone mutex acquisition of a package). Anchored by pattern, not by text, so
        # they also land in code a change under test has added.
        import glob as _glob
        extra_terms = []
        for lp in spec.get("line_points", []):
            k = 0
            for path in sorted(_glob.glob(os.path.join(scratch, lp["glob"]))):
                if path.endswith("_test.go") or path.endswith(".pb.go"):
                    continue
                rx = re.compile(lp["regex"])
                out_lines, hit = [], False
                for line in open(path).read().split("\n"):
                    if rx.match(line):
                        name = "%s%d" % (lp["prefix"], k)
                        k += 1
                        indent = line[:len(line) - len(line.lstrip())]
                        out_lines.append("%s// gofail: var %s struct{}" % (indent, name))
                        out_lines.append("")
                        armed.append(name)
                        extra_terms.append("%s=%s" % (name, lp["term"]))
                        hit = True
                    out_lines.append(line)
                if hit:
                    open(path, "w").write("\n".join(out_lines))
                    dirs.add(os.path.dirname(path))
        if not armed:
            raise RuntimeError("no anchor found")
        for d in sorted(dirs):
            subprocess.run([gofail, "enable", d], check=True, stdout=subprocess.PIPE, stderr=subprocess.STDOUT)
        terms = ";".join([t for t in spec.get("terms", "").split(";") if t and t.split("=")[0] in armed] + extra_terms)
        return scratch, armed, terms, lock
    except Exception:
        shutil.rmtree(scratch, ignore_errors=True)
        fcntl.flock(lock, fcntl.LOCK_UN)
        lock.close()
        return None, [], "", None


RACE_HDR = "WARNING: DATA RACE"
FRAME_RE = re.compile(r"^\s+(\S+)\(.*\)\s*$|^\s+(\S+)\(\)\s*$")


def parse_race_logs(outdir):
    """Return list of reports; each = {'stacks': [[func,...],[func,...]], 'text': str}."""
    reports = []
    for fn in sorted(os.listdir(outdir)):
        if not fn.startswith("race."):
            continue
        txt = open(os.path.join(outdir, fn), errors="replace").read()
        blocks = txt.split("==================")
        for b in blocks:
            if RACE_HDR not in b:
                continue
            stacks = []
            cur = None
            for line in b.splitlines():
                if re.match(r"^(Read|Write|Previous read|Previous write|Atomic|Previous atomic)", line.strip()) and " at 0x" in line:
                    cur = []
                    stacks.append(cur)
                    continue
                if line.startswith("Goroutine ") or line.strip() == "":
                    if line.startswith("Goroutine "):
                        cur = None
                    continue
                if cur is not None:
                    m = re.match(r"^\s{2}(\S+?)\(.*$", line)
                    if m and not line.strip().startswith("/"):
                        cur.append(m.group(1))
            reports.append({"stacks": stacks[:2], "text": b.strip()[:6000]})
    return reports


def strip_generic(fn):
    return re.sub(r"\[.*?\]", "", fn)


def pkg_of(fn):
    fn = strip_generic(fn)
    i = fn.rfind("/")
    j = fn.find(".", i + 1)
    return fn if j < 0 else fn[:j]


def is_std(fn):
    pkg = pkg_of(fn)
    first = pkg.split("/")[0]
    return "." not in first and first != "verifharness"


def innermost_relevant(stack):
    """First frame that is not Go runtime / standard library."""
    for f in stack:
        if not is_std(f):
            return strip_generic(f)
    return stack[0] if stack else "?"


def first_charon_frame(stack):
    for f in stack:
        f = strip_generic(f)
        if f.startswith(CHARON):
            return f
    return None


def classify_race(rep, race_pkgs, any_side):
    """A report counts for the property iff the innermost non-runtime frames (or, for values that
    crossed a boundary, the first charon frame) of both accesses (either, if any_side) lie in the
    anchored packages, excluding logging / metrics / test utilities."""
    def in_pkgs(fn):
        if not fn or not fn.startswith(CHARON):
            return False
        rel = fn[len(CHARON):]
        if rel.startswith("app/log") or rel.startswith("app/z") or rel.startswith("testutil") or rel.startswith("app/promauto"):
            return False
        return any(rel.startswith(p + ".") or rel.startswith(p + "/") for p in race_pkgs)
    sides = []
    for st in rep["stacks"]:
        inner = innermost_relevant(st)
        ch = first_charon_frame(st)
        sides.append(in_pkgs(inner) or (in_pkgs(ch) and not inner.startswith("verifharness")))
    if len(sides) < 2:
        return False
    return any(sides) if any_side else all(sides)


def race_sig(rep):
    fs = []
    for st in rep["stacks"]:
        f = first_charon_frame(st) or innermost_relevant(st)
        f = strip_generic(f).replace(CHARON, "")
        f = re.sub(r"\.func\d+(\.\d+)*", "", f)
        fs.append(f)
    return "race/" + "|".join(sorted(fs))


def load_known():
    p = os.path.join(VERIF, "known_findings.json")
    if not os.path.exists(p):
        return {"findings": [], "fixed": []}
    return json.load(open(p))


def write_evidence(pid, tier, seed, res, wall, viol_count, extra_cov, evdir):
    cov = {
        "evaluations": int(res.get("evaluations", 0)),
        "distinct_nontrivial": int(res.get("distinct_nontrivial", 0)),
        "rule": res.get("rule", ""),
        "samples": res.get("samples") or [],
        "exhaustive": bool(res.get("exhaustive", False)),
        "observed": res.get("counters", {}),
        "observed_sets": res.get("sets", {}),
    }
    for k, v in (res.get("extra") or {}).items():
        cov[k] = v
    cov.update(extra_cov)
    ev = {
        "property_id": pid, "tier": tier, "seed": int(seed), "level": LEVEL, "coverage": cov,
        "assumptions": res.get("assumptions") or [], "wall_s": round(wall, 2), "violations": viol_count,
    }
    os.makedirs(evdir, exist_ok=True)
    tmp = os.path.join(evdir, pid + ".json.tmp")
    with open(tmp, "w") as f:
        json.dump(ev, f, indent=1, default=str)
        f.write("\n")
    os.replace(tmp, os.path.join(evdir, pid + ".json"))


def run_check(pid, tier, replay=None):
    t0 = time.time()
    seed = os.environ.get("VERIF_SEED", "1")
    try:
        int(seed)
    except ValueError:
        seed = "1"
    repo = os.environ.get("VERIF_REPO", "/repo")
    alt = os.path.realpath(repo) != "/repo"
    evdir = os.path.join(VERIF, "evidence-alt" if alt else "evidence")
    case = None
    if replay:
        doc = json.load(open(replay))
        seed = str(doc.get("seed", seed))
        tier = doc.get("tier", "quick")
        case = doc.get("case")
        evdir = os.path.join(VERIF, "evidence-replay")
    if not os.path.isdir(os.path.join(HARNESS, pid.lower())):
        print("INCONCLUSIVE property=%s no harness package" % pid, file=sys.stderr)
        return 2

    fp_scratch, fp_armed, fp_terms, fp_lock = arm_failpoints(pid, repo)
    try:
        return _run_check(pid, tier, replay, t0, seed, repo, alt, evdir, case, fp_scratch, fp_armed, fp_terms)
    finally:
        if fp_scratch:
            margs, suffix = modfile_args(fp_scratch)
            for a in margs:
                altmod = a.split("=", 1)[1]
                for fn in (altmod, altmod[:-4] + ".sum", os.path.join(VERIF, "bin", "%s%s.test" % (pid.lower(), suffix))):
                    try:
                        os.remove(fn)
                    except OSError:
                        pass
            import fcntl
            fcntl.flock(fp_lock, fcntl.LOCK_UN)
            fp_lock.close()


def _run_check(pid, tier, replay, t0, seed, repo, alt, evdir, case, fp_scratch, fp_armed, fp_terms):
    rc, out, binpath, bsecs = build(pid, fp_scratch or repo)
    if rc != 0:
        sys.stderr.write(out[-6000:])
        print("INCONCLUSIVE property=%s build failed" % pid, file=sys.stderr)
        return 2

    rundir = os.path.join(VERIF, "run", "%s-%s-%s-%d" % (pid, tier, seed, os.getpid()))
    shutil.rmtree(rundir, ignore_errors=True)
    os.makedirs(rundir)
    replaydir = os.path.join(VERIF, "replay-alt" if alt else "replay")
    os.makedirs(replaydir, exist_ok=True)
    env = go_env()
    env.update({
        "VERIF_SEED": seed, "VERIF_TIER": tier, "VERIF_OUT": rundir, "VERIF_REPLAY": replaydir,
        "VERIF_DIR": VERIF, "VERIF_REPO_DIR": os.path.realpath(repo),
        "GORACE": "halt_on_error=0 log_path=%s/race history_size=5" % rundir,
    })
    if fp_armed:
        env["GOFAIL_FAILPOINTS"] = fp_terms
        env["VERIF_FAILPOINTS"] = fp_terms
    if case is not None:
        env["VERIF_CASE"] = str(case)
    else:
        env.pop("VERIF_CASE", None)
    wd = int(os.environ.get("VERIF_WATCHDOG_S") or WATCHDOG[tier])  # override only for testing the driver itself
    cmd = ["timeout", "-s", "QUIT", "-k", "30", str(wd), binpath, "-test.run", "^TestCheck$", "-test.timeout", "0", "-test.v"]
    with open(os.path.join(rundir, "child.out"), "w") as fo:
        p = subprocess.run(cmd, cwd=os.path.join(HARNESS, pid.lower()), env=env, stdout=fo, stderr=subprocess.STDOUT)
    child_rc = p.returncode

    known = load_known()
    known_sigs = {}
    for f in known.get("findings", []):
        if f.get("property") == pid:
            known_sigs[f["sig"]] = f.get("what", "")

    resfile = os.path.join(rundir, "result.json")
    violations = []   # (sig, what, replay)
    inconclusive = []
    res = {}
    if os.path.exists(resfile):
        res = json.load(open(resfile))
        for v in res.get("violations") or []:
            violations.append((v["sig"], "%s (x%d)" % (v["what"], v["count"]), v.get("replay") or resfile))
        inconclusive += res.get("inconclusive") or []
    else:
        # The child died before writing its verdict: crash, fatal error or watchdog.
        tail = open(os.path.join(rundir, "child.out"), errors="replace").read()
        started, ended = set(), set()
        cl = os.path.join(rundir, "cases.log")
        if os.path.exists(cl):
            for line in open(cl):
                parts = line.split()
                if len(parts) == 2:
                    (started if parts[0] == "start" else ended).add(parts[1])
        open_cases = sorted(started - ended, key=lambda s: int(s))[:16]
        # violations journalled before the child stopped are refuted oracles all the same
        vj = os.path.join(rundir, "violations.jsonl")
        if os.path.exists(vj):
            seen = {}
            for line in open(vj, errors="replace"):
                try:
                    v = json.loads(line)
                except ValueError:
                    continue
                ent = seen.setdefault(v["sig"], [v["what"], v.get("replay") or vj, 0])
                ent[2] += 1
            for sig, (what, replay, n) in sorted(seen.items()):
                violations.append((sig, "%s (x>=%d, run did not finish)" % (what, n), replay))
        if child_rc in (124, 137) or (child_rc == 2 and "SIGQUIT" in tail[:20000] and "panic:" not in tail):
            inconclusive.append("watchdog (%ds) fired; open cases %s" % (wd, open_cases))
        else:
            m = re.search(r"^(panic: .*|fatal error: .*)$", tail, re.M)
            first = m.group(1) if m else "child exited %d without result" % child_rc
            site = ""
            for fm in re.finditer(r"^(github\.com/obolnetwork/charon/\S+?)\(", tail[m.start():] if m else "", re.M):
                site = re.sub(r"\.func\d+(\.\d+)*", "", fm.group(1).replace(CHARON, ""))
                break
            sig = "crash/" + (site or re.sub(r"0x[0-9a-f]+|\d+", "N", first)[:80])
            wpath = os.path.join(replaydir, "%s-crash-%s-%d.txt" % (pid, seed, os.getpid()))
            with open(wpath, "w") as f:
                f.write("open cases: %s\n\n" % open_cases)
                f.write(tail[-40000:])
            violations.append((sig, "process crashed: %s; open cases %s" % (first[:200], open_cases), wpath))

    # race-detector reports
    race_pkgs = res.get("race_pkgs") or []
    reports = parse_race_logs(rundir)
    race_counted, race_side = {}, {}
    harness_inner = []
    for rep in reports:
        sig = race_sig(rep)
        if len(rep["stacks"]) >= 2 and all(innermost_relevant(st).startswith("verifharness") for st in rep["stacks"]):
            harness_inner.append(sig)
        if race_pkgs and classify_race(rep, race_pkgs, res.get("race_any_side", False)):
            if sig not in race_counted:
                wpath = os.path.join(replaydir, "%s-%s-%s.txt" % (pid, re.sub(r"[^A-Za-z0-9_.-]+", "_", sig)[:100], seed))
                with open(wpath, "w") as f:
                    f.write(rep["text"])
                race_counted[sig] = [0, wpath]
            race_counted[sig][0] += 1
        else:
            race_side[sig] = race_side.get(sig, 0) + 1
    for sig, (n, wpath) in sorted(race_counted.items()):
        violations.append((sig, "data race reported by the Go race detector (x%d)" % n, wpath))

    harness_races = sorted(set(harness_inner) | {sig for sig in race_side
                     if all(part.startswith("verifharness") for part in sig[len("race/"):].split("|"))})
    if harness_races:
        inconclusive.append("data race inside the harness itself (fix the harness): %s" % harness_races[:3])
    if child_rc != 0 and os.path.exists(resfile) and not violations and not inconclusive:
        tail = open(os.path.join(rundir, "child.out"), errors="replace").read()
        only_race = "race detected during execution of test" in tail and not re.search(r"^\s+\S+\.go:\d+: (?!race detected)", tail, re.M)
        if not (only_race and reports):
            # the Go test framework itself failed (t.Fatal in harness) — not a verdict about charon
            inconclusive.append("child exit %d with a result file but no verdict: %s" % (child_rc, tail[-600:]))

    real = [(s, w, r) for (s, w, r) in violations if s not in known_sigs]
    wall = time.time() - t0
    extra_cov = {
        "race_reports_total": len(reports),
        "race_reports_counted": {k: v[0] for k, v in race_counted.items()},
        "race_reports_side_observations": race_side,
        "known_findings_observed": sorted({s for (s, _, _) in violations if s in known_sigs}),
        "build_s": round(bsecs, 1),
        "inconclusive": inconclusive,
    }
    if res and not replay:
        write_evidence(pid, tier, seed, res, wall, len(real), extra_cov, evdir)
    elif not replay:
        # crashed child: still leave an evidence file describing what happened (will not validate
        # as coverage — a crashed run has none).
        write_evidence(pid, tier, seed, {"evaluations": 0, "distinct_nontrivial": 0, "rule": "child crashed",
                                          "samples": [v[1] for v in violations][:3]}, wall, len(real), extra_cov, evdir)

    observed = {}
    for (s, w, r) in violations:
        if s in known_sigs:
            observed[s] = w
    if not replay:
        for s in sorted(known_sigs):
            state = "observed in this run: %s" % observed[s] if s in observed else "not observed in this run"
            print("KNOWN-FINDING: property=%s %s — %s [%s]" % (pid, s, known_sigs[s], state))
    for (s, w, r) in real:
        print("VIOLATION property=%s replay=%s sig=%s what=%s" % (pid, r, s, w))
    if real:
        if not os.environ.get("VERIF_KEEP_RUN"):
            pass  # keep run dir for inspection on violation
        return 1
    if inconclusive:
        for s in inconclusive:
            print("INCONCLUSIVE property=%s %s" % (pid, s), file=sys.stderr)
        return 2
    print("HELD property=%s tier=%s seed=%s evaluations=%s distinct_nontrivial=%s race_reports=%d wall=%.1fs" % (
        pid, tier, seed, res.get("evaluations"), res.get("distinct_nontrivial"), len(reports), wall))
    if not os.environ.get("VERIF_KEEP_RUN"):
        shutil.rmtree(rundir, ignore_errors=True)
    return 0


def setup():
    rc_all = 0
    claimed = None
    try:
        man = json.load(open(os.path.join(VERIF, "MANIFEST.json")))
        claimed = {c["property_id"] for c in man.get("checks", [])}
    except Exception:
        pass
    gofail = os.path.join(VERIF, "bin", "gofail")
    os.makedirs(os.path.dirname(gofail), exist_ok=True)
    p = subprocess.run(["go1.26.8", "build", "-o", gofail, "go.etcd.io/gofail"], cwd=HARNESS, env=go_env(),
                       stdout=subprocess.PIPE, stderr=subprocess.STDOUT, text=True)
    print("setup gofail build rc=%d" % p.returncode)   # failure is not fatal: checks then run without failpoints
    for pid in props():
        if claimed is not None and pid not in claimed:
            continue
        rc, out, _, secs = build(pid, "/repo")
        print("setup %s build rc=%d %.1fs" % (pid, rc, secs))
        if rc != 0:
            sys.stderr.write(out[-3000:])
            rc_all = 1
    return rc_all


def main(argv):
    if len(argv) >= 2 and argv[1] == "--setup":
        return setup()
    if len(argv) < 2:
        print(__doc__)
        return 2
    pid = argv[1].upper()
    if len(argv) >= 4 and argv[2] == "--replay":
        return run_check(pid, "quick", replay=argv[3])
    tier = argv[2] if len(argv) >= 3 else os.environ.get("VERIF_TIER", "quick")
    if tier not in ("quick", "thorough"):
        tier = "quick"
    return run_check(pid, tier)


if __name__ == "__main__":
    signal.signal(signal.SIGPIPE, signal.SIG_DFL)
    sys.exit(main(sys.argv))
