#!/usr/bin/env python3
"""Usage: tools/seeded_regress.py [-j N] [name ...]
Runs every independently written breaking change in /verif/seeded/ (or the named ones) against the
check(s) recorded for it in seeded/expect.json (scratch copy of /repo + patch, VERIF_REPO; see
tools/seeded_run.sh) and reports which are (still) caught. Exit 1 if an expected catch is missed.
This is a regression test of the monitors themselves, not a registered check."""
import json, subprocess, sys, concurrent.futures as cf
args = sys.argv[1:]
j = 3
if args[:1] == ['-j']:
    j = int(args[1]); args = args[2:]
exp = json.load(open('/verif/seeded/expect.json'))
names = args or sorted(k for k in exp if not k.startswith('_'))
def run(name, chk):
    p = subprocess.run(['tools/seeded_run.sh', name, chk, 'quick'], cwd='/verif', capture_output=True, text=True, errors='replace')
    out = p.stdout + p.stderr
    sigs = sorted({l.split(' sig=')[1].split(' what=')[0] for l in out.splitlines() if l.startswith('VIOLATION') and ' sig=' in l})
    verdict = 'caught' if sigs else ('INCONCLUSIVE' if 'INCONCLUSIVE' in out else ('HELD' if 'HELD property' in out else 'ERROR'))
    return name, chk, verdict, sigs, out[-400:] if verdict == 'ERROR' else ''
jobs = [(n, c) for n in names for c in exp[n]['caught_by']]
bad = 0
res = {}
with cf.ThreadPoolExecutor(j) as ex:
    for name, chk, verdict, sigs, tail in ex.map(lambda a: run(*a), jobs):
        print(f'{name:8s} vs {chk}: {verdict} {"; ".join(sigs)[:200]} {tail}', flush=True)
        res[f'{name}/{chk}'] = {'verdict': verdict, 'signatures': sigs}
        if verdict != 'caught':
            bad += 1
json.dump(res, open('/verif/seeded/regress_last.json', 'w'), indent=1)
print(f'{len(jobs)-bad}/{len(jobs)} expected catches confirmed')
sys.exit(1 if bad else 0)
