#!/usr/bin/env python3
"""Usage: tools/gen_seed_prompt.py <ID> <round>  -> writes seeded/_prompts/<ID>-r<round>.txt
Builds the prompt for an independent seeding sub-agent: the round-1 prompt (property text only,
nothing from /verif's machinery) + short descriptions of the previous rounds' changes so that the
new one uses a different mechanism."""
import json, os, sys
pid, rnd = sys.argv[1], int(sys.argv[2])
base = open(f'/verif/seeded/_prompts/{pid}.txt').read()
wt = f'/tmp/seed{rnd}-{pid}'
base = base.replace(f'/tmp/seed-{pid}', wt)
prev = []
for name in [pid] + [f'{pid}-r{k}' for k in range(2, rnd)]:
    mp = f'/verif/seeded/{name}/meta.json'
    if os.path.exists(mp):
        m = json.load(open(mp))
        prev.append((m.get('summary', '')[:900], m.get('needs_to_manifest', '')[:450]))
extra = ["", "IMPORTANT — previous engineers already produced the following changes for this property; do NOT repeat them or close variants. Find a DIFFERENT mechanism: a different function or file among the code involved (or code it calls, or code that calls it), a different clause of the property statement, and a different kind of trigger (concurrency / crash or error at a particular point / multi-step history / unusual configuration, format version or feature flag / resource limit / boundary value)."]
for i, (s, n) in enumerate(prev, 1):
    extra.append(f"  Previous change {i}: {s}")
    extra.append(f"    It needed: {n}")
extra.append("Also note for running Go here: `go` cannot switch toolchains when GOSUMDB=off is set; use `export GOFLAGS=-mod=mod GOPROXY=off GOSUMDB=off GOTOOLCHAIN=local` and call `go1.26.8` instead of `go` (it is on PATH).")
extra.append("")
marker = "Deliverables, all written into"
i = base.index(marker)
out = base[:i] + "\n".join(extra) + "\n" + base[i:]
open(f'/verif/seeded/_prompts/{pid}-r{rnd}.txt', 'w').write(out)
print(len(out))
