#!/bin/bash
# Usage: tools/seeded_run.sh <seeded-dir-name> <CHECK-ID> [quick|thorough]
# Applies /verif/seeded/<name>/patch.diff to a scratch copy of /repo's working tree, runs the
# check against it (VERIF_REPO), prints the verdict lines and removes the scratch copy.
# (Equivalent to `git -C /repo apply` + check + `git -C /repo checkout -- .`, without disturbing
# other work that builds from /repo at the same time.)
set -u
name=$1; id=$2; tier=${3:-quick}
scratch=/var/tmp/verif-seeded-$name-$$
rsync -a --exclude .git /repo/ $scratch/ || exit 2
(cd $scratch && patch -p1 --quiet < /verif/seeded/$name/patch.diff) || { echo "PATCH FAILED"; rm -rf $scratch; exit 2; }
(cd $scratch && GOFLAGS=-mod=mod GOPROXY=off GOSUMDB=off GOTOOLCHAIN=local go1.26.8 build ./... ) || { echo "BUILD FAILED"; rm -rf $scratch; exit 2; }
cd /verif && VERIF_REPO=$scratch ./check $id $tier | cut -c1-400
rc=${PIPESTATUS[0]}
tag=$(python3 -c "import hashlib,os,sys; print(hashlib.sha1(os.path.realpath(sys.argv[1]).encode()).hexdigest()[:10])" $scratch)
rm -rf $scratch /verif/bin/*-$tag.test /verif/harness/.alt-$tag.mod /verif/harness/.alt-$tag.sum /var/tmp/verif-fp-*-$tag /var/tmp/verif-fp-*-$tag.lock
exit $rc
