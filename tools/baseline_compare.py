#!/usr/bin/env python3
"""Runs the repository's baseline suite with the verif guard OFF and compares with /root/.vp/BASELINE.json."""
import json, subprocess, sys, os
b = json.load(open('/root/.vp/BASELINE.json'))
stable = set(b['stable_pass'])
out = '/var/tmp/verif-baseline.json'
with open(out, 'w') as f:
    subprocess.run('cd /repo && GOFLAGS=-mod=mod GOPROXY=off GOSUMDB=off GOTOOLCHAIN=local go1.26.8 test -mod=mod -json -vet=off -count=1 -timeout 25m ./...', shell=True, stdout=f, stderr=subprocess.DEVNULL)
res = {}
for line in open(out, errors='replace'):
    try:
        e = json.loads(line)
    except Exception:
        continue
    if e.get('Test') and e.get('Action') in ('pass', 'fail', 'skip'):
        res[e['Package'] + '::' + e['Test']] = e['Action']
missing = sorted(t for t in stable if res.get(t) != 'pass')
print('stable tests: %d, passing now: %d, not passing: %d' % (len(stable), len(stable) - len(missing), len(missing)))
for t in missing[:60]:
    print('  NOT PASS', t, res.get(t))
os.remove(out)
sys.exit(1 if missing else 0)
