#!/usr/bin/env python3
"""Usage: tools/seed_record.py <name> [strengthened-text]  - folds seeded/<name>/first_run.txt and last_run.txt
into seeded/results.json and seeded/expect.json (status per check: caught / MISSED / INCONCLUSIVE)."""
import json, os, re, sys
name = sys.argv[1]; note = sys.argv[2] if len(sys.argv) > 2 else None
d = f'/verif/seeded/{name}'
def parse(p):
    if not os.path.exists(p): return None
    out = {}; cur = None
    for l in open(p):
        m = re.match(r'## (C\d+) ', l)
        if m: cur = m.group(1); out[cur] = {'status': 'MISSED', 'sigs': []}; continue
        if cur is None: continue
        if l.startswith('VIOLATION'):
            out[cur]['status'] = 'caught'
            s = re.search(r'sig=(\S+)', l)
            if s and s.group(1) not in out[cur]['sigs']: out[cur]['sigs'].append(s.group(1))
        elif l.startswith('INCONCLUSIVE') and out[cur]['status'] != 'caught': out[cur]['status'] = 'INCONCLUSIVE'
        elif l.startswith(('PATCH FAILED', 'BUILD FAILED')): out[cur]['status'] = l.strip()
    return out
def txt(o):
    return '; '.join(f"{c}: {v['status']}" + (f" ({', '.join(v['sigs'][:3])})" if v['sigs'] else '') for c, v in o.items())
first, last = parse(f'{d}/first_run.txt'), parse(f'{d}/last_run.txt')
r = json.load(open('/verif/seeded/results.json')); e = json.load(open('/verif/seeded/expect.json'))
ent = r.get(name, {})
ent['check'] = ' / '.join(first.keys())
ent['first_run'] = txt(first)
if last: ent['after'] = txt(last)
if note: ent['strengthened'] = note
r[name] = ent
final = last or first
e[name] = {'caught_by': [c for c, v in final.items() if v['status'] == 'caught']}
json.dump(r, open('/verif/seeded/results.json', 'w'), indent=1); json.dump(e, open('/verif/seeded/expect.json', 'w'), indent=1)
print(name, ent)
